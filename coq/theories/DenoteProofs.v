(* DenoteProofs.v - C04: the decoder model accepts exactly what the specification of Denote.v
   accepts, returns the value the specification assigns, and consumes the byte count it assigns.
   No condition on the schema is needed.

   Technique (soundness): the decoder's position is described by its *logical* input - the peeked
   tag, if any, put back in front of the unread bytes.  A wire tag 000000 that is peeked is lost
   (the decoder uses 0 for "nothing peeked"); [d] counts such losses.  Bytes read = bytes accounted
   in [actual] + 3 * d, the limit reader holds exactly the declared length, and the structure is
   accepted only if actual = declared length: so d = 0 on every accepting run. *)
From Coq Require Import String.
From Coq Require Import List NArith ZArith Bool Lia Strings.Byte ZifyN ZifyNat ZifyBool.
Require Import Bytes BytesProofs Schema Codec TTLV CodecProofs CodecRT Denote.
Import ListNotations.
Open Scope N_scope.

Arguments N.add : simpl never.
Arguments N.mul : simpl never.
Arguments N.pow : simpl never.
Arguments N.modulo : simpl never.
Arguments N.div : simpl never.
Arguments N.sub : simpl never.
Arguments N.min : simpl never.
Arguments firstn : simpl never.
Arguments skipn : simpl never.

(* ------------------------------------------------------------------ *)
(* items                                                               *)
(* ------------------------------------------------------------------ *)
Definition item_wf (it : item) : Prop :=
  i_tag it < 2 ^ 24 /\ i_typ it < 256 /\ i_len it < 2 ^ 32 /\
  blen (i_val it) = i_len it /\ blen (i_pad it) = pad8 (i_len it).

Definition flat_raw (its : list item) : bytes := concat (map raw its).

Lemma flat_raw_cons it its : flat_raw (it :: its) = raw it ++ flat_raw its.
Proof. reflexivity. Qed.

Lemma flat_raw_app a b : flat_raw (a ++ b) = flat_raw a ++ flat_raw b.
Proof. unfold flat_raw. rewrite map_app, concat_app. reflexivity. Qed.

Lemma raw_blen it : item_wf it -> blen (raw it) = i_size it.
Proof.
  intros (_ & _ & _ & Hv & Hp). unfold raw, i_size, padded. rewrite !blen_app, header_blen, Hv, Hp. lia.
Qed.

Lemma i_size_ge it : 8 <= i_size it.
Proof. unfold i_size. lia. Qed.

Lemma i_size_mod8 it : i_size it mod 8 = 0.
Proof. unfold i_size. apply add_mod8; [reflexivity|apply padded_mod8]. Qed.

Lemma flat_raw_mod8 its : Forall item_wf its -> blen (flat_raw its) mod 8 = 0.
Proof.
  induction 1 as [|it its Hw _ IH]; [reflexivity|].
  rewrite flat_raw_cons, blen_app, raw_blen by assumption. apply add_mod8; [apply i_size_mod8|exact IH].
Qed.

Lemma flat_raw_nil its : Forall item_wf its -> flat_raw its = [] -> its = [].
Proof.
  intros Hw H. destruct its as [|it its]; [reflexivity|]. exfalso.
  inversion Hw as [|? ? Hw1 _]; subst.
  apply (f_equal blen) in H. rewrite flat_raw_cons, blen_app, raw_blen in H by assumption.
  pose proof (i_size_ge it). cbn in H. lia.
Qed.

Lemma flat_raw_len its : Forall item_wf its -> (8 * length its <= length (flat_raw its))%nat.
Proof.
  induction 1 as [|it its Hw _ IH]; [cbn; lia|].
  rewrite flat_raw_cons, app_length. cbn [length].
  pose proof (raw_blen it Hw). pose proof (i_size_ge it). unfold blen in *. lia.
Qed.

Lemma skipn_skipn {A} (x y : nat) (l : list A) : skipn x (skipn y l) = skipn (x + y) l.
Proof.
  revert l. induction y as [|y IH]; intros l.
  - rewrite Nat.add_0_r. reflexivity.
  - destruct l as [|a l]; [rewrite !skipn_nil; reflexivity|].
    rewrite Nat.add_succ_r. change (skipn (S y) (a :: l)) with (skipn y l).
    change (skipn (S (x + y)) (a :: l)) with (skipn (x + y) l). apply IH.
Qed.

(* splitting a list at a length taken from the wire *)
Lemma split_at (n : nat) (l : bytes) : (n <= length l)%nat -> l = firstn n l ++ skipn n l /\ length (firstn n l) = n.
Proof. intros H. rewrite firstn_skipn, firstn_length. split; [reflexivity|lia]. Qed.

Lemma unbe_firstn_be k (l : bytes) : (k <= length l)%nat -> be k (unbe (firstn k l) 0) = firstn k l.
Proof.
  intros H. pose proof (be_unbe (firstn k l) 0) as E. rewrite firstn_length in E.
  replace (Nat.min k (length l)) with k in E by lia. exact E.
Qed.

Lemma unbe_firstn_bound k (l : bytes) : unbe (firstn k l) 0 < 256 ^ N.of_nat k.
Proof.
  pose proof (unbe0_bound (firstn k l)) as B. rewrite firstn_length in B.
  eapply N.lt_le_trans; [exact B|]. apply N.pow_le_mono_r; lia.
Qed.

Lemma head_item_inv bs it tl : head_item bs = Some (it, tl) -> item_wf it /\ bs = raw it ++ tl.
Proof.
  unfold head_item. destruct (N.ltb_spec (blen bs) 8) as [|H8]; [discriminate|].
  set (len := unbe (firstn 4 (skipn 4 bs)) 0).
  destruct (N.ltb_spec (blen bs) (8 + padded len)) as [|Hp]; [discriminate|].
  intros H; injection H as <- <-. unfold blen in *.
  assert (Hlen: len < 2 ^ 32) by (pose proof (unbe_firstn_bound 4 (skipn 4 bs)); cbn in *; lia).
  pose proof (pad8_lt len) as Hpl. unfold padded in Hp.
  split.
  - unfold item_wf, blen; cbn [i_tag i_typ i_len i_val i_pad].
    pose proof (unbe_firstn_bound 3 bs). pose proof (unbe_firstn_bound 1 (skipn 3 bs)).
    rewrite !firstn_length, !skipn_length. repeat split; cbn in *; lia.
  - unfold raw, header; cbn [i_tag i_typ i_len i_val i_pad]. fold len.
    rewrite unbe_firstn_be by lia. rewrite unbe_firstn_be by (rewrite skipn_length; lia).
    unfold len. rewrite unbe_firstn_be by (rewrite skipn_length; lia). fold len.
    rewrite <- !app_assoc.
    rewrite <- (firstn_skipn 3 bs) at 1. f_equal.
    rewrite <- (firstn_skipn 1 (skipn 3 bs)) at 1. f_equal. rewrite skipn_skipn. cbn [plus].
    rewrite <- (firstn_skipn 4 (skipn 4 bs)) at 1. f_equal. rewrite skipn_skipn. cbn [plus].
    rewrite <- (firstn_skipn (N.to_nat len) (skipn 8 bs)) at 1. f_equal. rewrite skipn_skipn.
    rewrite <- (firstn_skipn (N.to_nat (pad8 len)) (skipn (N.to_nat len + 8) bs)) at 1.
    rewrite skipn_skipn. f_equal; [f_equal; f_equal; lia|f_equal; unfold padded; lia].
Qed.

Lemma header_split tag typ len tl :
  tag < 2 ^ 24 -> typ < 256 -> len < 2 ^ 32 ->
  let bs := header tag typ len ++ tl in
  unbe (firstn 3 bs) 0 = tag /\ unbe (firstn 1 (skipn 3 bs)) 0 = typ /\
  unbe (firstn 4 (skipn 4 bs)) 0 = len /\ skipn 8 bs = tl.
Proof.
  intros Ht Hy Hl bs. unfold bs, header. rewrite <- !app_assoc.
  pose proof (firstn_app_exact (be 3 tag) (be 1 typ ++ be 4 len ++ tl)) as F1. rewrite be_length in F1.
  pose proof (skipn_app_exact (be 3 tag) (be 1 typ ++ be 4 len ++ tl)) as S1. rewrite be_length in S1.
  pose proof (firstn_app_exact (be 1 typ) (be 4 len ++ tl)) as F2. rewrite be_length in F2.
  pose proof (skipn_app_exact (be 1 typ) (be 4 len ++ tl)) as S2. rewrite be_length in S2.
  pose proof (firstn_app_exact (be 4 len) tl) as F3. rewrite be_length in F3.
  pose proof (skipn_app_exact (be 4 len) tl) as S3. rewrite be_length in S3.
  set (X := be 3 tag ++ be 1 typ ++ be 4 len ++ tl) in *.
  assert (S4: skipn 4 X = skipn 1 (skipn 3 X)) by (rewrite skipn_skipn; reflexivity).
  assert (S8': skipn 8 X = skipn 4 (skipn 1 (skipn 3 X))) by (rewrite !skipn_skipn; reflexivity).
  rewrite S4, S8', F1, S1, F2, S2, F3, S3.
  rewrite !unbe_be0 by (cbn; lia). auto.
Qed.

Lemma head_item_raw it tl : item_wf it -> head_item (raw it ++ tl) = Some (it, tl).
Proof.
  intros (Ht & Hy & Hl & Hv & Hp). unfold head_item, raw. rewrite <- !app_assoc.
  destruct (header_split (i_tag it) (i_typ it) (i_len it) (i_val it ++ i_pad it ++ tl) Ht Hy Hl) as (E1 & E2 & E3 & E4).
  cbv zeta in E1, E2, E3, E4. rewrite E1, E2, E3, E4.
  rewrite !blen_app, header_blen, Hv, Hp.
  destruct (N.ltb_spec (8 + (i_len it + (pad8 (i_len it) + blen tl))) 8); [lia|].
  destruct (N.ltb_spec (8 + (i_len it + (pad8 (i_len it) + blen tl))) (8 + padded (i_len it))) as [Hc|_]; [unfold padded in Hc; lia|].
  f_equal. f_equal.
  - destruct it as [t y l v p]; cbn [i_tag i_typ i_len i_val i_pad] in *. f_equal.
    + replace (N.to_nat l) with (length v) by (unfold blen in Hv; lia). apply firstn_app_exact.
    + replace (8 + N.to_nat l)%nat with (N.to_nat l + 8)%nat by lia. rewrite <- skipn_skipn.
      rewrite !app_assoc. rewrite <- (app_assoc (header t y l)). 
      pose proof (skipn_app_exact (header t y l) ((v ++ p) ++ tl)) as S8.
      assert (L8: length (header t y l) = 8%nat) by (pose proof (header_blen t y l); unfold blen in *; lia).
      rewrite L8 in S8. rewrite <- !app_assoc in *. rewrite S8.
      replace (N.to_nat l) with (length v) by (unfold blen in Hv; lia). rewrite skipn_app_exact.
      replace (N.to_nat (pad8 l)) with (length p) by (unfold blen in Hp; lia). apply firstn_app_exact.
  - unfold padded.
    replace (N.to_nat (8 + (i_len it + pad8 (i_len it)))) with (length (header (i_tag it) (i_typ it) (i_len it) ++ i_val it ++ i_pad it)).
    + rewrite !app_assoc. rewrite <- (app_assoc _ (i_val it)). apply skipn_app_exact.
    + rewrite !app_length. pose proof (header_blen (i_tag it) (i_typ it) (i_len it)). unfold blen in *. lia.
Qed.

Lemma parse_items_raw its : Forall item_wf its ->
  forall fuel, (length (flat_raw its) < fuel)%nat -> parse_items fuel (flat_raw its) = Some its.
Proof.
  induction 1 as [|it its Hw Hws IH]; intros fuel Hf.
  - destruct fuel; [lia|]. reflexivity.
  - destruct fuel as [|f]; [lia|]. cbn [parse_items]. rewrite flat_raw_cons.
    destruct (raw it ++ flat_raw its) eqn:E.
    + exfalso. apply (f_equal blen) in E. rewrite blen_app, raw_blen in E by assumption.
      pose proof (i_size_ge it). cbn in E. lia.
    + rewrite <- E. rewrite head_item_raw by assumption.
      rewrite IH; [reflexivity|].
      rewrite flat_raw_cons, app_length in Hf. pose proof (raw_blen it Hw). pose proof (i_size_ge it).
      unfold blen in *. lia.
Qed.

Lemma split_items_raw its : Forall item_wf its -> split_items (flat_raw its) = Some its.
Proof. intros H. apply parse_items_raw; [assumption|lia]. Qed.

Lemma parse_items_inv fuel : forall bs its, parse_items fuel bs = Some its -> Forall item_wf its /\ bs = flat_raw its.
Proof.
  induction fuel as [|f IH]; intros bs its H; [discriminate|].
  cbn [parse_items] in H. destruct bs as [|b bs'] eqn:Eb.
  - injection H as <-. split; [constructor|reflexivity].
  - rewrite <- Eb in *. clear Eb.
    destruct (head_item bs) as [[it tl]|] eqn:Eh; [|discriminate].
    destruct (parse_items f tl) as [r|] eqn:Er; [|discriminate]. injection H as <-.
    apply head_item_inv in Eh. destruct Eh as [Hw ->]. apply IH in Er. destruct Er as [Hr ->].
    split; [constructor; assumption|reflexivity].
Qed.

Lemma split_items_inv bs its : split_items bs = Some its -> Forall item_wf its /\ bs = flat_raw its.
Proof. apply parse_items_inv. Qed.

Lemma split_items_exact bs its : split_items bs = Some its <-> Forall item_wf its /\ bs = flat_raw its.
Proof. split; [apply split_items_inv|]. intros [H ->]. exact (split_items_raw its H). Qed.

(* ------------------------------------------------------------------ *)
(* what a successful read says about the input                         *)
(* ------------------------------------------------------------------ *)
Definition logical (s : dstate) : bytes := (if last s =? 0 then [] else be 3 (last s)) ++ rest s.
Definition lastok (s : dstate) : Prop := last s < 2 ^ 24.

Lemma logical_fresh r : logical {| rest := r; last := 0 |} = r.
Proof. reflexivity. Qed.

Lemma read_n_inv n s b s' : read_n n s = Ok (b, s') -> rest s = b ++ rest s' /\ length b = n /\ last s' = last s.
Proof.
  intros H. apply read_n_ok in H. destruct H as (Hl & Hla & -> & ->).
  rewrite firstn_skipn, firstn_length. repeat split; [lia|assumption].
Qed.

Lemma read_nN_inv n s b s' : read_nN n s = Ok (b, s') -> rest s = b ++ rest s' /\ blen b = n /\ last s' = last s.
Proof.
  unfold read_nN. destruct (N.leb_spec n (blen (rest s))) as [Hle|Hgt].
  - intros Hr. apply read_n_inv in Hr. destruct Hr as (H1 & H2 & H3). unfold blen. repeat split; [assumption|lia|assumption].
  - destruct (rest s); discriminate.
Qed.

Lemma read_num_inv k s v s' : read_num k s = Ok (v, s') ->
  rest s = be k v ++ rest s' /\ last s' = last s /\ v < 256 ^ N.of_nat k.
Proof.
  unfold read_num. intros H. binv H. destruct x as [b s0]. injection Hk as <- <-.
  apply read_n_inv in Hb. destruct Hb as (E & L & La). subst k.
  rewrite be_unbe. repeat split; [assumption|assumption|apply unbe0_bound].
Qed.

Lemma expect_num_inv k v s s' : expect_num k v s = Ok s' -> rest s = be k v ++ rest s' /\ last s' = last s.
Proof.
  unfold expect_num. intros H. binv H. destruct x as [x s0]. destruct (N.eqb_spec x v); [|discriminate].
  injection Hk as <-. subst x. apply read_num_inv in Hb. tauto.
Qed.

Lemma read_tag_inv s t s' : lastok s -> read_tag s = Ok (t, s') ->
  logical s = be 3 t ++ rest s' /\ last s' = 0 /\ t < 2 ^ 24 /\ (last s <> 0 -> t = last s).
Proof.
  unfold read_tag, logical, lastok, iread_tag. intros Hl. destruct (N.eqb_spec (last s) 0) as [E|E]; cbn [negb].
  - intros H. apply read_num_inv in H. destruct H as (H1 & H2 & H3). cbn in H3.
    rewrite H2. repeat split; [assumption|assumption|assumption|contradiction].
  - intros H; injection H as <- <-. cbn [rest last]. repeat split. assumption.
Qed.

Lemma peek_tag_inv s t s' : lastok s -> peek_tag s = Ok (t, s') ->
  lastok s' /\ t < 2 ^ 24 /\
  ((t <> 0 /\ logical s' = logical s /\ last s' = t /\ logical s = be 3 t ++ rest s') \/
   (t = 0 /\ logical s = be 3 0 ++ logical s' /\ last s' = 0)).
Proof.
  unfold peek_tag, lastok, iread_tag. intros Hl. destruct (N.eqb_spec (last s) 0) as [E|E]; cbn [negb].
  - intros H. binv H. destruct x as [t0 s0]. injection Hk as <- <-. apply read_num_inv in Hb.
    destruct Hb as (H1 & H2 & H3). cbn in H3. cbn [last rest]. split; [assumption|]. split; [assumption|].
    unfold logical; cbn [last rest]. rewrite E. cbn [N.eqb app].
    destruct (N.eqb_spec t0 0) as [Z|Z].
    + right. subst t0. cbn [app]. auto.
    + left. repeat split; auto.
  - intros H; injection H as <- <-. split; [assumption|]. split; [assumption|]. left.
    unfold logical. destruct (N.eqb_spec (last s) 0); [contradiction|]. auto.
Qed.

Lemma peek_tag_eof s : peek_tag s = ErrEOF -> rest s = [] /\ last s = 0.
Proof.
  unfold peek_tag, iread_tag, read_num. destruct (N.eqb_spec (last s) 0) as [E|E]; cbn [negb]; [|discriminate].
  unfold read_n. destruct (Nat.leb 3 (length (rest s))); cbn [bind]; [discriminate|].
  destruct (rest s); cbn [bind]; [auto|discriminate].
Qed.

Lemma expect_tag_inv tag s s' : lastok s -> expect_tag tag s = Ok s' ->
  exists t, logical s = be 3 t ++ rest s' /\ last s' = 0 /\ t < 2 ^ 24 /\
            (t = tag \/ tag = ANY_TAG) /\ (last s <> 0 -> t = last s).
Proof.
  unfold expect_tag. intros Hl H. binv H. destruct x as [t s0].
  destruct (N.eqb_spec tag t) as [E|E]; cbn [negb andb] in Hk.
  - injection Hk as <-. apply read_tag_inv in Hb; [|assumption]. exists t. intuition.
  - destruct (N.eqb_spec tag ANY_TAG) as [E2|E2]; cbn [negb] in Hk; [|discriminate].
    injection Hk as <-. apply read_tag_inv in Hb; [|assumption]. exists t. intuition.
Qed.

(* the first eight bytes of an item, read by every item decoder *)
Lemma item_header_inv tag st s1 s2 typ len s3 :
  lastok st -> expect_tag tag st = Ok s1 -> read_num 1 s1 = Ok (typ, s2) -> read_num 4 s2 = Ok (len, s3) ->
  exists t, logical st = header t typ len ++ rest s3 /\ last s3 = 0 /\ t < 2 ^ 24 /\ typ < 256 /\ len < 2 ^ 32 /\
            (t = tag \/ tag = ANY_TAG) /\ (last st <> 0 -> t = last st).
Proof.
  intros Hl H1 H2 H3. apply expect_tag_inv in H1; [|assumption]. destruct H1 as (t & L & Z1 & Ht & Hc & Hla).
  apply read_num_inv in H2. destruct H2 as (R2 & Z2 & B2). apply read_num_inv in H3. destruct H3 as (R3 & Z3 & B3).
  exists t. unfold header. rewrite <- !app_assoc. rewrite L, R2, R3. cbn in B2, B3.
  repeat split; auto; congruence.
Qed.

(* ------------------------------------------------------------------ *)
(* soundness, item level                                               *)
(* ------------------------------------------------------------------ *)
(* the decoder, started in [st], has taken exactly the item [it] and stands in [st'] *)
Definition heads (it : item) (tag : N) (st st' : dstate) (n : N) : Prop :=
  item_wf it /\ logical st = raw it ++ rest st' /\ last st' = 0 /\ n = i_size it /\
  (i_tag it = tag \/ tag = ANY_TAG) /\ (last st <> 0 -> i_tag it = last st).

Lemma all_zero_unbe l : all_zero l = true -> unbe l 0 = 0.
Proof.
  induction l as [|b l IH]; [reflexivity|]. cbn [all_zero forallb]. intros H. apply andb_prop in H.
  destruct H as [Hb Hl]. apply Byte.byte_dec_bl in Hb. subst b. cbn [unbe]. exact (IH Hl).
Qed.

Lemma unbe_ge l : forall acc, acc <= unbe l acc.
Proof. induction l as [|b l IH]; intros acc; cbn [unbe]; [lia|]. specialize (IH (acc * 256 + b2n b)). lia. Qed.

Lemma unbe_zero_all l : unbe l 0 = 0 -> all_zero l = true.
Proof.
  induction l as [|b l IH]; [reflexivity|]. cbn [unbe]. intros H.
  pose proof (unbe_ge l (0 * 256 + b2n b)) as G. rewrite H in G.
  assert (Hb: b2n b = 0) by lia. rewrite Hb in H. cbn [all_zero forallb].
  assert (b = x00) by (rewrite <- (n2b_b2n b), Hb; reflexivity). subst b.
  cbn [Byte.eqb andb]. exact (IH H).
Qed.

Lemma bool_item_sound (b : bytes) (x : byte) :
  length b = 8%nat -> all_zero (firstn 7 b) = true -> skipn 7 b = [x] -> unbe b 0 = b2n x.
Proof.
  intros L Z S. rewrite <- (firstn_skipn 7 b), unbe_app, (all_zero_unbe _ Z), S. cbn [unbe]. lia.
Qed.

Lemma dec_prim_inv k tag st v n st' : lastok st -> dec_prim k tag st = Ok (v, n, st') ->
  exists it, heads it tag st st' n /\ prim_of_item k it = Some v.
Proof.
  intros Hl H. unfold dec_prim in H. binv H. rename x into s1. binv Hk. rename x into s2.
  apply expect_tag_inv in Hb; [|assumption]. destruct Hb as (t & L & Z1 & Ht & Hc & Hla).
  apply expect_num_inv in Hb0. destruct Hb0 as (R2 & Z2).
  assert (Hty: type_code k < 256) by (destruct k; cbn; lia).
  assert (FIX: forall len (s3 s4 : dstate) (b : bytes), (len = 4 \/ len = 8) ->
            expect_num 4 len s2 = Ok s3 -> read_n 8 s3 = Ok (b, s4) ->
            let it := {| i_tag := t; i_typ := type_code k; i_len := len;
                         i_val := firstn (N.to_nat len) b; i_pad := skipn (N.to_nat len) b |} in
            heads it tag st s4 16 /\ length b = 8%nat).
  { intros len s3 s4 b Hlen E3 E4 it. apply expect_num_inv in E3. destruct E3 as (R3 & Z3).
    apply read_n_inv in E4. destruct E4 as (R4 & L4 & Z4). split; [|assumption].
    subst it. unfold heads, item_wf, raw, i_size, header, blen; cbn [i_tag i_typ i_len i_val i_pad].
    rewrite firstn_length, skipn_length, L4.
    repeat split; try assumption; try congruence.
    - destruct Hlen; subst len; cbn; lia.
    - destruct Hlen; subst len; cbn; lia.
    - destruct Hlen; subst len; reflexivity.
    - rewrite L, R2, R3, R4, <- !app_assoc. do 3 f_equal. rewrite app_assoc, firstn_skipn. reflexivity.
    - destruct Hlen; subst len; reflexivity. }
  destruct k; cbn [type_code] in *.
  all: try (binv Hk0; rename x into s3; binv Hk; destruct x as [b s4]).
  - (* KInt *) injection Hk0 as <- <- <-. destruct (FIX 4 s3 s4 b (or_introl eq_refl) Hb Hb0) as [Hh Lb].
    eexists; split; [exact Hh|]. reflexivity.
  - (* KLong *) injection Hk0 as <- <- <-. destruct (FIX 8 s3 s4 b (or_intror eq_refl) Hb Hb0) as [Hh Lb].
    eexists; split; [exact Hh|]. unfold prim_of_item; cbn [i_typ i_len i_val negb N.eqb Pos.eqb].
    rewrite firstn_all2 by (cbn; lia). reflexivity.
  - (* KEnum *) injection Hk0 as <- <- <-. destruct (FIX 4 s3 s4 b (or_introl eq_refl) Hb Hb0) as [Hh Lb].
    eexists; split; [exact Hh|]. reflexivity.
  - (* KBool *) destruct (FIX 8 s3 s4 b (or_intror eq_refl) Hb Hb0) as [Hh Lb].
    destruct (all_zero (firstn 7 b)) eqn:Ez; [|discriminate].
    destruct (skipn 7 b) as [|x [|? ?]] eqn:Es; try discriminate.
    pose proof (bool_item_sound b x Lb Ez Es) as Eu.
    destruct (Byte.eqb x x01) eqn:E1.
    + injection Hk0 as <- <- <-. apply Byte.byte_dec_bl in E1. subst x.
      eexists; split; [exact Hh|]. unfold prim_of_item; cbn [i_typ i_len i_val negb N.eqb Pos.eqb].
      rewrite firstn_all2 by (cbn; lia). rewrite Eu. reflexivity.
    + destruct (Byte.eqb x x00) eqn:E0; [|discriminate]. injection Hk0 as <- <- <-.
      apply Byte.byte_dec_bl in E0. subst x.
      eexists; split; [exact Hh|]. unfold prim_of_item; cbn [i_typ i_len i_val negb N.eqb Pos.eqb].
      rewrite firstn_all2 by (cbn; lia). rewrite Eu. reflexivity.
  - (* KBytes *) binv Hk0. destruct x as [l s3]. binv Hk. destruct x as [b s4]. binv Hk0. destruct x as [p s5].
    injection Hk as <- <- <-.
    apply read_num_inv in Hb. destruct Hb as (R3 & Z3 & B3). apply copy_nN_ok in Hb0. apply read_nN_inv in Hb0. destruct Hb0 as (R4 & L4 & Z4).
    apply read_nN_inv in Hb1. destruct Hb1 as (R5 & L5 & Z5). cbn in B3.
    exists {| i_tag := t; i_typ := 8; i_len := l; i_val := b; i_pad := p |}. split; [|reflexivity].
    unfold heads, item_wf, raw, i_size, padded, header; cbn [i_tag i_typ i_len i_val i_pad].
    repeat split; try assumption; try congruence; try lia.
    rewrite L, R2, R3, R4, R5, <- !app_assoc. reflexivity.
  - (* KStr *) binv Hk0. destruct x as [l s3]. binv Hk. destruct x as [b s4]. binv Hk0. destruct x as [p s5].
    injection Hk as <- <- <-.
    apply read_num_inv in Hb. destruct Hb as (R3 & Z3 & B3). apply copy_nN_ok in Hb0. apply read_nN_inv in Hb0. destruct Hb0 as (R4 & L4 & Z4).
    apply read_nN_inv in Hb1. destruct Hb1 as (R5 & L5 & Z5). cbn in B3.
    exists {| i_tag := t; i_typ := 7; i_len := l; i_val := b; i_pad := p |}. split; [|reflexivity].
    unfold heads, item_wf, raw, i_size, padded, header; cbn [i_tag i_typ i_len i_val i_pad].
    repeat split; try assumption; try congruence; try lia.
    rewrite L, R2, R3, R4, R5, <- !app_assoc. reflexivity.
  - (* KTime *) injection Hk0 as <- <- <-. destruct (FIX 8 s3 s4 b (or_intror eq_refl) Hb Hb0) as [Hh Lb].
    eexists; split; [exact Hh|]. unfold prim_of_item; cbn [i_typ i_len i_val negb N.eqb Pos.eqb].
    rewrite firstn_all2 by (cbn; lia). reflexivity.
  - (* KDur *) injection Hk0 as <- <- <-. destruct (FIX 4 s3 s4 b (or_introl eq_refl) Hb Hb0) as [Hh Lb].
    eexists; split; [exact Hh|]. reflexivity.
Qed.

Lemma dropN_le n (l : bytes) : n <= blen l -> dropN n l = skipn (N.to_nat n) l.
Proof. intros H. unfold dropN. rewrite N.min_l by assumption. reflexivity. Qed.
Lemma takeN_le n (l : bytes) : n <= blen l -> takeN n l = firstn (N.to_nat n) l.
Proof. intros H. unfold takeN. rewrite N.min_l by assumption. reflexivity. Qed.

Lemma dec_skip_inv tag st n st' : lastok st -> dec_skip tag st = Ok (n, st') -> exists it, heads it tag st st' n.
Proof.
  intros Hl H. unfold dec_skip in H. binv H. rename x into s1. binv Hk. destruct x as [b1 s2].
  binv Hk0. destruct x as [l s3].
  destruct (N.leb_spec (padded l) (blen (rest s3))) as [Hp|]; [|discriminate]. injection Hk as <- <-.
  apply expect_tag_inv in Hb; [|assumption]. destruct Hb as (t & L & Z1 & Ht & Hc & Hla).
  apply read_n_inv in Hb0. destruct Hb0 as (R2 & L2 & Z2).
  apply read_num_inv in Hb1. destruct Hb1 as (R3 & Z3 & B3). cbn in B3.
  pose proof (pad8_lt l) as Hpl. unfold padded in Hp. unfold blen in Hp.
  exists {| i_tag := t; i_typ := unbe b1 0; i_len := l; i_val := firstn (N.to_nat l) (rest s3);
            i_pad := firstn (N.to_nat (pad8 l)) (skipn (N.to_nat l) (rest s3)) |}.
  unfold heads, item_wf, raw, i_size, header, blen; cbn [i_tag i_typ i_len i_val i_pad rest last].
  rewrite !firstn_length, skipn_length.
  pose proof (unbe0_bound b1) as B1. rewrite L2 in B1. cbn in B1.
  repeat split; try assumption; try congruence; try lia.
  - rewrite L, R2, R3 at 1. rewrite <- !app_assoc. f_equal. f_equal.
    + rewrite <- L2. symmetry. apply be_unbe.
    + f_equal. rewrite dropN_le by (unfold blen, padded; lia).
      rewrite <- (firstn_skipn (N.to_nat l) (rest s3)) at 1. f_equal.
      rewrite <- (firstn_skipn (N.to_nat (pad8 l)) (skipn (N.to_nat l) (rest s3))) at 1. f_equal.
      rewrite skipn_skipn. f_equal. unfold padded. lia.
Qed.

(* ------------------------------------------------------------------ *)
(* soundness, the loop over the elements of a sequence                 *)
(* ------------------------------------------------------------------ *)
Lemma blen_nil_inv (l : bytes) : blen l = 0 -> l = [].
Proof. destruct l; [reflexivity|]. unfold blen. cbn [length]. lia. Qed.

Lemma slice_loop_inv (step : dstate -> dres (val * N * dstate)) (interp : item -> option val)
      (tag : N) (skip : bool) (explen : N) :
  explen < 2 ^ 32 ->
  (forall st v nn st', lastok st -> step st = Ok (v, nn, st') ->
     exists it, heads it tag st st' nn /\ (skip = false -> interp it = Some v)) ->
  forall fuel dd actual nsum acc es actual' nsum' dd',
  lastok dd -> actual + blen (logical dd) <= explen ->
  slice_loop fuel step tag skip explen dd actual nsum acc = Ok (es, actual', nsum', dd') ->
  exists it r d vs,
    Forall item_wf (it :: r) /\
    blen (logical dd) = blen (flat_raw (it :: r)) + 3 * d + blen (logical dd') /\
    actual' = actual + blen (flat_raw (it :: r)) /\ nsum' = nsum + blen (flat_raw (it :: r)) /\
    lastok dd' /\
    es = (if skip then acc else vl_app acc (vl_of_list vs)) /\
    (skip = false -> map_opt interp (it :: r) = Some vs) /\
    (d = 0 ->
       logical dd = flat_raw (it :: r) ++ logical dd' /\
       (i_tag it = tag \/ tag = ANY_TAG) /\ (last dd <> 0 -> i_tag it = last dd) /\
       Forall (fun e => i_tag e = tag) r /\
       (logical dd' = [] \/ (last dd' <> 0 /\ last dd' <> tag))).
Proof.
  intros Hexp Hstep. induction fuel as [|f IH]; intros dd actual nsum acc es actual' nsum' dd' Hl Hinv H; [discriminate|].
  cbn [slice_loop] in H. binv H. destruct x as [[v nn] dd1]. apply wrapped_ok in Hb.
  destruct (Hstep _ _ _ _ Hl Hb) as (it & (Hw & Lg & Z1 & Hnn & Hc & Hla) & Hint).
  pose proof (raw_blen it Hw) as Hrb. pose proof (i_size_ge it) as Hsz.
  assert (Hlen: blen (logical dd) = nn + blen (rest dd1)) by (rewrite Lg, blen_app, Hrb; lia).
  assert (Hact: (actual + nn) mod 2 ^ 32 = actual + nn) by (apply N.mod_small; lia).
  rewrite Hact in Hk.
  assert (Hl1: lastok dd1) by (unfold lastok; rewrite Z1; lia).
  assert (Lg1: logical dd1 = rest dd1) by (unfold logical; rewrite Z1; reflexivity).
  destruct (N.leb_spec explen (actual + nn)) as [Hdone|Hmore].
  - (* the declared length is used up *)
    injection Hk as <- <- <- <-. exists it, [], 0, [v].
    assert (Hr: rest dd1 = []) by (apply blen_nil_inv; lia).
    rewrite flat_raw_cons. cbn [flat_raw map concat]. rewrite app_nil_r, Lg1, Hr, Hrb.
    rewrite Hr in Hlen. change (blen (@nil byte)) with 0 in *.
    split; [constructor; [assumption|constructor]|].
    split; [lia|]. split; [lia|]. split; [lia|]. split; [assumption|].
    split; [destruct skip; [reflexivity|]; cbn [vl_of_list]; clear; induction acc; cbn [vl_snoc vl_app]; congruence|].
    split; [intros Hs; cbn [map_opt]; rewrite (Hint Hs); reflexivity|].
    intros _. rewrite Lg, Hr. repeat split; auto.
  - binv Hk. destruct x as [t dd2].
    destruct (peek_tag_inv _ _ _ Hl1 Hb0) as (Hl2 & Ht & Hcase).
    destruct (N.eqb_spec t tag) as [Et|Et].
    + (* another element *)
      assert (Hinv2: actual + nn + blen (logical dd2) <= explen).
      { destruct Hcase as [(_ & E & _)|(_ & E & _)].
        - rewrite E, Lg1. lia.
        - rewrite Lg1 in E. apply (f_equal blen) in E. rewrite blen_app, blen_be in E. lia. }
      destruct (IH _ _ _ _ _ _ _ _ Hl2 Hinv2 Hk0) as (it2 & r2 & d2 & vs2 & Hws & Hlen2 & Ha & Hn & Hl' & Hes & Hmap & Hd).
      exists it, (it2 :: r2), (d2 + (if t =? 0 then 1 else 0)), (v :: vs2).
      rewrite (flat_raw_cons it (it2 :: r2)), blen_app, Hrb.
      split; [constructor; assumption|].
      split.
      { destruct Hcase as [(Hz & E & _)|(Hz & E & _)].
        - destruct (N.eqb_spec t 0); [contradiction|]. rewrite E, Lg1 in Hlen2. lia.
        - subst t. cbn [N.eqb]. rewrite Lg1 in E. apply (f_equal blen) in E. rewrite blen_app, blen_be in E. lia. }
      split; [lia|]. split; [lia|]. split; [assumption|].
      split.
      { rewrite Hes. destruct skip; [reflexivity|]. cbn [vl_of_list]. apply vl_app_snoc. }
      split.
      { intros Hs. cbn [map_opt]. rewrite (Hint Hs). cbn [map_opt] in Hmap. rewrite (Hmap Hs). reflexivity. }
      intros Hd0. destruct (N.eqb_spec t 0) as [Hz|Hz]; [lia|].
      assert (Hd2: d2 = 0) by lia. destruct (Hd Hd2) as (Lg2 & Hc2 & Hla2 & Hall & Hend).
      destruct Hcase as [(_ & E & Hlast & _)|(Hz' & _)]; [|contradiction].
      repeat split; auto.
      * rewrite Lg, <- Lg1, <- E, Lg2, <- app_assoc. reflexivity.
      * constructor; [|assumption]. rewrite Hla2 by (rewrite Hlast; assumption). congruence.
    + (* the next item has another tag *)
      injection Hk0 as <- <- <- <-. exists it, [], (if t =? 0 then 1 else 0), [v].
      rewrite flat_raw_cons. cbn [flat_raw map concat]. rewrite app_nil_r, Hrb.
      split; [constructor; [assumption|constructor]|].
      split.
      { destruct Hcase as [(Hz & E & _)|(Hz & E & _)].
        - destruct (N.eqb_spec t 0); [contradiction|]. rewrite E, Lg1. lia.
        - subst t. cbn [N.eqb]. rewrite Lg1 in E. apply (f_equal blen) in E. rewrite blen_app, blen_be in E. lia. }
      split; [lia|]. split; [lia|]. split; [assumption|].
      split; [destruct skip; [reflexivity|]; cbn [vl_of_list]; clear; induction acc; cbn [vl_snoc vl_app]; congruence|].
      split; [intros Hs; cbn [map_opt]; rewrite (Hint Hs); reflexivity|].
      intros Hd0. destruct (N.eqb_spec t 0) as [Hz|Hz]; [lia|].
      destruct Hcase as [(_ & E & Hlast & _)|(Hz' & _)]; [|contradiction].
      repeat split; auto.
      * rewrite Lg, <- Lg1, <- E. reflexivity.
      * right. rewrite Hlast. auto.
Qed.

(* ------------------------------------------------------------------ *)
(* soundness: what the decoder accepts, the specification accepts      *)
(* ------------------------------------------------------------------ *)
Lemma raw_starts it : exists x, raw it = be 3 (i_tag it) ++ x.
Proof. unfold raw, header. rewrite <- !app_assoc. eauto. Qed.

Lemma head_of_flat its t x : Forall item_wf its -> t < 2 ^ 24 -> flat_raw its = be 3 t ++ x ->
  exists it r, its = it :: r /\ i_tag it = t.
Proof.
  intros Hw Ht H. destruct its as [|it r].
  - exfalso. apply (f_equal (@length byte)) in H. rewrite app_length, be_length in H. cbn in H. lia.
  - exists it, r. split; [reflexivity|]. inversion Hw as [|? ? Hw1 _]; subst.
    rewrite flat_raw_cons in H. destruct (raw_starts it) as [y Hy]. rewrite Hy, <- app_assoc in H.
    destruct Hw1 as (Hti & _). apply be3_inj in H; [tauto|assumption|assumption].
Qed.

Lemma span_tag_app tag r rest :
  Forall (fun e => i_tag e = tag) r ->
  (rest = [] \/ exists h rest', rest = h :: rest' /\ i_tag h <> tag) ->
  span_tag tag (r ++ rest) = (r, rest).
Proof.
  intros Hr Hrest. induction Hr as [|e r He _ IH]; cbn [app span_tag].
  - destruct Hrest as [ -> |(h & rest' & -> & Hne)]; [reflexivity|]. cbn [span_tag].
    destruct (N.eqb_spec (i_tag h) tag); [contradiction|reflexivity].
  - rewrite He, N.eqb_refl, IH. reflexivity.
Qed.

Lemma takeN_blen n (l : bytes) : blen (takeN n l) = N.min n (blen l).
Proof. unfold takeN, blen. rewrite firstn_length. lia. Qed.

Definition P_sch (s : sch) : Prop := forall a st cur v n st', lastok st ->
  dec_value s a st cur = Ok (v, n, st') ->
  exists it, heads it (fa_tag a) st st' n /\ interp_val s cur it = Some v.

Definition P_fl (fl : flist) : Prop := forall i explen dd actual nsum cur vs actual' nsum' dd',
  lastok dd -> explen < 2 ^ 32 -> actual + blen (logical dd) <= explen ->
  dec_fields fl i explen dd actual nsum cur = Ok (vs, actual', nsum', dd') ->
  exists n d, blen (logical dd) = n + 3 * d + blen (logical dd') /\
    actual' = actual + n /\ nsum' = nsum + n /\ lastok dd' /\
    (d = 0 -> logical dd' = [] ->
       exists its, Forall item_wf its /\ logical dd = flat_raw its /\ match_fields fl i cur its = Some (vs, [])).

Definition P_cs (cs : dcases) : Prop := forall key a st v n st', lastok st ->
  dec_cases cs key a st = Ok (v, n, st') ->
  exists it, heads it (fa_tag a) st st' n /\ interp_cases cs key it = Some v.

Lemma sound_struct ty fl : P_fl fl -> P_sch (SStruct ty fl).
Proof.
  intros IH a st cur v n st' Hl H. cbn [dec_value] in H.
  binv H. rename x into s1. binv Hk. rename x into s2. binv Hk0. destruct x as [len s3].
  cbv zeta in Hk. binv Hk. destruct x as [[[vs actual] nsum] dd'].
  destruct (N.eqb_spec actual len) as [Ea|]; [|discriminate]. injection Hk0 as <- <- <-.
  apply expect_tag_inv in Hb; [|assumption]. destruct Hb as (t & L & Z1 & Ht & Hc & Hla).
  apply expect_num_inv in Hb0. destruct Hb0 as (R2 & Z2).
  apply read_num_inv in Hb1. destruct Hb1 as (R3 & Z3 & B3). cbn in B3.
  apply IH in Hb2; [| unfold lastok; cbn [last]; lia | assumption | rewrite logical_fresh, takeN_blen; lia].
  destruct Hb2 as (n0 & d & Hlen & Hact & Hns & Hl' & Hd).
  rewrite logical_fresh, takeN_blen in Hlen. rewrite N.add_0_l in Hact, Hns. subst n0.
  assert (Hd0: d = 0) by lia. assert (Hle: len <= blen (rest s3)) by lia.
  assert (Hnil: logical dd' = []) by (apply blen_nil_inv; lia).
  destruct (Hd Hd0 Hnil) as (its & Hws & Hfl & Hm). rewrite logical_fresh in Hfl.
  assert (Hpad: pad8 len = 0).
  { pose proof (flat_raw_mod8 its Hws) as M. rewrite <- Hfl, takeN_blen, N.min_l in M by assumption.
    unfold pad8. rewrite M. reflexivity. }
  exists {| i_tag := t; i_typ := tc_structure; i_len := len; i_val := takeN len (rest s3); i_pad := [] |}.
  split.
  - unfold heads, item_wf, raw, i_size, padded, header; cbn [i_tag i_typ i_len i_val i_pad rest last].
    rewrite takeN_blen, N.min_l, Hpad by assumption.
    repeat split; try assumption; try congruence; try lia; try reflexivity.
    + rewrite L, R2, R3, <- !app_assoc. do 3 f_equal. cbn [app].
      rewrite takeN_le, dropN_le by assumption. symmetry. apply firstn_skipn.
  - cbn [interp_val i_typ i_val]. rewrite N.eqb_refl, Hfl, split_items_raw by assumption.
    rewrite Hm. reflexivity.
Qed.

Lemma flat_head_tag its t x : Forall item_wf its -> t < 2 ^ 24 -> t <> 0 -> flat_raw its = be 3 t ++ x ->
  exists h r, its = h :: r /\ i_tag h = t.
Proof. intros. eapply head_of_flat; eauto. Qed.

Lemma logical_peeked s t : last s = t -> t <> 0 -> logical s = be 3 t ++ rest s.
Proof. intros <- H. unfold logical. destruct (N.eqb_spec (last s) 0); [contradiction|reflexivity]. Qed.

Lemma sound_cons a s r : P_sch s -> P_fl r -> P_fl (FCons a s r).
Proof.
  intros IHs IHr i explen dd actual nsum cur vs actual' nsum' dd' Hl Hexp Hinv H.
  cbn [dec_fields] in H.
  set (item := fun st : dstate =>
        if fa_skip a then (let* (n, st') := dec_skip (fa_tag a) st in Ok (VNil, n, st'))
        else dec_value s a st cur) in H.
  assert (Hitem: forall st v nn st', lastok st -> item st = Ok (v, nn, st') ->
            exists it, heads it (fa_tag a) st st' nn /\ (fa_skip a = false -> interp_val s cur it = Some v)).
  { intros st v nn st' Hls Hi. unfold item in Hi. destruct (fa_skip a).
    - binv Hi. destruct x as [n0 st0]. injection Hk as <- <- <-.
      destruct (dec_skip_inv _ _ _ _ Hls Hb) as (it & Hh). exists it. split; [assumption|discriminate].
    - destruct (IHs _ _ _ _ _ _ Hls Hi) as (it & Hh & Hv). exists it. auto. }
  destruct (peek_tag dd) as [[t dd1]| | |] eqn:Ep; try discriminate.
  - (* a tag was peeked *)
    destruct (peek_tag_inv _ _ _ Hl Ep) as (Hl1 & Ht & Hcase).
    assert (Hlen1: blen (logical dd) = blen (logical dd1) + 3 * (if t =? 0 then 1 else 0)).
    { destruct Hcase as [(Hz & E & _)|(Hz & E & _)].
      - destruct (N.eqb_spec t 0); [contradiction|]. rewrite E. lia.
      - subst t. cbn [N.eqb]. rewrite E, blen_app, blen_be. lia. }
    assert (Hinv1: actual + blen (logical dd1) <= explen) by lia.
    destruct (negb (fa_req a) && negb (t =? fa_tag a) && negb (fa_tag a =? ANY_TAG)) eqn:Eskip.
    + (* optional field, another tag: absent *)
      apply IHr in H; [|assumption|assumption|lia].
      destruct H as (n & d & Hlen & Ha & Hn & Hl' & Hd).
      exists n, (d + (if t =? 0 then 1 else 0)). split; [lia|]. split; [assumption|]. split; [assumption|]. split; [assumption|].
      intros Hd0 Hnil. destruct (N.eqb_spec t 0) as [Hz|Hz]; [lia|].
      destruct Hcase as [(_ & E & Hlast & Lg)|(Hz' & _)]; [|contradiction].
      destruct (Hd ltac:(lia) Hnil) as (its & Hws & Hfl & Hm).
      exists its. split; [assumption|]. split; [congruence|].
      rewrite <- E, Hfl in Lg. destruct (flat_head_tag _ _ _ Hws Ht Hz Lg) as (h & r' & -> & Hh).
      cbn [match_fields]. unfold item_for. rewrite Hh.
      apply andb_prop in Eskip. destruct Eskip as [Eskip E3]. apply andb_prop in Eskip. destruct Eskip as [E1 E2].
      apply negb_true_iff in E1, E2, E3. rewrite E1, E2, E3. cbn [orb andb]. rewrite andb_false_r. exact Hm.
    + destruct (fa_slice a) eqn:Esl.
      * (* a sequence *)
        binv H. destruct x as [[[es actual1] nsum1] dd2].
        destruct (slice_loop_inv item (interp_val s cur) (fa_tag a) (fa_skip a) explen Hexp Hitem _ _ _ _ _ _ _ _ _ Hl1 Hinv1 Hb)
          as (it & r' & d1 & vs1 & Hws1 & Hlen2 & Ha1 & Hn1 & Hl2 & Hes & Hmap & Hd1).
        apply IHr in Hk; [|assumption|assumption|lia].
        destruct Hk as (n & d & Hlen & Ha & Hn & Hl' & Hd).
        exists (blen (flat_raw (it :: r')) + n), (d + d1 + (if t =? 0 then 1 else 0)).
        split; [lia|]. split; [lia|]. split; [lia|]. split; [assumption|].
        intros Hd0 Hnil. destruct (N.eqb_spec t 0) as [Hz|Hz]; [lia|].
        destruct Hcase as [(_ & E & Hlast & Lg)|(Hz' & _)]; [|contradiction].
        destruct (Hd ltac:(lia) Hnil) as (its & Hws & Hfl & Hm).
        destruct (Hd1 ltac:(lia)) as (Lg2 & Hc & Hla & Hall & Hend).
        exists ((it :: r') ++ its). split; [apply Forall_app; split; assumption|].
        split; [rewrite flat_raw_app, <- Hfl, <- E; exact Lg2|].
        assert (Hti: i_tag it = t) by (rewrite Hla by (rewrite Hlast; assumption); assumption).
        cbn [app match_fields]. unfold item_for. rewrite Hti.
        replace (negb (t =? 0)) with true by (destruct (N.eqb_spec t 0); [contradiction|reflexivity]).
        replace ((t =? fa_tag a) || (fa_tag a =? ANY_TAG)) with true
          by (destruct Hc as [Hc|Hc]; [rewrite <- Hti, Hc, N.eqb_refl; reflexivity | rewrite Hc, N.eqb_refl, orb_true_r; reflexivity]).
        cbn [andb]. rewrite Esl.
        rewrite span_tag_app; [|assumption|].
        2:{ destruct Hend as [Hn0|(Hn1' & Hn2)].
            - left. rewrite Hn0 in Hfl. symmetry in Hfl. apply flat_raw_nil in Hfl; assumption.
            - right. rewrite (logical_peeked dd2 (last dd2) eq_refl Hn1') in Hfl. symmetry in Hfl.
              destruct (flat_head_tag _ _ _ Hws Hl2 Hn1' Hfl) as (h & rest' & -> & Hh). exists h, rest'. split; [reflexivity|congruence]. }
        destruct (fa_skip a) eqn:Esk.
        -- rewrite Hes in Hm. exact Hm.
        -- rewrite (Hmap eq_refl). rewrite Hes in Hm. cbn [vl_app] in Hm. exact Hm.
      * (* a single item *)
        binv H. destruct x as [[v nn] dd2]. apply wrapped_ok in Hb.
        destruct (Hitem _ _ _ _ Hl1 Hb) as (it & (Hw & Lg1 & Z2 & Hnn & Hc & Hla) & Hv).
        pose proof (raw_blen it Hw) as Hrb.
        assert (Hl2: lastok dd2) by (unfold lastok; rewrite Z2; lia).
        assert (Lg2: logical dd2 = rest dd2) by (unfold logical; rewrite Z2; reflexivity).
        assert (Hlen2: blen (logical dd1) = nn + blen (logical dd2)) by (rewrite Lg1, Lg2, blen_app, Hrb; lia).
        rewrite N.mod_small in Hk by lia.
        apply IHr in Hk; [|assumption|assumption|lia].
        destruct Hk as (n & d & Hlen & Ha & Hn & Hl' & Hd).
        exists (nn + n), (d + (if t =? 0 then 1 else 0)).
        split; [lia|]. split; [lia|]. split; [lia|]. split; [assumption|].
        intros Hd0 Hnil. destruct (N.eqb_spec t 0) as [Hz|Hz]; [lia|].
        destruct Hcase as [(_ & E & Hlast & Lg)|(Hz' & _)]; [|contradiction].
        destruct (Hd ltac:(lia) Hnil) as (its & Hws & Hfl & Hm).
        exists (it :: its). split; [constructor; assumption|].
        split; [rewrite flat_raw_cons, <- Hfl, Lg2, <- E; exact Lg1|].
        assert (Hti: i_tag it = t) by (rewrite Hla by (rewrite Hlast; assumption); assumption).
        cbn [match_fields]. unfold item_for. rewrite Hti.
        replace (negb (t =? 0)) with true by (destruct (N.eqb_spec t 0); [contradiction|reflexivity]).
        replace ((t =? fa_tag a) || (fa_tag a =? ANY_TAG)) with true
          by (destruct Hc as [Hc|Hc]; [rewrite <- Hti, Hc, N.eqb_refl; reflexivity | rewrite Hc, N.eqb_refl, orb_true_r; reflexivity]).
        cbn [andb]. rewrite Esl.
        destruct (fa_skip a) eqn:Esk; [exact Hm|]. rewrite (Hv eq_refl). exact Hm.
  - (* end of the structure *)
    apply peek_tag_eof in Ep. destruct Ep as [Er Ela].
    destruct (fa_req a) eqn:Ereq; [discriminate|].
    assert (Es: {| rest := rest dd; last := 0 |} = dd) by (destruct dd as [r0 l0]; cbn in *; subst; reflexivity).
    rewrite Es in H. apply IHr in H; [|assumption|assumption|assumption].
    destruct H as (n & d & Hlen & Ha & Hn & Hl' & Hd). exists n, d. repeat split; try assumption.
    intros Hd0 Hnil. destruct (Hd Hd0 Hnil) as (its & Hws & Hfl & Hm).
    assert (Lg: logical dd = []) by (unfold logical; rewrite Ela, Er; reflexivity).
    rewrite Lg in Hfl. symmetry in Hfl. apply flat_raw_nil in Hfl; [|assumption]. subst its.
    exists []. split; [constructor|]. split; [assumption|]. cbn [match_fields]. rewrite Ereq. exact Hm.
Qed.

Theorem decoder_sound :
  (forall s, P_sch s) /\ (forall fl, P_fl fl) /\ (forall cs, P_cs cs).
Proof.
  apply sch_mutind.
  - (* SPrim *) intros k a st cur v n st' Hl H. cbn [dec_value] in H.
    destruct (dec_prim_inv _ _ _ _ _ _ Hl H) as (it & Hh & Hp). exists it. split; [assumption|exact Hp].
  - (* SStruct *) intros ty fl IH. apply sound_struct. exact IH.
  - (* SDyn *) intros holder ki cs IH a st cur v n st' Hl H. cbn [dec_value] in H.
    destruct (IH _ _ _ _ _ _ Hl H) as (it & Hh & Hc). exists it. split; [assumption|exact Hc].
  - (* FNil *) intros i explen dd actual nsum cur vs actual' nsum' dd' Hl Hexp Hinv H.
    cbn [dec_fields] in H. injection H as <- <- <- <-. exists 0, 0. repeat split; try lia; try assumption.
    intros _ Hnil. exists []. split; [constructor|]. split; [assumption|reflexivity].
  - (* FCons *) intros a s IHs r IHr. apply sound_cons; assumption.
  - (* DNil *) intros key a st v n st' Hl H. discriminate.
  - (* DCase *) intros k s IHs r IHr key a st v n st' Hl H. cbn [dec_cases] in H. cbn [interp_cases].
    destruct (key_matches k key).
    + exact (IHs _ _ _ _ _ _ Hl H).
    + exact (IHr _ _ _ _ _ _ Hl H).
Qed.

(* Decode on a decoder without look-ahead positioned on [bs] *)
Theorem dec_top_sound ty tag fl bs v n st' :
  tag <> ANY_TAG ->
  dec_top ty tag fl {| rest := bs; last := 0 |} = Ok (v, n, st') ->
  spec_decode ty tag fl bs = Some (v, n) /\ st' = {| rest := skipn (N.to_nat n) bs; last := 0 |}.
Proof.
  intros Hany H. unfold dec_top in H.
  assert (Hl0: lastok {| rest := bs; last := 0 |}) by (unfold lastok; cbn [last]; lia).
  destruct (proj1 decoder_sound (SStruct ty fl) (top_attr tag) _ VNone v n st' Hl0 H)
    as (it & (Hw & Lg & Z & Hn & Hc & _) & Hv).
  rewrite logical_fresh in Lg. cbn [top_attr fa_tag] in Hc. destruct Hc as [Hc|Hc]; [|contradiction].
  pose proof (raw_blen it Hw) as Hrb. destruct Hw as (Ht & Hy & Hlen & Hvl & Hpl).
  (* the accepted item is a structure whose payload tiles, so it has no padding *)
  assert (Hs: i_typ it = tc_structure /\ pad8 (i_len it) = 0 /\ i_pad it = []).
  { cbn [interp_val] in Hv. destruct (N.eqb_spec (i_typ it) tc_structure) as [E|]; [|discriminate].
    destruct (split_items (i_val it)) as [its|] eqn:Es; [|discriminate].
    apply split_items_inv in Es. destruct Es as (Hws & Ev).
    pose proof (flat_raw_mod8 its Hws) as M. rewrite <- Ev, Hvl in M.
    assert (P: pad8 (i_len it) = 0) by (unfold pad8; rewrite M; reflexivity).
    split; [assumption|]. split; [assumption|]. apply blen_nil_inv. congruence. }
  destruct Hs as (Hty & Hp0 & Hpn).
  assert (Hsz: i_size it = 8 + i_len it) by (unfold i_size, padded; lia).
  assert (Hbs: bs = header (i_tag it) (i_typ it) (i_len it) ++ i_val it ++ rest st').
  { rewrite Lg. unfold raw. rewrite Hpn, app_nil_r, <- app_assoc. reflexivity. }
  destruct (header_split (i_tag it) (i_typ it) (i_len it) (i_val it ++ rest st') Ht Hy Hlen) as (E1 & E2 & E3 & E4).
  cbv zeta in E1, E2, E3, E4. rewrite <- Hbs in E1, E2, E3, E4.
  assert (Hbl: blen bs = 8 + i_len it + blen (rest st')).
  { rewrite Hbs, !blen_app, header_blen, Hvl. lia. }
  split.
  - unfold spec_decode. rewrite E1, E2, E3, E4.
    destruct (N.ltb_spec (blen bs) 8); [lia|]. rewrite Hc, N.eqb_refl. cbn [negb].
    destruct (N.ltb_spec (blen bs) (8 + i_len it)); [lia|].
    replace (firstn (N.to_nat (i_len it)) (i_val it ++ rest st')) with (i_val it).
    2:{ replace (N.to_nat (i_len it)) with (length (i_val it)) by (unfold blen in Hvl; lia). symmetry. apply firstn_app_exact. }
    replace {| i_tag := tag; i_typ := i_typ it; i_len := i_len it; i_val := i_val it; i_pad := [] |} with it
      by (destruct it; cbn in *; subst; reflexivity).
    rewrite Hv, Hn, Hsz. reflexivity.
  - destruct st' as [r' l']. cbn [last rest] in *. subst l'. f_equal.
    rewrite Hn, Hsz, Hbs.
    replace (N.to_nat (8 + i_len it)) with (length (header (i_tag it) (i_typ it) (i_len it) ++ i_val it)).
    + rewrite app_assoc. symmetry. apply skipn_app_exact.
    + rewrite app_length. pose proof (header_blen (i_tag it) (i_typ it) (i_len it)). unfold blen in *. lia.
Qed.

(* ------------------------------------------------------------------ *)
(* completeness, item level                                            *)
(* ------------------------------------------------------------------ *)
(* the decoder stands in front of the item [it] followed by [tl] (its tag possibly peeked already) *)
Definition at_head (it : item) (tl : bytes) (st : dstate) : Prop := lastok st /\ logical st = raw it ++ tl.

Definition body (it : item) (tl : bytes) : bytes := be 1 (i_typ it) ++ be 4 (i_len it) ++ i_val it ++ i_pad it ++ tl.

Lemma raw_body it tl : raw it ++ tl = be 3 (i_tag it) ++ body it tl.
Proof. unfold raw, header, body. rewrite <- !app_assoc. reflexivity. Qed.

Lemma at_head_cases it tl st : item_wf it -> at_head it tl st ->
  st = {| rest := be 3 (i_tag it) ++ body it tl; last := 0 |} \/
  (i_tag it <> 0 /\ st = {| rest := body it tl; last := i_tag it |}).
Proof.
  intros (Ht & _) [Hl Lg]. destruct st as [r l]. unfold logical, lastok in *. cbn [rest last] in *.
  rewrite raw_body in Lg. destruct (N.eqb_spec l 0) as [E|E].
  - left. subst l. cbn [app] in Lg. rewrite Lg. reflexivity.
  - right. apply be3_inj in Lg; [|assumption|assumption]. destruct Lg as [-> ->]. auto.
Qed.

Lemma expect_tag_head tag it tl st : item_wf it -> at_head it tl st -> (i_tag it = tag \/ tag = ANY_TAG) ->
  expect_tag tag st = Ok {| rest := body it tl; last := 0 |}.
Proof.
  intros Hw Hh Hc. pose proof Hw as (Ht & _).
  assert (Hcmp: negb (tag =? i_tag it) && negb (tag =? ANY_TAG) = false).
  { destruct Hc as [ <- | -> ]; rewrite N.eqb_refl; cbn [negb andb]; [reflexivity|apply andb_false_r]. }
  destruct (at_head_cases it tl st Hw Hh) as [->|[Hz ->]]; unfold expect_tag, read_tag; cbn [last rest].
  - cbn [N.eqb negb]. unfold iread_tag. rewrite read_num_be by (cbn; lia). cbn [bind]. rewrite Hcmp. reflexivity.
  - destruct (N.eqb_spec (i_tag it) 0); [contradiction|]. cbn [negb bind]. rewrite Hcmp. reflexivity.
Qed.

Lemma peek_head h tl dd : item_wf h -> i_tag h <> 0 -> at_head h tl dd ->
  exists dd2, peek_tag dd = Ok (i_tag h, dd2) /\ at_head h tl dd2 /\ dd2 = {| rest := body h tl; last := i_tag h |}.
Proof.
  intros Hw Hz Hh. pose proof Hw as (Ht & _). exists {| rest := body h tl; last := i_tag h |}.
  assert (Hh2: at_head h tl {| rest := body h tl; last := i_tag h |}).
  { split; [exact Ht|]. unfold logical; cbn [last rest]. destruct (N.eqb_spec (i_tag h) 0); [contradiction|]. symmetry. apply raw_body. }
  destruct (at_head_cases h tl dd Hw Hh) as [->|[_ ->]]; unfold peek_tag; cbn [last rest].
  - cbn [N.eqb negb]. unfold iread_tag. rewrite read_num_be by (cbn; lia). cbn [bind rest]. auto.
  - destruct (N.eqb_spec (i_tag h) 0); [contradiction|]. cbn [negb]. auto.
Qed.

Lemma bool_item_complete (b : bytes) : length b = 8%nat -> unbe b 0 <= 1 ->
  exists x, all_zero (firstn 7 b) = true /\ skipn 7 b = [x] /\ b2n x = unbe b 0.
Proof.
  intros L U. destruct (skipn 7 b) as [|x [|y r]] eqn:Es.
  - exfalso. apply (f_equal (@length byte)) in Es. rewrite skipn_length in Es. cbn in Es. lia.
  - exists x. rewrite <- (firstn_skipn 7 b), unbe_app, Es in U. cbn [unbe] in U.
    assert (Z: unbe (firstn 7 b) 0 = 0) by (pose proof (b2n_lt x); lia).
    split; [apply unbe_zero_all; exact Z|]. split; [reflexivity|].
    rewrite <- (firstn_skipn 7 b) at 1. rewrite unbe_app, Es, Z. cbn [unbe]. lia.
  - exfalso. apply (f_equal (@length byte)) in Es. rewrite skipn_length in Es. cbn in Es. lia.
Qed.

Lemma b2n_0 x : b2n x = 0 -> x = x00.
Proof. intros H. rewrite <- (n2b_b2n x), H. reflexivity. Qed.
Lemma b2n_1 x : b2n x = 1 -> x = x01.
Proof. intros H. rewrite <- (n2b_b2n x), H. reflexivity. Qed.

Lemma dec_prim_complete k tag it tl st v :
  item_wf it -> at_head it tl st -> (i_tag it = tag \/ tag = ANY_TAG) -> prim_of_item k it = Some v ->
  dec_prim k tag st = Ok (v, i_size it, {| rest := tl; last := 0 |}).
Proof.
  intros Hw Hh Hc Hp. unfold dec_prim. rewrite (expect_tag_head tag it tl st Hw Hh Hc). cbn [bind].
  destruct Hw as (Ht & Hy & Hl & Hv & Hpd). unfold prim_of_item in Hp.
  destruct (N.eqb_spec (i_typ it) (type_code k)) as [Ety|]; [|discriminate]. cbn [negb] in Hp.
  unfold body. rewrite Ety. rewrite expect_num_be by (destruct k; cbn; lia). cbn [bind].
  unfold i_size, padded.
  assert (F4: i_len it = 4 -> exists b, i_val it ++ i_pad it = b /\ length b = 8%nat /\ firstn 4 b = i_val it).
  { intros E. exists (i_val it ++ i_pad it). rewrite E in *. unfold blen in *. change (pad8 4) with 4 in Hpd.
    split; [reflexivity|]. split; [rewrite app_length; lia|].
    replace 4%nat with (length (i_val it)) by lia. apply firstn_app_exact. }
  assert (F8: i_len it = 8 -> i_pad it = [] /\ length (i_val it) = 8%nat).
  { intros E. rewrite E in *. change (pad8 8) with 0 in Hpd. split; [apply blen_nil_inv; assumption|unfold blen in Hv; lia]. }
  destruct k.
  - (* KInt *) destruct (N.eqb_spec (i_len it) 4) as [E|]; [|discriminate]. injection Hp as <-.
    destruct (F4 E) as (b & Eb & Lb & Fb). rewrite E. rewrite expect_num_be by (cbn; lia). cbn [bind].
    rewrite (app_assoc (i_val it)), Eb. rewrite read_n_app by assumption. cbn [bind]. rewrite Fb. reflexivity.
  - (* KLong *) destruct (N.eqb_spec (i_len it) 8) as [E|]; [|discriminate]. injection Hp as <-.
    destruct (F8 E) as (Ep & Lb). rewrite E, Ep. rewrite expect_num_be by (cbn; lia). cbn [bind app].
    rewrite read_n_app by assumption. cbn [bind]. reflexivity.
  - (* KEnum *) destruct (N.eqb_spec (i_len it) 4) as [E|]; [|discriminate]. injection Hp as <-.
    destruct (F4 E) as (b & Eb & Lb & Fb). rewrite E. rewrite expect_num_be by (cbn; lia). cbn [bind].
    rewrite (app_assoc (i_val it)), Eb. rewrite read_n_app by assumption. cbn [bind]. rewrite Fb. reflexivity.
  - (* KBool *) destruct (N.eqb_spec (i_len it) 8) as [E|]; [|discriminate].
    destruct (F8 E) as (Ep & Lb). rewrite E, Ep. rewrite expect_num_be by (cbn; lia). cbn [bind app].
    rewrite read_n_app by assumption. cbn [bind].
    assert (U: unbe (i_val it) 0 <= 1) by (destruct (unbe (i_val it) 0) as [|[p|p|]]; try discriminate; lia).
    destruct (bool_item_complete _ Lb U) as (x & Z & S & Bx). rewrite Z, S.
    destruct (unbe (i_val it) 0) as [|[p|p|]] eqn:Eu; try discriminate; injection Hp as <-.
    + apply b2n_0 in Bx. subst x. reflexivity.
    + apply b2n_1 in Bx. subst x. reflexivity.
  - (* KBytes *) injection Hp as <-. rewrite read_num_be by (cbn; lia). cbn [bind].
    rewrite copy_nN_app by assumption. cbn [bind]. rewrite read_nN_app by assumption. cbn [bind]. rewrite N.add_assoc. reflexivity.
  - (* KStr *) injection Hp as <-. rewrite read_num_be by (cbn; lia). cbn [bind].
    rewrite copy_nN_app by assumption. cbn [bind]. rewrite read_nN_app by assumption. cbn [bind]. rewrite N.add_assoc. reflexivity.
  - (* KTime *) destruct (N.eqb_spec (i_len it) 8) as [E|]; [|discriminate]. injection Hp as <-.
    destruct (F8 E) as (Ep & Lb). rewrite E, Ep. rewrite expect_num_be by (cbn; lia). cbn [bind app].
    rewrite read_n_app by assumption. cbn [bind]. reflexivity.
  - (* KDur *) destruct (N.eqb_spec (i_len it) 4) as [E|]; [|discriminate]. injection Hp as <-.
    destruct (F4 E) as (b & Eb & Lb & Fb). rewrite E. rewrite expect_num_be by (cbn; lia). cbn [bind].
    rewrite (app_assoc (i_val it)), Eb. rewrite read_n_app by assumption. cbn [bind]. rewrite Fb. reflexivity.
Qed.

Lemma dec_skip_complete tag it tl st :
  item_wf it -> at_head it tl st -> (i_tag it = tag \/ tag = ANY_TAG) ->
  dec_skip tag st = Ok (i_size it, {| rest := tl; last := 0 |}).
Proof.
  intros Hw Hh Hc. unfold dec_skip. rewrite (expect_tag_head tag it tl st Hw Hh Hc). cbn [bind].
  destruct Hw as (Ht & Hy & Hl & Hv & Hpd). unfold body.
  rewrite read_n_app by apply be_length. cbn [bind]. rewrite read_num_be by (cbn; lia). cbn [bind rest last].
  assert (Hb: blen (i_val it ++ i_pad it) = padded (i_len it)) by (rewrite blen_app; unfold padded; lia).
  rewrite (app_assoc (i_val it)). rewrite <- Hb.
  destruct (N.leb_spec (blen (i_val it ++ i_pad it)) (blen ((i_val it ++ i_pad it) ++ tl))) as [_|Hx]; [|rewrite blen_app in Hx; lia].
  rewrite dropN_app. unfold i_size. rewrite Hb. reflexivity.
Qed.

(* ------------------------------------------------------------------ *)
(* completeness, the loop over the elements of a sequence              *)
(* ------------------------------------------------------------------ *)
Lemma vl_snoc_app acc v : vl_snoc acc v = vl_app acc (VCons v VNone).
Proof. induction acc as [|x acc IH]; cbn [vl_snoc vl_app]; congruence. Qed.

Lemma at_head_fresh it tl : item_wf it -> at_head it tl {| rest := raw it ++ tl; last := 0 |}.
Proof. intros _. split; [unfold lastok; cbn [last]; lia|reflexivity]. Qed.

Lemma slice_loop_complete (step : dstate -> dres (val * N * dstate)) (interp : item -> option val)
      (tag : N) (skip : bool) (explen : N) :
  explen < 2 ^ 32 -> tag <> 0 ->
  (forall e tl st, item_wf e -> at_head e tl st -> (i_tag e = tag \/ tag = ANY_TAG) ->
     (skip = false -> interp e <> None) ->
     exists v, step st = Ok (v, i_size e, {| rest := tl; last := 0 |}) /\ (skip = false -> interp e = Some v)) ->
  forall r it rest_items fuel dd actual nsum acc vs,
  Forall item_wf (it :: r ++ rest_items) ->
  Forall (fun e => i_tag e = tag) r ->
  (rest_items = [] \/ exists h rest', rest_items = h :: rest' /\ i_tag h <> tag /\ i_tag h <> 0) ->
  at_head it (flat_raw (r ++ rest_items)) dd ->
  (i_tag it = tag \/ tag = ANY_TAG) ->
  (skip = false -> map_opt interp (it :: r) = Some vs) ->
  explen = actual + blen (flat_raw (it :: r ++ rest_items)) ->
  (length r < fuel)%nat ->
  exists dd',
    slice_loop fuel step tag skip explen dd actual nsum acc =
      Ok ((if skip then acc else vl_app acc (vl_of_list vs)),
          actual + blen (flat_raw (it :: r)), nsum + blen (flat_raw (it :: r)), dd') /\
    lastok dd' /\ logical dd' = flat_raw rest_items.
Proof.
  intros Hexp Htz Hstep. induction r as [|e r IH]; intros it rest_items fuel dd actual nsum acc vs Hws Hall Hrest Hh Hc Hmap Hlen Hf.
  all: destruct fuel as [|f]; [cbn in Hf; lia|]; cbn [slice_loop].
  all: apply Forall_cons_iff in Hws; destruct Hws as [Hw Hws'].
  all: pose proof (raw_blen it Hw) as Hrb; pose proof (i_size_ge it) as Hsz.
  all: assert (Hne: skip = false -> interp it <> None)
         by (intros Hs; specialize (Hmap Hs); cbn [map_opt] in Hmap; destruct (interp it); [discriminate|discriminate]).
  all: destruct (Hstep it _ dd Hw Hh Hc Hne) as (v & Est & Hiv); rewrite Est; cbn [wrapped bind].
  all: rewrite flat_raw_cons, blen_app, Hrb in Hlen.
  all: rewrite N.mod_small by lia.
  - (* the last element *)
    cbn [app] in *. rewrite flat_raw_cons. cbn [flat_raw map concat] . rewrite app_nil_r, Hrb.
    assert (Hvs: skip = false -> vs = [v]).
    { intros Hs. specialize (Hmap Hs). cbn [map_opt] in Hmap. rewrite (Hiv Hs) in Hmap. congruence. }
    destruct Hrest as [ -> |(h & rest' & -> & Hne1 & Hnz)].
    + cbn [flat_raw map concat blen length] in Hlen. 
      destruct (N.leb_spec explen (actual + i_size it)) as [_|Hx]; [|cbn in Hlen; lia].
      exists {| rest := flat_raw []; last := 0 |}. split; [|split; [unfold lastok; cbn [last]; lia|reflexivity]].
      destruct skip; [reflexivity|]. rewrite (Hvs eq_refl). cbn [vl_of_list]. rewrite vl_snoc_app. reflexivity.
    + apply Forall_cons_iff in Hws'; destruct Hws' as [Hwh Hwr]. pose proof (raw_blen h Hwh) as Hrbh. pose proof (i_size_ge h).
      rewrite flat_raw_cons, blen_app, Hrbh in Hlen.
      destruct (N.leb_spec explen (actual + i_size it)) as [Hx|_]; [lia|].
      destruct (peek_head h (flat_raw rest') {| rest := flat_raw (h :: rest'); last := 0 |} Hwh Hnz (at_head_fresh h _ Hwh))
        as (dd2 & Ep & Hh2 & Edd2).
      rewrite Ep. cbn [bind]. destruct (N.eqb_spec (i_tag h) tag); [contradiction|].
      exists dd2. split; [|split; [apply Hh2|]].
      * destruct skip; [reflexivity|]. rewrite (Hvs eq_refl). cbn [vl_of_list]. rewrite vl_snoc_app. reflexivity.
      * destruct Hh2 as [_ Lg]. exact Lg.
  - (* more elements follow *)
    apply Forall_cons_iff in Hall; destruct Hall as [Het Hall'].
    pose proof Hws' as Hws2. apply Forall_cons_iff in Hws2; destruct Hws2 as [Hwe Hwr]. pose proof (raw_blen e Hwe) as Hrbe. pose proof (i_size_ge e).
    cbn [app] in *. rewrite (flat_raw_cons e), blen_app, Hrbe in Hlen.
    destruct (N.leb_spec explen (actual + i_size it)) as [Hx|_]; [lia|].
    assert (Hez: i_tag e <> 0) by (rewrite Het; assumption).
    destruct (peek_head e (flat_raw (r ++ rest_items)) {| rest := flat_raw (e :: r ++ rest_items); last := 0 |} Hwe Hez (at_head_fresh e _ Hwe))
      as (dd2 & Ep & Hh2 & Edd2).
    rewrite Ep. cbn [bind]. rewrite Het, N.eqb_refl.
    assert (Hmap': skip = false -> exists vs', vs = v :: vs' /\ map_opt interp (e :: r) = Some vs').
    { intros Hs. specialize (Hmap Hs). cbn [map_opt] in Hmap. rewrite (Hiv Hs) in Hmap.
      cbn [map_opt]. destruct (interp e); [|discriminate]. destruct (map_opt interp r); [|discriminate].
      injection Hmap as <-. eauto. }
    set (vs' := match vs with _ :: t => t | [] => [] end).
    destruct (IH e rest_items f dd2 (actual + i_size it) (nsum + i_size it) (if skip then acc else vl_snoc acc v) vs'
                Hws' Hall' Hrest Hh2 (or_introl Het))
      as (dd' & Esl & Hl' & Lg').
    + intros Hs. destruct (Hmap' Hs) as (vs0 & -> & E0). exact E0.
    + rewrite flat_raw_cons, blen_app, Hrbe. lia.
    + cbn [length] in Hf. lia.
    + exists dd'. split; [|split; assumption]. rewrite Esl.
      rewrite (flat_raw_cons it (e :: r)), blen_app, Hrb.
      rewrite !N.add_assoc. do 4 f_equal.
      destruct skip; [reflexivity|]. destruct (Hmap' eq_refl) as (vs0 & E0 & _). subst vs' vs. cbn [vl_of_list]. apply vl_app_snoc.
Qed.

(* ------------------------------------------------------------------ *)
(* completeness: what the specification accepts, the decoder accepts   *)
(* ------------------------------------------------------------------ *)
Definition Q_sch (s : sch) : Prop := forall a cur it tl st v,
  item_wf it -> at_head it tl st -> (i_tag it = fa_tag a \/ fa_tag a = ANY_TAG) ->
  interp_val s cur it = Some v ->
  dec_value s a st cur = Ok (v, i_size it, {| rest := tl; last := 0 |}).

Definition Q_fl (fl : flist) : Prop := forall i explen dd actual nsum cur its vs,
  Forall item_wf its -> match_fields fl i cur its = Some (vs, []) ->
  lastok dd -> logical dd = flat_raw its ->
  explen = actual + blen (flat_raw its) -> explen < 2 ^ 32 ->
  exists dd', dec_fields fl i explen dd actual nsum cur = Ok (vs, explen, nsum + blen (flat_raw its), dd').

Definition Q_cs (cs : dcases) : Prop := forall key a it tl st v,
  item_wf it -> at_head it tl st -> (i_tag it = fa_tag a \/ fa_tag a = ANY_TAG) ->
  interp_cases cs key it = Some v ->
  dec_cases cs key a st = Ok (v, i_size it, {| rest := tl; last := 0 |}).

(* an item with tag 000000 is never taken by any field *)
Lemma match_fields_tag0_all :
  (forall s : sch, True) /\
  (forall fl i cur it its vs l, i_tag it = 0 -> match_fields fl i cur (it :: its) = Some (vs, l) -> l = it :: its) /\
  (forall cs : dcases, True).
Proof.
  apply sch_mutind; try (intros; exact I).
  - intros i cur it its vs l Hz H. cbn [match_fields] in H. congruence.
  - intros a s _ r IH i cur it its vs l Hz H. cbn [match_fields] in H. unfold item_for in H. rewrite Hz in H.
    cbn [N.eqb negb andb] in H. destruct (fa_req a); [discriminate|]. exact (IH _ _ _ _ _ _ Hz H).
Qed.
Definition match_fields_tag0 := proj1 (proj2 match_fields_tag0_all).

Lemma complete_struct ty fl : Q_fl fl -> Q_sch (SStruct ty fl).
Proof.
  intros IH a cur it tl st v Hw Hh Hc Hv. cbn [interp_val] in Hv.
  destruct (N.eqb_spec (i_typ it) tc_structure) as [Ety|]; [|discriminate].
  destruct (split_items (i_val it)) as [its|] eqn:Es; [|discriminate].
  destruct (match_fields fl 0 (zeros_of fl) its) as [[vs [|? ?]]|] eqn:Em; try discriminate. injection Hv as <-.
  apply split_items_inv in Es. destruct Es as (Hws & Ev).
  cbn [dec_value]. rewrite (expect_tag_head (fa_tag a) it tl st Hw Hh Hc). cbn [bind].
  destruct Hw as (Ht & Hy & Hl & Hvl & Hpd).
  pose proof (flat_raw_mod8 its Hws) as M. rewrite <- Ev, Hvl in M.
  assert (P: pad8 (i_len it) = 0) by (unfold pad8; rewrite M; reflexivity).
  assert (Hpn: i_pad it = []) by (apply blen_nil_inv; congruence).
  unfold body. rewrite Ety, Hpn. cbn [app]. rewrite expect_num_be by (cbn; lia). cbn [bind].
  rewrite read_num_be by (cbn; lia). cbn [bind]. cbv zeta. cbn [rest last].
  rewrite <- Hvl. rewrite takeN_app, dropN_app.
  destruct (IH 0%nat (blen (i_val it)) {| rest := i_val it; last := 0 |} 0 0 (zeros_of fl) its vs Hws Em) as (dd' & Ed).
  - unfold lastok; cbn [last]; lia.
  - rewrite logical_fresh. exact Ev.
  - rewrite <- Ev. lia.
  - rewrite Hvl. assumption.
  - rewrite Ed. cbn [bind]. rewrite N.eqb_refl. unfold i_size, padded. rewrite P, <- Ev, Hvl. 
    do 3 f_equal. lia.
Qed.

Lemma span_tag_spec tag : forall l es rest, span_tag tag l = (es, rest) ->
  l = es ++ rest /\ Forall (fun e => i_tag e = tag) es /\
  (rest = [] \/ exists h rest', rest = h :: rest' /\ i_tag h <> tag).
Proof.
  induction l as [|e l IH]; intros es rest H; cbn [span_tag] in H.
  - injection H as <- <-. split; [reflexivity|]. split; [constructor|left; reflexivity].
  - destruct (N.eqb_spec (i_tag e) tag) as [E|E].
    + destruct (span_tag tag l) as [a b] eqn:Es. injection H as <- <-.
      destruct (IH a b eq_refl) as (-> & Ha & Hb). split; [reflexivity|]. split; [constructor; assumption|exact Hb].
    + injection H as <- <-. split; [reflexivity|]. split; [constructor|]. right. exists e, l. auto.
Qed.

Lemma logical_nil dd : logical dd = [] -> dd = {| rest := []; last := 0 |}.
Proof.
  destruct dd as [r l]. unfold logical; cbn [rest last]. destruct (N.eqb_spec l 0) as [->|_].
  - cbn [app]. intros ->. reflexivity.
  - intros H. apply (f_equal (@length byte)) in H. rewrite app_length, be_length in H. cbn in H. lia.
Qed.

Lemma complete_cons a s r : Q_sch s -> Q_fl r -> Q_fl (FCons a s r).
Proof.
  intros IHs IHr i explen dd actual nsum cur its vs Hws Hm Hl Lg Hlen Hexp.
  cbn [dec_fields].
  set (item := fun st : dstate =>
        if fa_skip a then (let* (n, st') := dec_skip (fa_tag a) st in Ok (VNil, n, st'))
        else dec_value s a st cur).
  assert (Hitem: forall e tl st, item_wf e -> at_head e tl st -> (i_tag e = fa_tag a \/ fa_tag a = ANY_TAG) ->
            (fa_skip a = false -> interp_val s cur e <> None) ->
            exists v, item st = Ok (v, i_size e, {| rest := tl; last := 0 |}) /\
                      (fa_skip a = false -> interp_val s cur e = Some v)).
  { intros e tl st Hwe Hhe Hce Hne. unfold item. destruct (fa_skip a).
    - exists VNil. rewrite (dec_skip_complete _ e tl st Hwe Hhe Hce). cbn [bind]. split; [reflexivity|discriminate].
    - destruct (interp_val s cur e) as [v|] eqn:Ev; [|exfalso; exact (Hne eq_refl eq_refl)].
      exists v. split; [|reflexivity]. exact (IHs a cur e tl st v Hwe Hhe Hce Ev). }
  destruct its as [|it its'].
  - (* no item left *)
    cbn [flat_raw map concat] in Lg. apply logical_nil in Lg. subst dd. cbn [peek_tag last rest N.eqb negb].
    change (peek_tag {| rest := []; last := 0 |}) with (@ErrEOF (N * dstate)).
    cbn [match_fields] in Hm. destruct (fa_req a); [discriminate|]. cbn [rest].
    exact (IHr _ _ _ _ _ _ _ _ Hws Hm Hl eq_refl Hlen Hexp).
  - apply Forall_cons_iff in Hws. destruct Hws as [Hw Hws'].
    pose proof (raw_blen it Hw) as Hrb. pose proof (i_size_ge it) as Hsz.
    rewrite flat_raw_cons in Lg. rewrite flat_raw_cons, blen_app, Hrb in Hlen. rewrite flat_raw_cons, blen_app, Hrb.
    destruct (N.eqb_spec (i_tag it) 0) as [Hz|Hz].
    { apply match_fields_tag0 in Hm; [discriminate|assumption]. }
    destruct (peek_head it (flat_raw its') dd Hw Hz (conj Hl Lg)) as (dd2 & Ep & Hh2 & Edd2). rewrite Ep.
    cbn [match_fields] in Hm. unfold item_for in Hm.
    replace (negb (i_tag it =? 0)) with true in Hm by (destruct (N.eqb_spec (i_tag it) 0); [contradiction|reflexivity]).
    cbn [andb] in Hm.
    destruct ((i_tag it =? fa_tag a) || (fa_tag a =? ANY_TAG)) eqn:Etag.
    + (* the item belongs to this field *)
      rewrite <- andb_assoc, <- negb_orb, Etag. cbn [negb]. rewrite andb_false_r.
      assert (Hc: i_tag it = fa_tag a \/ fa_tag a = ANY_TAG).
      { apply orb_prop in Etag. destruct Etag as [E|E]; apply N.eqb_eq in E; auto. }
      assert (Htz: fa_tag a <> 0) by (destruct Hc as [ <- | -> ]; [assumption|discriminate]).
      destruct (fa_slice a) eqn:Esl.
      * (* sequence *)
        destruct (span_tag (fa_tag a) its') as [es rest_items] eqn:Esp.
        destruct (span_tag_spec _ _ _ _ Esp) as (-> & Hall & Hrest).
        set (vs1 := match (if fa_skip a then None else map_opt (interp_val s cur) (it :: es)) with Some x => x | None => [] end).
        assert (Hm': match_fields r (S i) (vl_set i (VList (if fa_skip a then VNone else vl_app VNone (vl_of_list vs1))) cur) rest_items = Some (vs, [])
                     /\ (fa_skip a = false -> map_opt (interp_val s cur) (it :: es) = Some vs1)).
        { unfold vs1. destruct (fa_skip a); [split; [exact Hm|discriminate]|].
          destruct (map_opt (interp_val s cur) (it :: es)) as [x|]; [|discriminate]. split; [exact Hm|reflexivity]. }
        destruct Hm' as [Hm' Hmap].
        assert (Hrest': rest_items = [] \/ exists h rest', rest_items = h :: rest' /\ i_tag h <> fa_tag a /\ i_tag h <> 0).
        { destruct Hrest as [ -> |(h & rest' & -> & Hne)]; [left; reflexivity|]. right. exists h, rest'. split; [reflexivity|].
          split; [assumption|]. intros Hh0. apply match_fields_tag0 in Hm'; [discriminate|assumption]. }
        destruct (slice_loop_complete item (interp_val s cur) (fa_tag a) (fa_skip a) explen Hexp Htz Hitem
                    es it rest_items (S (length (rest dd2))) dd2 actual nsum VNone vs1)
          as (dd' & Esl' & Hl' & Lg').
        -- constructor; assumption.
        -- assumption.
        -- assumption.
        -- assumption.
        -- assumption.
        -- assumption.
        -- rewrite flat_raw_cons, blen_app, Hrb. assumption.
        -- rewrite Edd2. cbn [rest]. unfold body. rewrite !app_length.
           pose proof (flat_raw_len _ Hws'). rewrite app_length in H. lia.
        -- rewrite Esl'. cbn [bind].
           rewrite flat_raw_app, blen_app in Hlen. rewrite flat_raw_app, blen_app.
           rewrite (flat_raw_cons it es), blen_app, Hrb.
           apply Forall_app in Hws'. destruct Hws' as [_ Hwr].
           destruct (IHr (S i) explen dd' (actual + (i_size it + blen (flat_raw es))) (nsum + (i_size it + blen (flat_raw es)))
                       _ rest_items vs Hwr Hm' Hl' Lg') as (dd'' & Ed); [lia|assumption|].
           exists dd''. rewrite Ed. do 3 f_equal. lia.
      * (* single item *)
        assert (Hne: fa_skip a = false -> interp_val s cur it <> None).
        { intros Hs. rewrite Hs in Hm. destruct (interp_val s cur it); discriminate. }
        destruct (Hitem it (flat_raw its') dd2 Hw Hh2 Hc Hne) as (v & Ei & Hiv). unfold item in Ei. rewrite Ei. cbn [wrapped bind].
        rewrite N.mod_small by lia.
        assert (Hm': match_fields r (S i) (if fa_skip a then cur else vl_set i v cur) its' = Some (vs, [])).
        { destruct (fa_skip a); [exact Hm|]. rewrite (Hiv eq_refl) in Hm. exact Hm. }
        destruct (IHr (S i) explen {| rest := flat_raw its'; last := 0 |} (actual + i_size it) (nsum + i_size it)
                    _ its' vs Hws' Hm') as (dd'' & Ed).
        -- unfold lastok; cbn [last]; lia.
        -- reflexivity.
        -- lia.
        -- assumption.
        -- exists dd''. rewrite Ed. do 3 f_equal. lia.
    + (* the item belongs to a later field *)
      destruct (fa_req a) eqn:Ereq; [discriminate|]. cbn [negb andb].
      rewrite <- negb_orb, Etag. cbn [negb].
      destruct Hh2 as [Hl2 Lg2].
      destruct (IHr (S i) explen dd2 actual nsum cur (it :: its') vs) as (dd'' & Ed); try assumption.
      * constructor; assumption.
      * rewrite flat_raw_cons, blen_app, Hrb. assumption.
      * exists dd''. rewrite Ed. rewrite flat_raw_cons, blen_app, Hrb. reflexivity.
Qed.

Theorem decoder_complete :
  (forall s, Q_sch s) /\ (forall fl, Q_fl fl) /\ (forall cs, Q_cs cs).
Proof.
  apply sch_mutind.
  - (* SPrim *) intros k a cur it tl st v Hw Hh Hc Hv. cbn [dec_value]. cbn [interp_val] in Hv.
    exact (dec_prim_complete k (fa_tag a) it tl st v Hw Hh Hc Hv).
  - (* SStruct *) intros ty fl IH. apply complete_struct. exact IH.
  - (* SDyn *) intros holder ki cs IH a cur it tl st v Hw Hh Hc Hv. cbn [dec_value]. cbn [interp_val] in Hv.
    exact (IH _ a it tl st v Hw Hh Hc Hv).
  - (* FNil *) intros i explen dd actual nsum cur its vs Hws Hm Hl Lg Hlen Hexp.
    cbn [match_fields] in Hm. injection Hm as <- ->. cbn [dec_fields]. exists dd.
    cbn [flat_raw map concat] in *. change (blen (@nil byte)) with 0 in *. rewrite Hlen, !N.add_0_r. reflexivity.
  - (* FCons *) intros a s IHs r IHr. apply complete_cons; assumption.
  - (* DNil *) intros key a it tl st v _ _ _ H. discriminate.
  - (* DCase *) intros k s IHs r IHr key a it tl st v Hw Hh Hc Hv. cbn [dec_cases]. cbn [interp_cases] in Hv.
    destruct (key_matches k key).
    + exact (IHs a VNone it tl st v Hw Hh Hc Hv).
    + exact (IHr key a it tl st v Hw Hh Hc Hv).
Qed.

Theorem dec_top_complete ty tag fl bs v n :
  spec_decode ty tag fl bs = Some (v, n) ->
  dec_top ty tag fl {| rest := bs; last := 0 |} = Ok (v, n, {| rest := skipn (N.to_nat n) bs; last := 0 |}).
Proof.
  unfold spec_decode. intros H.
  destruct (N.ltb_spec (blen bs) 8) as [|H8]; [discriminate|].
  set (t := unbe (firstn 3 bs) 0) in *. set (len := unbe (firstn 4 (skipn 4 bs)) 0) in *.
  destruct (N.eqb_spec t tag) as [Et|]; [|discriminate]. cbn [negb] in H.
  destruct (N.ltb_spec (blen bs) (8 + len)) as [|Hfull]; [discriminate|].
  set (it0 := {| i_tag := t; i_typ := unbe (firstn 1 (skipn 3 bs)) 0; i_len := len;
                 i_val := firstn (N.to_nat len) (skipn 8 bs); i_pad := [] |}) in *.
  destruct (interp_val (SStruct ty fl) VNone it0) as [v0|] eqn:Ev; [|discriminate]. injection H as <- <-.
  (* the payload tiles, so the length is a multiple of 8 and the item has no padding *)
  assert (Hvl: blen (i_val it0) = len).
  { unfold it0, blen; cbn [i_val]. rewrite firstn_length, skipn_length. unfold blen in Hfull. lia. }
  assert (P: pad8 len = 0).
  { cbn [interp_val] in Ev. destruct (i_typ it0 =? tc_structure); [|discriminate].
    destruct (split_items (i_val it0)) as [its|] eqn:Es; [|discriminate].
    apply split_items_inv in Es. destruct Es as (Hws & Ev').
    pose proof (flat_raw_mod8 its Hws) as M. rewrite <- Ev', Hvl in M. unfold pad8. rewrite M. reflexivity. }
  assert (Hh: head_item bs = Some (it0, skipn (N.to_nat (8 + len)) bs)).
  { unfold head_item. destruct (N.ltb_spec (blen bs) 8); [lia|]. fold len. unfold padded. rewrite P, N.add_0_r.
    destruct (N.ltb_spec (blen bs) (8 + len)); [lia|]. reflexivity. }
  apply head_item_inv in Hh. destruct Hh as [Hw Hbs].
  assert (Hat: at_head it0 (skipn (N.to_nat (8 + len)) bs) {| rest := bs; last := 0 |}).
  { split; [unfold lastok; cbn [last]; lia|]. rewrite logical_fresh. exact Hbs. }
  unfold dec_top.
  rewrite (proj1 decoder_complete (SStruct ty fl) (top_attr tag) VNone it0 _ _ v0 Hw Hat (or_introl Et) Ev).
  unfold i_size, padded. cbn [i_len it0]. rewrite P, N.add_0_r. reflexivity.
Qed.

(* the two directions together *)
Theorem decoder_is_spec ty tag fl bs v n st' :
  tag <> ANY_TAG ->
  (dec_top ty tag fl {| rest := bs; last := 0 |} = Ok (v, n, st') <->
   spec_decode ty tag fl bs = Some (v, n) /\ st' = {| rest := skipn (N.to_nat n) bs; last := 0 |}).
Proof.
  intros Hany. split.
  - apply dec_top_sound. exact Hany.
  - intros [H ->]. apply dec_top_complete. exact H.
Qed.

(* the decoder rejects (with one of its two error classes) exactly what the specification rejects *)
Corollary decoder_rejects ty tag fl bs : tag <> ANY_TAG ->
  (spec_decode ty tag fl bs = None <->
   dec_top ty tag fl {| rest := bs; last := 0 |} = Err \/ dec_top ty tag fl {| rest := bs; last := 0 |} = ErrEOF).
Proof.
  intros Hany. split.
  - intros Hs. destruct (dec_top ty tag fl {| rest := bs; last := 0 |}) as [[[v n] st']| | |] eqn:E; auto.
    + apply dec_top_sound in E; [|assumption]. destruct E as [E _]. congruence.
    + exfalso. exact (dec_top_total _ _ _ _ E).
  - intros Hd. destruct (spec_decode ty tag fl bs) as [[v n]|] eqn:E; [|reflexivity].
    apply dec_top_complete in E. destruct Hd as [Hd|Hd]; congruence.
Qed.

(* no proper prefix of an accepted message is accepted *)
Corollary truncation_rejected ty tag fl bs v n k :
  tag <> ANY_TAG -> spec_decode ty tag fl bs = Some (v, n) -> (k < N.to_nat n)%nat ->
  spec_decode ty tag fl (firstn k bs) = None.
Proof.
  intros Hany H Hk. unfold spec_decode in *.
  destruct (N.ltb_spec (blen bs) 8) as [|H8]; [discriminate|].
  destruct (N.eqb_spec (unbe (firstn 3 bs) 0) tag) as [Et|]; [|discriminate]. cbn [negb] in H.
  destruct (N.ltb_spec (blen bs) (8 + unbe (firstn 4 (skipn 4 bs)) 0)) as [|Hfull]; [discriminate|].
  destruct (interp_val _ _ _); [|discriminate]. injection H as _ <-.
  destruct (N.ltb_spec (blen (firstn k bs)) 8) as [|H8']; [reflexivity|].
  assert (Hk8: (8 <= k)%nat) by (unfold blen in H8'; rewrite firstn_length in H8'; lia).
  assert (F3: firstn 3 (firstn k bs) = firstn 3 bs) by (rewrite firstn_firstn; f_equal; lia).
  assert (F4: firstn 4 (skipn 4 (firstn k bs)) = firstn 4 (skipn 4 bs)).
  { rewrite skipn_firstn_comm, firstn_firstn. f_equal. lia. }
  rewrite F3, F4, Et, N.eqb_refl. cbn [negb].
  destruct (N.ltb_spec (blen (firstn k bs)) (8 + unbe (firstn 4 (skipn 4 bs)) 0)) as [|Hx]; [reflexivity|].
  exfalso. unfold blen in Hx. rewrite firstn_length in Hx. lia.
Qed.
