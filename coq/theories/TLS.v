(* TLS.v - what DefaultServerTLSConfig / DefaultClientTLSConfig assign (regenerated from tls.go on
   every run) and a small specification of what crypto/tls does with those fields.  crypto/tls and
   crypto/x509 are specified here, not verified: the specification is validated against the real
   library over the entire finite peer space of C16 by the tls suite. *)
From Coq Require Import String.
From Coq Require Import List NArith Bool.
Import ListNotations.
Open Scope string_scope.
Open Scope N_scope.

(* crypto/tls constants as written in Go source *)
Definition tls_version (e : string) : option N :=
  if String.eqb e "tls.VersionTLS10" then Some 769
  else if String.eqb e "tls.VersionTLS11" then Some 770
  else if String.eqb e "tls.VersionTLS12" then Some 771
  else if String.eqb e "tls.VersionTLS13" then Some 772
  else if String.eqb e "tls.VersionSSL30" then Some 768
  else None.

Inductive client_auth := NoClientCert | RequestClientCert | RequireAnyClientCert | VerifyClientCertIfGiven | RequireAndVerifyClientCert.
Definition tls_client_auth (e : string) : option client_auth :=
  if String.eqb e "tls.NoClientCert" then Some NoClientCert
  else if String.eqb e "tls.RequestClientCert" then Some RequestClientCert
  else if String.eqb e "tls.RequireAnyClientCert" then Some RequireAnyClientCert
  else if String.eqb e "tls.VerifyClientCertIfGiven" then Some VerifyClientCertIfGiven
  else if String.eqb e "tls.RequireAndVerifyClientCert" then Some RequireAndVerifyClientCert
  else None.

Fixpoint assoc_s (k : string) (l : list (string * string)) : option string :=
  match l with [] => None | (k', v) :: r => if String.eqb k k' then Some v else assoc_s k r end.

(* a tls.Config as far as the property is concerned; the zero value of crypto/tls: MinVersion 0
   means TLS 1.0 for servers (TLS 1.2 for clients since Go 1.18), ClientAuth NoClientCert,
   InsecureSkipVerify false *)
Record tlscfg := { min_version : N; cauth : client_auth; insecure_skip_verify : bool }.

(* apply the assignments of a Default*TLSConfig function to a config; None if an assignment is not understood *)
Fixpoint apply_assignments (l : list (string * string)) (c : tlscfg) : option tlscfg :=
  match l with
  | [] => Some c
  | (f, e) :: r =>
      if String.eqb f "MinVersion" then
        match tls_version e with
        | Some v => apply_assignments r {| min_version := v; cauth := cauth c; insecure_skip_verify := insecure_skip_verify c |}
        | None => None end
      else if String.eqb f "ClientAuth" then
        match tls_client_auth e with
        | Some a => apply_assignments r {| min_version := min_version c; cauth := a; insecure_skip_verify := insecure_skip_verify c |}
        | None => None end
      else if String.eqb f "InsecureSkipVerify" then
        if String.eqb e "false" then apply_assignments r {| min_version := min_version c; cauth := cauth c; insecure_skip_verify := false |}
        else if String.eqb e "true" then apply_assignments r {| min_version := min_version c; cauth := cauth c; insecure_skip_verify := true |}
        else None
      else if String.eqb f "PreferServerCipherSuites" then apply_assignments r c    (* no effect on who is cleared *)
      else None      (* any other field (ClientCAs, VerifyPeerCertificate, MaxVersion, ...) is not understood: the theorem must not be claimed *)
  end.

Definition zero_server_cfg : tlscfg := {| min_version := 769; cauth := NoClientCert; insecure_skip_verify := false |}.
Definition zero_client_cfg : tlscfg := {| min_version := 771; cauth := NoClientCert; insecure_skip_verify := false |}.

(* ---------- peers ---------- *)
Inductive cert_kind := CertNone | CertValid | CertSelfSigned | CertOtherCA | CertExpired | CertWrongHost.

Record peer := { max_version : N; cert : cert_kind; plaintext : bool }.

(* chains to the verifier's pool and is within its validity period *)
Definition cert_verifies (k : cert_kind) : bool :=
  match k with CertValid | CertWrongHost => true | _ => false end.

(* what crypto/tls does: server side *)
Definition server_handshake_ok (c : tlscfg) (p : peer) : bool :=
  negb (plaintext p) &&
  (min_version c <=? N.min (max_version p) 772) &&
  match cauth c with
  | NoClientCert | RequestClientCert => true
  | RequireAnyClientCert => match cert p with CertNone => false | _ => true end
  | VerifyClientCertIfGiven => match cert p with CertNone => true | k => cert_verifies k end
  | RequireAndVerifyClientCert => cert_verifies (cert p)          (* host names are not checked for client certificates *)
  end.

(* client side: the server's certificate must verify against RootCAs and match ServerName *)
Definition client_handshake_ok (c : tlscfg) (p : peer) : bool :=
  negb (plaintext p) &&
  (min_version c <=? N.min (max_version p) 772) &&
  (insecure_skip_verify c || match cert p with CertValid => true | _ => false end).
