(* ClientProofs.v - C14 *)
From Coq Require Import String.
From Coq Require Import List NArith ZArith Bool.
Require Import Bytes Schema Codec Session Client.
Import ListNotations.
Open Scope N_scope.

Section P.
  Variable T : tyenv.
  Variable K : sconsts.

  (* when exactly a payload is returned *)
  Definition good_reply (op : N) (resp : val) (p : val) : Prop :=
    get_field T (get_field T resp "Header") "BatchCount" = VInt 1 /\
    exists item, get_field T resp "BatchItems" = VList (VCons item VNone) /\
      get_field T item "Operation" = VEnum op /\
      get_field T item "ResultStatus" = VEnum (k_success K) /\
      get_field T item "ResponsePayload" = p.

  Lemma judge_payload op resp p : judge T K op resp = SPayload p <-> good_reply op resp p.
  Proof.
    unfold judge, good_reply. split.
    - destruct (get_field T (get_field T resp "Header") "BatchCount") as [z| | | | | | | | | | | |]; try discriminate.
      destruct z as [|[| |]|]; try discriminate.
      destruct (get_field T resp "BatchItems") as [| | | | | | | | |l| | |]; try discriminate.
      destruct l as [|item [|? ?]]; try discriminate.
      destruct (get_field T item "Operation") as [| |o| | | | | | | | | |] eqn:Ho; try discriminate.
      destruct (N.eqb_spec o op) as [->|]; [|discriminate].
      destruct (get_field T item "ResultStatus") as [| |st| | | | | | | | | |] eqn:Hs; try discriminate.
      destruct (N.eqb_spec st (k_success K)) as [->|]; [|discriminate].
      intros H; injection H as <-. split; [reflexivity|]. exists item. auto.
    - intros [Hc [item [Hi [Ho [Hs Hp]]]]]. rewrite Hc, Hi, Ho, N.eqb_refl, Hs, N.eqb_refl, Hp. reflexivity.
  Qed.

  (* a server error is reported exactly for a well-formed single-item reply whose status is not Success *)
  Lemma judge_server_error op resp r m : judge T K op resp = SServerError r m ->
    get_field T (get_field T resp "Header") "BatchCount" = VInt 1 /\
    exists item st, get_field T resp "BatchItems" = VList (VCons item VNone) /\
      get_field T item "Operation" = VEnum op /\ get_field T item "ResultStatus" = VEnum st /\ st <> k_success K /\
      r = match get_field T item "ResultReason" with VEnum x => x | _ => 0 end /\
      m = match get_field T item "ResultMessage" with VStr x => x | _ => nil end.
  Proof.
    unfold judge.
    destruct (get_field T (get_field T resp "Header") "BatchCount") as [z| | | | | | | | | | | |]; try discriminate.
    destruct z as [|[| |]|]; try discriminate.
    destruct (get_field T resp "BatchItems") as [| | | | | | | | |l| | |]; try discriminate.
    destruct l as [|item [|? ?]]; try discriminate.
    destruct (get_field T item "Operation") as [| |o| | | | | | | | | |] eqn:Ho; try discriminate.
    destruct (N.eqb_spec o op) as [->|]; [|discriminate].
    destruct (get_field T item "ResultStatus") as [| |st| | | | | | | | | |] eqn:Hs; try discriminate.
    destruct (N.eqb_spec st (k_success K)) as [->|Hne]; [discriminate|].
    intros H; injection H as <- <-. split; [reflexivity|]. exists item, st. repeat split; auto.
  Qed.

  (* Send: for EVERY reply byte string; a payload only for a matching successful reply *)
  Theorem send_payload c op payload reply p :
    snd (send T K c op payload reply) = SPayload p ->
    cc_connected c = true /\
    exists tag fl resp n st', T "Response" = Some (tag, fl) /\
      dec_top "Response" tag fl {| rest := reply; last := 0 |} = Ok (resp, n, st') /\ good_reply op resp p.
  Proof.
    unfold send. destruct (cc_connected c); cbn [negb]; [|discriminate].
    destruct (enc_top T (VPtr (build_request T c op payload))); [|discriminate].
    destruct (T "Response") as [[tag fl]|] eqn:HT; [|discriminate].
    destruct (dec_top "Response" tag fl {| rest := reply; last := 0 |}) as [[[resp n] st']| | |] eqn:Hd; try discriminate.
    cbn [snd]. intros H. apply judge_payload in H. split; [reflexivity|]. exists tag, fl, resp, n, st'. auto.
  Qed.

  Theorem send_not_connected c op payload reply :
    cc_connected c = false -> send T K c op payload reply = (nil, SError).
  Proof. intros H. unfold send. rewrite H. reflexivity. Qed.

  (* an unencodable payload: error, and nothing is sent *)
  Theorem send_unencodable c op payload reply :
    cc_connected c = true -> enc_top T (VPtr (build_request T c op payload)) = None ->
    snd (send T K c op payload reply) = SError /\
    forall b, ~ In (CSent b) (fst (send T K c op payload reply)).
  Proof.
    intros Hc He. unfold send. rewrite Hc, He. cbn [negb fst snd]. split; [reflexivity|].
    intros b Hin. destruct (cc_write_to c); cbn in Hin; intuition discriminate.
  Qed.

  (* deadlines: armed iff configured, write before the request, read before the reply *)
  Theorem send_arms c op payload reply b :
    In (CSent b) (fst (send T K c op payload reply)) ->
    fst (send T K c op payload reply) =
      (if cc_write_to c then [CArmWrite] else []) ++ [CSent b] ++ (if cc_read_to c then [CArmRead] else []).
  Proof.
    unfold send. destruct (cc_connected c); cbn [negb]; [|intros []].
    destruct (enc_top T (VPtr (build_request T c op payload))) as [b0|].
    2:{ cbn [fst]. intros Hin. destruct (cc_write_to c); cbn in Hin; intuition discriminate. }
    assert (Hev: forall r, fst ((if cc_write_to c then [CArmWrite] else []) ++ [CSent b0] ++ (if cc_read_to c then [CArmRead] else []), r : send_result)
                 = (if cc_write_to c then [CArmWrite] else []) ++ [CSent b0] ++ (if cc_read_to c then [CArmRead] else [])) by reflexivity.
    destruct (T "Response") as [[tag fl]|];
      [destruct (dec_top "Response" tag fl {| rest := reply; last := 0 |}) as [[[resp n] st']| | |]|]; cbn [fst].
    all: intros Hin; apply in_app_or in Hin; destruct Hin as [Hin|Hin];
      [destruct (cc_write_to c); cbn in Hin; intuition discriminate|].
    all: cbn in Hin; destruct Hin as [E|Hin]; [injection E as ->; reflexivity|].
    all: destruct (cc_read_to c); cbn in Hin; intuition discriminate.
  Qed.

  (* DiscoverVersions is total and returns versions only from a Discover Versions Response payload *)
  Theorem discover_versions_versions c offer reply vs :
    snd (discover_versions T K c offer reply) = DVVersions vs ->
    exists fs, snd (send T K c (k_discover_versions K)
                      (set_field T (zero_struct T "DiscoverVersionsRequest") "ProtocolVersions"
                                 (VList (vl_of_list (map (version_val T) offer)))) reply)
               = SPayload (VStruct "DiscoverVersionsResponse" fs).
  Proof.
    unfold discover_versions.
    destruct (send T K c (k_discover_versions K) _ reply) as [evs r]. cbn [snd].
    destruct r as [p| |]; try discriminate.
    destruct p; try discriminate.
    destruct (String.eqb_spec ty "DiscoverVersionsResponse") as [->|Hne]; [|discriminate].
    intros _. eauto.
  Qed.
End P.

(* ---------- life cycle ---------- *)
Definition clife_inv (s : clife) : Prop := has_conn s = true -> has_codec s = true.

Lemma clife_step_inv s o : clife_inv s -> clife_inv (fst (clife_step s o)).
Proof. unfold clife_inv. destruct o as [[|]| |]; cbn; intros H; try discriminate; auto. Qed.

Lemma clife_step_no_panic s o : clife_inv s -> snd (clife_step s o) <> LPanic.
Proof.
  unfold clife_inv. destruct o as [[|]| |]; cbn; intros H; try discriminate.
  destruct (has_conn s); cbn; [rewrite H by reflexivity|]; discriminate.
Qed.

Lemma clife_run_no_panic ops : forall s, clife_inv s -> ~ In LPanic (clife_run s ops).
Proof.
  induction ops as [|o r IH]; intros s Hi; cbn [clife_run]; [intros []|].
  destruct (clife_step s o) as [s' x] eqn:E. intros [Hx|Hin].
  - apply (clife_step_no_panic s o Hi). rewrite E. exact Hx.
  - apply (IH s'); [|exact Hin]. pose proof (clife_step_inv s o Hi) as H'. rewrite E in H'. exact H'.
Qed.

(* "connected" as the user sees it: the last Connect / Close on this client was a successful Connect *)
Fixpoint connected_after (c : bool) (ops : list cop) : bool :=
  match ops with
  | [] => c
  | CConnect Connects :: r => connected_after true r
  | CConnect DialFails :: r | CClose :: r => connected_after false r
  | CSend :: r => connected_after c r
  end.

Lemma clife_run_app s a b : clife_run s (a ++ b) =
  clife_run s a ++ clife_run (fold_left (fun st o => fst (clife_step st o)) a s) b.
Proof.
  revert s. induction a as [|o r IH]; intros s; cbn [app clife_run fold_left]; [reflexivity|].
  destruct (clife_step s o) as [s' x] eqn:E. cbn [fst]. rewrite IH. reflexivity.
Qed.

Lemma clife_state_after ops : forall s,
  has_conn (fold_left (fun st o => fst (clife_step st o)) ops s) = connected_after (has_conn s) ops.
Proof.
  induction ops as [|o r IH]; intros s; cbn [fold_left connected_after]; [reflexivity|].
  rewrite IH. destruct o as [[|]| |]; reflexivity.
Qed.

(* a Send after any history: "not connected" error iff not connected, otherwise the exchange - never a panic *)
Lemma clife_send_after ops :
  clife_run clife0 (ops ++ [CSend]) =
  clife_run clife0 ops ++ [if connected_after false ops then LExchange else LErr].
Proof.
  rewrite clife_run_app. f_equal. cbn [clife_run clife_step].
  set (s := fold_left _ ops clife0).
  assert (Hc: has_conn s = connected_after false ops) by (unfold s; rewrite clife_state_after; reflexivity).
  assert (Hi: clife_inv s).
  { unfold s. clear. generalize clife0 (ltac:(unfold clife_inv; cbn; discriminate) : clife_inv clife0).
    induction ops as [|o r IH]; intros s0 H0; cbn [fold_left]; [exact H0|]. apply IH. apply clife_step_inv. exact H0. }
  rewrite <- Hc. unfold clife_inv in Hi. destruct (has_conn s); cbn; [rewrite Hi by reflexivity|]; reflexivity.
Qed.

