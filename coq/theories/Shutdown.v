(* Shutdown.v - interleaving semantics of Serve's accept loop, Shutdown, the wait-group waiter and
   the sessions (server.go).  Each label is one synchronisation-relevant statement; critical
   sections of the mutex are single steps.  [step fixed] is the tree after the "fix:" commit
   (registerSession: done-check and wg.Add in one critical section); [step false] is the pinned
   tree (wg.Add unconditional), kept for the regression witness. *)
From Coq Require Import List ZArith Bool Arith.
Import ListNotations.

Inductive sstate :=
| SNone          (* not handed to a session (yet) *)
| SRegistered    (* wg.Add(1) done, goroutine not yet started *)
| SRunning       (* serve() running: callbacks / handlers may run *)
| SInFlight      (* serve() running, a request has been read and its handler has not returned yet *)
| SClosed        (* serve() returning: conn.Close() done, wg.Done() pending *)
| SEnded         (* wg.Done() done *)
| SLateClosed.   (* accepted too late: closed by Serve, never served *)

Inductive result := RNil | RErr | RCtx.

Inductive apc := ANotStarted | AAccepting | AHasConn (c : nat) | ASpawn (c : nat) | AReturned (r : result).
Inductive spc := SNotCalled | SDoneClosed | SLisClosed | SWaiting | SReturned (r : result).
Inductive wpc := WNotStarted | WWaiting | WWoken | WSignalled.

Record st := {
  done : bool;              (* doneChan closed *)
  lis_closed : bool;
  backlog : list nat;       (* connections waiting in the listener *)
  sess : list sstate;       (* by connection id *)
  wg : Z;                   (* WaitGroup counter *)
  a_pc : apc; s_pc : spc; w_pc : wpc;
  ctx_expired : bool;
  answered : list nat       (* one entry per response written: the connection it was written on *)
}.

Definition init : st :=
  {| done := false; lis_closed := false; backlog := []; sess := []; wg := 0;
     a_pc := ANotStarted; s_pc := SNotCalled; w_pc := WNotStarted; ctx_expired := false; answered := [] |}.

Inductive label :=
| LServeStart              (* Serve is called: lock; s.l = l; defaults; unlock; close(initializedCh) *)
| LConnect                 (* environment: a client connects *)
| LAcceptDequeue           (* acceptor: Accept returns the head of the backlog *)
| LAcceptFail              (* acceptor: Accept fails because the listener is closed *)
| LRegister                (* acceptor: registerSession() *)
| LSpawn                   (* acceptor: go s.serve(conn) *)
| LReqStart (c : nat)      (* session c: a request has been decoded, its handler is entered *)
| LReqEnd (c : nat)        (* session c: the handler returned and the response has been written *)
| LSessClose (c : nat)     (* session c: conn.Close()  (peer gone, error, ...) *)
| LSessDone (c : nat)      (* session c: wg.Done() *)
| LShCloseDone             (* Shutdown: close(doneChan) *)
| LShCloseListener         (* Shutdown: lock; l.Close(); unlock *)
| LShStartWaiter           (* Shutdown: go func(){ wg.Wait(); close(waitGroupDone) }() *)
| LShSelectCtx             (* Shutdown: select takes <-ctx.Done() *)
| LShSelectDone            (* Shutdown: select takes <-waitGroupDone *)
| LWaitReturn              (* waiter: wg.Wait() returns *)
| LWaitSignal              (* waiter: close(waitGroupDone) *)
| LCtxExpire.              (* environment: the context ends *)

Fixpoint upd {A} (i : nat) (x : A) (l : list A) : list A :=
  match l, i with
  | [], _ => []
  | _ :: r, O => x :: r
  | y :: r, S j => y :: upd j x r
  end.

Definition sget (s : st) (c : nat) : sstate := nth c (sess s) SNone.

Definition set_sess (s : st) (x : list sstate) : st :=
  {| done := done s; lis_closed := lis_closed s; backlog := backlog s; sess := x; wg := wg s;
     a_pc := a_pc s; s_pc := s_pc s; w_pc := w_pc s; ctx_expired := ctx_expired s; answered := answered s |}.
Definition set_a (s : st) (x : apc) : st :=
  {| done := done s; lis_closed := lis_closed s; backlog := backlog s; sess := sess s; wg := wg s;
     a_pc := x; s_pc := s_pc s; w_pc := w_pc s; ctx_expired := ctx_expired s; answered := answered s |}.
Definition set_s (s : st) (x : spc) : st :=
  {| done := done s; lis_closed := lis_closed s; backlog := backlog s; sess := sess s; wg := wg s;
     a_pc := a_pc s; s_pc := x; w_pc := w_pc s; ctx_expired := ctx_expired s; answered := answered s |}.
Definition set_w (s : st) (x : wpc) : st :=
  {| done := done s; lis_closed := lis_closed s; backlog := backlog s; sess := sess s; wg := wg s;
     a_pc := a_pc s; s_pc := s_pc s; w_pc := x; ctx_expired := ctx_expired s; answered := answered s |}.
Definition set_wg (s : st) (x : Z) : st :=
  {| done := done s; lis_closed := lis_closed s; backlog := backlog s; sess := sess s; wg := x;
     a_pc := a_pc s; s_pc := s_pc s; w_pc := w_pc s; ctx_expired := ctx_expired s; answered := answered s |}.

Definition step (fixed : bool) (s : st) (l : label) : option st :=
  match l with
  | LServeStart =>
      match a_pc s with
      | ANotStarted =>
          (* Shutdown already called: nothing is accepted; the deferred l.Close() closes the listener, Serve returns nil *)
          if done s
          then Some {| done := done s; lis_closed := true; backlog := backlog s; sess := sess s; wg := wg s;
                       a_pc := AReturned RNil; s_pc := s_pc s; w_pc := w_pc s; ctx_expired := ctx_expired s;
                       answered := answered s |}
          else Some (set_a s AAccepting)
      | _ => None
      end
  | LConnect =>
      if lis_closed s then None
      else Some {| done := done s; lis_closed := false; backlog := backlog s ++ [length (sess s)];
                   sess := sess s ++ [SNone]; wg := wg s; a_pc := a_pc s; s_pc := s_pc s; w_pc := w_pc s;
                   ctx_expired := ctx_expired s; answered := answered s |}
  | LAcceptDequeue =>
      match a_pc s, backlog s, lis_closed s with
      | AAccepting, c :: r, false =>
          Some {| done := done s; lis_closed := false; backlog := r; sess := sess s; wg := wg s;
                  a_pc := AHasConn c; s_pc := s_pc s; w_pc := w_pc s; ctx_expired := ctx_expired s; answered := answered s |}
      | _, _, _ => None
      end
  | LAcceptFail =>
      match a_pc s, lis_closed s with
      | AAccepting, true => Some (set_a s (AReturned (if done s then RNil else RErr)))
      | _, _ => None
      end
  | LRegister =>
      match a_pc s with
      | AHasConn c =>
          if negb (match sget s c with SNone => true | _ => false end) then None   (* every accepted connection is a new one *)
          else if fixed && done s
          then Some (set_a (set_sess s (upd c SLateClosed (sess s))) (AReturned RNil))   (* conn.Close(); return nil *)
          else Some (set_a (set_wg (set_sess s (upd c SRegistered (sess s))) (wg s + 1)) (ASpawn c))
      | _ => None
      end
  | LSpawn =>
      match a_pc s with
      | ASpawn c => Some (set_a (set_sess s (upd c SRunning (sess s))) AAccepting)
      | _ => None
      end
  | LReqStart c =>
      match sget s c with
      | SRunning => Some (set_sess s (upd c SInFlight (sess s)))
      | _ => None
      end
  | LReqEnd c =>
      match sget s c with
      | SInFlight =>
          Some {| done := done s; lis_closed := lis_closed s; backlog := backlog s; sess := upd c SRunning (sess s);
                  wg := wg s; a_pc := a_pc s; s_pc := s_pc s; w_pc := w_pc s; ctx_expired := ctx_expired s;
                  answered := answered s ++ [c] |}
      | _ => None
      end
  | LSessClose c =>
      match sget s c with
      | SRunning => Some (set_sess s (upd c SClosed (sess s)))
      | _ => None
      end
  | LSessDone c =>
      match sget s c with
      | SClosed => Some (set_wg (set_sess s (upd c SEnded (sess s))) (wg s - 1))
      | _ => None
      end
  | LShCloseDone =>
      match s_pc s with
      | SNotCalled =>
          Some {| done := true; lis_closed := lis_closed s; backlog := backlog s; sess := sess s; wg := wg s;
                  a_pc := a_pc s; s_pc := SDoneClosed; w_pc := w_pc s; ctx_expired := ctx_expired s; answered := answered s |}
      | _ => None
      end
  | LShCloseListener =>
      match s_pc s with
      | SDoneClosed =>
          (* if s.l != nil { s.l.Close() }: before Serve has stored the listener there is nothing to close *)
          Some {| done := done s; lis_closed := match a_pc s with ANotStarted => lis_closed s | _ => true end;
                  backlog := backlog s; sess := sess s; wg := wg s;
                  a_pc := a_pc s; s_pc := SLisClosed; w_pc := w_pc s; ctx_expired := ctx_expired s; answered := answered s |}
      | _ => None
      end
  | LShStartWaiter =>
      match s_pc s with
      | SLisClosed => Some (set_w (set_s s SWaiting) WWaiting)
      | _ => None
      end
  | LShSelectCtx =>
      match s_pc s with
      | SWaiting => if ctx_expired s then Some (set_s s (SReturned RCtx)) else None
      | _ => None
      end
  | LShSelectDone =>
      match s_pc s, w_pc s with
      | SWaiting, WSignalled => Some (set_s s (SReturned RNil))
      | _, _ => None
      end
  | LWaitReturn =>
      match w_pc s with
      | WWaiting => if (wg s =? 0)%Z then Some (set_w s WWoken) else None
      | _ => None
      end
  | LWaitSignal =>
      match w_pc s with
      | WWoken => Some (set_w s WSignalled)
      | _ => None
      end
  | LCtxExpire =>
      Some {| done := done s; lis_closed := lis_closed s; backlog := backlog s; sess := sess s; wg := wg s;
              a_pc := a_pc s; s_pc := s_pc s; w_pc := w_pc s; ctx_expired := true; answered := answered s |}
  end.

(* run a schedule; labels that are not enabled are skipped (so every label list is a schedule) *)
Fixpoint run (fixed : bool) (ls : list label) (s : st) : st :=
  match ls with
  | [] => s
  | l :: r => run fixed r (match step fixed s l with Some s' => s' | None => s end)
  end.

Definition reachable (fixed : bool) (s : st) : Prop := exists ls, s = run fixed ls init.

Definition active (x : sstate) : bool :=
  match x with SRegistered | SRunning | SInFlight | SClosed => true | _ => false end.

(* the steps the scheduler may still take on its own once the environment is quiet: waiter and select *)
Definition internal_labels : list label := [LWaitReturn; LWaitSignal; LShSelectDone; LShSelectCtx; LAcceptFail].
