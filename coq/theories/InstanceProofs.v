(* InstanceProofs.v - facts about the regenerated instance, by vm_compute (re-checked every run) *)
From Coq Require Import String.
From Coq Require Import List NArith ZArith Bool.
Require Import Bytes Schema Fields Codec CodecRT SchemaCheck Session SessionProofs Generated Instance.
Import ListNotations.

Lemma inst_env_ok : env_ok_b inst_T = true.
Proof. vm_compute. reflexivity. Qed.

Lemma inst_request_top : exists tag fl, request_top inst_T = Some (tag, fl).
Proof. vm_compute. eauto. Qed.

(* the protocol constants server.go uses, as consts.go declares them *)
Lemma inst_K_values :
  k_success inst_K = 0%N /\ k_failed inst_K = 1%N /\ k_general_failure inst_K = 256%N /\
  k_not_supported inst_K = 5%N /\ k_invalid_message inst_K = 4%N /\ k_discover_versions inst_K = 30%N.
Proof. vm_compute. repeat split; reflexivity. Qed.

(* the schema regenerated from /repo satisfies the conditions of the round-trip theorem: in every
   structure type the wire tags are proper and pairwise distinct, an any-tag field is last, optional
   and skipped, every dynamic field is discriminated by an earlier Enumeration / Text String sibling,
   and every dispatch target is a primitive or a known structure type *)
Lemma inst_table_ok : table_ok_b the_type_table = true.
Proof. vm_compute. reflexivity. Qed.

Lemma inst_codec_env_ok : env_ok inst_T.
Proof. exact (table_env_ok the_type_table inst_table_ok). Qed.

Definition request_tag : N := 4325496.    (* 0x420078 Request Message *)
Definition response_tag : N := 4325499.   (* 0x42007B Response Message *)

Lemma inst_request_type : exists fl, inst_T "Request" = Some (request_tag, fl).
Proof. vm_compute. eexists. reflexivity. Qed.

Lemma inst_response_type : exists fl, inst_T "Response" = Some (response_tag, fl).
Proof. vm_compute. eexists. reflexivity. Qed.

Lemma message_tags_ok : tag_ok request_tag /\ tag_ok response_tag.
Proof. split; apply tag_ok_b_sound; vm_compute; reflexivity. Qed.

(* ---------- the hypotheses of the round-trip theorem are satisfiable (non-vacuity) ---------- *)
Definition request_fl : flist :=
  Eval vm_compute in match inst_T "Request" with Some (_, fl) => fl | None => FNil end.

Lemma request_fl_ok : inst_T "Request" = Some (request_tag, request_fl).
Proof. vm_compute. reflexivity. Qed.

(* a Create request: version 1.4, one batch item with unique id, operation Create whose payload is
   dispatched on the operation, a template attribute holding an attribute whose value is dispatched on
   its name (an Enumeration), an Integer attribute, and a Name structure attribute held through a pointer *)
Definition golden_request : val :=
  let sf := set_field inst_T in
  let zs := zero_struct inst_T in
  let attr n v := sf (sf (zs "Attribute") "Name" (VStr (bytes_of_string n))) "Value" v in
  let name := sf (sf (zs "Name") "Value" (VStr (bytes_of_string "key-1"))) "Type" (VEnum 1) in
  let ta := sf (zs "TemplateAttribute") "Attributes"
               (VList (VCons (attr "Cryptographic Algorithm" (VEnum 3))
                      (VCons (attr "Cryptographic Length" (VInt 256))
                      (VCons (attr "Name" (VPtr name)) VNone)))) in
  let payload := sf (sf (zs "CreateRequest") "ObjectType" (VEnum 2)) "TemplateAttribute" ta in
  let item := sf (sf (sf (zs "RequestBatchItem") "Operation" (VEnum 1)) "UniqueID" (VBytes (bytes_of_string "id-0")))
                 "RequestPayload" (VPtr payload) in
  let ver := sf (sf (zs "ProtocolVersion") "Major" (VInt 1)) "Minor" (VInt 4) in
  let hdr := sf (sf (sf (zs "RequestHeader") "Version" ver) "ClientCorrelationValue" (VStr (bytes_of_string "ccv")))
                "BatchCount" (VInt 1) in
  sf (sf (zs "Request") "Header" hdr) "BatchItems" (VList (VCons item VNone)).

Definition golden_fields : vlist :=
  Eval vm_compute in match golden_request with VStruct _ vs => vs | _ => VNone end.

Example golden_request_wf : wf inst_T (SStruct "Request" request_fl) VNil (VStruct "Request" golden_fields).
Proof. apply wf_b_wf. vm_compute. reflexivity. Qed.

Example golden_request_encodes : exists b, inst_enc_top (VStruct "Request" golden_fields) = Some b /\ (64 <= blen b)%N.
Proof. vm_compute. eexists. split; [reflexivity|discriminate]. Qed.

(* the theorem applied to it: non-vacuous *)
Example golden_request_roundtrips : exists b,
  inst_enc_top (VStruct "Request" golden_fields) = Some b /\
  dec_top "Request" request_tag request_fl {| rest := b; last := 0 |}
  = Ok (VStruct "Request" (normalize_fields inst_T request_fl golden_fields), blen b, {| rest := []; last := 0 |}).
Proof.
  destruct golden_request_encodes as [b [He _]]. exists b. split; [exact He|].
  pose proof (roundtrip_top inst_T inst_codec_env_ok "Request" request_tag request_fl golden_fields b []
                request_fl_ok (proj1 message_tags_ok) golden_request_wf He) as H.
  rewrite app_nil_r in H. exact H.
Qed.

(* the computable hypothesis of C01 for a top-level value, for the correspondence driver *)
Definition inst_wf_b (v : val) : bool :=
  match v with
  | VStruct ty vs | VPtr (VStruct ty vs) =>
      match inst_T ty with
      | Some (tag, fl) => tag_ok_b tag && wf_b inst_T (SStruct ty fl) VNil (VStruct ty vs)
      | None => false
      end
  | _ => false
  end.

(* ---------- C04 on the regenerated instance ---------- *)
Require Import Denote DenoteProofs.
From Coq Require Import Lia.

Lemma tassoc_in k (l : list (string * (N * flist))) v : tassoc k l = Some v -> In (k, v) l.
Proof.
  induction l as [|[k' v'] l IH]; cbn [tassoc]; [discriminate|].
  destruct (String.eqb_spec k k') as [->|_].
  - intros H; injection H as ->. left; reflexivity.
  - intros H. right. exact (IH H).
Qed.

Lemma inst_tags_not_any : forallb (fun p => negb (N.eqb (fst (snd p)) ANY_TAG)) the_type_table = true.
Proof. vm_compute. reflexivity. Qed.

(* for every struct type of the current tree and every byte string: Decode accepts iff the
   specification accepts, with the same value and the same byte count *)
Theorem inst_decoder_is_spec ty bs v n st' :
  inst_dec_top ty bs = Ok (v, n, st') <->
  inst_spec_decode ty bs = Some (v, n) /\ st' = {| rest := skipn (N.to_nat n) bs; last := 0%N |}.
Proof.
  unfold inst_dec_top, inst_spec_decode, inst_T. destruct (tassoc ty the_type_table) as [[tag fl]|] eqn:E.
  - apply decoder_is_spec. apply tassoc_in in E.
    pose proof (proj1 (forallb_forall _ _) inst_tags_not_any _ E) as H. cbn [fst snd] in H.
    intros ->. rewrite N.eqb_refl in H. discriminate.
  - split; [discriminate|]. intros [H _]. discriminate.
Qed.

(* non-vacuity, both directions: a RequestHeader that spells out a zero-valued optional field
   (Maximum Response Size = 0) is a valid encoding: accepted, denoting the same value as the canonical
   encoding without it; variants that are not well-formed are rejected *)
Definition hdr_int (t : N) (z : Z) : bytes := match enc_prim t KInt (VInt z) with Some b => b | None => [] end.
Definition hdr_version : bytes := wrap 4325481 (hdr_int 4325482 1 ++ hdr_int 4325483 4)%list.
Definition hdr_canonical : bytes := wrap 4325495 (hdr_version ++ hdr_int 4325389 1)%list.
Definition hdr_noncanonical : bytes := wrap 4325495 (hdr_version ++ hdr_int 4325456 0 ++ hdr_int 4325389 1)%list.
Definition hdr_no_batchcount : bytes := wrap 4325495 hdr_version.
Definition hdr_trailing : bytes := wrap 4325495 (hdr_version ++ hdr_int 4325389 1 ++ hdr_int 4325389 1)%list.
Definition hdr_understated : bytes := (header 4325495 tc_structure 32 ++ hdr_version ++ hdr_int 4325389 1)%list.
Definition hdr_bad_bool : bytes :=
  wrap 4325495 (hdr_version ++ header 4325383 6 8 ++ be 8 2 ++ hdr_int 4325389 1)%list.

Definition hdr_value : val :=
  Eval vm_compute in match inst_spec_decode "RequestHeader" hdr_canonical with Some (v, _) => v | None => VNil end.

Example noncanonical_accepted :
  inst_spec_decode "RequestHeader" hdr_noncanonical = Some (hdr_value, blen hdr_noncanonical) /\
  inst_spec_decode "RequestHeader" hdr_canonical = Some (hdr_value, blen hdr_canonical) /\
  inst_enc_top hdr_value = Some hdr_canonical /\ hdr_noncanonical <> hdr_canonical.
Proof. repeat split; try (vm_compute; reflexivity). vm_compute. discriminate. Qed.

Example malformed_rejected :
  inst_spec_decode "RequestHeader" hdr_no_batchcount = None /\     (* required field absent *)
  inst_spec_decode "RequestHeader" hdr_trailing = None /\          (* item left over in the structure *)
  inst_spec_decode "RequestHeader" hdr_understated = None /\       (* length understates the content *)
  inst_spec_decode "RequestHeader" hdr_bad_bool = None /\          (* Boolean that is neither 0 nor 1 *)
  inst_spec_decode "RequestHeader" (firstn 40 hdr_canonical) = None.  (* truncation *)
Proof. vm_compute. repeat split; reflexivity. Qed.
