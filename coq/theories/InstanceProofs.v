(* InstanceProofs.v - facts about the regenerated instance, by vm_compute (re-checked every run) *)
From Coq Require Import String.
From Coq Require Import List NArith ZArith Bool.
Require Import Bytes Schema Fields Codec Session SessionProofs Generated Instance.
Import ListNotations.

Lemma inst_env_ok : env_ok_b inst_T = true.
Proof. vm_compute. reflexivity. Qed.

Lemma inst_request_top : exists tag fl, request_top inst_T = Some (tag, fl).
Proof. vm_compute. eauto. Qed.

(* the protocol constants server.go uses, as consts.go declares them *)
Lemma inst_K_values :
  k_success inst_K = 0%N /\ k_failed inst_K = 1%N /\ k_general_failure inst_K = 256%N /\
  k_not_supported inst_K = 5%N /\ k_invalid_message inst_K = 4%N /\ k_discover_versions inst_K = 30%N.
Proof. vm_compute. repeat split; reflexivity. Qed.
