(* InstanceProofs.v - facts about the regenerated instance, by vm_compute (re-checked every run) *)
From Coq Require Import String.
From Coq Require Import List NArith ZArith Bool.
Require Import Bytes Schema Fields Codec CodecRT SchemaCheck Session SessionProofs Generated Instance.
Import ListNotations.

Lemma inst_env_ok : env_ok_b inst_T = true.
Proof. vm_compute. reflexivity. Qed.

Lemma inst_request_top : exists tag fl, request_top inst_T = Some (tag, fl).
Proof. vm_compute. eauto. Qed.

(* the protocol constants server.go uses, as consts.go declares them *)
Lemma inst_K_values :
  k_success inst_K = 0%N /\ k_failed inst_K = 1%N /\ k_general_failure inst_K = 256%N /\
  k_not_supported inst_K = 5%N /\ k_invalid_message inst_K = 4%N /\ k_discover_versions inst_K = 30%N.
Proof. vm_compute. repeat split; reflexivity. Qed.

(* the schema regenerated from /repo satisfies the conditions of the round-trip theorem: in every
   structure type the wire tags are proper and pairwise distinct, an any-tag field is last, optional
   and skipped, every dynamic field is discriminated by an earlier Enumeration / Text String sibling,
   and every dispatch target is a primitive or a known structure type *)
Lemma inst_table_ok : table_ok_b the_type_table = true.
Proof. vm_compute. reflexivity. Qed.

Lemma inst_codec_env_ok : env_ok inst_T.
Proof. exact (table_env_ok the_type_table inst_table_ok). Qed.

Definition request_tag : N := 4325496.    (* 0x420078 Request Message *)
Definition response_tag : N := 4325499.   (* 0x42007B Response Message *)

Lemma inst_request_type : exists fl, inst_T "Request" = Some (request_tag, fl).
Proof. vm_compute. eexists. reflexivity. Qed.

Lemma inst_response_type : exists fl, inst_T "Response" = Some (response_tag, fl).
Proof. vm_compute. eexists. reflexivity. Qed.

Lemma message_tags_ok : tag_ok request_tag /\ tag_ok response_tag.
Proof. split; apply tag_ok_b_sound; vm_compute; reflexivity. Qed.
