(* Accept.v - model of the accept loop of Server.Serve (server.go): back-off on temporary errors,
   first permanent error returned, nil once Shutdown has been signalled. *)
From Coq Require Import List NArith Bool.
Import ListNotations.
Open Scope N_scope.

(* what the next Accept call brings, and whether the done channel is closed when Serve looks at it *)
Inductive accept_result :=
| ATemp (done : bool)      (* a net.Error with Temporary() = true *)
| APerm (done : bool)      (* any other error (also the listener's error after Shutdown closed it) *)
| AConn (done : bool).     (* a connection; done = Shutdown signalled before the session is registered *)

Inductive action :=
| Sleep (ms : N)           (* time.Sleep(tempDelay) *)
| ServeConn (i : nat)      (* registerSession + go s.serve(conn, ...) for the i-th accepted connection *)
| CloseLate (i : nat).     (* connection accepted too late: closed, not served *)

Inductive serve_result := ARNil | ARErr | ARRunning.   (* ARRunning: the sequence ended, Serve still accepting *)

Definition next_delay (d : N) : N := N.min 1000 (if d =? 0 then 5 else d * 2).

Fixpoint accept_loop (rs : list accept_result) (delay : N) (nconn : nat) : list action * serve_result :=
  match rs with
  | [] => ([], ARRunning)
  | ATemp done :: r =>
      if done then ([], ARNil)
      else let d := next_delay delay in
           let '(acts, res) := accept_loop r d nconn in (Sleep d :: acts, res)
  | APerm done :: r => if done then ([], ARNil) else ([], ARErr)
  | AConn done :: r =>
      if done then ([CloseLate nconn], ARNil)
      else let '(acts, res) := accept_loop r 0 (S nconn) in (ServeConn nconn :: acts, res)
  end.

Definition serve (rs : list accept_result) : list action * serve_result := accept_loop rs 0 O.

(* the session id handed to s.serve: lastSession after its increment, i.e. the position of the connection among the
   accepted ones, counted from 1 (printed with %08x) *)
Definition session_id (i : nat) : N := N.of_nat (S i).

(* connections that were handed to a session goroutine, in order *)
Definition served (acts : list action) : list nat :=
  flat_map (fun a => match a with ServeConn i => [i] | _ => [] end) acts.

(* the back-off with its three constants as parameters: the translator reads them out of Serve (gen_backoff) *)
Definition next_delay_with (first factor cap d : N) : N := N.min cap (if d =? 0 then first else d * factor).
