(* ReadersProofs.v - the reader objects of Readers.v deliver exactly the bytes of the transport,
   whatever the read sizes; hence the decoder on reader objects computes what the flat decoder
   of Codec.v computes (C03 delivery independence, C06 chunking). *)
From Coq Require Import String.
From Coq Require Import List NArith ZArith Bool Lia Strings.Byte ZifyN ZifyNat ZifyBool.
Require Import Bytes BytesProofs Schema Codec CodecProofs Denote DenoteProofs Readers.
Import ListNotations.
Open Scope N_scope.

Arguments N.add : simpl never.
Arguments N.mul : simpl never.
Arguments N.pow : simpl never.
Arguments N.modulo : simpl never.
Arguments N.div : simpl never.
Arguments N.sub : simpl never.
Arguments N.min : simpl never.
Arguments N.max : simpl never.

(* ---------------------------------------------------------------- *)
(* takeN / dropN                                                    *)
(* ---------------------------------------------------------------- *)
Lemma takeN_dropN n (l : bytes) : takeN n l ++ dropN n l = l.
Proof. unfold takeN, dropN. apply firstn_skipn. Qed.

Lemma dropN_blen n (l : bytes) : blen (dropN n l) = blen l - N.min n (blen l).
Proof. unfold dropN, blen. rewrite skipn_length. lia. Qed.

Lemma takeN_nil n : takeN n [] = [].
Proof. unfold takeN. apply firstn_nil. Qed.

Lemma takeN_0 (l : bytes) : takeN 0 l = [].
Proof. unfold takeN. replace (N.to_nat (N.min 0 (blen l))) with O by lia. reflexivity. Qed.

Lemma blen_nil : blen [] = 0.
Proof. reflexivity. Qed.

Lemma blen_cons x (l : bytes) : blen (x :: l) = 1 + blen l.
Proof. unfold blen. cbn [length]. lia. Qed.

Lemma blen_0_nil (l : bytes) : blen l = 0 -> l = [].
Proof. destruct l; [reflexivity|]. rewrite blen_cons. lia. Qed.

Lemma takeN_pos_nonnil k (l : bytes) : 0 < k -> l <> [] -> takeN k l <> [].
Proof.
  intros Hk Hl E. apply (f_equal blen) in E. rewrite takeN_blen, blen_nil in E.
  destruct l; [contradiction|]. rewrite blen_cons in E. lia.
Qed.

Lemma takeN_app_le n (d x : bytes) : blen d <= n -> takeN n (d ++ x) = d ++ takeN (n - blen d) x.
Proof.
  intros H. unfold takeN. rewrite blen_app.
  replace (N.to_nat (N.min n (blen d + blen x))) with (length d + N.to_nat (N.min (n - blen d) (blen x)))%nat
    by (unfold blen in *; lia).
  rewrite firstn_app_2. reflexivity.
Qed.

Lemma takeN_all n (l : bytes) : blen l <= n -> takeN n l = l.
Proof. intros H. unfold takeN. rewrite N.min_r by assumption. unfold blen. rewrite Nat2N.id. apply firstn_all. Qed.

Lemma dropN_all n (l : bytes) : blen l <= n -> dropN n l = [].
Proof. intros H. unfold dropN. rewrite N.min_r by assumption. unfold blen. rewrite Nat2N.id. apply skipn_all. Qed.

Lemma takeN_firstn n (l : bytes) : takeN n l = firstn (N.to_nat n) l.
Proof.
  unfold takeN. destruct (N.le_ge_cases n (blen l)).
  - rewrite N.min_l by assumption. reflexivity.
  - rewrite N.min_r by assumption. unfold blen in *. rewrite Nat2N.id.
    rewrite firstn_all. symmetry. apply firstn_all2. lia.
Qed.

Lemma dropN_skipn n (l : bytes) : dropN n l = skipn (N.to_nat n) l.
Proof.
  unfold dropN. destruct (N.le_ge_cases n (blen l)).
  - rewrite N.min_l by assumption. reflexivity.
  - rewrite N.min_r by assumption. unfold blen in *. rewrite Nat2N.id.
    rewrite skipn_all. symmetry. apply skipn_all2. lia.
Qed.

Lemma skipn_length_plus {A} (d x : list A) k : skipn (length d + k) (d ++ x) = skipn k x.
Proof. induction d as [|a d IH]; cbn; [reflexivity|exact IH]. Qed.

(* ---------------------------------------------------------------- *)
(* well-formed reader stacks                                        *)
(* ---------------------------------------------------------------- *)
Fixpoint wf_layers (l : list layer) (b : base) : Prop :=
  match l with
  | [] => True
  | LBuf size buf err :: r =>
      0 < size /\ (forall e, err = Some e -> den r b = [] /\ (b_term b = EOF -> e = EOF)) /\ wf_layers r b
  | LLim n :: r => wf_layers r b
  end.

(* fewer than 100 consecutive empty reads anywhere in the script (bufio's ErrNoProgress rule) *)
Fixpoint zrun (l : list N) : nat := match l with 0 :: r => S (zrun r) | _ => O end.
Fixpoint stall_free (l : list N) : Prop :=
  match l with [] => True | _ :: r => (zrun l < 100)%nat /\ stall_free r end.

Lemma stall_free_tl l : stall_free l -> stall_free (tl l).
Proof. destruct l; cbn; [trivial|tauto]. Qed.

Lemma stall_free_zrun l : stall_free l -> (zrun l < 100)%nat.
Proof. destruct l; cbn [stall_free]; [cbn; lia|tauto]. Qed.

(* ---------------------------------------------------------------- *)
(* one Read                                                         *)
(* ---------------------------------------------------------------- *)
Record read_post (l : list layer) (b : base) (k : N) (d : bytes) (e : option ioerr) (l' : list layer) (b' : base) : Prop := {
  rp_den : den l b = d ++ den l' b';
  rp_len : blen d <= k;
  rp_wf : wf_layers l' b';
  rp_err : forall x, e = Some x -> den l' b' = [] /\ (b_term b = EOF -> x = EOF);
  rp_term : b_term b' = b_term b;
  rp_weof : b_weof b' = b_weof b;
  rp_sizes : b_sizes b' = b_sizes b \/ b_sizes b' = tl (b_sizes b);
  rp_zero : d = [] -> e = None -> exists r, b_sizes b = 0 :: r /\ b_sizes b' = r;
  rp_depth : length l' = length l }.

Ltac rp_easy := first [ reflexivity | assumption | discriminate | (left; reflexivity) | (right; reflexivity)
                       | (cbn; lia) | (intros; discriminate)
                       | (let y := fresh "y" in let Hy := fresh "Hy" in
                          intros y Hy; injection Hy as <-; split; [first [reflexivity|assumption]|first [trivial|assumption]])
                       | idtac ].
Ltac rp_split := apply Build_read_post; cbn [den wf_layers app length b_data b_sizes b_term b_weof base_with]; rp_easy.

Lemma base_read_spec b k d e b' : 0 < k -> base_read b k = (d, e, b') -> read_post [] b k d e [] b'.
Proof.
  intros Hk H. unfold base_read in H.
  destruct (b_data b) as [|x dat] eqn:Ed.
  - injection H as <- <- <-. rp_split.
  - set (n := match b_sizes b with [] => blen (x :: dat) | s :: _ => s end) in H.
    destruct (N.eqb_spec n 0) as [E0|N0].
    + injection H as <- <- <-. rp_split.
      intros _ _. subst n. destruct (b_sizes b) as [|s r]; [rewrite blen_cons in E0; lia|].
      subst s. exists r. split; reflexivity.
    + injection H as <- <- <-. rp_split.
      * rewrite Ed. symmetry. apply takeN_dropN.
      * rewrite takeN_blen. lia.
      * intros y Hy. destruct (dropN (N.min n k) (x :: dat)) eqn:Edr; [|discriminate].
        split; [reflexivity|]. destruct (b_weof b); [|discriminate]. injection Hy as <-. auto.
      * intros Hd _. exfalso. revert Hd. apply takeN_pos_nonnil; [lia|discriminate].
Qed.

Lemma rread_spec l : forall b k d e l' b', 0 < k -> wf_layers l b ->
  rread l b k = (d, e, l', b') -> read_post l b k d e l' b'.
Proof.
  induction l as [|ly r IH]; intros b k d e l' b' Hk Hwf H.
  - cbn [rread] in H. destruct (base_read b k) as [[d0 e0] b0] eqn:Eb. injection H as <- <- <- <-.
    apply base_read_spec; assumption.
  - destruct ly as [size buf err|n].
    + (* bufio *)
      cbn [wf_layers] in Hwf. destruct Hwf as (Hsz & Herr & Hwr).
      cbn [rread] in H. destruct buf as [|x buf].
      * destruct err as [e0|].
        -- injection H as <- <- <- <-. destruct (Herr e0 eq_refl) as [Hd He]. rp_split.
           split; [assumption|]. split; [intros ? ?; discriminate|assumption].
        -- destruct (N.leb_spec size k) as [Hle|Hgt].
           ++ destruct (rread r b k) as [[[d0 e0] r0] b0] eqn:Er. injection H as <- <- <- <-.
              destruct (IH _ _ _ _ _ _ Hk Hwr Er) as [D L W E T We S Z Len]. rp_split.
              split; [assumption|]. split; [intros ? ?; discriminate|assumption].
           ++ destruct (rread r b size) as [[[d0 e0] r0] b0] eqn:Er.
              destruct (IH _ _ _ _ _ _ Hsz Hwr Er) as [D L W E T We S Z Len].
              destruct d0 as [|y d0].
              ** injection H as <- <- <- <-. rp_split.
                 split; [assumption|]. split; [intros ? ?; discriminate|assumption].
              ** injection H as <- <- <- <-. rp_split.
                 --- rewrite D. rewrite app_assoc. rewrite takeN_dropN. reflexivity.
                 --- rewrite takeN_blen. lia.
                 --- split; [assumption|]. split; [|assumption].
                     intros y0 Hy0. destruct (E y0 Hy0) as [E1 E2]. split; [assumption|].
                     intros Ht. apply E2. congruence.
                 --- intros Hd _. exfalso. revert Hd. apply takeN_pos_nonnil; [assumption|discriminate].
      * injection H as <- <- <- <-. rp_split.
        -- rewrite app_assoc. rewrite takeN_dropN. reflexivity.
        -- rewrite takeN_blen. lia.
        -- split; [assumption|]. split; assumption.
        -- intros Hd _. exfalso. revert Hd. apply takeN_pos_nonnil; [assumption|discriminate].
    + (* limit *)
      cbn [wf_layers] in Hwf. cbn [rread] in H.
      destruct (N.eqb_spec n 0) as [E0|N0].
      * injection H as <- <- <- <-. subst n. rp_split.
        intros y Hy. injection Hy as <-. rewrite takeN_0. split; reflexivity.
      * destruct (rread r b (N.min k n)) as [[[d0 e0] r0] b0] eqn:Er. injection H as <- <- <- <-.
        assert (Hk' : 0 < N.min k n) by lia.
        destruct (IH _ _ _ _ _ _ Hk' Hwf Er) as [D L W E T We S Z Len]. rp_split.
        -- rewrite D. apply takeN_app_le. lia.
        -- intros y Hy. destruct (E y Hy) as [E1 E2]. rewrite E1, takeN_nil. split; [reflexivity|assumption].
Qed.

Definition wf_reader (r : reader) : Prop := wf_layers (ls r) (bs r) /\ stall_free (b_sizes (bs r)).

Lemma sizes_step_stall (s s' : list N) : (s' = s \/ s' = tl s) -> stall_free s -> stall_free s'.
Proof. intros [->| ->] H; [assumption|apply stall_free_tl; assumption]. Qed.

Record rd_post (r : reader) (k : N) (d : bytes) (e : option ioerr) (r' : reader) : Prop := {
  rq_den : rden r = d ++ rden r';
  rq_len : blen d <= k;
  rq_wf : wf_reader r';
  rq_err : forall x, e = Some x -> rden r' = [] /\ (b_term (bs r) = EOF -> x = EOF);
  rq_term : b_term (bs r') = b_term (bs r);
  rq_sizes : (length (b_sizes (bs r')) <= length (b_sizes (bs r)))%nat;
  rq_zero : d = [] -> e = None -> (length (b_sizes (bs r')) < length (b_sizes (bs r)))%nat /\
                                  zrun (b_sizes (bs r)) = S (zrun (b_sizes (bs r')));
  rq_depth : length (ls r') = length (ls r) }.

Lemma rd_read_spec r k d e r' : 0 < k -> wf_reader r -> rd_read r k = (d, e, r') -> rd_post r k d e r'.
Proof.
  intros Hk [Hw Hs] H. unfold rd_read in H.
  destruct (rread (ls r) (bs r) k) as [[[d0 e0] l0] b0] eqn:Er. injection H as <- <- <-.
  destruct (rread_spec _ _ _ _ _ _ _ Hk Hw Er) as [D L W E T We S Z Len].
  apply Build_rd_post; unfold rden, wf_reader; cbn [ls bs]; try assumption.
  - split; [assumption|]. eapply sizes_step_stall; eassumption.
  - destruct S as [-> | ->]; [lia|]. destruct (b_sizes (bs r)); cbn; lia.
  - intros H1 H2. destruct (Z H1 H2) as (q & Q1 & Q2). rewrite Q1, Q2. cbn. split; [lia|reflexivity].
Qed.

(* ---------------------------------------------------------------- *)
(* io.ReadFull                                                      *)
(* ---------------------------------------------------------------- *)
Definition same_shape (r r' : reader) : Prop :=
  b_term (bs r') = b_term (bs r) /\ length (ls r') = length (ls r) /\
  (length (b_sizes (bs r')) <= length (b_sizes (bs r)))%nat.

Lemma same_shape_refl r : same_shape r r.
Proof. unfold same_shape. auto. Qed.

Lemma same_shape_trans a b c : same_shape a b -> same_shape b c -> same_shape a c.
Proof. unfold same_shape. intros (A1 & A2 & A3) (B1 & B2 & B3). repeat split; try congruence. lia. Qed.

Lemma rd_post_shape r k d e r' : rd_post r k d e r' -> same_shape r r'.
Proof. intros [D L W E T S Z Dp]. unfold same_shape. auto. Qed.

(* the error class of a short read: io.EOF only if nothing at all was there and the transport ended cleanly *)
Definition short_class {A} (x : dres A) (avail : bytes) (term : ioerr) : Prop :=
  (x = ErrEOF \/ x = Err) /\ (x = ErrEOF -> avail = []) /\
  (term = EOF -> x = match avail with [] => ErrEOF | _ :: _ => Err end).

Lemma readfull_loop_spec fuel : forall r need acc x r',
  wf_reader r -> (N.to_nat need + length (b_sizes (bs r)) < fuel)%nat ->
  readfull_loop fuel r need acc = (x, r') ->
  wf_reader r' /\ same_shape r r' /\
  (need <= blen (rden r) -> x = Ok (acc ++ takeN need (rden r)) /\ rden r' = dropN need (rden r)) /\
  (blen (rden r) < need -> short_class x (acc ++ rden r) (b_term (bs r)) /\ rden r' = []).
Proof.
  induction fuel as [|f IH]; intros r need acc x r' Hw Hf H; [lia|].
  cbn [readfull_loop] in H. destruct (N.eqb_spec need 0) as [E0|N0].
  - injection H as <- <-. subst need. split; [assumption|]. split; [apply same_shape_refl|]. split.
    + intros _. rewrite takeN_0, app_nil_r. split; [reflexivity|]. rewrite dropN_skipn. reflexivity.
    + lia.
  - destruct (rd_read r need) as [[d e] r1] eqn:Er.
    assert (Hk: 0 < need) by lia.
    pose proof (rd_read_spec _ _ _ _ _ Hk Hw Er) as P. pose proof (rd_post_shape _ _ _ _ _ P) as Sh.
    destruct P as [D L W E T S Z Dp].
    destruct e as [y|].
    + (* terminal error came with this read *)
      destruct (E y eq_refl) as [Hnil Hy]. rewrite Hnil, app_nil_r in D.
      destruct (N.eqb_spec (need - blen d) 0) as [Ez|Nz].
      * injection H as <- <-. split; [assumption|]. split; [assumption|]. split.
        -- intros _. rewrite D. rewrite takeN_all by lia. split; [reflexivity|].
           rewrite dropN_all by lia. assumption.
        -- rewrite D. lia.
      * assert (Hshort: blen (rden r) < need) by (rewrite D; lia).
        split; [|split; [|split; [lia|]]].
        -- destruct (acc ++ d), y; injection H as <- <-; assumption.
        -- destruct (acc ++ d), y; injection H as <- <-; assumption.
        -- intros _. rewrite D. split.
           ++ unfold short_class. destruct (acc ++ d) as [|z q] eqn:Ea.
              ** destruct y; injection H as <- <-.
                 --- repeat split; auto.
                 --- repeat split; auto; try discriminate. intros Ht. specialize (Hy Ht). discriminate.
              ** destruct y; injection H as <- <-; repeat split; auto; discriminate.
           ++ destruct (acc ++ d), y; injection H as <- <-; assumption.
    + (* go on *)
      assert (Hf': (N.to_nat (need - blen d) + length (b_sizes (bs r1)) < f)%nat).
      { destruct d as [|z q].
        - destruct (Z eq_refl eq_refl) as [Z1 _]. rewrite blen_nil. lia.
        - rewrite blen_cons in *. lia. }
      destruct (IH _ _ _ _ _ W Hf' H) as (W' & Sh' & Hok & Hsh).
      split; [assumption|]. split; [eapply same_shape_trans; eassumption|].
      rewrite D, blen_app. split.
      * intros Hle. destruct Hok as [-> Hd]; [lia|]. split.
        -- rewrite takeN_app_le by lia. rewrite <- app_assoc. reflexivity.
        -- rewrite Hd. rewrite !dropN_skipn. replace (N.to_nat need) with (length d + N.to_nat (need - blen d))%nat by (unfold blen in *; lia).
           symmetry. apply skipn_length_plus.
      * intros Hlt. destruct Hsh as [Hc Hn]; [lia|]. split; [|assumption].
        rewrite <- T. rewrite <- app_assoc in Hc. rewrite app_assoc. rewrite <- app_assoc. exact Hc.
Qed.

Lemma readfull_spec n r x r' : wf_reader r -> readfull n r = (x, r') ->
  wf_reader r' /\ same_shape r r' /\
  (n <= blen (rden r) -> x = Ok (takeN n (rden r)) /\ rden r' = dropN n (rden r)) /\
  (blen (rden r) < n -> short_class x (rden r) (b_term (bs r)) /\ rden r' = []).
Proof.
  intros Hw H. unfold readfull in H.
  apply readfull_loop_spec in H; [|assumption|lia]. exact H.
Qed.

(* ---------------------------------------------------------------- *)
(* bufio.Reader.ReadByte                                            *)
(* ---------------------------------------------------------------- *)
Record fill_post (l : list layer) (b : base) (d : bytes) (e : option ioerr) (l' : list layer) (b' : base) : Prop := {
  fp_den : den l b = d ++ den l' b';
  fp_wf : wf_layers l' b';
  fp_sf : stall_free (b_sizes b');
  fp_err : forall x, e = Some x -> den l' b' = [] /\ (b_term b = EOF -> x = EOF);
  fp_some : e = None -> d <> [];
  fp_term : b_term b' = b_term b;
  fp_depth : length l' = length l;
  fp_sizes : (length (b_sizes b') <= length (b_sizes b))%nat }.

Lemma fill_loop_spec i : forall l b size d e l' b',
  0 < size -> wf_layers l b -> stall_free (b_sizes b) -> (zrun (b_sizes b) < i)%nat ->
  fill_loop i l b size = (d, e, l', b') -> fill_post l b d e l' b'.
Proof.
  induction i as [|j IH]; intros l b size d e l' b' Hs Hw Hsf Hz H; [lia|].
  cbn [fill_loop] in H. destruct (rread l b size) as [[[d0 e0] l0] b0] eqn:Er.
  destruct (rread_spec _ _ _ _ _ _ _ Hs Hw Er) as [D L W E T We S Z Len].
  assert (Hsf0: stall_free (b_sizes b0)) by (eapply sizes_step_stall; eassumption).
  assert (Hlen0: (length (b_sizes b0) <= length (b_sizes b))%nat).
  { destruct S as [-> | ->]; [lia|]. destruct (b_sizes b); cbn; lia. }
  destruct e0 as [y|].
  - injection H as <- <- <- <-. apply Build_fill_post; try assumption; try discriminate.
  - destruct d0 as [|z q].
    + destruct (Z eq_refl eq_refl) as (rs & Z1 & Z2).
      assert (Hz': (zrun (b_sizes b0) < j)%nat) by (rewrite Z1 in Hz; rewrite Z2; cbn in Hz; lia).
      destruct (IH _ _ _ _ _ _ _ Hs W Hsf0 Hz' H) as [D' W' S' E' N' T' L' Z'].
      apply Build_fill_post; try assumption; try congruence; try lia.
      * rewrite D. cbn [app]. assumption.
      * intros x0 Hx. destruct (E' x0 Hx) as [E1 E2]. split; [assumption|]. intros Ht. apply E2. congruence.
    + injection H as <- <- <- <-. apply Build_fill_post; try assumption; try discriminate.
Qed.

Record rb_post (r : reader) (x : dres byte) (r' : reader) : Prop := {
  rb_wf : wf_reader r';
  rb_shape : same_shape r r';
  rb_res : match rden r with
           | y :: rest => x = Ok y /\ rden r' = rest
           | [] => short_class x [] (b_term (bs r)) /\ rden r' = []
           end }.

Lemma short_class_eclass {A} e t : (t = EOF -> e = EOF) -> short_class (@eclass A e) [] t.
Proof.
  intros H. unfold short_class. destruct e; cbn.
  - split; [auto|]. split; auto.
  - split; [auto|]. split; [discriminate|]. intros Ht. specialize (H Ht). discriminate.
Qed.

Lemma readbyte_spec r x r' : wf_reader r -> ls r <> [] -> (forall n l, ls r <> LLim n :: l) ->
  readbyte r = (x, r') -> rb_post r x r'.
Proof.
  intros [Hw Hsf] Hne Hnl H. unfold readbyte in H.
  destruct (ls r) as [|[size buf err|n] l] eqn:El; [contradiction| |exfalso; eapply Hnl; reflexivity].
  cbn [wf_layers] in Hw. destruct Hw as (Hsz & Herr & Hwl).
  destruct buf as [|y buf].
  - destruct err as [e0|].
    + injection H as <- <-. destruct (Herr e0 eq_refl) as [Hd He].
      apply Build_rb_post; unfold rden, wf_reader, same_shape; rewrite ?El; cbn [ls bs den wf_layers length app].
      * split; [|assumption]. split; [assumption|]. split; [intros ? ?; discriminate|assumption].
      * auto.
      * rewrite Hd. split; [|reflexivity]. apply short_class_eclass. assumption.
    + destruct (fill_loop 100 l (bs r) size) as [[[d e] l0] b0] eqn:Ef.
      destruct (fill_loop_spec _ _ _ _ _ _ _ _ Hsz Hwl Hsf (stall_free_zrun _ Hsf) Ef) as [D W S E N T L Z].
      destruct d as [|z q].
      * destruct e as [e0|]; [|exfalso; apply (N eq_refl); reflexivity].
        injection H as <- <-. destruct (E e0 eq_refl) as [E1 E2].
        apply Build_rb_post; unfold rden, wf_reader, same_shape; rewrite ?El; cbn [ls bs den wf_layers length app].
        -- split; [|assumption]. split; [assumption|]. split; [intros ? ?; discriminate|assumption].
        -- repeat split; [assumption|lia|assumption].
        -- rewrite D, E1. cbn [app]. split; [|reflexivity]. apply short_class_eclass. assumption.
      * injection H as <- <-.
        apply Build_rb_post; unfold rden, wf_reader, same_shape; rewrite ?El; cbn [ls bs den wf_layers length app].
        -- split; [|assumption]. split; [assumption|]. split; [|assumption].
           intros e0 He0. destruct (E e0 He0) as [E1 E2]. split; [assumption|]. intros Ht. apply E2. congruence.
        -- repeat split; [assumption|lia|assumption].
        -- rewrite D. cbn [app]. split; reflexivity.
  - injection H as <- <-.
    apply Build_rb_post; unfold rden, wf_reader, same_shape; rewrite ?El; cbn [ls bs den wf_layers length app].
    + split; [|assumption]. split; [assumption|]. split; assumption.
    + auto.
    + split; reflexivity.
Qed.

(* the source is itself an io.ByteScanner (bytes.Reader): no layers *)
Lemma readbyte_base_spec r x r' : ls r = [] -> readbyte r = (x, r') ->
  ls r' = [] /\ b_term (bs r') = b_term (bs r) /\ b_sizes (bs r') = b_sizes (bs r) /\
  match rden r with
  | y :: rest => x = Ok y /\ rden r' = rest
  | [] => x = ErrEOF /\ rden r' = []
  end.
Proof.
  intros El H. unfold readbyte in H. rewrite El in H. unfold rden. rewrite El. cbn [den].
  destruct (b_data (bs r)) as [|y d] eqn:Ed.
  - injection H as <- <-. rewrite El. cbn [den]. rewrite Ed. auto.
  - injection H as <- <-. cbn. auto.
Qed.

(* ---------------------------------------------------------------- *)
(* io.CopyN into a bytes.Buffer / into ioutil.Discard               *)
(* ---------------------------------------------------------------- *)
(* a short CopyN: io.EOF when the source ended cleanly (even after some bytes), the I/O error otherwise *)
Definition copy_class {A} (x : dres A) (term : ioerr) : Prop :=
  (x = ErrEOF \/ x = Err) /\ (term = EOF -> x = ErrEOF).

Definition rmeasure (r : reader) : nat := (length (rden r) + length (b_sizes (bs r)))%nat.

Lemma rd_post_measure r k d e r' : rd_post r k d e r' -> e = None -> (rmeasure r' < rmeasure r)%nat.
Proof.
  intros [D L W E T S Z Dp] He. unfold rmeasure. rewrite D, app_length. destruct d as [|z q].
  - destruct (Z eq_refl He) as [Z1 _]. cbn [length]. lia.
  - cbn [length]. lia.
Qed.

Lemma dropN_app_le n (d x : bytes) : blen d <= n -> dropN n (d ++ x) = dropN (n - blen d) x.
Proof.
  intros H. rewrite !dropN_skipn.
  replace (N.to_nat n) with (length d + N.to_nat (n - blen d))%nat by (unfold blen in *; lia).
  apply skipn_length_plus.
Qed.

Lemma copy_loop_spec fuel : forall r left cap acc al x r' al',
  wf_reader r -> (rmeasure r + 1 < fuel)%nat ->
  copy_loop fuel r left cap acc al = (x, r', al') ->
  wf_reader r' /\ same_shape r r' /\
  (left <= blen (rden r) -> x = Ok (acc ++ takeN left (rden r)) /\ rden r' = dropN left (rden r)) /\
  (blen (rden r) < left -> copy_class x (b_term (bs r)) /\ rden r' = []).
Proof.
  induction fuel as [|f IH]; intros r left cap acc al x r' al' Hw Hf H; [lia|].
  cbn [copy_loop] in H.
  set (len := blen acc) in *.
  destruct (if min_read <=? cap - len then (cap, al) else (N.max (len + min_read) (2 * cap), al + N.max (len + min_read) (2 * cap)))
    as [cap' al1] eqn:Eg.
  assert (Hcap: min_read <= cap' - len).
  { unfold min_read in *. destruct (N.leb_spec 512 (cap - len)); injection Eg as <- <-; lia. }
  destruct (N.eqb_spec left 0) as [E0|N0].
  - injection H as <- <- <-. subst left. split; [assumption|]. split; [apply same_shape_refl|]. split.
    + intros _. rewrite takeN_0, app_nil_r, dropN_skipn. split; reflexivity.
    + lia.
  - destruct (rd_read r (N.min (cap' - len) left)) as [[d e] r1] eqn:Er.
    assert (Hk: 0 < N.min (cap' - len) left) by (unfold min_read in Hcap; lia).
    pose proof (rd_read_spec _ _ _ _ _ Hk Hw Er) as P. pose proof (rd_post_shape _ _ _ _ _ P) as Sh.
    pose proof (rd_post_measure _ _ _ _ _ P) as Hm.
    destruct P as [D L W E T S Z Dp].
    destruct e as [y|].
    + destruct (E y eq_refl) as [Hnil Hy]. rewrite Hnil, app_nil_r in D.
      assert (Hres: (x, r', al') = (if left - blen d =? 0 then Ok (acc ++ d) else eclass y, r1, al1)).
      { destruct y; symmetry; exact H. }
      injection Hres as -> -> ->. split; [assumption|]. split; [assumption|].
      destruct (N.eqb_spec (left - blen d) 0) as [Ez|Nz].
      * split.
        -- intros _. rewrite D. rewrite takeN_all, dropN_all by lia. auto.
        -- rewrite D. lia.
      * split; [rewrite D; lia|]. intros _. split; [|assumption].
        unfold copy_class. destruct y; cbn; split; auto. intros Ht. specialize (Hy Ht). discriminate.
    + assert (Hf': (rmeasure r1 + 1 < f)%nat) by (specialize (Hm eq_refl); lia).
      destruct (IH _ _ _ _ _ _ _ _ W Hf' H) as (W' & Sh' & Hok & Hsh).
      split; [assumption|]. split; [eapply same_shape_trans; eassumption|].
      rewrite D, blen_app. split.
      * intros Hle. destruct Hok as [-> Hd]; [lia|]. split.
        -- rewrite takeN_app_le by lia. rewrite <- app_assoc. reflexivity.
        -- rewrite Hd. symmetry. apply dropN_app_le. lia.
      * intros Hlt. destruct Hsh as [Hc Hn]; [lia|]. split; [|assumption]. rewrite <- T. exact Hc.
Qed.

Lemma copy_buf_spec l r x r' al : wf_reader r -> copy_buf l r = (x, r', al) ->
  wf_reader r' /\ same_shape r r' /\
  (l <= blen (rden r) -> x = Ok (takeN l (rden r)) /\ rden r' = dropN l (rden r)) /\
  (blen (rden r) < l -> copy_class x (b_term (bs r)) /\ rden r' = []).
Proof.
  intros Hw H. unfold copy_buf in H. apply copy_loop_spec in H; [exact H|assumption|unfold rmeasure; lia].
Qed.

Lemma discard_loop_spec fuel : forall r left x r',
  wf_reader r -> (rmeasure r + 1 < fuel)%nat ->
  discard_loop fuel r left = (x, r') ->
  wf_reader r' /\ same_shape r r' /\
  (left <= blen (rden r) -> x = Ok tt /\ rden r' = dropN left (rden r)) /\
  (blen (rden r) < left -> copy_class x (b_term (bs r)) /\ rden r' = []).
Proof.
  induction fuel as [|f IH]; intros r left x r' Hw Hf H; [lia|].
  cbn [discard_loop] in H.
  destruct (N.eqb_spec left 0) as [E0|N0].
  - injection H as <- <-. subst left. split; [assumption|]. split; [apply same_shape_refl|]. split.
    + intros _. rewrite dropN_skipn. split; reflexivity.
    + lia.
  - destruct (rd_read r (N.min discard_buf left)) as [[d e] r1] eqn:Er.
    assert (Hk: 0 < N.min discard_buf left) by (unfold discard_buf; lia).
    pose proof (rd_read_spec _ _ _ _ _ Hk Hw Er) as P. pose proof (rd_post_shape _ _ _ _ _ P) as Sh.
    pose proof (rd_post_measure _ _ _ _ _ P) as Hm.
    destruct P as [D L W E T S Z Dp].
    destruct e as [y|].
    + destruct (E y eq_refl) as [Hnil Hy]. rewrite Hnil, app_nil_r in D.
      assert (Hres: (x, r') = (if left - blen d =? 0 then Ok tt else eclass y, r1)).
      { destruct y; symmetry; exact H. }
      injection Hres as -> ->. split; [assumption|]. split; [assumption|].
      destruct (N.eqb_spec (left - blen d) 0) as [Ez|Nz].
      * split.
        -- intros _. rewrite D. rewrite dropN_all by lia. auto.
        -- rewrite D. lia.
      * split; [rewrite D; lia|]. intros _. split; [|assumption].
        unfold copy_class. destruct y; cbn; split; auto. intros Ht. specialize (Hy Ht). discriminate.
    + assert (Hf': (rmeasure r1 + 1 < f)%nat) by (specialize (Hm eq_refl); lia).
      destruct (IH _ _ _ _ W Hf' H) as (W' & Sh' & Hok & Hsh).
      split; [assumption|]. split; [eapply same_shape_trans; eassumption|].
      rewrite D, blen_app. split.
      * intros Hle. destruct Hok as [-> Hd]; [lia|]. split; [reflexivity|].
        rewrite Hd. symmetry. apply dropN_app_le. lia.
      * intros Hlt. destruct Hsh as [Hc Hn]; [lia|]. split; [|assumption]. rewrite <- T. exact Hc.
Qed.

Lemma discard_spec p r x r' : wf_reader r -> discard p r = (x, r') ->
  wf_reader r' /\ same_shape r r' /\
  (p <= blen (rden r) -> x = Ok tt /\ rden r' = dropN p (rden r)) /\
  (blen (rden r) < p -> copy_class x (b_term (bs r)) /\ rden r' = []).
Proof.
  intros Hw H. unfold discard in H. apply discard_loop_spec in H; [exact H|assumption|unfold rmeasure; lia].
Qed.
