(* ReadersProofs.v - the reader objects of Readers.v deliver exactly the bytes of the transport,
   whatever the read sizes; hence the decoder on reader objects computes what the flat decoder
   of Codec.v computes (C03 delivery independence, C06 chunking). *)
From Coq Require Import String.
From Coq Require Import List NArith ZArith Bool Lia Strings.Byte ZifyN ZifyNat ZifyBool.
Require Import Bytes BytesProofs Schema Codec CodecProofs Denote DenoteProofs Readers.
Import ListNotations.
Open Scope N_scope.

Arguments N.add : simpl never.
Arguments N.mul : simpl never.
Arguments N.pow : simpl never.
Arguments N.modulo : simpl never.
Arguments N.div : simpl never.
Arguments N.sub : simpl never.
Arguments N.min : simpl never.
Arguments N.max : simpl never.

(* ---------------------------------------------------------------- *)
(* takeN / dropN                                                    *)
(* ---------------------------------------------------------------- *)
Lemma takeN_dropN n (l : bytes) : takeN n l ++ dropN n l = l.
Proof. unfold takeN, dropN. apply firstn_skipn. Qed.

Lemma dropN_blen n (l : bytes) : blen (dropN n l) = blen l - N.min n (blen l).
Proof. unfold dropN, blen. rewrite skipn_length. lia. Qed.

Lemma takeN_nil n : takeN n [] = [].
Proof. unfold takeN. apply firstn_nil. Qed.

Lemma takeN_0 (l : bytes) : takeN 0 l = [].
Proof. unfold takeN. replace (N.to_nat (N.min 0 (blen l))) with O by lia. reflexivity. Qed.

Lemma blen_nil : blen [] = 0.
Proof. reflexivity. Qed.

Lemma blen_cons x (l : bytes) : blen (x :: l) = 1 + blen l.
Proof. unfold blen. cbn [length]. lia. Qed.

Lemma blen_0_nil (l : bytes) : blen l = 0 -> l = [].
Proof. destruct l; [reflexivity|]. rewrite blen_cons. lia. Qed.

Lemma takeN_pos_nonnil k (l : bytes) : 0 < k -> l <> [] -> takeN k l <> [].
Proof.
  intros Hk Hl E. apply (f_equal blen) in E. rewrite takeN_blen, blen_nil in E.
  destruct l; [contradiction|]. rewrite blen_cons in E. lia.
Qed.

Lemma takeN_app_le n (d x : bytes) : blen d <= n -> takeN n (d ++ x) = d ++ takeN (n - blen d) x.
Proof.
  intros H. unfold takeN. rewrite blen_app.
  replace (N.to_nat (N.min n (blen d + blen x))) with (length d + N.to_nat (N.min (n - blen d) (blen x)))%nat
    by (unfold blen in *; lia).
  rewrite firstn_app_2. reflexivity.
Qed.

Lemma takeN_all n (l : bytes) : blen l <= n -> takeN n l = l.
Proof. intros H. unfold takeN. rewrite N.min_r by assumption. unfold blen. rewrite Nat2N.id. apply firstn_all. Qed.

Lemma dropN_all n (l : bytes) : blen l <= n -> dropN n l = [].
Proof. intros H. unfold dropN. rewrite N.min_r by assumption. unfold blen. rewrite Nat2N.id. apply skipn_all. Qed.

Lemma takeN_firstn n (l : bytes) : takeN n l = firstn (N.to_nat n) l.
Proof.
  unfold takeN. destruct (N.le_ge_cases n (blen l)).
  - rewrite N.min_l by assumption. reflexivity.
  - rewrite N.min_r by assumption. unfold blen in *. rewrite Nat2N.id.
    rewrite firstn_all. symmetry. apply firstn_all2. lia.
Qed.

Lemma dropN_skipn n (l : bytes) : dropN n l = skipn (N.to_nat n) l.
Proof.
  unfold dropN. destruct (N.le_ge_cases n (blen l)).
  - rewrite N.min_l by assumption. reflexivity.
  - rewrite N.min_r by assumption. unfold blen in *. rewrite Nat2N.id.
    rewrite skipn_all. symmetry. apply skipn_all2. lia.
Qed.

Lemma skipn_length_plus {A} (d x : list A) k : skipn (length d + k) (d ++ x) = skipn k x.
Proof. induction d as [|a d IH]; cbn; [reflexivity|exact IH]. Qed.

(* ---------------------------------------------------------------- *)
(* well-formed reader stacks                                        *)
(* ---------------------------------------------------------------- *)
Fixpoint wf_layers (l : list layer) (b : base) : Prop :=
  match l with
  | [] => True
  | LBuf size buf err :: r =>
      0 < size /\ (forall e, err = Some e -> den r b = [] /\ (b_term b = EOF -> e = EOF)) /\ wf_layers r b
  | LLim n :: r => wf_layers r b
  end.

Lemma dropN_app_le n (d x : bytes) : blen d <= n -> dropN n (d ++ x) = dropN (n - blen d) x.
Proof.
  intros H. rewrite !dropN_skipn.
  replace (N.to_nat n) with (length d + N.to_nat (n - blen d))%nat by (unfold blen in *; lia).
  apply skipn_length_plus.
Qed.

(* what lies beyond each LimitedReader's limit: untouched by anything read through it *)
Fixpoint beyonds (l : list layer) (b : base) : list bytes :=
  match l with
  | [] => []
  | LBuf _ _ _ :: r => beyonds r b
  | LLim n :: r => dropN n (den r b) :: beyonds r b
  end.

Definition lkind (x : layer) : bool := match x with LBuf _ _ _ => true | LLim _ => false end.
Definition lsize (x : layer) : N := match x with LBuf size _ _ => size | LLim _ => 0 end.

(* fewer than 100 consecutive empty reads anywhere in the script (bufio's ErrNoProgress rule) *)
Fixpoint zrun (l : list N) : nat := match l with 0 :: r => S (zrun r) | _ => O end.
Fixpoint stall_free (l : list N) : Prop :=
  match l with [] => True | _ :: r => (zrun l < 100)%nat /\ stall_free r end.

Lemma stall_free_tl l : stall_free l -> stall_free (tl l).
Proof. destruct l; cbn; [trivial|tauto]. Qed.

Lemma stall_free_zrun l : stall_free l -> (zrun l < 100)%nat.
Proof. destruct l; cbn [stall_free]; [cbn; lia|tauto]. Qed.

(* ---------------------------------------------------------------- *)
(* one Read                                                         *)
(* ---------------------------------------------------------------- *)
Record read_post (l : list layer) (b : base) (k : N) (d : bytes) (e : option ioerr) (l' : list layer) (b' : base) : Prop := {
  rp_den : den l b = d ++ den l' b';
  rp_len : blen d <= k;
  rp_wf : wf_layers l' b';
  rp_err : forall x, e = Some x -> den l' b' = [] /\ (b_term b = EOF -> x = EOF);
  rp_term : b_term b' = b_term b;
  rp_weof : b_weof b' = b_weof b;
  rp_sizes : b_sizes b' = b_sizes b \/ b_sizes b' = tl (b_sizes b);
  rp_zero : d = [] -> e = None -> exists r, b_sizes b = 0 :: r /\ b_sizes b' = r;
  rp_depth : length l' = length l;
  rp_kinds : map lkind l' = map lkind l /\ map lsize l' = map lsize l;
  rp_beyond : beyonds l' b' = beyonds l b }.

Ltac rp_easy := first [ reflexivity | assumption | discriminate | (left; reflexivity) | (right; reflexivity)
                       | (cbn; lia) | (intros; discriminate)
                       | (let y := fresh "y" in let Hy := fresh "Hy" in
                          intros y Hy; injection Hy as <-; split; [first [reflexivity|assumption]|first [trivial|assumption]])
                       | (split; reflexivity)
                       | (match goal with K : map lkind _ = _ /\ _ |- _ /\ _ => destruct K as [? ?]; split; cbn [map lkind lsize]; congruence end)
                       | idtac ].
Ltac rp_split := apply Build_read_post; cbn [den wf_layers app length b_data b_sizes b_term b_weof base_with beyonds map lkind lsize]; rp_easy.

Lemma base_read_spec b k d e b' : 0 < k -> base_read b k = (d, e, b') -> read_post [] b k d e [] b'.
Proof.
  intros Hk H. unfold base_read in H.
  destruct (b_data b) as [|x dat] eqn:Ed.
  - injection H as <- <- <-. rp_split.
  - set (n := match b_sizes b with [] => blen (x :: dat) | s :: _ => s end) in H.
    destruct (N.eqb_spec n 0) as [E0|N0].
    + injection H as <- <- <-. rp_split.
      intros _ _. subst n. destruct (b_sizes b) as [|s r]; [rewrite blen_cons in E0; lia|].
      subst s. exists r. split; reflexivity.
    + injection H as <- <- <-. rp_split.
      * rewrite Ed. symmetry. apply takeN_dropN.
      * rewrite takeN_blen. lia.
      * intros y Hy. destruct (dropN (N.min n k) (x :: dat)) eqn:Edr; [|discriminate].
        split; [reflexivity|]. destruct (b_weof b); [|discriminate]. injection Hy as <-. auto.
      * intros Hd _. exfalso. revert Hd. apply takeN_pos_nonnil; [lia|discriminate].
Qed.

Lemma rread_spec l : forall b k d e l' b', 0 < k -> wf_layers l b ->
  rread l b k = (d, e, l', b') -> read_post l b k d e l' b'.
Proof.
  induction l as [|ly r IH]; intros b k d e l' b' Hk Hwf H.
  - cbn [rread] in H. destruct (base_read b k) as [[d0 e0] b0] eqn:Eb. injection H as <- <- <- <-.
    apply base_read_spec; assumption.
  - destruct ly as [size buf err|n].
    + (* bufio *)
      cbn [wf_layers] in Hwf. destruct Hwf as (Hsz & Herr & Hwr).
      cbn [rread] in H. destruct buf as [|x buf].
      * destruct err as [e0|].
        -- injection H as <- <- <- <-. destruct (Herr e0 eq_refl) as [Hd He]. rp_split.
           split; [assumption|]. split; [intros ? ?; discriminate|assumption].
        -- destruct (N.leb_spec size k) as [Hle|Hgt].
           ++ destruct (rread r b k) as [[[d0 e0] r0] b0] eqn:Er. injection H as <- <- <- <-.
              destruct (IH _ _ _ _ _ _ Hk Hwr Er) as [D L W E T We S Z Len Kd By]. rp_split.
              split; [assumption|]. split; [intros ? ?; discriminate|assumption].
           ++ destruct (rread r b size) as [[[d0 e0] r0] b0] eqn:Er.
              destruct (IH _ _ _ _ _ _ Hsz Hwr Er) as [D L W E T We S Z Len Kd By].
              destruct d0 as [|y d0].
              ** injection H as <- <- <- <-. rp_split.
                 split; [assumption|]. split; [intros ? ?; discriminate|assumption].
              ** injection H as <- <- <- <-. rp_split.
                 --- rewrite D. rewrite app_assoc. rewrite takeN_dropN. reflexivity.
                 --- rewrite takeN_blen. lia.
                 --- split; [assumption|]. split; [|assumption].
                     intros y0 Hy0. destruct (E y0 Hy0) as [E1 E2]. split; [assumption|].
                     intros Ht. apply E2. congruence.
                 --- intros Hd _. exfalso. revert Hd. apply takeN_pos_nonnil; [assumption|discriminate].
      * injection H as <- <- <- <-. rp_split.
        -- rewrite app_assoc. rewrite takeN_dropN. reflexivity.
        -- rewrite takeN_blen. lia.
        -- split; [assumption|]. split; assumption.
        -- intros Hd _. exfalso. revert Hd. apply takeN_pos_nonnil; [assumption|discriminate].
    + (* limit *)
      cbn [wf_layers] in Hwf. cbn [rread] in H.
      destruct (N.eqb_spec n 0) as [E0|N0].
      * injection H as <- <- <- <-. subst n. rp_split.
        intros y Hy. injection Hy as <-. rewrite takeN_0. split; reflexivity.
      * destruct (rread r b (N.min k n)) as [[[d0 e0] r0] b0] eqn:Er. injection H as <- <- <- <-.
        assert (Hk' : 0 < N.min k n) by lia.
        destruct (IH _ _ _ _ _ _ Hk' Hwf Er) as [D L W E T We S Z Len Kd By]. rp_split.
        -- rewrite D. apply takeN_app_le. lia.
        -- intros y Hy. destruct (E y Hy) as [E1 E2]. rewrite E1, takeN_nil. split; [reflexivity|assumption].
        -- f_equal; [|assumption]. rewrite D. symmetry. apply dropN_app_le. lia.
Qed.

Definition wf_reader (r : reader) : Prop := wf_layers (ls r) (bs r) /\ stall_free (b_sizes (bs r)).

Lemma sizes_step_stall (s s' : list N) : (s' = s \/ s' = tl s) -> stall_free s -> stall_free s'.
Proof. intros [->| ->] H; [assumption|apply stall_free_tl; assumption]. Qed.

Record rd_post (r : reader) (k : N) (d : bytes) (e : option ioerr) (r' : reader) : Prop := {
  rq_den : rden r = d ++ rden r';
  rq_len : blen d <= k;
  rq_wf : wf_reader r';
  rq_err : forall x, e = Some x -> rden r' = [] /\ (b_term (bs r) = EOF -> x = EOF);
  rq_term : b_term (bs r') = b_term (bs r);
  rq_sizes : (length (b_sizes (bs r')) <= length (b_sizes (bs r)))%nat;
  rq_zero : d = [] -> e = None -> (length (b_sizes (bs r')) < length (b_sizes (bs r)))%nat /\
                                  zrun (b_sizes (bs r)) = S (zrun (b_sizes (bs r')));
  rq_kinds : map lkind (ls r') = map lkind (ls r) /\ map lsize (ls r') = map lsize (ls r);
  rq_beyond : beyonds (ls r') (bs r') = beyonds (ls r) (bs r) }.

Lemma rd_read_spec r k d e r' : 0 < k -> wf_reader r -> rd_read r k = (d, e, r') -> rd_post r k d e r'.
Proof.
  intros Hk [Hw Hs] H. unfold rd_read in H.
  destruct (rread (ls r) (bs r) k) as [[[d0 e0] l0] b0] eqn:Er. injection H as <- <- <-.
  destruct (rread_spec _ _ _ _ _ _ _ Hk Hw Er) as [D L W E T We S Z Len Kd By].
  apply Build_rd_post; unfold rden, wf_reader; cbn [ls bs]; try assumption.
  - split; [assumption|]. eapply sizes_step_stall; eassumption.
  - destruct S as [-> | ->]; [lia|]. destruct (b_sizes (bs r)); cbn; lia.
  - intros H1 H2. destruct (Z H1 H2) as (q & Q1 & Q2). rewrite Q1, Q2. cbn. split; [lia|reflexivity].
Qed.

(* ---------------------------------------------------------------- *)
(* io.ReadFull                                                      *)
(* ---------------------------------------------------------------- *)
Definition same_shape (r r' : reader) : Prop :=
  b_term (bs r') = b_term (bs r) /\
  (map lkind (ls r') = map lkind (ls r) /\ map lsize (ls r') = map lsize (ls r)) /\
  beyonds (ls r') (bs r') = beyonds (ls r) (bs r) /\
  (length (b_sizes (bs r')) <= length (b_sizes (bs r)))%nat.

Lemma same_shape_refl r : same_shape r r.
Proof. unfold same_shape. auto. Qed.

Lemma same_shape_trans a b c : same_shape a b -> same_shape b c -> same_shape a c.
Proof.
  unfold same_shape. intros (A1 & (A2 & A2') & A3 & A4) (B1 & (B2 & B2') & B3 & B4).
  split; [congruence|]. split; [split; congruence|]. split; [congruence|lia].
Qed.

Lemma rd_post_shape r k d e r' : rd_post r k d e r' -> same_shape r r'.
Proof. intros [D L W E T S Z Kd By]. unfold same_shape. auto. Qed.

(* the error class of a short read: io.EOF only if nothing at all was there and the transport ended cleanly *)
Definition short_class {A} (x : dres A) (avail : bytes) (term : ioerr) : Prop :=
  (x = ErrEOF \/ x = Err) /\ (x = ErrEOF -> avail = []) /\
  (term = EOF -> x = match avail with [] => ErrEOF | _ :: _ => Err end).

Lemma readfull_loop_spec fuel : forall r need acc x r',
  wf_reader r -> (N.to_nat need + length (b_sizes (bs r)) < fuel)%nat ->
  readfull_loop fuel r need acc = (x, r') ->
  wf_reader r' /\ same_shape r r' /\
  (need <= blen (rden r) -> x = Ok (acc ++ takeN need (rden r)) /\ rden r' = dropN need (rden r)) /\
  (blen (rden r) < need -> short_class x (acc ++ rden r) (b_term (bs r)) /\ rden r' = []).
Proof.
  induction fuel as [|f IH]; intros r need acc x r' Hw Hf H; [lia|].
  cbn [readfull_loop] in H. destruct (N.eqb_spec need 0) as [E0|N0].
  - injection H as <- <-. subst need. split; [assumption|]. split; [apply same_shape_refl|]. split.
    + intros _. rewrite takeN_0, app_nil_r. split; [reflexivity|]. rewrite dropN_skipn. reflexivity.
    + lia.
  - destruct (rd_read r need) as [[d e] r1] eqn:Er.
    assert (Hk: 0 < need) by lia.
    pose proof (rd_read_spec _ _ _ _ _ Hk Hw Er) as P. pose proof (rd_post_shape _ _ _ _ _ P) as Sh.
    destruct P as [D L W E T S Z Kd By].
    destruct e as [y|].
    + (* terminal error came with this read *)
      destruct (E y eq_refl) as [Hnil Hy]. rewrite Hnil, app_nil_r in D.
      destruct (N.eqb_spec (need - blen d) 0) as [Ez|Nz].
      * injection H as <- <-. split; [assumption|]. split; [assumption|]. split.
        -- intros _. rewrite D. rewrite takeN_all by lia. split; [reflexivity|].
           rewrite dropN_all by lia. assumption.
        -- rewrite D. lia.
      * assert (Hshort: blen (rden r) < need) by (rewrite D; lia).
        split; [|split; [|split; [lia|]]].
        -- destruct (acc ++ d), y; injection H as <- <-; assumption.
        -- destruct (acc ++ d), y; injection H as <- <-; assumption.
        -- intros _. rewrite D. split.
           ++ unfold short_class. destruct (acc ++ d) as [|z q] eqn:Ea.
              ** destruct y; injection H as <- <-.
                 --- repeat split; auto.
                 --- repeat split; auto; try discriminate. intros Ht. specialize (Hy Ht). discriminate.
              ** destruct y; injection H as <- <-; repeat split; auto; discriminate.
           ++ destruct (acc ++ d), y; injection H as <- <-; assumption.
    + (* go on *)
      assert (Hf': (N.to_nat (need - blen d) + length (b_sizes (bs r1)) < f)%nat).
      { destruct d as [|z q].
        - destruct (Z eq_refl eq_refl) as [Z1 _]. rewrite blen_nil. lia.
        - rewrite blen_cons in *. lia. }
      destruct (IH _ _ _ _ _ W Hf' H) as (W' & Sh' & Hok & Hsh).
      split; [assumption|]. split; [eapply same_shape_trans; eassumption|].
      rewrite D, blen_app. split.
      * intros Hle. destruct Hok as [-> Hd]; [lia|]. split.
        -- rewrite takeN_app_le by lia. rewrite <- app_assoc. reflexivity.
        -- rewrite Hd. rewrite !dropN_skipn. replace (N.to_nat need) with (length d + N.to_nat (need - blen d))%nat by (unfold blen in *; lia).
           symmetry. apply skipn_length_plus.
      * intros Hlt. destruct Hsh as [Hc Hn]; [lia|]. split; [|assumption].
        rewrite <- T. rewrite <- app_assoc in Hc. rewrite app_assoc. rewrite <- app_assoc. exact Hc.
Qed.

Lemma readfull_spec n r x r' : wf_reader r -> readfull n r = (x, r') ->
  wf_reader r' /\ same_shape r r' /\
  (n <= blen (rden r) -> x = Ok (takeN n (rden r)) /\ rden r' = dropN n (rden r)) /\
  (blen (rden r) < n -> short_class x (rden r) (b_term (bs r)) /\ rden r' = []).
Proof.
  intros Hw H. unfold readfull in H.
  apply readfull_loop_spec in H; [|assumption|lia]. exact H.
Qed.

(* ---------------------------------------------------------------- *)
(* bufio.Reader.ReadByte                                            *)
(* ---------------------------------------------------------------- *)
Record fill_post (l : list layer) (b : base) (d : bytes) (e : option ioerr) (l' : list layer) (b' : base) : Prop := {
  fp_den : den l b = d ++ den l' b';
  fp_wf : wf_layers l' b';
  fp_sf : stall_free (b_sizes b');
  fp_err : forall x, e = Some x -> den l' b' = [] /\ (b_term b = EOF -> x = EOF);
  fp_some : e = None -> d <> [];
  fp_term : b_term b' = b_term b;
  fp_kinds : map lkind l' = map lkind l /\ map lsize l' = map lsize l;
  fp_beyond : beyonds l' b' = beyonds l b;
  fp_sizes : (length (b_sizes b') <= length (b_sizes b))%nat }.

Lemma fill_loop_spec i : forall l b size d e l' b',
  0 < size -> wf_layers l b -> stall_free (b_sizes b) -> (zrun (b_sizes b) < i)%nat ->
  fill_loop i l b size = (d, e, l', b') -> fill_post l b d e l' b'.
Proof.
  induction i as [|j IH]; intros l b size d e l' b' Hs Hw Hsf Hz H; [lia|].
  cbn [fill_loop] in H. destruct (rread l b size) as [[[d0 e0] l0] b0] eqn:Er.
  destruct (rread_spec _ _ _ _ _ _ _ Hs Hw Er) as [D L W E T We S Z Len Kd By].
  assert (Hsf0: stall_free (b_sizes b0)) by (eapply sizes_step_stall; eassumption).
  assert (Hlen0: (length (b_sizes b0) <= length (b_sizes b))%nat).
  { destruct S as [-> | ->]; [lia|]. destruct (b_sizes b); cbn; lia. }
  destruct e0 as [y|].
  - injection H as <- <- <- <-. apply Build_fill_post; try assumption; try discriminate.
  - destruct d0 as [|z q].
    + destruct (Z eq_refl eq_refl) as (rs & Z1 & Z2).
      assert (Hz': (zrun (b_sizes b0) < j)%nat) by (rewrite Z1 in Hz; rewrite Z2; cbn in Hz; lia).
      destruct (IH _ _ _ _ _ _ _ Hs W Hsf0 Hz' H) as [D' W' S' E' N' T' [K1' K2'] By' Z'].
      destruct Kd as [K1 K2].
      apply Build_fill_post; try assumption; try congruence; try lia.
      * rewrite D. cbn [app]. assumption.
      * intros x0 Hx. destruct (E' x0 Hx) as [E1 E2]. split; [assumption|]. intros Ht. apply E2. congruence.
      * split; congruence.
    + injection H as <- <- <- <-. apply Build_fill_post; try assumption; try discriminate.
Qed.

Record rb_post (r : reader) (x : dres byte) (r' : reader) : Prop := {
  rb_wf : wf_reader r';
  rb_shape : same_shape r r';
  rb_res : match rden r with
           | y :: rest => x = Ok y /\ rden r' = rest
           | [] => short_class x [] (b_term (bs r)) /\ rden r' = []
           end }.

Lemma short_class_eclass {A} e t : (t = EOF -> e = EOF) -> short_class (@eclass A e) [] t.
Proof.
  intros H. unfold short_class. destruct e; cbn.
  - split; [auto|]. split; auto.
  - split; [auto|]. split; [discriminate|]. intros Ht. specialize (H Ht). discriminate.
Qed.

Lemma readbyte_spec r x r' : wf_reader r -> ls r <> [] -> (forall n l, ls r <> LLim n :: l) ->
  readbyte r = (x, r') -> rb_post r x r'.
Proof.
  intros [Hw Hsf] Hne Hnl H. unfold readbyte in H.
  destruct (ls r) as [|[size buf err|n] l] eqn:El; [contradiction| |exfalso; eapply Hnl; reflexivity].
  cbn [wf_layers] in Hw. destruct Hw as (Hsz & Herr & Hwl).
  destruct buf as [|y buf].
  - destruct err as [e0|].
    + injection H as <- <-. destruct (Herr e0 eq_refl) as [Hd He].
      apply Build_rb_post; unfold rden, wf_reader, same_shape; rewrite ?El; cbn [ls bs den wf_layers length app beyonds map lkind lsize].
      * split; [|assumption]. split; [assumption|]. split; [intros ? ?; discriminate|assumption].
      * auto.
      * rewrite Hd. split; [|reflexivity]. apply short_class_eclass. assumption.
    + destruct (fill_loop 100 l (bs r) size) as [[[d e] l0] b0] eqn:Ef.
      destruct (fill_loop_spec _ _ _ _ _ _ _ _ Hsz Hwl Hsf (stall_free_zrun _ Hsf) Ef) as [D W S E N T [K1 K2] By Z].
      destruct d as [|z q].
      * destruct e as [e0|]; [|exfalso; apply (N eq_refl); reflexivity].
        injection H as <- <-. destruct (E e0 eq_refl) as [E1 E2].
        apply Build_rb_post; unfold rden, wf_reader, same_shape; rewrite ?El; cbn [ls bs den wf_layers length app beyonds map lkind lsize].
        -- split; [|assumption]. split; [assumption|]. split; [intros ? ?; discriminate|assumption].
        -- split; [assumption|]. split; [split; congruence|]. split; assumption.
        -- rewrite D, E1. cbn [app]. split; [|reflexivity]. apply short_class_eclass. assumption.
      * injection H as <- <-.
        apply Build_rb_post; unfold rden, wf_reader, same_shape; rewrite ?El; cbn [ls bs den wf_layers length app beyonds map lkind lsize].
        -- split; [|assumption]. split; [assumption|]. split; [|assumption].
           intros e0 He0. destruct (E e0 He0) as [E1 E2]. split; [assumption|]. intros Ht. apply E2. congruence.
        -- split; [assumption|]. split; [split; congruence|]. split; assumption.
        -- rewrite D. cbn [app]. split; reflexivity.
  - injection H as <- <-.
    apply Build_rb_post; unfold rden, wf_reader, same_shape; rewrite ?El; cbn [ls bs den wf_layers length app beyonds map lkind lsize].
    + split; [|assumption]. split; [assumption|]. split; assumption.
    + auto.
    + split; reflexivity.
Qed.

(* the source is itself an io.ByteScanner (bytes.Reader): no layers *)
Lemma readbyte_base_spec r x r' : ls r = [] -> readbyte r = (x, r') ->
  ls r' = [] /\ b_term (bs r') = b_term (bs r) /\ b_sizes (bs r') = b_sizes (bs r) /\
  match rden r with
  | y :: rest => x = Ok y /\ rden r' = rest
  | [] => x = ErrEOF /\ rden r' = []
  end.
Proof.
  intros El H. unfold readbyte in H. rewrite El in H. unfold rden. rewrite El. cbn [den].
  destruct (b_data (bs r)) as [|y d] eqn:Ed.
  - injection H as <- <-. rewrite El. cbn [den]. rewrite Ed. auto.
  - injection H as <- <-. cbn. auto.
Qed.

(* ---------------------------------------------------------------- *)
(* io.CopyN into a bytes.Buffer / into ioutil.Discard               *)
(* ---------------------------------------------------------------- *)
(* a short CopyN: io.EOF when the source ended cleanly (even after some bytes), the I/O error otherwise *)
Definition copy_class {A} (x : dres A) (term : ioerr) : Prop :=
  (x = ErrEOF \/ x = Err) /\ (term = EOF -> x = ErrEOF).

Definition rmeasure (r : reader) : nat := (length (rden r) + length (b_sizes (bs r)))%nat.

Lemma rd_post_measure r k d e r' : rd_post r k d e r' -> e = None -> (rmeasure r' < rmeasure r)%nat.
Proof.
  intros [D L W E T S Z Kd By] He. unfold rmeasure. rewrite D, app_length. destruct d as [|z q].
  - destruct (Z eq_refl He) as [Z1 _]. cbn [length]. lia.
  - cbn [length]. lia.
Qed.

Lemma copy_loop_spec fuel : forall r left cap acc al x r' al',
  wf_reader r -> (rmeasure r + 1 < fuel)%nat ->
  copy_loop fuel r left cap acc al = (x, r', al') ->
  wf_reader r' /\ same_shape r r' /\
  (left <= blen (rden r) -> x = Ok (acc ++ takeN left (rden r)) /\ rden r' = dropN left (rden r)) /\
  (blen (rden r) < left -> copy_class x (b_term (bs r)) /\ rden r' = []).
Proof.
  induction fuel as [|f IH]; intros r left cap acc al x r' al' Hw Hf H; [lia|].
  cbn [copy_loop] in H.
  set (len := blen acc) in *.
  destruct (if min_read <=? cap - len then (cap, al) else (N.max (len + min_read) (2 * cap), al + N.max (len + min_read) (2 * cap)))
    as [cap' al1] eqn:Eg.
  assert (Hcap: min_read <= cap' - len).
  { unfold min_read in *. destruct (N.leb_spec 512 (cap - len)); injection Eg as <- <-; lia. }
  destruct (N.eqb_spec left 0) as [E0|N0].
  - injection H as <- <- <-. subst left. split; [assumption|]. split; [apply same_shape_refl|]. split.
    + intros _. rewrite takeN_0, app_nil_r, dropN_skipn. split; reflexivity.
    + lia.
  - destruct (rd_read r (N.min (cap' - len) left)) as [[d e] r1] eqn:Er.
    assert (Hk: 0 < N.min (cap' - len) left) by (unfold min_read in Hcap; lia).
    pose proof (rd_read_spec _ _ _ _ _ Hk Hw Er) as P. pose proof (rd_post_shape _ _ _ _ _ P) as Sh.
    pose proof (rd_post_measure _ _ _ _ _ P) as Hm.
    destruct P as [D L W E T S Z Kd By].
    destruct e as [y|].
    + destruct (E y eq_refl) as [Hnil Hy]. rewrite Hnil, app_nil_r in D.
      assert (Hres: (x, r', al') = (if left - blen d =? 0 then Ok (acc ++ d) else eclass y, r1, al1)).
      { destruct y; symmetry; exact H. }
      injection Hres as -> -> ->. split; [assumption|]. split; [assumption|].
      destruct (N.eqb_spec (left - blen d) 0) as [Ez|Nz].
      * split.
        -- intros _. rewrite D. rewrite takeN_all, dropN_all by lia. auto.
        -- rewrite D. lia.
      * split; [rewrite D; lia|]. intros _. split; [|assumption].
        unfold copy_class. destruct y; cbn; split; auto. intros Ht. specialize (Hy Ht). discriminate.
    + assert (Hf': (rmeasure r1 + 1 < f)%nat) by (specialize (Hm eq_refl); lia).
      destruct (IH _ _ _ _ _ _ _ _ W Hf' H) as (W' & Sh' & Hok & Hsh).
      split; [assumption|]. split; [eapply same_shape_trans; eassumption|].
      rewrite D, blen_app. split.
      * intros Hle. destruct Hok as [-> Hd]; [lia|]. split.
        -- rewrite takeN_app_le by lia. rewrite <- app_assoc. reflexivity.
        -- rewrite Hd. symmetry. apply dropN_app_le. lia.
      * intros Hlt. destruct Hsh as [Hc Hn]; [lia|]. split; [|assumption]. rewrite <- T. exact Hc.
Qed.

Lemma copy_buf_spec l r x r' al : wf_reader r -> copy_buf l r = (x, r', al) ->
  wf_reader r' /\ same_shape r r' /\
  (l <= blen (rden r) -> x = Ok (takeN l (rden r)) /\ rden r' = dropN l (rden r)) /\
  (blen (rden r) < l -> copy_class x (b_term (bs r)) /\ rden r' = []).
Proof.
  intros Hw H. unfold copy_buf in H. apply copy_loop_spec in H; [exact H|assumption|unfold rmeasure; lia].
Qed.

Lemma discard_loop_spec fuel : forall r left x r',
  wf_reader r -> (rmeasure r + 1 < fuel)%nat ->
  discard_loop fuel r left = (x, r') ->
  wf_reader r' /\ same_shape r r' /\
  (left <= blen (rden r) -> x = Ok tt /\ rden r' = dropN left (rden r)) /\
  (blen (rden r) < left -> copy_class x (b_term (bs r)) /\ rden r' = []).
Proof.
  induction fuel as [|f IH]; intros r left x r' Hw Hf H; [lia|].
  cbn [discard_loop] in H.
  destruct (N.eqb_spec left 0) as [E0|N0].
  - injection H as <- <-. subst left. split; [assumption|]. split; [apply same_shape_refl|]. split.
    + intros _. rewrite dropN_skipn. split; reflexivity.
    + lia.
  - destruct (rd_read r (N.min discard_buf left)) as [[d e] r1] eqn:Er.
    assert (Hk: 0 < N.min discard_buf left) by (unfold discard_buf; lia).
    pose proof (rd_read_spec _ _ _ _ _ Hk Hw Er) as P. pose proof (rd_post_shape _ _ _ _ _ P) as Sh.
    pose proof (rd_post_measure _ _ _ _ _ P) as Hm.
    destruct P as [D L W E T S Z Kd By].
    destruct e as [y|].
    + destruct (E y eq_refl) as [Hnil Hy]. rewrite Hnil, app_nil_r in D.
      assert (Hres: (x, r') = (if left - blen d =? 0 then Ok tt else eclass y, r1)).
      { destruct y; symmetry; exact H. }
      injection Hres as -> ->. split; [assumption|]. split; [assumption|].
      destruct (N.eqb_spec (left - blen d) 0) as [Ez|Nz].
      * split.
        -- intros _. rewrite D. rewrite dropN_all by lia. auto.
        -- rewrite D. lia.
      * split; [rewrite D; lia|]. intros _. split; [|assumption].
        unfold copy_class. destruct y; cbn; split; auto. intros Ht. specialize (Hy Ht). discriminate.
    + assert (Hf': (rmeasure r1 + 1 < f)%nat) by (specialize (Hm eq_refl); lia).
      destruct (IH _ _ _ _ W Hf' H) as (W' & Sh' & Hok & Hsh).
      split; [assumption|]. split; [eapply same_shape_trans; eassumption|].
      rewrite D, blen_app. split.
      * intros Hle. destruct Hok as [-> Hd]; [lia|]. split; [reflexivity|].
        rewrite Hd. symmetry. apply dropN_app_le. lia.
      * intros Hlt. destruct Hsh as [Hc Hn]; [lia|]. split; [|assumption]. rewrite <- T. exact Hc.
Qed.

Lemma discard_spec p r x r' : wf_reader r -> discard p r = (x, r') ->
  wf_reader r' /\ same_shape r r' /\
  (p <= blen (rden r) -> x = Ok tt /\ rden r' = dropN p (rden r)) /\
  (blen (rden r) < p -> copy_class x (b_term (bs r)) /\ rden r' = []).
Proof.
  intros Hw H. unfold discard in H. apply discard_loop_spec in H; [exact H|assumption|unfold rmeasure; lia].
Qed.

(* ================================================================ *)
(* the decoder on reader objects simulates the flat decoder          *)
(* ================================================================ *)
Definition flat (s : cstate) : dstate := {| rest := rden (rd s); last := clast s |}.

Definition scannable (r : reader) : Prop := match ls r with LLim _ :: _ => False | _ => True end.

Definition wf_c (s : cstate) : Prop := wf_reader (rd s) /\ scannable (rd s).
Definition cshape (s s' : cstate) : Prop := same_shape (rd s) (rd s').

Lemma shape_scannable r r' : same_shape r r' -> scannable r -> scannable r'.
Proof.
  unfold same_shape, scannable. intros (_ & (K & _) & _) H.
  destruct (ls r) as [|[? ? ?|?] ?], (ls r') as [|[? ? ?|?] ?]; cbn in *; try discriminate; auto.
Qed.

Lemma cshape_refl s : cshape s s.
Proof. apply same_shape_refl. Qed.
Lemma cshape_trans a b c : cshape a b -> cshape b c -> cshape a c.
Proof. apply same_shape_trans. Qed.

Definition strip {A} (fr : dres (A * dstate)) : dres A :=
  match fr with Ok (a, _) => Ok a | ErrEOF => ErrEOF | Err => Err | OutOfFuel => OutOfFuel end.

Record sim_post {A} (s : cstate) (x : dres A) (s' : cstate) (fr : dres (A * dstate)) : Prop := {
  sp_ok : forall a, x = Ok a -> exists st', fr = Ok (a, st') /\ flat s' = st' /\ wf_c s' /\ cshape s s';
  sp_eof : b_term (bs (rd s)) = EOF -> x = strip fr;
  sp_fuel : x = OutOfFuel -> fr = OutOfFuel;
  sp_eofres : x = ErrEOF -> fr = ErrEOF }.

Definition sim {A} (m : M A) (f : dstate -> dres (A * dstate)) : Prop :=
  forall s x s', wf_c s -> m s = (x, s') -> sim_post s x s' (f (flat s)).

Lemma sim_ext {A} (m : M A) f g : (forall st, f st = g st) -> sim m f -> sim m g.
Proof. intros E H s x s' Hw Hm. rewrite <- E. apply H; assumption. Qed.

Lemma sim_ret {A} (a : A) : sim (mret a) (fun st => Ok (a, st)).
Proof.
  intros s x s' Hw H. unfold mret in H. injection H as <- <-. split.
  - intros a0 E. injection E as <-. exists (flat s). split; [reflexivity|]. split; [reflexivity|]. split; [assumption|]. apply cshape_refl.
  - reflexivity.
  - discriminate.
  - discriminate.
Qed.

Lemma sim_fail_err {A} : sim (@mfail A Err) (fun _ => Err).
Proof. intros s x s' Hw H. unfold mfail in H. injection H as <- <-. split; [discriminate|reflexivity|discriminate|discriminate]. Qed.

Lemma sim_bind {A B} (m1 : M A) (m2 : A -> M B) f1 f2 :
  sim m1 f1 -> (forall a, sim (m2 a) (f2 a)) ->
  sim (mbind m1 m2) (fun st => bind (f1 st) (fun p => f2 (fst p) (snd p))).
Proof.
  intros H1 H2 s x s' Hw H. unfold mbind in H. destruct (m1 s) as [x1 s1] eqn:E1.
  destruct (H1 _ _ _ Hw E1) as [O1 F1 U1 V1].
  destruct x1 as [a| | |].
  - destruct (O1 a eq_refl) as (st1 & Ef & Efl & Hw1 & Sh1). rewrite Ef. cbn [bind fst snd].
    destruct (H2 a _ _ _ Hw1 H) as [O2 F2 U2 V2]. rewrite Efl in *. split.
    + intros b Hb. destruct (O2 b Hb) as (st2 & E2 & Efl2 & Hw2 & Sh2). exists st2.
      split; [assumption|]. split; [assumption|]. split; [assumption|]. eapply cshape_trans; eassumption.
    + intros Ht. apply F2. destruct Sh1 as (T & _). congruence.
    + exact U2.
    + exact V2.
  - injection H as <- <-. rewrite (V1 eq_refl). cbn [bind]. split; [discriminate|reflexivity|discriminate|reflexivity].
  - injection H as <- <-. split; [discriminate| |discriminate|discriminate].
    intros Ht. specialize (F1 Ht). destruct (f1 (flat s)) as [[? ?]| | |]; cbn in F1; try discriminate. reflexivity.
  - injection H as <- <-. rewrite (U1 eq_refl). cbn [bind]. split; [discriminate|reflexivity|reflexivity|discriminate].
Qed.

(* the flat code binds with a pattern: [let* (a, st') := f1 st in f2 a st'] *)
Lemma sim_bind_pat {A B} (m1 : M A) (m2 : A -> M B) f1 (f2 : A -> dstate -> dres (B * dstate)) :
  sim m1 f1 -> (forall a, sim (m2 a) (f2 a)) ->
  sim (mbind m1 m2) (fun st => let* (a, st') := f1 st in f2 a st').
Proof.
  intros H1 H2. eapply sim_ext; [|apply (sim_bind m1 m2 f1 f2 H1 H2)].
  intros st. cbv beta. destruct (f1 st) as [[a st']| | |]; reflexivity.
Qed.

(* flat operations that only return the next state *)
Definition lift0 (g : dstate -> dres dstate) : dstate -> dres (unit * dstate) :=
  fun st => let* st' := g st in Ok (tt, st').

Lemma sim_bind0 {B} (m1 : M unit) (m2 : M B) g (f2 : dstate -> dres (B * dstate)) :
  sim m1 (lift0 g) -> sim m2 f2 ->
  sim (mbind m1 (fun _ => m2)) (fun st => let* st' := g st in f2 st').
Proof.
  intros H1 H2. eapply sim_ext; [|apply (sim_bind m1 (fun _ => m2) (lift0 g) (fun _ => f2) H1 (fun _ => H2))].
  intros st. unfold lift0. cbv beta. destruct (g st); reflexivity.
Qed.

Lemma sim_charge n : sim (charge n) (fun st => Ok (tt, st)).
Proof.
  intros s x s' Hw H. unfold charge in H. injection H as <- <-. split.
  - intros a E. injection E as <-. exists (flat s). split; [reflexivity|]. split; [reflexivity|]. split; [exact Hw|]. apply same_shape_refl.
  - reflexivity.
  - discriminate.
  - discriminate.
Qed.

Lemma sim_charge_then {B} n (m : M B) f : sim m f -> sim (let^ _ := charge n in m) f.
Proof.
  intros H. eapply sim_ext; [|apply (sim_bind (charge n) (fun _ => m) _ (fun _ => f) (sim_charge n) (fun _ => H))].
  intros st. reflexivity.
Qed.

Lemma sim_charge_fail {A} n : sim (let^ _ := charge n in @mfail A Err) (fun _ => Err).
Proof. apply sim_charge_then. apply sim_fail_err. Qed.

(* ---------------- primitive operations ---------------- *)
Lemma flat_with_rd s r a : flat {| rd := r; clast := clast s; alloc := a |} = {| rest := rden r; last := clast s |}.
Proof. reflexivity. Qed.

Lemma wf_c_step s r' a : wf_c s -> wf_reader r' -> same_shape (rd s) r' ->
  wf_c {| rd := r'; clast := clast s; alloc := a |}.
Proof. intros [_ Hs] Hw Sh. split; [exact Hw|]. eapply shape_scannable; eassumption. Qed.

Lemma read_n_flat k st : (k <= length (rest st))%nat ->
  read_n k st = Ok (firstn k (rest st), {| rest := skipn k (rest st); last := last st |}).
Proof. intros H. unfold read_n. destruct (Nat.leb_spec k (length (rest st))); [reflexivity|lia]. Qed.

Lemma sim_read_nN n : sim (c_read_n n) (read_nN n).
Proof.
  intros s x s' Hw H. unfold c_read_n in H. destruct (readfull n (rd s)) as [x0 r'] eqn:Er.
  injection H as <- <-. destruct Hw as [Hwr Hsc].
  destruct (readfull_spec _ _ _ _ Hwr Er) as (W & Sh & Hok & Hshort).
  unfold read_nN, flat; cbn [rest last rd clast].
  destruct (N.leb_spec n (blen (rden (rd s)))) as [Hle|Hgt].
  - destruct (Hok Hle) as [-> Hd]. rewrite read_n_flat by (cbn [rest]; unfold blen in Hle; lia). cbn [rest last].
    split.
    + intros a E. injection E as <-. eexists. split; [rewrite takeN_firstn; reflexivity|].
      split; [unfold flat; cbn [rd clast]; rewrite Hd, dropN_skipn; reflexivity|]. split; [apply wf_c_step; [split|..]; assumption|exact Sh].
    + intros _. rewrite takeN_firstn. reflexivity.
    + discriminate.
    + discriminate.
  - destruct (Hshort Hgt) as [Hc Hn]. destruct Hc as (Hc1 & Hc2 & Hc3). split.
    + intros a E. destruct Hc1 as [-> | ->]; discriminate.
    + intros Ht. rewrite (Hc3 Ht). destruct (rden (rd s)); reflexivity.
    + intros E. destruct Hc1 as [Hc1|Hc1]; rewrite Hc1 in E; discriminate.
    + intros E. rewrite (Hc2 E). reflexivity.
Qed.

Lemma read_nN_of_nat k st : read_nN (N.of_nat k) st = read_n k st.
Proof.
  unfold read_nN, read_n. rewrite Nat2N.id.
  destruct (N.leb_spec (N.of_nat k) (blen (rest st))), (Nat.leb_spec k (length (rest st))); try reflexivity; unfold blen in *; lia.
Qed.

Lemma sim_read_n k : sim (c_read_n (N.of_nat k)) (read_n k).
Proof. eapply sim_ext; [|apply sim_read_nN]. intros st. apply read_nN_of_nat. Qed.

Lemma sim_copy l : sim (c_copy l) (copy_nN l).
Proof.
  intros s x s' Hw H. unfold c_copy in H. destruct (copy_buf l (rd s)) as [[x0 r'] al] eqn:Er.
  injection H as <- <-. destruct Hw as [Hwr Hsc].
  destruct (copy_buf_spec _ _ _ _ _ Hwr Er) as (W & Sh & Hok & Hshort).
  unfold copy_nN, flat; cbn [rest last rd clast].
  destruct (N.leb_spec l (blen (rden (rd s)))) as [Hle|Hgt].
  - destruct (Hok Hle) as [-> Hd]. rewrite read_n_flat by (cbn [rest]; unfold blen in Hle; lia). cbn [rest last].
    split.
    + intros a E. injection E as <-. eexists. split; [rewrite takeN_firstn; reflexivity|].
      split; [unfold flat; cbn [rd clast]; rewrite Hd, dropN_skipn; reflexivity|]. split; [apply wf_c_step; [split|..]; assumption|exact Sh].
    + intros _. rewrite takeN_firstn. reflexivity.
    + discriminate.
    + discriminate.
  - destruct (Hshort Hgt) as [Hc Hn]. destruct Hc as (Hc1 & Hc2). split.
    + intros a E. destruct Hc1 as [-> | ->]; discriminate.
    + intros Ht. rewrite (Hc2 Ht). reflexivity.
    + intros E. destruct Hc1 as [Hc1|Hc1]; rewrite Hc1 in E; discriminate.
    + reflexivity.
Qed.

(* the skip path's io.CopyN(ioutil.Discard, ..) *)
Definition flat_discard (p : N) (st : dstate) : dres (unit * dstate) :=
  if N.leb p (blen (rest st)) then Ok (tt, {| rest := dropN p (rest st); last := last st |}) else ErrEOF.

Lemma sim_discard p : sim (c_discard p) (flat_discard p).
Proof.
  intros s x s' Hw H. unfold c_discard in H. destruct (discard p (rd s)) as [x0 r'] eqn:Er.
  injection H as <- <-. destruct Hw as [Hwr Hsc].
  destruct (discard_spec _ _ _ _ Hwr Er) as (W & Sh & Hok & Hshort).
  unfold flat_discard, flat; cbn [rest last rd clast].
  destruct (N.leb_spec p (blen (rden (rd s)))) as [Hle|Hgt].
  - destruct (Hok Hle) as [-> Hd]. split.
    + intros a E. injection E as <-. eexists. split; [reflexivity|].
      split; [unfold with_rd, flat; cbn [rd clast]; rewrite Hd; reflexivity|].
      split; [apply wf_c_step; [split|..]; assumption|exact Sh].
    + reflexivity.
    + discriminate.
    + discriminate.
  - destruct (Hshort Hgt) as [Hc Hn]. destruct Hc as (Hc1 & Hc2). split.
    + intros a E. destruct Hc1 as [-> | ->]; discriminate.
    + intros Ht. rewrite (Hc2 Ht). reflexivity.
    + intros E. destruct Hc1 as [Hc1|Hc1]; rewrite Hc1 in E; discriminate.
    + reflexivity.
Qed.

(* ReadByte, as the flat model reads one byte *)
Lemma readbyte_any_spec r x r' : wf_reader r -> scannable r -> readbyte r = (x, r') -> rb_post r x r'.
Proof.
  intros Hw Hsc H. destruct (ls r) as [|ly l] eqn:El.
  - destruct (readbyte_base_spec _ _ _ El H) as (L' & T' & S' & Hres).
    apply Build_rb_post.
    + destruct Hw as [_ Hsf]. split; [rewrite L'; exact I|rewrite S'; exact Hsf].
    + unfold same_shape. rewrite L', El, S'. cbn. auto.
    + destruct (rden r); [|exact Hres]. destruct Hres as [-> Hn]. split; [|exact Hn].
      unfold short_class. auto.
  - apply readbyte_spec; try assumption.
    + rewrite El. discriminate.
    + intros n l0 E. unfold scannable in Hsc. rewrite E in Hsc. exact Hsc.
Qed.

Lemma sim_read_byte : sim c_read_byte (fun st => let* (b, st') := read_n 1 st in
                                            match b with [y] => Ok (y, st') | _ => Err end).
Proof.
  intros s x s' Hw H. unfold c_read_byte in H. destruct (readbyte (rd s)) as [x0 r'] eqn:Er.
  injection H as <- <-. destruct Hw as [Hwr Hsc].
  destruct (readbyte_any_spec _ _ _ Hwr Hsc Er) as [W Sh Hres].
  unfold flat, read_n; cbn [rest last rd clast].
  destruct (rden (rd s)) as [|y q] eqn:Ed.
  - cbn [length Nat.leb bind]. destruct Hres as [Hc Hn]. destruct Hc as (Hc1 & Hc2 & Hc3). split.
    + intros a E. destruct Hc1 as [Hc1|Hc1]; rewrite Hc1 in E; discriminate.
    + intros Ht. rewrite (Hc3 Ht). reflexivity.
    + intros E. destruct Hc1 as [Hc1|Hc1]; rewrite Hc1 in E; discriminate.
    + reflexivity.
  - destruct Hres as [-> Hd]. cbn [length Nat.leb firstn skipn bind]. split.
    + intros a E. injection E as <-. eexists. split; [reflexivity|].
      split; [unfold with_rd, flat; cbn [rd clast]; rewrite Hd; reflexivity|].
      split; [apply wf_c_step; [split|..]; assumption|exact Sh].
    + reflexivity.
    + discriminate.
    + discriminate.
Qed.

(* ---------------- the readers of decode.go ---------------- *)
Lemma sim_read_num k : sim (c_read_num (N.of_nat k)) (read_num k).
Proof.
  unfold c_read_num, read_num. apply sim_bind_pat; [apply sim_read_n|]. intros b. apply sim_ret.
Qed.

Lemma unbe_single y : unbe [y] 0 = b2n y.
Proof. cbn [unbe]. lia. Qed.

Lemma sim_read_type : sim c_read_type (read_num 1).
Proof.
  unfold c_read_type.
  eapply sim_ext; [|apply (sim_bind_pat c_read_byte (fun x => mret (b2n x)) _ (fun y st' => Ok (b2n y, st')) sim_read_byte)].
  - intros st. unfold read_num, read_n.
    destruct (Nat.leb_spec 1 (length (rest st))) as [Hle|Hgt].
    + destruct (rest st) as [|y q]; [cbn in Hle; lia|]. change (firstn 1 (y :: q)) with [y]. cbn [bind]. rewrite unbe_single. reflexivity.
    + destruct (rest st); reflexivity.
  - intros y. apply sim_ret.
Qed.

Lemma sim_iread_tag : sim c_iread_tag iread_tag.
Proof. apply (sim_read_num 3). Qed.

Lemma sim_read_tag : sim c_read_tag read_tag.
Proof.
  intros s x s' Hw H. unfold c_read_tag in H. unfold read_tag. cbn [flat last rest].
  destruct (negb (clast s =? 0)) eqn:En.
  - injection H as <- <-. split.
    + intros a E. injection E as <-. eexists. split; [reflexivity|]. split; [reflexivity|]. split; [exact Hw|apply same_shape_refl].
    + reflexivity.
    + discriminate.
    + discriminate.
  - apply (sim_iread_tag _ _ _ Hw H).
Qed.

Lemma sim_set_last t : sim (c_set_last t) (fun st => Ok (tt, {| rest := rest st; last := t |})).
Proof.
  intros s x s' Hw H. unfold c_set_last in H. injection H as <- <-. split.
  - intros a E. injection E as <-. eexists. split; [reflexivity|]. split; [reflexivity|]. split; [exact Hw|apply same_shape_refl].
  - reflexivity.
  - discriminate.
  - discriminate.
Qed.

Lemma sim_peek_tag : sim c_peek_tag peek_tag.
Proof.
  intros s x s' Hw H. unfold c_peek_tag in H. unfold peek_tag. cbn [flat last rest].
  destruct (negb (clast s =? 0)) eqn:En.
  - injection H as <- <-. split.
    + intros a E. injection E as <-. eexists. split; [reflexivity|]. split; [reflexivity|]. split; [exact Hw|apply cshape_refl].
    + reflexivity.
    + discriminate.
    + discriminate.
  - assert (S: sim (let^ t := c_iread_tag in let^ _ := c_set_last t in mret t)
                   (fun st => let* (t, s1) := iread_tag st in Ok (t, {| rest := rest s1; last := t |}))).
    { apply sim_bind_pat; [apply sim_iread_tag|]. intros t.
      eapply sim_ext; [|apply (sim_bind (c_set_last t) (fun _ => mret t) _ (fun _ st => Ok (t, st)) (sim_set_last t) (fun _ => sim_ret t))].
      intros st. reflexivity. }
    exact (S _ _ _ Hw H).
Qed.

Lemma sim_expect_tag t : sim (c_expect_tag t) (lift0 (expect_tag t)).
Proof.
  unfold c_expect_tag.
  eapply sim_ext; [|apply (sim_bind_pat c_read_tag _ read_tag
     (fun t' st' => if negb (t =? t') && negb (t =? ANY_TAG) then Err else Ok (tt, st')) sim_read_tag)].
  - intros st. unfold lift0, expect_tag. destruct (read_tag st) as [[t' st']| | |]; cbn [bind]; try reflexivity.
    destruct (negb (t =? t') && negb (t =? ANY_TAG)); reflexivity.
  - intros t'. destruct (negb (t =? t') && negb (t =? ANY_TAG)); [apply sim_charge_fail|apply sim_ret].
Qed.

Lemma sim_expect_numlike (m : M N) k v : sim m (read_num k) ->
  sim (let^ x := m in if x =? v then mret tt else (let^ _ := charge K_ERR in mfail Err)) (lift0 (expect_num k v)).
Proof.
  intros Hm.
  eapply sim_ext; [|apply (sim_bind_pat m _ (read_num k) (fun x st' => if x =? v then Ok (tt, st') else Err) Hm)].
  - intros st. unfold lift0, expect_num. destruct (read_num k st) as [[x st']| | |]; cbn [bind]; try reflexivity.
    destruct (x =? v); reflexivity.
  - intros x. destruct (x =? v); [apply sim_ret|apply sim_charge_fail].
Qed.

Lemma sim_expect_type v : sim (c_expect_type v) (lift0 (expect_num 1 v)).
Proof. apply sim_expect_numlike. apply sim_read_type. Qed.

Lemma sim_expect_len v : sim (c_expect_len v) (lift0 (expect_num 4 v)).
Proof. apply sim_expect_numlike. apply (sim_read_num 4). Qed.

(* ---------------- items ---------------- *)
Lemma sim_pad l : sim (if pad8 l =? 0 then mret [] else c_read_n (pad8 l)) (read_nN (pad8 l)).
Proof.
  destruct (N.eqb_spec (pad8 l) 0) as [E|N0]; [|apply sim_read_nN].
  rewrite E. eapply sim_ext; [|apply (sim_ret (A:=bytes) [])].
  intros [r la]. unfold read_nN, read_n. cbn [rest last]. destruct (N.leb_spec 0 (blen r)); [reflexivity|lia].
Qed.

Lemma sim_dec_prim k tag : sim (c_dec_prim k tag) (dec_prim k tag).
Proof.
  unfold c_dec_prim, dec_prim.
  apply sim_bind0; [apply sim_expect_tag|].
  apply sim_bind0; [apply sim_expect_type|].
  destruct k.
  - (* int *) apply sim_bind0; [apply sim_expect_len|]. apply sim_bind_pat; [apply (sim_read_n 8)|].
    intros b. apply sim_charge_then. apply (sim_ret (VInt (of_u32 (unbe (firstn 4 b) 0)), 16)).
  - (* long *) apply sim_bind0; [apply sim_expect_len|]. apply sim_bind_pat; [apply (sim_read_n 8)|].
    intros b. apply sim_charge_then. apply (sim_ret (VLong (of_u64 (unbe b 0)), 16)).
  - (* enum *) apply sim_bind0; [apply sim_expect_len|]. apply sim_bind_pat; [apply (sim_read_n 8)|].
    intros b. apply sim_charge_then. apply (sim_ret (VEnum (unbe (firstn 4 b) 0), 16)).
  - (* bool *) apply sim_bind0; [apply sim_expect_len|]. apply sim_bind_pat; [apply (sim_read_n 8)|].
    intros b. destruct (all_zero (firstn 7 b)); [|apply sim_charge_fail].
    destruct (skipn 7 b) as [|y [|? ?]]; try apply sim_charge_fail.
    destruct (Byte.eqb y x01); [apply (sim_ret (VBool true, 16))|].
    destruct (Byte.eqb y x00); [apply (sim_ret (VBool false, 16))|apply sim_charge_fail].
  - (* bytes *) apply sim_bind_pat; [apply (sim_read_num 4)|]. intros l.
    apply sim_bind_pat; [apply sim_copy|]. intros b.
    apply sim_bind_pat; [apply sim_pad|]. intros p.
    apply sim_charge_then. apply (sim_ret (VBytes b, 8 + l + pad8 l)).
  - (* string *) apply sim_bind_pat; [apply (sim_read_num 4)|]. intros l.
    apply sim_bind_pat; [apply sim_copy|]. intros b.
    apply sim_bind_pat; [apply sim_pad|]. intros p.
    apply sim_charge_then. apply (sim_ret (VStr b, 8 + l + pad8 l)).
  - (* time *) apply sim_bind0; [apply sim_expect_len|]. apply sim_bind_pat; [apply (sim_read_n 8)|].
    intros b. apply sim_charge_then. apply (sim_ret (VTime (of_u64 (unbe b 0)), 16)).
  - (* duration *) apply sim_bind0; [apply sim_expect_len|]. apply sim_bind_pat; [apply (sim_read_n 8)|].
    intros b. apply sim_charge_then. apply (sim_ret (VDur (Z.of_N (unbe (firstn 4 b) 0) * nanos)%Z, 16)).
Qed.

Lemma sim_dec_skip tag : sim (c_dec_skip tag) (dec_skip tag).
Proof.
  unfold c_dec_skip.
  eapply sim_ext; [|apply (sim_bind0 (c_expect_tag tag) _ (expect_tag tag)
     (fun s1 => let* (_, s2) := read_num 1 s1 in let* (l, s3) := read_num 4 s2 in
                let* (_, s4) := flat_discard (padded l) s3 in Ok (8 + padded l, s4)) (sim_expect_tag tag))].
  - intros st. unfold dec_skip. destruct (expect_tag tag st) as [s1| | |]; cbn [bind]; try reflexivity.
    unfold read_num at 1. destruct (read_n 1 s1) as [[b s2]| | |]; cbn [bind]; try reflexivity.
    destruct (read_num 4 s2) as [[l s3]| | |]; cbn [bind]; try reflexivity.
    unfold flat_discard. destruct (N.leb (padded l) (blen (rest s3))); reflexivity.
  - apply sim_bind_pat; [apply sim_read_type|]. intros ty.
    apply sim_bind_pat; [apply (sim_read_num 4)|]. intros l.
    apply sim_bind_pat; [apply sim_discard|]. intros u. apply (sim_ret (8 + padded l)).
Qed.

Lemma sim_wrapped {A} (m : M A) f : sim m f -> sim (c_wrapped m) (fun st => wrapped (f st)).
Proof.
  intros Hm s x s' Hw H. unfold c_wrapped in H. destruct (m s) as [x0 s0] eqn:E.
  destruct (Hm _ _ _ Hw E) as [O F U V].
  destruct x0 as [a| | |]; injection H as <- <-.
  - destruct (O a eq_refl) as (st' & Ef & Efl & Hw' & Sh). rewrite Ef. cbn [wrapped]. split.
    + intros a0 Ea. injection Ea as <-. exists st'. auto.
    + reflexivity.
    + discriminate.
    + discriminate.
  - rewrite (V eq_refl). cbn [wrapped]. split; [discriminate|reflexivity|discriminate|discriminate].
  - split; [discriminate| |discriminate|discriminate].
    intros Ht. specialize (F Ht). destruct (f (flat s)) as [[? ?]| | |]; cbn in F; try discriminate. reflexivity.
  - rewrite (U eq_refl). cbn [wrapped]. split; [discriminate|reflexivity|reflexivity|discriminate].
Qed.

Lemma sim_slice_loop (step : M (val * N)) (fstep : dstate -> dres (val * N * dstate)) tag skip explen :
  sim step fstep ->
  forall fuel actual nsum acc,
    sim (c_slice_loop fuel step tag skip explen actual nsum acc)
        (fun dd => slice_loop fuel fstep tag skip explen dd actual nsum acc).
Proof.
  intros Hs. induction fuel as [|f IH]; intros actual nsum acc.
  - cbn [c_slice_loop slice_loop]. intros s x s' Hw H. unfold mfail in H. injection H as <- <-.
    split; [discriminate|reflexivity|reflexivity|discriminate].
  - cbn [c_slice_loop slice_loop].
    apply sim_bind_pat; [apply sim_wrapped; exact Hs|]. intros [v nn].
    apply sim_charge_then.
    destruct (explen <=? (actual + nn) mod 2 ^ 32).
    + apply (sim_ret (if skip then acc else vl_snoc acc v, (actual + nn) mod 2 ^ 32, nsum + nn)).
    + apply sim_bind_pat; [apply sim_peek_tag|]. intros t.
      destruct (t =? tag).
      * apply IH.
      * apply (sim_ret (if skip then acc else vl_snoc acc v, (actual + nn) mod 2 ^ 32, nsum + nn)).
Qed.

(* ---------------- structures: the nested decoder ---------------- *)
Lemma sim_bind_pat_P {A B} (P : A -> Prop) (m1 : M A) (m2 : A -> M B) f1 (f2 : A -> dstate -> dres (B * dstate)) :
  sim m1 f1 -> (forall st a st', f1 st = Ok (a, st') -> P a) -> (forall a, P a -> sim (m2 a) (f2 a)) ->
  sim (mbind m1 m2) (fun st => let* (a, st') := f1 st in f2 a st').
Proof.
  intros H1 HP H2 s x s' Hw H. unfold mbind in H. destruct (m1 s) as [x1 s1] eqn:E1.
  destruct (H1 _ _ _ Hw E1) as [O1 F1 U1 V1].
  destruct x1 as [a| | |].
  - destruct (O1 a eq_refl) as (st1 & Ef & Efl & Hw1 & Sh1). rewrite Ef. cbn [bind].
    destruct (H2 a (HP _ _ _ Ef) _ _ _ Hw1 H) as [O2 F2 U2 V2]. rewrite Efl in *. split.
    + intros b Hb. destruct (O2 b Hb) as (st2 & E2 & Efl2 & Hw2 & Sh2). exists st2.
      split; [assumption|]. split; [assumption|]. split; [assumption|]. eapply cshape_trans; eassumption.
    + intros Ht. apply F2. destruct Sh1 as (T & _). congruence.
    + exact U2.
    + exact V2.
  - injection H as <- <-. rewrite (V1 eq_refl). cbn [bind]. split; [discriminate|reflexivity|discriminate|reflexivity].
  - injection H as <- <-. split; [discriminate| |discriminate|discriminate].
    intros Ht. specialize (F1 Ht). destruct (f1 (flat s)) as [[? ?]| | |]; cbn in F1; try discriminate. reflexivity.
  - injection H as <- <-. rewrite (U1 eq_refl). cbn [bind]. split; [discriminate|reflexivity|reflexivity|discriminate].
Qed.

(* a structure accepted by the flat decoder used up its whole region, and the region was all there *)
Lemma fields_full_consumption fl len (R : bytes) cur vs nsum dd' :
  len < 2 ^ 32 ->
  dec_fields fl O len {| rest := takeN len R; last := 0 |} 0 0 cur = Ok (vs, len, nsum, dd') ->
  dd' = {| rest := []; last := 0 |} /\ len <= blen R.
Proof.
  intros Hlen H.
  assert (Hl0: lastok {| rest := takeN len R; last := 0 |}) by (unfold lastok; cbn [last]; lia).
  assert (Hinv: 0 + blen (logical {| rest := takeN len R; last := 0 |}) <= len).
  { rewrite logical_fresh, takeN_blen. lia. }
  destruct (proj1 (proj2 decoder_sound) fl O len _ 0 0 cur vs len nsum dd' Hl0 Hlen Hinv H)
    as (n & d & Hb & Ha & Hn & Hl' & _).
  rewrite logical_fresh, takeN_blen in Hb.
  assert (Hnil: logical dd' = []) by (apply blen_0_nil; lia).
  split; [apply logical_nil; exact Hnil|lia].
Qed.

Lemma nested_shape_inv l3 b3 len r' :
  same_shape {| ls := LBuf 4096 [] None :: LLim len :: l3; bs := b3 |} r' ->
  exists sz buf err n' l'',
    ls r' = LBuf sz buf err :: LLim n' :: l'' /\
    same_shape {| ls := l3; bs := b3 |} {| ls := l''; bs := bs r' |} /\
    dropN n' (den l'' (bs r')) = dropN len (den l3 b3).
Proof.
  unfold same_shape. cbn [ls bs map lkind lsize beyonds]. intros (T & (K1 & K2) & By & Sz).
  destruct (ls r') as [|[sz buf err|n0] [|[sz1 buf1 err1|n'] l'']]; cbn [map lkind lsize beyonds] in *; try discriminate.
  exists sz, buf, err, n', l''. injection K1 as K1. injection K2 as _ K2. injection By as By1 By2.
  split; [reflexivity|]. split; [|exact By1]. auto.
Qed.

Definition S_fl (fl : flist) : Prop := forall i explen actual nsum cur,
  sim (c_dec_fields fl i explen actual nsum cur) (fun dd => dec_fields fl i explen dd actual nsum cur).

Lemma sim_struct_body ty fl len : len < 2 ^ 32 -> S_fl fl ->
  sim (fun s3 : cstate =>
         match c_dec_fields fl O len 0 0 (zeros_of fl) (push_nested len s3) with
         | (Ok (vs, actual, nsum), dd) =>
             let s4 := pop_nested (clast s3) dd in
             if actual =? len then (Ok (VStruct ty vs, 8 + nsum), s4)
             else (Err, {| rd := rd s4; clast := clast s4; alloc := alloc s4 + K_ERR |})
         | (ErrEOF, dd) => (ErrEOF, pop_nested (clast s3) dd)
         | (Err, dd) => (Err, pop_nested (clast s3) dd)
         | (OutOfFuel, dd) => (OutOfFuel, pop_nested (clast s3) dd)
         end)
      (fun s3 => let dd := {| rest := takeN len (rest s3); last := 0 |} in
                 let* (vs, actual, nsum, _) := dec_fields fl O len dd 0 0 (zeros_of fl) in
                 if actual =? len
                 then Ok (VStruct ty vs, 8 + nsum, {| rest := dropN len (rest s3); last := last s3 |})
                 else Err).
Proof.
  intros Hlen IH s3 x s' Hw H. cbv zeta.
  set (n0 := push_nested len s3) in *.
  assert (Hw0: wf_c n0).
  { destruct Hw as [[Hwl Hsf] Hsc]. unfold n0, push_nested, wf_c, wf_reader, scannable. cbn [rd ls bs wf_layers].
    split; [split; [|exact Hsf]|exact I]. split; [lia|]. split; [intros e He; discriminate|exact Hwl]. }
  assert (Hfl0: flat n0 = {| rest := takeN len (rest (flat s3)); last := 0 |}) by reflexivity.
  destruct (c_dec_fields fl O len 0 0 (zeros_of fl) n0) as [xf dd] eqn:Ef.
  destruct (IH O len 0 0 (zeros_of fl) _ _ _ Hw0 Ef) as [O F U V]. rewrite Hfl0 in *.
  assert (Ht0: b_term (bs (rd n0)) = b_term (bs (rd s3))) by reflexivity.
  destruct xf as [[[vs actual] nsum]| | |].
  - destruct (O _ eq_refl) as (st' & Efr & Efl & Hwd & Shd). rewrite Efr. cbn [bind].
    destruct (N.eqb_spec actual len) as [Ea|Na]; injection H as <- <-.
    + subst actual. destruct (fields_full_consumption _ _ _ _ _ _ _ Hlen Efr) as [Est Hle]. rewrite Est in Efl, Efr.
      unfold cshape, n0, push_nested in Shd. cbn [rd] in Shd.
      destruct (nested_shape_inv _ _ _ _ Shd) as (sz & buf & err & n' & l'' & El & Sh3 & Hdrop).
      (* nothing is left in the nested reader: its buffer is empty and the limit is used up (or the source is) *)
      assert (Hden: buf ++ takeN n' (den l'' (bs (rd dd))) = []).
      { unfold flat, rden in Efl. rewrite El in Efl. cbn [den] in Efl. injection Efl as Hr _. exact Hr. }
      apply app_eq_nil in Hden. destruct Hden as [Hbuf Htk].
      assert (Hrest: den l'' (bs (rd dd)) = dropN len (rden (rd s3))).
      { destruct (N.eq_dec n' 0) as [->|Nn].
        - unfold rden. rewrite <- Hdrop. rewrite dropN_skipn. reflexivity.
        - assert (Hdn: den l'' (bs (rd dd)) = []).
          { apply blen_0_nil. apply (f_equal blen) in Htk. rewrite takeN_blen, blen_nil in Htk. lia. }
          unfold rden. rewrite Hdn in *. rewrite dropN_all in Hdrop by (cbn; lia). exact Hdrop. }
      split.
      * intros a Ea. injection Ea as <-. eexists. split; [reflexivity|].
        assert (Hls4: ls (rd (pop_nested (clast s3) dd)) = l'') by (unfold pop_nested; cbn [rd ls]; rewrite El; reflexivity).
        split; [|split].
        -- unfold flat, rden. rewrite Hls4. unfold pop_nested at 1 2. cbn [rd bs clast]. rewrite Hrest. reflexivity.
        -- destruct Hwd as [[Hwl Hsf] _]. rewrite El in Hwl. cbn [wf_layers] in Hwl.
           split; [split|].
           ++ rewrite Hls4. unfold pop_nested. cbn [rd bs]. apply Hwl.
           ++ exact Hsf.
           ++ destruct Hw as [_ Hsc]. eapply shape_scannable; [|exact Hsc].
              unfold pop_nested. cbn [rd ls]. rewrite El. cbn [tl]. destruct (rd s3). exact Sh3.
        -- unfold cshape, pop_nested. cbn [rd ls]. rewrite El. cbn [tl]. destruct (rd s3). exact Sh3.
      * reflexivity.
      * discriminate.
      * discriminate.
    + split; [discriminate|reflexivity|discriminate|discriminate].
  - injection H as <- <-. rewrite (V eq_refl). cbn [bind]. split; [discriminate|reflexivity|discriminate|reflexivity].
  - injection H as <- <-. split; [discriminate| |discriminate|discriminate].
    intros Ht. rewrite <- Ht0 in Ht. specialize (F Ht).
    destruct (dec_fields fl 0 len _ 0 0 (zeros_of fl)) as [[? ?]| | |]; cbn in F; try discriminate. reflexivity.
  - injection H as <- <-. rewrite (U eq_refl). cbn [bind]. split; [discriminate|reflexivity|reflexivity|discriminate].
Qed.

(* ---------------- the field loop ---------------- *)
Lemma sim_post_from {A} s s1 (x : dres A) s' fr : cshape s s1 -> sim_post s1 x s' fr -> sim_post s x s' fr.
Proof.
  intros Sh [O F U V]. split; [| |exact U|exact V].
  - intros a Ea. destruct (O a Ea) as (st' & E1 & E2 & E3 & E4). exists st'.
    split; [assumption|]. split; [assumption|]. split; [assumption|]. eapply cshape_trans; eassumption.
  - intros Ht. apply F. destruct Sh as (T & _). congruence.
Qed.

Lemma peek_eof_state dd dd1 : wf_c dd -> c_peek_tag dd = (ErrEOF, dd1) ->
  rden (rd dd) = [] /\ rden (rd dd1) = [] /\ wf_c dd1 /\ cshape dd dd1.
Proof.
  intros Hw H. unfold c_peek_tag in H. destruct (negb (clast dd =? 0)); [discriminate|].
  unfold c_iread_tag, c_read_num, mbind in H.
  destruct (c_read_n 3 dd) as [x0 d0] eqn:E0.
  assert (x0 = ErrEOF /\ d0 = dd1) as [-> ->].
  { destruct x0; cbv [mret c_set_last] in H; try discriminate. injection H as <-. auto. }
  unfold c_read_n in E0. destruct (readfull 3 (rd dd)) as [x1 r'] eqn:Er. injection E0 as -> <-.
  destruct Hw as [Hwr Hsc]. destruct (readfull_spec _ _ _ _ Hwr Er) as (W & Sh & Hok & Hshort).
  destruct (N.le_gt_cases 3 (blen (rden (rd dd)))) as [Hle|Hgt].
  - destruct (Hok Hle) as [E _]. discriminate.
  - destruct (Hshort Hgt) as [Hc Hn].
    destruct Hc as (_ & Hc2 & _). split; [exact (Hc2 eq_refl)|]. split; [exact Hn|].
    split; [apply wf_c_step; [split|..]; assumption|exact Sh].
Qed.

Lemma sim_fields_cons a s r :
  (forall a0 cur, sim (c_dec_value s a0 cur) (fun st => dec_value s a0 st cur)) -> S_fl r -> S_fl (FCons a s r).
Proof.
  intros Hs Hr i explen actual nsum cur dd x dd' Hw H.
  cbn [c_dec_fields] in H. cbn [dec_fields].
  set (item := if fa_skip a then (let^ n := c_dec_skip (fa_tag a) in mret (VNil, n)) else c_dec_value s a cur) in H.
  set (fitem := fun st : dstate =>
        if fa_skip a then (let* (n, st') := dec_skip (fa_tag a) st in Ok (VNil, n, st'))
        else dec_value s a st cur).
  assert (Hitem: sim item fitem).
  { unfold item, fitem. destruct (fa_skip a).
    - apply sim_bind_pat; [apply sim_dec_skip|]. intros n. apply (sim_ret (VNil, n)).
    - apply Hs. }
  destruct (c_peek_tag dd) as [xp dd1] eqn:Ep.
  destruct (sim_peek_tag _ _ _ Hw Ep) as [O F U V].
  destruct xp as [t| | |].
  - destruct (O t eq_refl) as (st1 & Efr & Efl & Hw1 & Sh1). rewrite Efr.
    destruct (negb (fa_req a) && negb (t =? fa_tag a) && negb (fa_tag a =? ANY_TAG)).
    + apply (sim_post_from _ dd1); [exact Sh1|]. rewrite <- Efl. apply (Hr _ _ _ _ _ _ _ _ Hw1 H).
    + destruct (fa_slice a).
      * apply (sim_post_from _ dd1); [exact Sh1|]. rewrite <- Efl.
        assert (Sm: sim (let^ (es, actual', nsum') :=
                           c_slice_loop (S (length (rden (rd dd1)))) item (fa_tag a) (fa_skip a) explen actual nsum VNone in
                         c_dec_fields r (S i) explen actual' nsum' (vl_set i (VList es) cur))
                        (fun st => let* (es, actual', nsum', dd2) :=
                                     slice_loop (S (length (rden (rd dd1)))) fitem (fa_tag a) (fa_skip a) explen st actual nsum VNone in
                                   dec_fields r (S i) explen dd2 actual' nsum' (vl_set i (VList es) cur))).
        { eapply sim_ext; [|apply (sim_bind_pat _ _ _
             (fun (p : vlist * N * N) dd2 => dec_fields r (S i) explen dd2 (snd (fst p)) (snd p) (vl_set i (VList (fst (fst p))) cur))
             (sim_slice_loop item fitem (fa_tag a) (fa_skip a) explen Hitem _ actual nsum VNone))].
          - intros st. cbv beta. destruct (slice_loop _ _ _ _ _ st _ _ _) as [[[[es a'] n'] d2]| | |]; reflexivity.
          - intros [[es a'] n']. cbn [fst snd]. apply Hr. }
        exact (Sm _ _ _ Hw1 H).
      * apply (sim_post_from _ dd1); [exact Sh1|]. rewrite <- Efl.
        assert (Sm: sim (let^ (v, nn) := c_wrapped item in
                         c_dec_fields r (S i) explen ((actual + nn) mod 2 ^ 32) (nsum + nn) (if fa_skip a then cur else vl_set i v cur))
                        (fun st => let* (v, nn, dd2) := wrapped (fitem st) in
                                   dec_fields r (S i) explen dd2 ((actual + nn) mod 2 ^ 32) (nsum + nn)
                                              (if fa_skip a then cur else vl_set i v cur))).
        { eapply sim_ext; [|apply (sim_bind_pat _ _ _
             (fun (p : val * N) dd2 => dec_fields r (S i) explen dd2 ((actual + snd p) mod 2 ^ 32) (nsum + snd p)
                                                  (if fa_skip a then cur else vl_set i (fst p) cur))
             (sim_wrapped item fitem Hitem))].
          - intros st. cbv beta. destruct (wrapped (fitem st)) as [[[v nn] d2]| | |]; reflexivity.
          - intros [v nn]. cbn [fst snd]. apply Hr. }
        exact (Sm _ _ _ Hw1 H).
  - (* io.EOF while peeking *)
    rewrite (V eq_refl).
    destruct (fa_req a).
    + injection H as <- <-. split; [discriminate|reflexivity|discriminate|discriminate].
    + destruct (peek_eof_state _ _ Hw Ep) as (Hd & Hd1 & Hw1 & Sh1).
      set (d1 := {| rd := rd dd1; clast := 0; alloc := alloc dd1 |}) in H.
      assert (Hwd1: wf_c d1) by exact Hw1.
      assert (Hfl: flat d1 = {| rest := rest (flat dd); last := 0 |}).
      { unfold flat, d1. cbn [rd clast rest]. rewrite Hd, Hd1. reflexivity. }
      apply (sim_post_from _ d1); [exact Sh1|]. rewrite <- Hfl. apply (Hr _ _ _ _ _ _ _ _ Hwd1 H).
  - injection H as <- <-. split; [discriminate| |discriminate|discriminate].
    intros Ht. specialize (F Ht). destruct (peek_tag (flat dd)) as [[? ?]| | |]; cbn in F; try discriminate. reflexivity.
  - injection H as <- <-. rewrite (U eq_refl). split; [discriminate|reflexivity|reflexivity|discriminate].
Qed.

(* ---------------- the three mutual functions ---------------- *)
Definition S_sch (s : sch) : Prop := forall a cur, sim (c_dec_value s a cur) (fun st => dec_value s a st cur).
Definition S_cs (cs : dcases) : Prop := forall key a, sim (c_dec_cases cs key a) (fun st => dec_cases cs key a st).

Theorem decoder_on_readers : (forall s, S_sch s) /\ (forall fl, S_fl fl) /\ (forall cs, S_cs cs).
Proof.
  apply sch_mutind.
  - (* SPrim *) intros k a cur. cbn [c_dec_value dec_value]. apply sim_dec_prim.
  - (* SStruct *) intros ty fl IH a cur. cbn [c_dec_value dec_value].
    apply sim_charge_then.
    apply sim_bind0; [apply sim_expect_tag|].
    apply sim_bind0; [apply sim_expect_type|].
    apply (sim_bind_pat_P (fun len => len < 2 ^ 32)); [apply (sim_read_num 4)| |].
    + intros st len st' E. apply read_num_inv in E. destruct E as (_ & _ & B). exact B.
    + intros len Hlen. apply sim_struct_body; assumption.
  - (* SDyn *) intros holder ki cs IH a cur. cbn [c_dec_value dec_value]. apply IH.
  - (* FNil *) intros i explen actual nsum cur. cbn [c_dec_fields dec_fields]. apply (sim_ret (cur, actual, nsum)).
  - (* FCons *) intros a s IHs r IHr. apply sim_fields_cons; assumption.
  - (* DNil *) intros key a. cbn [c_dec_cases dec_cases]. apply sim_charge_fail.
  - (* DCase *) intros k s IHs r IHr key a. cbn [c_dec_cases dec_cases].
    destruct (key_matches k key); [apply IHs|apply IHr].
Qed.

(* ================================================================ *)
(* Decode on any delivery of the bytes                               *)
(* ================================================================ *)
Definition transport_ok (b : base) : Prop := stall_free (b_sizes b).

Lemma new_decoder_wf scanner b : transport_ok b -> wf_c (new_decoder scanner b) /\ flat (new_decoder scanner b) = {| rest := b_data b; last := 0 |}.
Proof.
  intros H. unfold new_decoder. destruct scanner; unfold wf_c, wf_reader, scannable, flat, rden; cbn [rd ls bs clast den wf_layers app].
  - auto.
  - split; [|reflexivity]. split; [|exact I]. split; [|exact H]. split; [lia|]. split; [intros e He; discriminate|exact I].
Qed.

Lemma new_decoder_bufio_wf size b : 0 < size -> transport_ok b ->
  wf_c (new_decoder_bufio size b) /\ flat (new_decoder_bufio size b) = {| rest := b_data b; last := 0 |}.
Proof.
  intros Hs H. unfold new_decoder_bufio, wf_c, wf_reader, scannable, flat, rden; cbn [rd ls bs clast den wf_layers app].
  split; [|reflexivity]. split; [|exact I]. split; [|exact H]. split; [exact Hs|]. split; [intros e He; discriminate|exact I].
Qed.

(* one Decode call on a decoder in any well-formed state *)
Theorem decode_on_readers ty tag fl s x s' : wf_c s -> c_dec_top ty tag fl s = (x, s') ->
  sim_post s x s' (dec_top ty tag fl (flat s)).
Proof. intros Hw H. exact (proj1 decoder_on_readers (SStruct ty fl) (top_attr tag) VNone _ _ _ Hw H). Qed.

(* successive Decode calls on one Decoder: the stream theorem *)
Definition strip_stream (r : list val * stream_end) : list val * stream_end := r.

Lemma stream_on_readers ty tag fl : forall fuel s vs e s',
  wf_c s -> b_term (bs (rd s)) = EOF ->
  c_dec_stream fuel ty tag fl s = (vs, e, s') ->
  dec_stream fuel ty tag fl (flat s) = (vs, e).
Proof.
  induction fuel as [|f IH]; intros s vs e s' Hw Ht H; cbn [c_dec_stream dec_stream] in *.
  - injection H as <- <- <-. reflexivity.
  - destruct (c_dec_top ty tag fl s) as [x s1] eqn:E.
    destruct (decode_on_readers _ _ _ _ _ _ Hw E) as [O F U V]. specialize (F Ht).
    destruct x as [[v n]| | |].
    + destruct (O _ eq_refl) as (st' & Efr & Efl & Hw1 & Sh1). rewrite Efr.
      destruct (c_dec_stream f ty tag fl s1) as [[vs1 e1] s2] eqn:E2. injection H as <- <- <-.
      assert (Ht1: b_term (bs (rd s1)) = EOF) by (destruct Sh1 as (T & _); congruence).
      rewrite <- Efl. rewrite (IH _ _ _ _ Hw1 Ht1 E2). reflexivity.
    + injection H as <- <- <-. destruct (dec_top ty tag fl (flat s)) as [[[? ?] ?]| | |]; cbn in F; try discriminate. reflexivity.
    + injection H as <- <- <-. destruct (dec_top ty tag fl (flat s)) as [[[? ?] ?]| | |]; cbn in F; try discriminate. reflexivity.
    + injection H as <- <- <-. destruct (dec_top ty tag fl (flat s)) as [[[? ?] ?]| | |]; cbn in F; try discriminate. reflexivity.
Qed.
