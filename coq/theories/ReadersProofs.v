(* ReadersProofs.v - the reader objects of Readers.v deliver exactly the bytes of the transport,
   whatever the read sizes; hence the decoder on reader objects computes what the flat decoder
   of Codec.v computes (C03 delivery independence, C06 chunking). *)
From Coq Require Import String.
From Coq Require Import List NArith ZArith Bool Lia Strings.Byte ZifyN ZifyNat ZifyBool.
Require Import Bytes BytesProofs Schema Codec CodecProofs Denote DenoteProofs Readers.
Import ListNotations.
Open Scope N_scope.

Arguments N.add : simpl never.
Arguments N.mul : simpl never.
Arguments N.pow : simpl never.
Arguments N.modulo : simpl never.
Arguments N.div : simpl never.
Arguments N.sub : simpl never.
Arguments N.min : simpl never.
Arguments N.max : simpl never.

(* ---------------------------------------------------------------- *)
(* takeN / dropN                                                    *)
(* ---------------------------------------------------------------- *)
Lemma takeN_dropN n (l : bytes) : takeN n l ++ dropN n l = l.
Proof. unfold takeN, dropN. apply firstn_skipn. Qed.

Lemma dropN_blen n (l : bytes) : blen (dropN n l) = blen l - N.min n (blen l).
Proof. unfold dropN, blen. rewrite skipn_length. lia. Qed.

Lemma takeN_nil n : takeN n [] = [].
Proof. unfold takeN. apply firstn_nil. Qed.

Lemma takeN_0 (l : bytes) : takeN 0 l = [].
Proof. unfold takeN. replace (N.to_nat (N.min 0 (blen l))) with O by lia. reflexivity. Qed.

Lemma blen_nil : blen [] = 0.
Proof. reflexivity. Qed.

Lemma blen_cons x (l : bytes) : blen (x :: l) = 1 + blen l.
Proof. unfold blen. cbn [length]. lia. Qed.

Lemma blen_0_nil (l : bytes) : blen l = 0 -> l = [].
Proof. destruct l; [reflexivity|]. rewrite blen_cons. lia. Qed.

Lemma takeN_pos_nonnil k (l : bytes) : 0 < k -> l <> [] -> takeN k l <> [].
Proof.
  intros Hk Hl E. apply (f_equal blen) in E. rewrite takeN_blen, blen_nil in E.
  destruct l; [contradiction|]. rewrite blen_cons in E. lia.
Qed.

Lemma takeN_app_le n (d x : bytes) : blen d <= n -> takeN n (d ++ x) = d ++ takeN (n - blen d) x.
Proof.
  intros H. unfold takeN. rewrite blen_app.
  replace (N.to_nat (N.min n (blen d + blen x))) with (length d + N.to_nat (N.min (n - blen d) (blen x)))%nat
    by (unfold blen in *; lia).
  rewrite firstn_app_2. reflexivity.
Qed.

Lemma takeN_all n (l : bytes) : blen l <= n -> takeN n l = l.
Proof. intros H. unfold takeN. rewrite N.min_r by assumption. unfold blen. rewrite Nat2N.id. apply firstn_all. Qed.

Lemma dropN_all n (l : bytes) : blen l <= n -> dropN n l = [].
Proof. intros H. unfold dropN. rewrite N.min_r by assumption. unfold blen. rewrite Nat2N.id. apply skipn_all. Qed.

Lemma takeN_firstn n (l : bytes) : takeN n l = firstn (N.to_nat n) l.
Proof.
  unfold takeN. destruct (N.le_ge_cases n (blen l)).
  - rewrite N.min_l by assumption. reflexivity.
  - rewrite N.min_r by assumption. unfold blen in *. rewrite Nat2N.id.
    rewrite firstn_all. symmetry. apply firstn_all2. lia.
Qed.

Lemma dropN_skipn n (l : bytes) : dropN n l = skipn (N.to_nat n) l.
Proof.
  unfold dropN. destruct (N.le_ge_cases n (blen l)).
  - rewrite N.min_l by assumption. reflexivity.
  - rewrite N.min_r by assumption. unfold blen in *. rewrite Nat2N.id.
    rewrite skipn_all. symmetry. apply skipn_all2. lia.
Qed.

(* ---------------------------------------------------------------- *)
(* well-formed reader stacks                                        *)
(* ---------------------------------------------------------------- *)
Fixpoint wf_layers (l : list layer) (b : base) : Prop :=
  match l with
  | [] => True
  | LBuf size buf err :: r =>
      0 < size /\ (forall e, err = Some e -> den r b = [] /\ (b_term b = EOF -> e = EOF)) /\ wf_layers r b
  | LLim n :: r => wf_layers r b
  end.

(* fewer than 100 consecutive empty reads anywhere in the script (bufio's ErrNoProgress rule) *)
Fixpoint zrun (l : list N) : nat := match l with 0 :: r => S (zrun r) | _ => O end.
Fixpoint stall_free (l : list N) : Prop :=
  match l with [] => True | _ :: r => (zrun l < 100)%nat /\ stall_free r end.

Lemma stall_free_tl l : stall_free l -> stall_free (tl l).
Proof. destruct l; cbn; [trivial|tauto]. Qed.

Lemma stall_free_zrun l : stall_free l -> (zrun l < 100)%nat.
Proof. destruct l; cbn [stall_free]; [cbn; lia|tauto]. Qed.

(* ---------------------------------------------------------------- *)
(* one Read                                                         *)
(* ---------------------------------------------------------------- *)
Record read_post (l : list layer) (b : base) (k : N) (d : bytes) (e : option ioerr) (l' : list layer) (b' : base) : Prop := {
  rp_den : den l b = d ++ den l' b';
  rp_len : blen d <= k;
  rp_wf : wf_layers l' b';
  rp_err : forall x, e = Some x -> den l' b' = [] /\ (b_term b = EOF -> x = EOF);
  rp_term : b_term b' = b_term b;
  rp_weof : b_weof b' = b_weof b;
  rp_sizes : b_sizes b' = b_sizes b \/ b_sizes b' = tl (b_sizes b);
  rp_zero : d = [] -> e = None -> exists r, b_sizes b = 0 :: r /\ b_sizes b' = r;
  rp_depth : length l' = length l }.

Ltac rp_easy := first [ reflexivity | assumption | discriminate | (left; reflexivity) | (right; reflexivity)
                       | (cbn; lia) | (intros; discriminate)
                       | (let y := fresh "y" in let Hy := fresh "Hy" in
                          intros y Hy; injection Hy as <-; split; [first [reflexivity|assumption]|first [trivial|assumption]])
                       | idtac ].
Ltac rp_split := apply Build_read_post; cbn [den wf_layers app length b_data b_sizes b_term b_weof base_with]; rp_easy.

Lemma base_read_spec b k d e b' : 0 < k -> base_read b k = (d, e, b') -> read_post [] b k d e [] b'.
Proof.
  intros Hk H. unfold base_read in H.
  destruct (b_data b) as [|x dat] eqn:Ed.
  - injection H as <- <- <-. rp_split.
  - set (n := match b_sizes b with [] => blen (x :: dat) | s :: _ => s end) in H.
    destruct (N.eqb_spec n 0) as [E0|N0].
    + injection H as <- <- <-. rp_split.
      intros _ _. subst n. destruct (b_sizes b) as [|s r]; [rewrite blen_cons in E0; lia|].
      subst s. exists r. split; reflexivity.
    + injection H as <- <- <-. rp_split.
      * rewrite Ed. symmetry. apply takeN_dropN.
      * rewrite takeN_blen. lia.
      * intros y Hy. destruct (dropN (N.min n k) (x :: dat)) eqn:Edr; [|discriminate].
        split; [reflexivity|]. destruct (b_weof b); [|discriminate]. injection Hy as <-. auto.
      * intros Hd _. exfalso. revert Hd. apply takeN_pos_nonnil; [lia|discriminate].
Qed.

Lemma rread_spec l : forall b k d e l' b', 0 < k -> wf_layers l b ->
  rread l b k = (d, e, l', b') -> read_post l b k d e l' b'.
Proof.
  induction l as [|ly r IH]; intros b k d e l' b' Hk Hwf H.
  - cbn [rread] in H. destruct (base_read b k) as [[d0 e0] b0] eqn:Eb. injection H as <- <- <- <-.
    apply base_read_spec; assumption.
  - destruct ly as [size buf err|n].
    + (* bufio *)
      cbn [wf_layers] in Hwf. destruct Hwf as (Hsz & Herr & Hwr).
      cbn [rread] in H. destruct buf as [|x buf].
      * destruct err as [e0|].
        -- injection H as <- <- <- <-. destruct (Herr e0 eq_refl) as [Hd He]. rp_split.
           split; [assumption|]. split; [intros ? ?; discriminate|assumption].
        -- destruct (N.leb_spec size k) as [Hle|Hgt].
           ++ destruct (rread r b k) as [[[d0 e0] r0] b0] eqn:Er. injection H as <- <- <- <-.
              destruct (IH _ _ _ _ _ _ Hk Hwr Er) as [D L W E T We S Z Len]. rp_split.
              split; [assumption|]. split; [intros ? ?; discriminate|assumption].
           ++ destruct (rread r b size) as [[[d0 e0] r0] b0] eqn:Er.
              destruct (IH _ _ _ _ _ _ Hsz Hwr Er) as [D L W E T We S Z Len].
              destruct d0 as [|y d0].
              ** injection H as <- <- <- <-. rp_split.
                 split; [assumption|]. split; [intros ? ?; discriminate|assumption].
              ** injection H as <- <- <- <-. rp_split.
                 --- rewrite D. rewrite app_assoc. rewrite takeN_dropN. reflexivity.
                 --- rewrite takeN_blen. lia.
                 --- split; [assumption|]. split; [|assumption].
                     intros y0 Hy0. destruct (E y0 Hy0) as [E1 E2]. split; [assumption|].
                     intros Ht. apply E2. congruence.
                 --- intros Hd _. exfalso. revert Hd. apply takeN_pos_nonnil; [assumption|discriminate].
      * injection H as <- <- <- <-. rp_split.
        -- rewrite app_assoc. rewrite takeN_dropN. reflexivity.
        -- rewrite takeN_blen. lia.
        -- split; [assumption|]. split; assumption.
        -- intros Hd _. exfalso. revert Hd. apply takeN_pos_nonnil; [assumption|discriminate].
    + (* limit *)
      cbn [wf_layers] in Hwf. cbn [rread] in H.
      destruct (N.eqb_spec n 0) as [E0|N0].
      * injection H as <- <- <- <-. subst n. rp_split.
        intros y Hy. injection Hy as <-. rewrite takeN_0. split; reflexivity.
      * destruct (rread r b (N.min k n)) as [[[d0 e0] r0] b0] eqn:Er. injection H as <- <- <- <-.
        assert (Hk' : 0 < N.min k n) by lia.
        destruct (IH _ _ _ _ _ _ Hk' Hwf Er) as [D L W E T We S Z Len]. rp_split.
        -- rewrite D. apply takeN_app_le. lia.
        -- intros y Hy. destruct (E y Hy) as [E1 E2]. rewrite E1, takeN_nil. split; [reflexivity|assumption].
Qed.

Definition wf_reader (r : reader) : Prop := wf_layers (ls r) (bs r) /\ stall_free (b_sizes (bs r)).

Lemma sizes_step_stall (s s' : list N) : (s' = s \/ s' = tl s) -> stall_free s -> stall_free s'.
Proof. intros [->| ->] H; [assumption|apply stall_free_tl; assumption]. Qed.

Record rd_post (r : reader) (k : N) (d : bytes) (e : option ioerr) (r' : reader) : Prop := {
  rq_den : rden r = d ++ rden r';
  rq_len : blen d <= k;
  rq_wf : wf_reader r';
  rq_err : forall x, e = Some x -> rden r' = [] /\ (b_term (bs r) = EOF -> x = EOF);
  rq_term : b_term (bs r') = b_term (bs r);
  rq_sizes : (length (b_sizes (bs r')) <= length (b_sizes (bs r)))%nat;
  rq_zero : d = [] -> e = None -> (length (b_sizes (bs r')) < length (b_sizes (bs r)))%nat /\
                                  zrun (b_sizes (bs r)) = S (zrun (b_sizes (bs r')));
  rq_depth : length (ls r') = length (ls r) }.

Lemma rd_read_spec r k d e r' : 0 < k -> wf_reader r -> rd_read r k = (d, e, r') -> rd_post r k d e r'.
Proof.
  intros Hk [Hw Hs] H. unfold rd_read in H.
  destruct (rread (ls r) (bs r) k) as [[[d0 e0] l0] b0] eqn:Er. injection H as <- <- <-.
  destruct (rread_spec _ _ _ _ _ _ _ Hk Hw Er) as [D L W E T We S Z Len].
  apply Build_rd_post; unfold rden, wf_reader; cbn [ls bs]; try assumption.
  - split; [assumption|]. eapply sizes_step_stall; eassumption.
  - destruct S as [-> | ->]; [lia|]. destruct (b_sizes (bs r)); cbn; lia.
  - intros H1 H2. destruct (Z H1 H2) as (q & Q1 & Q2). rewrite Q1, Q2. cbn. split; [lia|reflexivity].
Qed.
