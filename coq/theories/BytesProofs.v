(* BytesProofs.v - lemmas on big-endian numbers, padding, firstn/skipn *)
From Coq Require Import List NArith ZArith Lia Strings.Byte Bool ZifyN ZifyNat.
Require Import Bytes.
Import ListNotations.
Open Scope N_scope.

Arguments N.add : simpl never.
Arguments N.mul : simpl never.
Arguments N.pow : simpl never.
Arguments N.modulo : simpl never.
Arguments N.div : simpl never.

Lemma b2n_lt b : b2n b < 256.
Proof. unfold b2n. pose proof (Byte.to_N_bounded b). lia. Qed.

Lemma b2n_n2b n : b2n (n2b n) = n mod 256.
Proof.
  unfold n2b, b2n. destruct (Byte.of_N (n mod 256)) eqn:E.
  - apply Byte.to_of_N in E. exact E.
  - apply Byte.of_N_None_iff in E. pose proof (N.mod_lt n 256). lia.
Qed.

Lemma n2b_b2n b : n2b (b2n b) = b.
Proof.
  unfold n2b, b2n. pose proof (Byte.to_N_bounded b).
  rewrite N.mod_small by lia. rewrite Byte.of_to_N. reflexivity.
Qed.

Lemma be_length k n : length (be k n) = k.
Proof. revert n; induction k; intros; simpl; auto. rewrite app_length, IHk. simpl. lia. Qed.

Lemma unbe_app l1 l2 acc : unbe (l1 ++ l2) acc = unbe l2 (unbe l1 acc).
Proof. revert acc; induction l1; intros; simpl; auto. Qed.

Lemma unbe_be k n acc : unbe (be k n) acc = acc * 256 ^ (N.of_nat k) + n mod 256 ^ (N.of_nat k).
Proof.
  revert n acc; induction k; intros n acc.
  - simpl. rewrite N.mod_1_r. lia.
  - cbn [be]. rewrite unbe_app, IHk. cbn [unbe]. rewrite b2n_n2b.
    rewrite Nat2N.inj_succ, N.pow_succ_r'.
    set (p := 256 ^ N.of_nat k). assert (p <> 0) by (unfold p; apply N.pow_nonzero; lia).
    rewrite (N.mod_mul_r n 256 p) by lia.
    lia.
Qed.

Lemma unbe_be0 k n : n < 256 ^ (N.of_nat k) -> unbe (be k n) 0 = n.
Proof. intros. rewrite unbe_be. rewrite N.mod_small by assumption. lia. Qed.

Lemma unbe_be0_mod k n : unbe (be k n) 0 = n mod 256 ^ (N.of_nat k).
Proof. rewrite unbe_be. lia. Qed.

Lemma unbe_bound l acc : unbe l acc < (acc + 1) * 256 ^ (N.of_nat (length l)).
Proof.
  revert acc; induction l as [|b l IH]; intros acc.
  - simpl. rewrite N.pow_0_r. lia.
  - cbn [unbe length]. rewrite Nat2N.inj_succ, N.pow_succ_r'.
    pose proof (IH (acc * 256 + b2n b)). pose proof (b2n_lt b).
    set (p := 256 ^ N.of_nat (length l)) in *. nia.
Qed.

Lemma unbe0_bound l : unbe l 0 < 256 ^ (N.of_nat (length l)).
Proof. pose proof (unbe_bound l 0). lia. Qed.

(* be is the inverse of unbe on lists of the right length *)
Lemma be_unbe l acc : be (length l) (unbe l acc) = l.
Proof.
  revert acc. induction l as [|b l IH] using rev_ind; intros acc.
  - reflexivity.
  - rewrite app_length, Nat.add_comm. cbn [length Nat.add be].
    rewrite unbe_app. cbn [unbe].
    assert (H1: (unbe l acc * 256 + b2n b) / 256 = unbe l acc).
    { pose proof (b2n_lt b). symmetry. apply (N.div_unique _ 256 _ (b2n b)); lia. }
    rewrite H1, IH. f_equal. f_equal.
    unfold n2b. pose proof (b2n_lt b).
    replace ((unbe l acc * 256 + b2n b) mod 256) with (b2n b).
    + unfold b2n. rewrite Byte.of_to_N. reflexivity.
    + apply (N.mod_unique _ 256 (unbe l acc)); lia.
Qed.

Lemma zeros_length n : length (zeros n) = n.
Proof. unfold zeros. apply repeat_length. Qed.

Lemma pad8_lt l : pad8 l < 8.
Proof. unfold pad8. apply N.mod_lt. lia. Qed.

Lemma padded_mod8 l : padded l mod 8 = 0.
Proof.
  unfold padded, pad8.
  pose proof (N.mod_lt l 8). pose proof (N.div_mod l 8).
  assert (H1: l mod 8 < 8) by lia.
  destruct (N.eq_dec (l mod 8) 0) as [E|E].
  - rewrite E. replace ((8 - 0) mod 8) with 0 by reflexivity. rewrite N.add_0_r. exact E.
  - rewrite (N.mod_small (8 - l mod 8)) by lia.
    replace (l + (8 - l mod 8)) with (8 * (l / 8) + l mod 8 + (8 - l mod 8)) by lia.
    replace (8 * (l / 8) + l mod 8 + (8 - l mod 8)) with (8 + (l / 8) * 8) by lia.
    rewrite N.mod_add by lia. reflexivity.
Qed.

Lemma padded_ge l : l <= padded l.
Proof. unfold padded. lia. Qed.

Lemma firstn_app_exact {A} (a b : list A) : firstn (length a) (a ++ b) = a.
Proof. rewrite firstn_app, Nat.sub_diag, firstn_O, app_nil_r, firstn_all. reflexivity. Qed.

Lemma skipn_app_exact {A} (a b : list A) : skipn (length a) (a ++ b) = b.
Proof. rewrite skipn_app, Nat.sub_diag, skipn_all. reflexivity. Qed.
