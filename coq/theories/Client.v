(* Client.v - model of Client.Send / Client.DiscoverVersions (client.go, after the fix: commits) *)
From Coq Require Import String.
From Coq Require Import List NArith ZArith Bool Strings.Byte.
Require Import Bytes Schema Codec Session.
Import ListNotations.
Open Scope string_scope.
Open Scope list_scope.
Open Scope N_scope.

Inductive send_result :=
| SPayload (v : val)                        (* resp, nil *)
| SServerError (reason : N) (msg : bytes)   (* nil, an Error carrying the server's reason and message *)
| SError.                                   (* nil, some other error *)

Inductive cevent := CArmWrite | CSent (b : bytes) | CArmRead.

Record ccfg := {
  cc_connected : bool;                      (* c.conn != nil *)
  cc_read_to : bool; cc_write_to : bool;
  cc_version : Z * Z                        (* c.Version (after Connect's defaulting) *)
}.

Section Client.
  Variable T : tyenv.
  Variable K : sconsts.

  Definition build_request (c : ccfg) (op : N) (payload : val) : val :=
    let ver := set_field T (set_field T (zero_struct T "ProtocolVersion") "Major" (VInt (fst (cc_version c))))
                         "Minor" (VInt (snd (cc_version c))) in
    let hdr := set_field T (set_field T (zero_struct T "RequestHeader") "Version" ver) "BatchCount" (VInt 1) in
    let item := set_field T (set_field T (zero_struct T "RequestBatchItem") "Operation" (VEnum op))
                          "RequestPayload" payload in
    set_field T (set_field T (zero_struct T "Request") "Header" hdr) "BatchItems" (VList (VCons item VNone)).

  (* the checks Send applies to a decoded Response *)
  Definition judge (op : N) (resp : val) : send_result :=
    match get_field T (get_field T resp "Header") "BatchCount" with
    | VInt 1 =>
        match get_field T resp "BatchItems" with
        | VList (VCons item VNone) =>
            match get_field T item "Operation" with
            | VEnum o =>
                if o =? op then
                  match get_field T item "ResultStatus" with
                  | VEnum st =>
                      if st =? k_success K then SPayload (get_field T item "ResponsePayload")
                      else SServerError (match get_field T item "ResultReason" with VEnum r => r | _ => 0 end)
                                        (match get_field T item "ResultMessage" with VStr m => m | _ => [] end)
                  | _ => SError
                  end
                else SError
            | _ => SError
            end
        | _ => SError
        end
    | _ => SError
    end.

  (* Send(operation, req) when the peer's reply stream is [reply]: events on the connection and the result *)
  Definition send (c : ccfg) (op : N) (payload : val) (reply : bytes) : list cevent * send_result :=
    if negb (cc_connected c) then ([], SError)
    else
      let armw := if cc_write_to c then [CArmWrite] else [] in
      match enc_top T (VPtr (build_request c op payload)) with
      | None => (armw, SError)                                   (* error writing request: nothing was sent *)
      | Some b =>
          let armr := if cc_read_to c then [CArmRead] else [] in
          let evs := armw ++ [CSent b] ++ armr in
          match T "Response" with
          | None => (evs, SError)
          | Some (tag, fl) =>
              match dec_top "Response" tag fl {| rest := reply; last := 0 |} with
              | Ok (resp, _, _) => (evs, judge op resp)
              | _ => (evs, SError)
              end
          end
      end.

  Inductive dv_result := DVVersions (vs : list (Z * Z)) | DVServerError (reason : N) (msg : bytes) | DVError.

  Definition discover_versions (c : ccfg) (offer : list (Z * Z)) (reply : bytes) : list cevent * dv_result :=
    let req := set_field T (zero_struct T "DiscoverVersionsRequest") "ProtocolVersions"
                         (VList (vl_of_list (map (version_val T) offer))) in
    let '(evs, r) := send c (k_discover_versions K) req reply in
    (evs, match r with
          | SPayload (VStruct ty vs) =>
              if String.eqb ty "DiscoverVersionsResponse"          (* checked type assertion *)
              then DVVersions (match get_field T (VStruct ty vs) "ProtocolVersions" with
                               | VList l => map (version_pair T) (list_of_vl l) | _ => [] end)
              else DVError
          | SPayload _ => DVError
          | SServerError r m => DVServerError r m
          | SError => DVError
          end).
End Client.

(* ---------- the life cycle of one Client value: Connect / Close / Send in any order ---------- *)
Inductive conn_outcome :=
| DialFails          (* tls.Dial returned an error: refused, not a TLS peer, certificate not verified, ... *)
| Connects.          (* dialled and handshaken *)
Inductive cop := CConnect (o : conn_outcome) | CClose | CSend.

(* c.conn != nil; c.e / c.d != nil *)
Record clife := { has_conn : bool; has_codec : bool }.
Definition clife0 : clife := {| has_conn := false; has_codec := false |}.

Inductive cout :=
| LOk          (* Connect / Close returned *)
| LErr         (* Connect failed; Send: "not connected" *)
| LExchange    (* Send goes on to the exchange with the peer (function [send] above) *)
| LPanic.      (* Send dereferences a nil encoder *)

Definition clife_step (s : clife) (o : cop) : clife * cout :=
  match o with
  | CConnect Connects => ({| has_conn := true; has_codec := true |}, LOk)
  | CConnect DialFails => ({| has_conn := false; has_codec := has_codec s |}, LErr)  (* c.conn, err = tls.Dial(..): nil on failure *)
  | CClose => ({| has_conn := false; has_codec := has_codec s |}, LOk)
  | CSend => (s, if negb (has_conn s) then LErr else if has_codec s then LExchange else LPanic)
  end.

Fixpoint clife_run (s : clife) (ops : list cop) : list cout :=
  match ops with
  | [] => []
  | o :: r => let '(s', x) := clife_step s o in x :: clife_run s' r
  end.

