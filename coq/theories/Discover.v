(* Discover.v - model of handleDiscoverVersions / Serve's defaulting of SupportedVersions with Go
   slices made explicit: a slice is a window (array id, offset, length, capacity) into a heap of
   backing arrays; append writes in place when capacity allows and otherwise allocates a fresh
   array.  This is what "the reply never aliases or mutates the configuration" is about. *)
From Coq Require Import List ZArith Bool Arith.
Import ListNotations.

Definition pv := (Z * Z)%type.                    (* ProtocolVersion: Major, Minor *)
Definition pv_eqb (a b : pv) : bool := (fst a =? fst b)%Z && (snd a =? snd b)%Z.

Record slice := { s_arr : nat; s_off : nat; s_len : nat; s_cap : nat }.
Definition nil_slice : slice := {| s_arr := 0; s_off := 0; s_len := 0; s_cap := 0 |}.
Definition heap := list (list pv).                (* backing arrays by id *)

Definition arr (h : heap) (a : nat) : list pv := nth a h [].
Definition elems (h : heap) (s : slice) : list pv := firstn (s_len s) (skipn (s_off s) (arr h (s_arr s))).
Arguments elems h s : simpl never.

Fixpoint set_nth {A} (i : nat) (x : A) (l : list A) : list A :=
  match l, i with
  | [], _ => []
  | _ :: r, O => x :: r
  | y :: r, S j => y :: set_nth j x r
  end.

(* append(s, x): the Go runtime's behaviour (growth policy abstracted: the new capacity is any
   [grow n] > n chosen by the runtime) *)
Definition grow (n : nat) : nat := S (2 * n).
Definition default_pv : pv := (0, 0)%Z.

Definition append1 (h : heap) (s : slice) (x : pv) : heap * slice :=
  if Nat.ltb (s_len s) (s_cap s) then
    (set_nth (s_arr s) (set_nth (s_off s + s_len s) x (arr h (s_arr s))) h,
     {| s_arr := s_arr s; s_off := s_off s; s_len := S (s_len s); s_cap := s_cap s |})
  else
    let cap' := grow (s_len s) in
    let a := elems h s ++ [x] ++ repeat default_pv (cap' - S (s_len s)) in
    (h ++ [a], {| s_arr := length h; s_off := 0; s_len := S (s_len s); s_cap := cap' |}).

Fixpoint append_all (h : heap) (s : slice) (xs : list pv) : heap * slice :=
  match xs with
  | [] => (h, s)
  | x :: r => let '(h', s') := append1 h s x in append_all h' s' r
  end.

(* handleDiscoverVersions(request.ProtocolVersions = offer) with s.SupportedVersions = sup *)
Fixpoint first_match (o : pv) (sup : list pv) : option pv :=
  match sup with [] => None | v :: r => if pv_eqb o v then Some v else first_match o r end.

Fixpoint match_loop (h : heap) (res : slice) (offer : list pv) (sup : list pv) : heap * slice :=
  match offer with
  | [] => (h, res)
  | o :: r =>
      match first_match o sup with
      | Some v => let '(h', res') := append1 h res v in match_loop h' res' r sup
      | None => match_loop h res r sup
      end
  end.

Definition handle_discover (h : heap) (sup : slice) (offer : list pv) : heap * slice :=
  match offer with
  | [] => append_all h nil_slice (elems h sup)          (* append([]ProtocolVersion(nil), s.SupportedVersions...) *)
  | _ => match_loop h nil_slice offer (elems h sup)
  end.

(* Serve: if len(s.SupportedVersions) == 0 { s.SupportedVersions = append([]ProtocolVersion(nil), DefaultSupportedVersions...) } *)
Definition serve_defaults (h : heap) (configured dflt : slice) : heap * slice :=
  if Nat.eqb (s_len configured) 0 then append_all h nil_slice (elems h dflt) else (h, configured).

(* the value-level specification *)
Definition discover_spec (sup offer : list pv) : list pv :=
  match offer with
  | [] => sup
  | _ => flat_map (fun o => match first_match o sup with Some v => [v] | None => [] end) offer
  end.

(* several Discover Versions items of one request, handled one after the other on the same heap: all the replies are
   kept (in the response under construction) until the last one has been produced *)
Fixpoint discover_batch (h : heap) (sup : slice) (offers : list (list pv)) : heap * list slice :=
  match offers with
  | [] => (h, [])
  | o :: r =>
      let '(h1, s) := handle_discover h sup o in
      let '(h2, ss) := discover_batch h1 sup r in (h2, s :: ss)
  end.
