(* SchemaCheck.v - computable versions of the schema conditions of CodecRT.v (fl_ok, sch_ok,
   cases_ok) with their soundness, so that the instance regenerated from /repo is checked by
   vm_compute on every run. *)
From Coq Require Import String.
From Coq Require Import List NArith ZArith Bool Lia.
Require Import Bytes Schema Codec CodecProofs CodecRT.
Import ListNotations.
Open Scope N_scope.

Definition dkey_eqb (a b : dkey) : bool :=
  match a, b with
  | DKEnum x, DKEnum y => x =? y
  | DKStr x, DKStr y => String.eqb x y
  | DKUnknown x, DKUnknown y => String.eqb x y
  | _, _ => false
  end.

Definition fattr_eqb (a b : fattr) : bool :=
  String.eqb (fa_name a) (fa_name b) && (fa_tag a =? fa_tag b) && Bool.eqb (fa_req a) (fa_req b) &&
  Bool.eqb (fa_slice a) (fa_slice b) && Bool.eqb (fa_skip a) (fa_skip b).

Fixpoint sch_eqb (a b : sch) {struct a} : bool :=
  match a, b with
  | SPrim k, SPrim k' => kind_eqb k k'
  | SStruct t f, SStruct t' f' => String.eqb t t' && flist_eqb f f'
  | SDyn h i c, SDyn h' i' c' => String.eqb h h' && Nat.eqb i i' && dcases_eqb c c'
  | _, _ => false
  end
with flist_eqb (a b : flist) {struct a} : bool :=
  match a, b with
  | FNil, FNil => true
  | FCons x s r, FCons x' s' r' => fattr_eqb x x' && sch_eqb s s' && flist_eqb r r'
  | _, _ => false
  end
with dcases_eqb (a b : dcases) {struct a} : bool :=
  match a, b with
  | DNil, DNil => true
  | DCase k s r, DCase k' s' r' => dkey_eqb k k' && sch_eqb s s' && dcases_eqb r r'
  | _, _ => false
  end.

Lemma kind_eqb_eq a b : kind_eqb a b = true -> a = b.
Proof. destruct a, b; cbn; intros; try discriminate; reflexivity. Qed.

Lemma dkey_eqb_eq a b : dkey_eqb a b = true -> a = b.
Proof.
  destruct a, b; cbn; intros H; try discriminate.
  - apply N.eqb_eq in H; subst; reflexivity.
  - apply String.eqb_eq in H; subst; reflexivity.
  - apply String.eqb_eq in H; subst; reflexivity.
Qed.

Lemma fattr_eqb_eq a b : fattr_eqb a b = true -> a = b.
Proof.
  destruct a, b. unfold fattr_eqb; cbn. intros H.
  repeat (apply andb_true_iff in H; destruct H as [H ?]).
  apply String.eqb_eq in H. apply N.eqb_eq in H3. apply Bool.eqb_prop in H2, H1, H0. subst. reflexivity.
Qed.

Lemma sch_eqb_eq :
  (forall a b, sch_eqb a b = true -> a = b) /\
  (forall a b, flist_eqb a b = true -> a = b) /\
  (forall a b, dcases_eqb a b = true -> a = b).
Proof.
  apply sch_mutind.
  - intros k b H. destruct b; cbn [sch_eqb] in H; try discriminate. apply kind_eqb_eq in H; subst; reflexivity.
  - intros ty fl IH b H. destruct b; cbn [sch_eqb] in H; try discriminate.
    apply andb_true_iff in H. destruct H as [H1 H2]. apply String.eqb_eq in H1. apply IH in H2. subst. reflexivity.
  - intros h ki cs IH b H. destruct b; cbn [sch_eqb] in H; try discriminate.
    apply andb_true_iff in H. destruct H as [H H3]. apply andb_true_iff in H. destruct H as [H1 H2].
    apply String.eqb_eq in H1. apply Nat.eqb_eq in H2. apply IH in H3. subst. reflexivity.
  - intros b H. destruct b; cbn [flist_eqb] in H; [reflexivity|discriminate].
  - intros a s IHs r IHr b H. destruct b; cbn [flist_eqb] in H; try discriminate.
    apply andb_true_iff in H. destruct H as [H H3]. apply andb_true_iff in H. destruct H as [H1 H2].
    apply fattr_eqb_eq in H1. apply IHs in H2. apply IHr in H3. subst. reflexivity.
  - intros b H. destruct b; cbn [dcases_eqb] in H; [reflexivity|discriminate].
  - intros k s IHs r IHr b H. destruct b; cbn [dcases_eqb] in H; try discriminate.
    apply andb_true_iff in H. destruct H as [H H3]. apply andb_true_iff in H. destruct H as [H1 H2].
    apply dkey_eqb_eq in H1. apply IHs in H2. apply IHr in H3. subst. reflexivity.
Qed.

Definition tag_ok_b (t : N) : bool := negb (t =? 0) && (t <? 2 ^ 24) && negb (t =? ANY_TAG).

Lemma tag_ok_b_sound t : tag_ok_b t = true -> tag_ok t.
Proof.
  unfold tag_ok_b, tag_ok. intros H. apply andb_true_iff in H. destruct H as [H H3]. apply andb_true_iff in H. destruct H as [H1 H2].
  apply negb_true_iff in H1, H3. apply N.eqb_neq in H1, H3. apply N.ltb_lt in H2. auto.
Qed.

Definition key_field_b (x : option (fattr * sch)) : bool :=
  match x with
  | Some (a, SPrim k) => (kind_eqb k KEnum || kind_eqb k KStr) && negb (fa_slice a) && on_wire a
  | _ => false
  end.

Lemma key_field_b_sound x : key_field_b x = true -> key_field x.
Proof.
  destruct x as [[a s]|]; cbn; [|discriminate]. destruct s; try discriminate. intros H.
  apply andb_true_iff in H. destruct H as [H H3]. apply andb_true_iff in H. destruct H as [H1 H2].
  apply negb_true_iff in H2. repeat split; auto.
  apply orb_true_iff in H1. destruct H1 as [H1|H1]; apply kind_eqb_eq in H1; auto.
Qed.

Fixpoint sch_ok_b (T : tyenv) (s : sch) : bool :=
  match s with
  | SPrim _ => true
  | SStruct _ fl => fl_ok_b T FNil fl
  | SDyn _ _ cs => cases_ok_b T cs
  end
with fl_ok_b (T : tyenv) (pfl fl : flist) : bool :=
  match fl with
  | FNil => true
  | FCons a s r =>
      (((fa_tag a =? ANY_TAG) && fa_skip a && negb (fa_req a) && match r with FNil => true | _ => false end) ||
       (tag_ok_b (fa_tag a) && negb (existsb (N.eqb (fa_tag a)) (all_tags r)) && (negb (fa_skip a) || negb (fa_req a)))) &&
      (match s with
       | SDyn _ ki _ => negb (fa_slice a) && key_field_b (fl_nth pfl ki)
       | _ => true
       end) &&
      sch_ok_b T s && fl_ok_b T (fl_app pfl (FCons a s FNil)) r
  end
with cases_ok_b (T : tyenv) (cs : dcases) : bool :=
  match cs with
  | DNil => true
  | DCase _ s r =>
      match s with
      | SPrim _ => true
      | SStruct ty fl => match T ty with Some (_, fl') => flist_eqb fl' fl | None => false end && fl_ok_b T FNil fl
      | SDyn _ _ _ => false
      end && cases_ok_b T r
  end.

Lemma ok_b_sound T :
  (forall s, sch_ok_b T s = true -> sch_ok T s) /\
  (forall fl pfl, fl_ok_b T pfl fl = true -> fl_ok T pfl fl) /\
  (forall cs, cases_ok_b T cs = true -> cases_ok T cs).
Proof.
  apply sch_mutind.
  - intros; exact I.
  - intros ty fl IH H. cbn [sch_ok_b] in H. cbn [sch_ok]. apply IH. exact H.
  - intros h ki cs IH H. cbn [sch_ok_b] in H. cbn [sch_ok]. apply IH. exact H.
  - intros; exact I.
  - intros a s IHs r IHr pfl H. cbn [fl_ok_b] in H. cbn [fl_ok].
    apply andb_true_iff in H. destruct H as [H H4]. apply andb_true_iff in H. destruct H as [H H3].
    apply andb_true_iff in H. destruct H as [H1 H2].
    split; [|split; [|split]].
    + apply orb_true_iff in H1. destruct H1 as [H1|H1].
      * left. apply andb_true_iff in H1. destruct H1 as [H1 Hr]. apply andb_true_iff in H1. destruct H1 as [H1 Hq].
        apply andb_true_iff in H1. destruct H1 as [Ht Hs]. apply N.eqb_eq in Ht. apply negb_true_iff in Hq.
        destruct r; [auto|discriminate].
      * right. apply andb_true_iff in H1. destruct H1 as [H1 Hq]. apply andb_true_iff in H1. destruct H1 as [Ht Hn].
        split; [apply tag_ok_b_sound; exact Ht|]. split.
        -- apply negb_true_iff in Hn. intros Hin. assert (existsb (N.eqb (fa_tag a)) (all_tags r) = true); [|congruence].
           apply existsb_exists. exists (fa_tag a). split; [exact Hin|apply N.eqb_refl].
        -- intros Hs. rewrite Hs in Hq. cbn in Hq. apply negb_true_iff in Hq. exact Hq.
    + destruct s; try exact I. apply andb_true_iff in H2. destruct H2 as [Ha Hb].
      apply negb_true_iff in Ha. split; [exact Ha|apply key_field_b_sound; exact Hb].
    + apply IHs. exact H3.
    + apply IHr. exact H4.
  - intros; exact I.
  - intros k s IHs r IHr H. cbn [cases_ok_b] in H. cbn [cases_ok].
    apply andb_true_iff in H. destruct H as [H1 H2]. split; [|apply IHr; exact H2].
    destruct s as [|ty fl|]; [exact I| |discriminate].
    apply andb_true_iff in H1. destruct H1 as [Ha Hb].
    destruct (T ty) as [[tag fl']|] eqn:HT; [|discriminate].
    apply (proj1 (proj2 sch_eqb_eq)) in Ha. subst. split; [eauto|].
    cbn [sch_ok_b] in IHs. cbn [sch_ok] in IHs. apply IHs. exact Hb.
Qed.

Definition table_ok_b (tbl : list (string * (N * flist))) : bool :=
  forallb (fun e => fl_ok_b (fun ty => tassoc ty tbl) FNil (snd (snd e))) tbl.

Lemma tassoc_in k v l : tassoc k l = Some v -> In (k, v) l.
Proof.
  induction l as [|[k' v'] r IH]; cbn; [discriminate|]. destruct (String.eqb_spec k k') as [->|].
  - intros H; injection H as <-. left; reflexivity.
  - intros H. right. apply IH. exact H.
Qed.

Lemma table_env_ok tbl : table_ok_b tbl = true -> env_ok (fun ty => tassoc ty tbl).
Proof.
  intros H ty tag fl HT. apply tassoc_in in HT. unfold table_ok_b in H. rewrite forallb_forall in H.
  specialize (H _ HT). cbn [snd] in H. apply (proj1 (proj2 (ok_b_sound _))). exact H.
Qed.

(* ------------------------------------------------------------------ *)
(* a computable well-formedness check, sound for [wf]                  *)
(* ------------------------------------------------------------------ *)
Definition wf_prim_b (k : kind) (v : val) : bool :=
  match k, v with
  | KInt, VInt z => ((- 2 ^ 31 <=? z) && (z <? 2 ^ 31))%Z
  | KLong, VLong z | KTime, VTime z => ((- 2 ^ 63 <=? z) && (z <? 2 ^ 63))%Z
  | KEnum, VEnum n => n <? 2 ^ 32
  | KBool, VBool _ => true
  | KBytes, VBytes b | KStr, VStr b => blen b <? 2 ^ 32
  | KDur, VDur ns => ((0 <=? ns) && (ns <? 2 ^ 32 * nanos) && (ns mod nanos =? 0))%Z
  | _, _ => false
  end.

Lemma wf_prim_b_sound k v : wf_prim_b k v = true -> wf_prim k v.
Proof.
  destruct k, v; cbn [wf_prim_b wf_prim]; try discriminate; intros H; try exact I.
  - apply andb_true_iff in H. destruct H as [H1 H2]. apply Z.leb_le in H1. apply Z.ltb_lt in H2. lia.
  - apply andb_true_iff in H. destruct H as [H1 H2]. apply Z.leb_le in H1. apply Z.ltb_lt in H2. lia.
  - apply N.ltb_lt in H. exact H.
  - apply N.ltb_lt in H. exact H.
  - apply N.ltb_lt in H. exact H.
  - apply andb_true_iff in H. destruct H as [H1 H2]. apply Z.leb_le in H1. apply Z.ltb_lt in H2. lia.
  - apply andb_true_iff in H. destruct H as [H H3]. apply andb_true_iff in H. destruct H as [H1 H2].
    apply Z.leb_le in H1. apply Z.ltb_lt in H2. apply Z.eqb_eq in H3.
    exists (ns / nanos)%Z. unfold nanos in *. split.
    + split; [apply Z.div_pos; lia|]. apply Z.div_lt_upper_bound; lia.
    + rewrite Z.mul_comm. apply Z.div_exact; [lia|exact H3].
Qed.

Definition size_ok_b (T : tyenv) (fl : flist) (vs : vlist) : bool :=
  match enc_fields T fl vs with Some body => blen body <? 2 ^ 32 | None => false end.

Definition case_is (cs : dcases) (key : val) (s : sch) : bool :=
  match lookup_case cs key with Some s' => sch_eqb s' s | None => false end.

Fixpoint zero_like_b (s : sch) (v : val) {struct s} : bool :=
  match s with
  | SPrim k => prim_is_zero k v
  | SStruct ty fl => match v with VStruct ty' vs => String.eqb ty' ty && zero_like_fields_b fl vs | _ => false end
  | SDyn _ _ _ => match v with VNil => true | _ => false end
  end
with zero_like_fields_b (fl : flist) (vs : vlist) {struct fl} : bool :=
  match fl, vs with
  | FNil, VNone => true
  | FCons a s r, VCons v vr =>
      (if (fa_tag a =? ANY_TAG) || fa_skip a then true
       else if fa_slice a then match v with VList VNone => true | _ => false end else zero_like_b s v)
      && zero_like_fields_b r vr
  | _, _ => false
  end.

Lemma zero_like_b_sound :
  (forall s v, zero_like_b s v = true -> zero_like s v) /\
  (forall fl vs, zero_like_fields_b fl vs = true -> zero_like_fields fl vs) /\
  (forall cs : dcases, True).
Proof.
  apply sch_mutind.
  - intros k v H. exact H.
  - intros ty fl IH v H. destruct v; cbn [zero_like_b] in H; try discriminate. cbn [zero_like].
    apply andb_true_iff in H. destruct H as [H1 H2]. apply String.eqb_eq in H1. split; [exact H1|apply IH; exact H2].
  - intros h ki cs _ v H. destruct v; cbn [zero_like_b] in H; try discriminate. reflexivity.
  - intros vs H. destruct vs; [exact I|discriminate].
  - intros a s IHs r IHr vs H. destruct vs as [|v vr]; cbn [zero_like_fields_b] in H; [discriminate|].
    cbn [zero_like_fields]. apply andb_true_iff in H. destruct H as [H1 H2]. split; [|apply IHr; exact H2].
    destruct ((fa_tag a =? ANY_TAG) || fa_skip a); [exact I|]. destruct (fa_slice a).
    + destruct v; try discriminate. destruct vs; [reflexivity|discriminate].
    + apply IHs. exact H1.
  - exact I.
  - intros; exact I.
Qed.

Fixpoint wf_b (T : tyenv) (s : sch) (key : val) (v : val) {struct v} : bool :=
  match s with
  | SPrim k => wf_prim_b k v
  | SStruct ty fl =>
      match v with
      | VStruct ty' vs => String.eqb ty' ty && wf_fields_b T fl VNone vs && size_ok_b T fl vs
      | _ => false
      end
  | SDyn _ _ cs =>
      match v with
      | VNil => true
      | VStruct ty vs | VPtr (VStruct ty vs) =>
          match T ty with
          | Some (_, fl) => case_is cs key (SStruct ty fl) && wf_fields_b T fl VNone vs && size_ok_b T fl vs
          | None => false
          end
      | VInt _ => case_is cs key (SPrim KInt) && wf_prim_b KInt v
      | VLong _ => case_is cs key (SPrim KLong) && wf_prim_b KLong v
      | VEnum _ => case_is cs key (SPrim KEnum) && wf_prim_b KEnum v
      | VBool _ => case_is cs key (SPrim KBool) && wf_prim_b KBool v
      | VBytes _ => case_is cs key (SPrim KBytes) && wf_prim_b KBytes v
      | VStr _ => case_is cs key (SPrim KStr) && wf_prim_b KStr v
      | VTime _ => case_is cs key (SPrim KTime) && wf_prim_b KTime v
      | VDur _ => case_is cs key (SPrim KDur) && wf_prim_b KDur v
      | _ => false
      end
  end
with wf_fields_b (T : tyenv) (fl : flist) (prev : vlist) (vs : vlist) {struct vs} : bool :=
  match fl, vs with
  | FNil, VNone => true
  | FCons a s r, VCons v vr =>
      (if on_wire a then
         if fa_slice a then
           match v with
           | VList es => wf_elems_b T s es && (negb (fa_req a) || match es with VNone => false | _ => true end)
           | _ => false
           end
         else if negb (fa_req a) && is_zero s v then zero_like_b s v
         else wf_b T s (key_of s prev) v
       else true) &&
      wf_fields_b T r (vl_snoc prev v) vr
  | _, _ => false
  end
with wf_elems_b (T : tyenv) (s : sch) (es : vlist) {struct es} : bool :=
  match es with
  | VNone => true
  | VCons e er => wf_b T s VNil e && wf_elems_b T s er
  end.

Lemma case_is_sound cs key s : case_is cs key s = true -> lookup_case cs key = Some s.
Proof.
  unfold case_is. destruct (lookup_case cs key) as [s'|]; [|discriminate]. intros H.
  apply (proj1 sch_eqb_eq) in H. subst. reflexivity.
Qed.

Lemma size_ok_b_sound T fl vs : size_ok_b T fl vs = true -> exists body, enc_fields T fl vs = Some body /\ blen body < 2 ^ 32.
Proof.
  unfold size_ok_b. destruct (enc_fields T fl vs) as [body|]; [|discriminate]. intros H. apply N.ltb_lt in H. eauto.
Qed.

Lemma wf_b_sound T :
  (forall v, (forall s key, wf_b T s key v = true -> wf T s key v) /\
             (match v with VList es => forall s, wf_elems_b T s es = true -> wf_elems T s es | _ => True end)) /\
  (forall vs, (forall fl prev, wf_fields_b T fl prev vs = true -> wf_fields T fl prev vs) /\
              (forall s, wf_elems_b T s vs = true -> wf_elems T s vs)).
Proof.
  apply val_mutind.
  1-8: intros x; (split; [|exact I]); intros s key H; destruct s as [k| |h ki cs];
       [ apply wf_prim_b_sound; destruct k; exact H
       | cbn [wf_b] in H; discriminate
       | cbn [wf_b] in H; cbn [wf]; apply andb_true_iff in H; destruct H as [H1 H2];
         split; [apply case_is_sound; exact H1|apply wf_prim_b_sound; exact H2] ].
  - (* VStruct *) intros ty fs [Hf _]. split; [|exact I]. intros s key H. destruct s as [k|ty' fl|h ki cs].
    + destruct k; discriminate.
    + cbn [wf_b] in H. cbn [wf]. apply andb_true_iff in H. destruct H as [H H3]. apply andb_true_iff in H. destruct H as [H1 H2].
      apply String.eqb_eq in H1. split; [exact H1|]. split; [apply Hf; exact H2|apply size_ok_b_sound; exact H3].
    + cbn [wf_b] in H. cbn [wf]. destruct (T ty) as [[tag fl]|] eqn:HT; [|discriminate].
      apply andb_true_iff in H. destruct H as [H H3]. apply andb_true_iff in H. destruct H as [H1 H2].
      exists tag, fl. split; [reflexivity|]. split; [apply case_is_sound; exact H1|].
      split; [apply Hf; exact H2|apply size_ok_b_sound; exact H3].
  - (* VList *) intros vs [_ He]. split; [|exact He]. intros s key H. destruct s as [k| |]; [destruct k; discriminate|discriminate|discriminate].
  - (* VNil *) split; [|exact I]. intros s key H. destruct s as [k| |]; [destruct k; discriminate|discriminate|exact I].
  - (* VPtr *) intros v [IH _]. split; [|exact I]. intros s key H. destruct s as [k| |h ki cs]; [destruct k; discriminate|discriminate|].
    destruct v; cbn [wf_b] in H; try discriminate.
    specialize (IH (SDyn h ki cs) key). cbn [wf_b wf] in IH. cbn [wf]. apply IH. exact H.
  - (* VBad *) intros w. split; [|exact I]. intros s key H. destruct s as [k| |]; [destruct k; discriminate|discriminate|discriminate].
  - (* VNone *) split.
    + intros fl prev H. destruct fl; [exact I|discriminate].
    + intros s H. exact I.
  - (* VCons *) intros v [IHv IHl] vr [IHf IHe]. split.
    + intros fl prev H. destruct fl as [|a s r]; [discriminate|]. cbn [wf_fields_b] in H. cbn [wf_fields].
      apply andb_true_iff in H. destruct H as [H1 H2]. split; [|apply IHf; exact H2].
      destruct (on_wire a); [|exact I]. destruct (fa_slice a).
      * destruct v; try discriminate. apply andb_true_iff in H1. destruct H1 as [Ha Hb]. split; [apply IHl; exact Ha|].
        intros Hq. rewrite Hq in Hb. cbn in Hb. destruct vs; [discriminate|discriminate].
      * destruct (negb (fa_req a) && is_zero s v); [apply (proj1 zero_like_b_sound); exact H1|apply IHv; exact H1].
    + intros s H. cbn [wf_elems_b] in H. cbn [wf_elems]. apply andb_true_iff in H. destruct H as [H1 H2].
      split; [apply IHv; exact H1|apply IHe; exact H2].
Qed.

Theorem wf_b_wf T s key v : wf_b T s key v = true -> wf T s key v.
Proof. exact (proj1 (proj1 (wf_b_sound T) v) s key). Qed.
