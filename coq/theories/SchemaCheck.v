(* SchemaCheck.v - computable versions of the schema conditions of CodecRT.v (fl_ok, sch_ok,
   cases_ok) with their soundness, so that the instance regenerated from /repo is checked by
   vm_compute on every run. *)
From Coq Require Import String.
From Coq Require Import List NArith ZArith Bool Lia.
Require Import Bytes Schema Codec CodecProofs CodecRT.
Import ListNotations.
Open Scope N_scope.

Definition dkey_eqb (a b : dkey) : bool :=
  match a, b with
  | DKEnum x, DKEnum y => x =? y
  | DKStr x, DKStr y => String.eqb x y
  | DKUnknown x, DKUnknown y => String.eqb x y
  | _, _ => false
  end.

Definition fattr_eqb (a b : fattr) : bool :=
  String.eqb (fa_name a) (fa_name b) && (fa_tag a =? fa_tag b) && Bool.eqb (fa_req a) (fa_req b) &&
  Bool.eqb (fa_slice a) (fa_slice b) && Bool.eqb (fa_skip a) (fa_skip b).

Fixpoint sch_eqb (a b : sch) {struct a} : bool :=
  match a, b with
  | SPrim k, SPrim k' => kind_eqb k k'
  | SStruct t f, SStruct t' f' => String.eqb t t' && flist_eqb f f'
  | SDyn h i c, SDyn h' i' c' => String.eqb h h' && Nat.eqb i i' && dcases_eqb c c'
  | _, _ => false
  end
with flist_eqb (a b : flist) {struct a} : bool :=
  match a, b with
  | FNil, FNil => true
  | FCons x s r, FCons x' s' r' => fattr_eqb x x' && sch_eqb s s' && flist_eqb r r'
  | _, _ => false
  end
with dcases_eqb (a b : dcases) {struct a} : bool :=
  match a, b with
  | DNil, DNil => true
  | DCase k s r, DCase k' s' r' => dkey_eqb k k' && sch_eqb s s' && dcases_eqb r r'
  | _, _ => false
  end.

Lemma kind_eqb_eq a b : kind_eqb a b = true -> a = b.
Proof. destruct a, b; cbn; intros; try discriminate; reflexivity. Qed.

Lemma dkey_eqb_eq a b : dkey_eqb a b = true -> a = b.
Proof.
  destruct a, b; cbn; intros H; try discriminate.
  - apply N.eqb_eq in H; subst; reflexivity.
  - apply String.eqb_eq in H; subst; reflexivity.
  - apply String.eqb_eq in H; subst; reflexivity.
Qed.

Lemma fattr_eqb_eq a b : fattr_eqb a b = true -> a = b.
Proof.
  destruct a, b. unfold fattr_eqb; cbn. intros H.
  repeat (apply andb_true_iff in H; destruct H as [H ?]).
  apply String.eqb_eq in H. apply N.eqb_eq in H3. apply Bool.eqb_prop in H2, H1, H0. subst. reflexivity.
Qed.

Lemma sch_eqb_eq :
  (forall a b, sch_eqb a b = true -> a = b) /\
  (forall a b, flist_eqb a b = true -> a = b) /\
  (forall a b, dcases_eqb a b = true -> a = b).
Proof.
  apply sch_mutind.
  - intros k b H. destruct b; cbn [sch_eqb] in H; try discriminate. apply kind_eqb_eq in H; subst; reflexivity.
  - intros ty fl IH b H. destruct b; cbn [sch_eqb] in H; try discriminate.
    apply andb_true_iff in H. destruct H as [H1 H2]. apply String.eqb_eq in H1. apply IH in H2. subst. reflexivity.
  - intros h ki cs IH b H. destruct b; cbn [sch_eqb] in H; try discriminate.
    apply andb_true_iff in H. destruct H as [H H3]. apply andb_true_iff in H. destruct H as [H1 H2].
    apply String.eqb_eq in H1. apply Nat.eqb_eq in H2. apply IH in H3. subst. reflexivity.
  - intros b H. destruct b; cbn [flist_eqb] in H; [reflexivity|discriminate].
  - intros a s IHs r IHr b H. destruct b; cbn [flist_eqb] in H; try discriminate.
    apply andb_true_iff in H. destruct H as [H H3]. apply andb_true_iff in H. destruct H as [H1 H2].
    apply fattr_eqb_eq in H1. apply IHs in H2. apply IHr in H3. subst. reflexivity.
  - intros b H. destruct b; cbn [dcases_eqb] in H; [reflexivity|discriminate].
  - intros k s IHs r IHr b H. destruct b; cbn [dcases_eqb] in H; try discriminate.
    apply andb_true_iff in H. destruct H as [H H3]. apply andb_true_iff in H. destruct H as [H1 H2].
    apply dkey_eqb_eq in H1. apply IHs in H2. apply IHr in H3. subst. reflexivity.
Qed.

Definition tag_ok_b (t : N) : bool := negb (t =? 0) && (t <? 2 ^ 24) && negb (t =? ANY_TAG).

Lemma tag_ok_b_sound t : tag_ok_b t = true -> tag_ok t.
Proof.
  unfold tag_ok_b, tag_ok. intros H. apply andb_true_iff in H. destruct H as [H H3]. apply andb_true_iff in H. destruct H as [H1 H2].
  apply negb_true_iff in H1, H3. apply N.eqb_neq in H1, H3. apply N.ltb_lt in H2. auto.
Qed.

Definition key_field_b (x : option (fattr * sch)) : bool :=
  match x with
  | Some (a, SPrim k) => (kind_eqb k KEnum || kind_eqb k KStr) && negb (fa_slice a) && on_wire a
  | _ => false
  end.

Lemma key_field_b_sound x : key_field_b x = true -> key_field x.
Proof.
  destruct x as [[a s]|]; cbn; [|discriminate]. destruct s; try discriminate. intros H.
  apply andb_true_iff in H. destruct H as [H H3]. apply andb_true_iff in H. destruct H as [H1 H2].
  apply negb_true_iff in H2. repeat split; auto.
  apply orb_true_iff in H1. destruct H1 as [H1|H1]; apply kind_eqb_eq in H1; auto.
Qed.

Fixpoint sch_ok_b (T : tyenv) (s : sch) : bool :=
  match s with
  | SPrim _ => true
  | SStruct _ fl => fl_ok_b T FNil fl
  | SDyn _ _ cs => cases_ok_b T cs
  end
with fl_ok_b (T : tyenv) (pfl fl : flist) : bool :=
  match fl with
  | FNil => true
  | FCons a s r =>
      (((fa_tag a =? ANY_TAG) && fa_skip a && negb (fa_req a) && match r with FNil => true | _ => false end) ||
       (tag_ok_b (fa_tag a) && negb (existsb (N.eqb (fa_tag a)) (all_tags r)) && (negb (fa_skip a) || negb (fa_req a)))) &&
      (match s with
       | SDyn _ ki _ => negb (fa_slice a) && key_field_b (fl_nth pfl ki)
       | _ => true
       end) &&
      sch_ok_b T s && fl_ok_b T (fl_app pfl (FCons a s FNil)) r
  end
with cases_ok_b (T : tyenv) (cs : dcases) : bool :=
  match cs with
  | DNil => true
  | DCase _ s r =>
      match s with
      | SPrim _ => true
      | SStruct ty fl => match T ty with Some (_, fl') => flist_eqb fl' fl | None => false end && fl_ok_b T FNil fl
      | SDyn _ _ _ => false
      end && cases_ok_b T r
  end.

Lemma ok_b_sound T :
  (forall s, sch_ok_b T s = true -> sch_ok T s) /\
  (forall fl pfl, fl_ok_b T pfl fl = true -> fl_ok T pfl fl) /\
  (forall cs, cases_ok_b T cs = true -> cases_ok T cs).
Proof.
  apply sch_mutind.
  - intros; exact I.
  - intros ty fl IH H. cbn [sch_ok_b] in H. cbn [sch_ok]. apply IH. exact H.
  - intros h ki cs IH H. cbn [sch_ok_b] in H. cbn [sch_ok]. apply IH. exact H.
  - intros; exact I.
  - intros a s IHs r IHr pfl H. cbn [fl_ok_b] in H. cbn [fl_ok].
    apply andb_true_iff in H. destruct H as [H H4]. apply andb_true_iff in H. destruct H as [H H3].
    apply andb_true_iff in H. destruct H as [H1 H2].
    split; [|split; [|split]].
    + apply orb_true_iff in H1. destruct H1 as [H1|H1].
      * left. apply andb_true_iff in H1. destruct H1 as [H1 Hr]. apply andb_true_iff in H1. destruct H1 as [H1 Hq].
        apply andb_true_iff in H1. destruct H1 as [Ht Hs]. apply N.eqb_eq in Ht. apply negb_true_iff in Hq.
        destruct r; [auto|discriminate].
      * right. apply andb_true_iff in H1. destruct H1 as [H1 Hq]. apply andb_true_iff in H1. destruct H1 as [Ht Hn].
        split; [apply tag_ok_b_sound; exact Ht|]. split.
        -- apply negb_true_iff in Hn. intros Hin. assert (existsb (N.eqb (fa_tag a)) (all_tags r) = true); [|congruence].
           apply existsb_exists. exists (fa_tag a). split; [exact Hin|apply N.eqb_refl].
        -- intros Hs. rewrite Hs in Hq. cbn in Hq. apply negb_true_iff in Hq. exact Hq.
    + destruct s; try exact I. apply andb_true_iff in H2. destruct H2 as [Ha Hb].
      apply negb_true_iff in Ha. split; [exact Ha|apply key_field_b_sound; exact Hb].
    + apply IHs. exact H3.
    + apply IHr. exact H4.
  - intros; exact I.
  - intros k s IHs r IHr H. cbn [cases_ok_b] in H. cbn [cases_ok].
    apply andb_true_iff in H. destruct H as [H1 H2]. split; [|apply IHr; exact H2].
    destruct s as [|ty fl|]; [exact I| |discriminate].
    apply andb_true_iff in H1. destruct H1 as [Ha Hb].
    destruct (T ty) as [[tag fl']|] eqn:HT; [|discriminate].
    apply (proj1 (proj2 sch_eqb_eq)) in Ha. subst. split; [eauto|].
    cbn [sch_ok_b] in IHs. cbn [sch_ok] in IHs. apply IHs. exact Hb.
Qed.

Definition table_ok_b (tbl : list (string * (N * flist))) : bool :=
  forallb (fun e => fl_ok_b (fun ty => tassoc ty tbl) FNil (snd (snd e))) tbl.

Lemma tassoc_in k v l : tassoc k l = Some v -> In (k, v) l.
Proof.
  induction l as [|[k' v'] r IH]; cbn; [discriminate|]. destruct (String.eqb_spec k k') as [->|].
  - intros H; injection H as <-. left; reflexivity.
  - intros H. right. apply IH. exact H.
Qed.

Lemma table_env_ok tbl : table_ok_b tbl = true -> env_ok (fun ty => tassoc ty tbl).
Proof.
  intros H ty tag fl HT. apply tassoc_in in HT. unfold table_ok_b in H. rewrite forallb_forall in H.
  specialize (H _ HT). cbn [snd] in H. apply (proj1 (proj2 (ok_b_sound _))). exact H.
Qed.
