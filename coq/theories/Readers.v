(* Readers.v - the decoder of decode.go / decode_core.go once more, this time reading through
   models of the Go reader objects it really uses instead of a flat byte list:

     base      the transport: an io.Reader that hands out the data in a scripted sequence of
               read sizes (0 = an empty read), may return the last bytes together with its
               terminal error, and then keeps returning that error (io.EOF or an I/O error);
               with the script [] it is a bytes.Reader (everything available at once)
     LBuf      bufio.Reader (Read with its one underlying read and its large-read bypass,
               ReadByte with fill and its 100 empty reads, the deferred error)
     LLim      io.LimitedReader
     readfull  io.ReadFull / io.ReadAtLeast
     copy_buf  io.CopyN into a bytes.Buffer (bytes.Buffer.ReadFrom with its growth policy)
     discard   io.CopyN into ioutil.Discard

   and charging an allocation ledger for every make / new / append the Go code performs.
   ReadersProofs.v proves that, for every script, this decoder computes exactly what the flat
   decoder of Codec.v computes on the concatenated data (C03 delivery independence, C06), and
   that the ledger is bounded by a linear function of the bytes really read (C05).
   Definitions only. *)
From Coq Require Import List String NArith ZArith Bool Strings.Byte.
Require Import Bytes Schema Codec.
Import ListNotations.
Open Scope N_scope.

Inductive ioerr := EOF | IOE.     (* io.EOF | any other error (incl. io.ErrNoProgress) *)

(* ---------- the transport ---------- *)
Record base := { b_data : bytes; b_sizes : list N; b_weof : bool; b_term : ioerr }.

Definition base_with (b : base) (d : bytes) (sz : list N) : base :=
  {| b_data := d; b_sizes := sz; b_weof := b_weof b; b_term := b_term b |}.

(* Read(p) with len(p) = k > 0 *)
Definition base_read (b : base) (k : N) : bytes * option ioerr * base :=
  match b_data b with
  | [] => ([], Some (b_term b), b)
  | _ :: _ =>
      let n := match b_sizes b with [] => blen (b_data b) | s :: _ => s end in
      let sz' := tl (b_sizes b) in
      if n =? 0 then ([], None, base_with b (b_data b) sz')
      else
        let m := N.min n k in
        let d' := dropN m (b_data b) in
        (takeN m (b_data b),
         match d' with [] => if b_weof b then Some (b_term b) else None | _ :: _ => None end,
         base_with b d' sz')
  end.

(* ---------- reader objects stacked on the transport, innermost decoder's first ---------- *)
Inductive layer :=
| LBuf (size : N) (buf : bytes) (err : option ioerr)    (* bufio.Reader: unread part of its buffer, b.err *)
| LLim (n : N).                                         (* io.LimitedReader: N *)

Record reader := { ls : list layer; bs : base }.

(* Read(p), len(p) = k > 0, on the top of the stack *)
Fixpoint rread (l : list layer) (b : base) (k : N) : bytes * option ioerr * list layer * base :=
  match l with
  | [] => let '(d, e, b') := base_read b k in (d, e, [], b')
  | LLim n :: r =>
      if n =? 0 then ([], Some EOF, l, b)
      else let '(d, e, r', b') := rread r b (N.min k n) in (d, e, LLim (n - blen d) :: r', b')
  | LBuf size buf err :: r =>
      match buf with
      | _ :: _ => (takeN k buf, None, LBuf size (dropN k buf) err :: r, b)
      | [] =>
          match err with
          | Some e => ([], Some e, LBuf size [] None :: r, b)
          | None =>
              if size <=? k
              then (* large read, empty buffer: read directly into p *)
                let '(d, e, r', b') := rread r b k in (d, e, LBuf size [] None :: r', b')
              else (* one read into the buffer *)
                let '(d, e, r', b') := rread r b size in
                match d with
                | [] => ([], e, LBuf size [] None :: r', b')
                | _ :: _ => (takeN k d, None, LBuf size (dropN k d) e :: r', b')
                end
          end
      end
  end.

Definition rd_read (r : reader) (k : N) : bytes * option ioerr * reader :=
  let '(d, e, l', b') := rread (ls r) (bs r) k in (d, e, {| ls := l'; bs := b' |}).

(* io.ReadFull(r, buf) with len(buf) = need *)
Fixpoint readfull_loop (fuel : nat) (r : reader) (need : N) (acc : bytes) : dres bytes * reader :=
  match fuel with
  | O => (OutOfFuel, r)
  | S f =>
      if need =? 0 then (Ok acc, r)
      else
        let '(d, e, r') := rd_read r need in
        let acc' := acc ++ d in
        let need' := need - blen d in
        match e with
        | None => readfull_loop f r' need' acc'
        | Some x =>
            if need' =? 0 then (Ok acc', r')
            else match acc', x with
                 | [], EOF => (ErrEOF, r')
                 | _, _ => (Err, r')                 (* io.ErrUnexpectedEOF or the I/O error *)
                 end
        end
  end.

Definition readfull (n : N) (r : reader) : dres bytes * reader :=
  readfull_loop (S (N.to_nat n + List.length (b_sizes (bs r)))) r n [].

Definition eclass {A} (e : ioerr) : dres A := match e with EOF => ErrEOF | IOE => Err end.

(* bufio.Reader.fill on an empty buffer: up to 100 reads *)
Fixpoint fill_loop (i : nat) (l : list layer) (b : base) (size : N) : bytes * option ioerr * list layer * base :=
  match i with
  | O => ([], Some IOE, l, b)                       (* io.ErrNoProgress *)
  | S j =>
      let '(d, e, l', b') := rread l b size in
      match e with
      | Some x => (d, Some x, l', b')
      | None => match d with [] => fill_loop j l' b' size | _ :: _ => (d, None, l', b') end
      end
  end.

(* d.s.ReadByte(): bufio.Reader.ReadByte, or bytes.Reader.ReadByte when the source itself is an
   io.ByteScanner *)
Definition readbyte (r : reader) : dres byte * reader :=
  match ls r with
  | [] =>
      match b_data (bs r) with
      | [] => (ErrEOF, r)
      | x :: d => (Ok x, {| ls := []; bs := base_with (bs r) d (b_sizes (bs r)) |})
      end
  | LBuf size buf err :: l =>
      match buf with
      | x :: buf' => (Ok x, {| ls := LBuf size buf' err :: l; bs := bs r |})
      | [] =>
          match err with
          | Some e => (eclass e, {| ls := LBuf size [] None :: l; bs := bs r |})
          | None =>
              let '(d, e, l', b') := fill_loop 100 l (bs r) size in
              match d with
              | x :: d' => (Ok x, {| ls := LBuf size d' e :: l'; bs := b' |})
              | [] => match e with
                      | Some x => (eclass x, {| ls := LBuf size [] None :: l'; bs := b' |})
                      | None => (Err, {| ls := LBuf size [] None :: l'; bs := b' |})   (* unreachable *)
                      end
              end
          end
      end
  | LLim _ :: _ => (Err, r)                           (* never a decoder's own reader *)
  end.

(* total length of what a reader can still deliver *)
Fixpoint den (l : list layer) (b : base) : bytes :=
  match l with
  | [] => b_data b
  | LBuf _ buf _ :: r => buf ++ den r b
  | LLim n :: r => takeN n (den r b)
  end.
Definition rden (r : reader) : bytes := den (ls r) (bs r).

(* io.CopyN(&buf, r, l): bytes.Buffer.ReadFrom(io.LimitReader(r, l)).
   [len]/[cap] follow bytes.Buffer.grow(MinRead = 512); [al] accumulates the sizes of the
   backing arrays it allocates *)
Definition min_read : N := 512.

Fixpoint copy_loop (fuel : nat) (r : reader) (left cap : N) (acc : bytes) (al : N)
  : dres bytes * reader * N :=
  match fuel with
  | O => (OutOfFuel, r, al)
  | S f =>
      let len := blen acc in
      (* b.grow(MinRead) *)
      let '(cap', al') :=
        if min_read <=? cap - len then (cap, al)
        else let c := N.max (len + min_read) (2 * cap) in (c, al + c) in
      (* LimitedReader.Read(b.buf[len:cap]) *)
      if left =? 0 then (Ok acc, r, al')
      else
        let '(d, e, r') := rd_read r (N.min (cap' - len) left) in
        let acc' := acc ++ d in
        let left' := left - blen d in
        match e with
        | None => copy_loop f r' left' cap' acc' al'
        | Some EOF => (if left' =? 0 then Ok acc' else ErrEOF, r', al')  (* ReadFrom: nil; CopyN: io.EOF if short *)
        | Some IOE => (if left' =? 0 then Ok acc' else Err, r', al')
        end
  end.

Definition copy_buf (l : N) (r : reader) : dres bytes * reader * N :=
  copy_loop (S (S (List.length (rden r) + List.length (b_sizes (bs r))))) r l 0 [] 0.

(* io.CopyN(ioutil.Discard, r, p): discard.ReadFrom reads through an 8 KiB buffer *)
Definition discard_buf : N := 8192.

Fixpoint discard_loop (fuel : nat) (r : reader) (left : N) : dres unit * reader :=
  match fuel with
  | O => (OutOfFuel, r)
  | S f =>
      if left =? 0 then (Ok tt, r)
      else
        let '(d, e, r') := rd_read r (N.min discard_buf left) in
        let left' := left - blen d in
        match e with
        | None => discard_loop f r' left'
        | Some EOF => (if left' =? 0 then Ok tt else ErrEOF, r')
        | Some IOE => (if left' =? 0 then Ok tt else Err, r')
        end
  end.

Definition discard (p : N) (r : reader) : dres unit * reader :=
  discard_loop (S (S (List.length (rden r) + List.length (b_sizes (bs r))))) r p.

(* ====================================================================== *)
(* the decoder on reader objects                                          *)
(* ====================================================================== *)
Record cstate := { rd : reader; clast : N; alloc : N }.

Definition M (A : Type) := cstate -> dres A * cstate.

Definition mret {A} (a : A) : M A := fun s => (Ok a, s).
Definition mfail {A} (e : dres A) : M A := fun s => (e, s).
Definition mbind {A B} (m : M A) (f : A -> M B) : M B :=
  fun s => match m s with
           | (Ok a, s') => f a s'
           | (ErrEOF, s') => (ErrEOF, s')
           | (Err, s') => (Err, s')
           | (OutOfFuel, s') => (OutOfFuel, s')
           end.
Notation "'let^' x := m 'in' f" := (mbind m (fun x => f)) (at level 200, x pattern).

Definition charge (n : N) : M unit :=
  fun s => (Ok tt, {| rd := rd s; clast := clast s; alloc := alloc s + n |}).

(* the allocation constants: upper bounds of what one execution of the Go statement allocates *)
Definition K_ARR : N := 16.      (* var b [n]byte escaping through io.ReadFull(d.r, b[:]) *)
Definition K_BOX : N := 48.      (* a primitive value boxed into interface{} / reflect.ValueOf *)
Definition K_ERR : N := 768.     (* errors.Errorf / errors.Wrapf: message + 32-frame stack *)
Definition K_DEC : N := 4096 + 256.   (* NewDecoder(io.LimitReader(..)): bufio buffer + Reader + LimitedReader + Decoder *)
Definition K_FIELD : N := 160.   (* getStructDesc: one field descriptor (+ its share of the slice growth), the value slot *)
Definition K_STRUCT : N := 256.  (* getStructDesc: the descriptor itself, reflect.New header, Interface() *)

Definition with_rd (s : cstate) (r : reader) : cstate := {| rd := r; clast := clast s; alloc := alloc s |}.

Definition c_read_n (n : N) : M bytes :=
  fun s => let '(x, r') := readfull n (rd s) in
           (x, {| rd := r'; clast := clast s; alloc := alloc s + K_ARR |}).

Definition c_read_byte : M byte :=
  fun s => let '(x, r') := readbyte (rd s) in (x, with_rd s r').

Definition c_copy (l : N) : M bytes :=
  fun s => let '(x, r', al) := copy_buf l (rd s) in
           (x, {| rd := r'; clast := clast s; alloc := alloc s + al |}).

Definition c_discard (p : N) : M unit :=
  fun s => let '(x, r') := discard p (rd s) in (x, with_rd s r').

Definition c_read_num (k : N) : M N := let^ b := c_read_n k in mret (unbe b 0).

Definition c_read_type : M N := let^ x := c_read_byte in mret (b2n x).

Definition c_set_last (t : N) : M unit :=
  fun s => (Ok tt, {| rd := rd s; clast := t; alloc := alloc s |}).

Definition c_iread_tag : M N := c_read_num 3.

Definition c_read_tag : M N :=
  fun s => if negb (clast s =? 0) then (Ok (clast s), {| rd := rd s; clast := 0; alloc := alloc s |})
           else c_iread_tag s.

Definition c_peek_tag : M N :=
  fun s => if negb (clast s =? 0) then (Ok (clast s), s)
           else (let^ t := c_iread_tag in let^ _ := c_set_last t in mret t) s.

Definition c_expect_tag (t : N) : M unit :=
  let^ t' := c_read_tag in
  if negb (t =? t') && negb (t =? ANY_TAG) then (let^ _ := charge K_ERR in mfail Err) else mret tt.

Definition c_expect_type (v : N) : M unit :=
  let^ x := c_read_type in if x =? v then mret tt else (let^ _ := charge K_ERR in mfail Err).

Definition c_expect_len (v : N) : M unit :=
  let^ x := c_read_num 4 in if x =? v then mret tt else (let^ _ := charge K_ERR in mfail Err).

Definition c_dec_prim (k : kind) (tag : N) : M (val * N) :=
  let^ _ := c_expect_tag tag in
  let^ _ := c_expect_type (type_code k) in
  match k with
  | KInt =>
      let^ _ := c_expect_len 4 in let^ b := c_read_n 8 in let^ _ := charge K_BOX in
      mret (VInt (of_u32 (unbe (firstn 4 b) 0)), 16)
  | KEnum =>
      let^ _ := c_expect_len 4 in let^ b := c_read_n 8 in let^ _ := charge K_BOX in
      mret (VEnum (unbe (firstn 4 b) 0), 16)
  | KDur =>
      let^ _ := c_expect_len 4 in let^ b := c_read_n 8 in let^ _ := charge K_BOX in
      mret (VDur (Z.of_N (unbe (firstn 4 b) 0) * nanos)%Z, 16)
  | KLong =>
      let^ _ := c_expect_len 8 in let^ b := c_read_n 8 in let^ _ := charge K_BOX in
      mret (VLong (of_u64 (unbe b 0)), 16)
  | KTime =>
      let^ _ := c_expect_len 8 in let^ b := c_read_n 8 in let^ _ := charge K_BOX in
      mret (VTime (of_u64 (unbe b 0)), 16)
  | KBool =>
      let^ _ := c_expect_len 8 in let^ b := c_read_n 8 in
      if all_zero (firstn 7 b) then
        match skipn 7 b with
        | [x] => if Byte.eqb x x01 then mret (VBool true, 16)
                 else if Byte.eqb x x00 then mret (VBool false, 16)
                 else (let^ _ := charge K_ERR in mfail Err)
        | _ => (let^ _ := charge K_ERR in mfail Err)
        end
      else (let^ _ := charge K_ERR in mfail Err)
  | KBytes | KStr =>
      let^ l := c_read_num 4 in
      let^ b := c_copy l in
      let^ _ := (if pad8 l =? 0 then mret [] else c_read_n (pad8 l)) in
      (* string(b) copies once more; the []byte / string header is boxed *)
      let^ _ := charge (K_BOX + match k with KStr => l | _ => 0 end) in   (* CopyN succeeded: len(b) = l *)
      mret (match k with KBytes => VBytes b | _ => VStr b end, 8 + l + pad8 l)
  end.

Definition c_dec_skip (tag : N) : M N :=
  let^ _ := c_expect_tag tag in
  let^ _ := c_read_type in
  let^ l := c_read_num 4 in
  let^ _ := c_discard (padded l) in
  mret (8 + padded l).

(* errors.Wrapf *)
Definition c_wrapped {A} (m : M A) : M A :=
  fun s => match m s with
           | (ErrEOF, s') | (Err, s') => (Err, {| rd := rd s'; clast := clast s'; alloc := alloc s' + K_ERR |})
           | x => x
           end.

Fixpoint c_slice_loop (fuel : nat) (step : M (val * N)) (tag : N) (skip : bool)
         (explen actual nsum : N) (acc : vlist) : M (vlist * N * N) :=
  match fuel with
  | O => mfail OutOfFuel
  | S f =>
      let^ (v, nn) := c_wrapped step in
      let actual' := (actual + nn) mod 2^32 in
      let acc' := if skip then acc else vl_snoc acc v in
      let^ _ := charge (if skip then 0 else K_FIELD) in      (* reflect.Append *)
      if explen <=? actual' then mret (acc', actual', nsum + nn)
      else
        let^ t := c_peek_tag in
        if t =? tag then c_slice_loop f step tag skip explen actual' (nsum + nn) acc'
        else mret (acc', actual', nsum + nn)
  end.

Fixpoint flist_len (fl : flist) : N :=
  match fl with FNil => 0 | FCons _ _ r => 1 + flist_len r end.

(* the nested decoder of decode(): NewDecoder(io.LimitReader(d.r, len)) and back *)
Definition push_nested (len : N) (s : cstate) : cstate :=
  {| rd := {| ls := LBuf 4096 [] None :: LLim len :: ls (rd s); bs := bs (rd s) |};
     clast := 0; alloc := alloc s + K_DEC |}.
Definition pop_nested (outer_last : N) (s : cstate) : cstate :=
  {| rd := {| ls := tl (tl (ls (rd s))); bs := bs (rd s) |}; clast := outer_last; alloc := alloc s |}.

Fixpoint c_dec_value (s : sch) (a : fattr) (cur : vlist) {struct s} : M (val * N) :=
  match s with
  | SPrim k => c_dec_prim k (fa_tag a)
  | SStruct ty fl =>
      let^ _ := charge (K_STRUCT + K_FIELD * flist_len fl) in        (* getStructDesc, reflect.New *)
      let^ _ := c_expect_tag (fa_tag a) in
      let^ _ := c_expect_type tc_structure in
      let^ len := c_read_num 4 in
      fun s3 =>
        match c_dec_fields fl O len 0 0 (zeros_of fl) (push_nested len s3) with
        | (Ok (vs, actual, nsum), dd) =>
            let s4 := pop_nested (clast s3) dd in
            if actual =? len then (Ok (VStruct ty vs, 8 + nsum), s4)
            else (Err, {| rd := rd s4; clast := clast s4; alloc := alloc s4 + K_ERR |})
        | (ErrEOF, dd) => (ErrEOF, pop_nested (clast s3) dd)
        | (Err, dd) => (Err, pop_nested (clast s3) dd)
        | (OutOfFuel, dd) => (OutOfFuel, pop_nested (clast s3) dd)
        end
  | SDyn _ ki cs => c_dec_cases cs (vl_nth ki cur) a
  end
with c_dec_fields (fl : flist) (i : nat) (explen actual nsum : N) (cur : vlist) {struct fl}
  : M (vlist * N * N) :=
  match fl with
  | FNil => mret (cur, actual, nsum)
  | FCons a s r =>
      let item : M (val * N) :=
        if fa_skip a then (let^ n := c_dec_skip (fa_tag a) in mret (VNil, n))
        else c_dec_value s a cur in
      fun dd =>
        match c_peek_tag dd with
        | (OutOfFuel, dd1) => (OutOfFuel, dd1)
        | (Err, dd1) => (Err, {| rd := rd dd1; clast := clast dd1; alloc := alloc dd1 + K_ERR |})
        | (ErrEOF, dd1) =>
            if fa_req a then (Err, {| rd := rd dd1; clast := clast dd1; alloc := alloc dd1 + K_ERR |})
            else c_dec_fields r (S i) explen actual nsum cur {| rd := rd dd1; clast := 0; alloc := alloc dd1 |}
        | (Ok t, dd1) =>
            if negb (fa_req a) && negb (t =? fa_tag a) && negb (fa_tag a =? ANY_TAG)
            then c_dec_fields r (S i) explen actual nsum cur dd1
            else if fa_slice a then
              (let^ (es, actual', nsum') :=
                 c_slice_loop (S (List.length (rden (rd dd1)))) item (fa_tag a) (fa_skip a) explen actual nsum VNone in
               c_dec_fields r (S i) explen actual' nsum' (vl_set i (VList es) cur)) dd1
            else
              (let^ (v, nn) := c_wrapped item in
               c_dec_fields r (S i) explen ((actual + nn) mod 2^32) (nsum + nn)
                            (if fa_skip a then cur else vl_set i v cur)) dd1
        end
  end
with c_dec_cases (cs : dcases) (key : val) (a : fattr) {struct cs} : M (val * N) :=
  match cs with
  | DNil => (let^ _ := charge K_ERR in mfail Err)
  | DCase k s r => if key_matches k key then c_dec_value s a VNone else c_dec_cases r key a
  end.

Definition c_dec_top (ty : string) (tag : N) (fl : flist) : M (val * N) :=
  c_dec_value (SStruct ty fl) (top_attr tag) VNone.

(* NewDecoder(r): a bufio.Reader unless the source is an io.ByteScanner *)
Definition new_decoder (scanner : bool) (b : base) : cstate :=
  if scanner then {| rd := {| ls := []; bs := b |}; clast := 0; alloc := 64 |}
  else {| rd := {| ls := [LBuf 4096 [] None]; bs := b |}; clast := 0; alloc := 4096 + 192 |}.

(* a decoder over a bufio.Reader of any size supplied by the caller (itself an io.ByteScanner) *)
Definition new_decoder_bufio (size : N) (b : base) : cstate :=
  {| rd := {| ls := [LBuf size [] None]; bs := b |}; clast := 0; alloc := 64 |}.

Fixpoint c_dec_stream (fuel : nat) (ty : string) (tag : N) (fl : flist) (s : cstate)
  : list val * stream_end * cstate :=
  match fuel with
  | O => ([], SFuel, s)
  | S f =>
      match c_dec_top ty tag fl s with
      | (Ok (v, _), s') => let '(vs, e, s'') := c_dec_stream f ty tag fl s' in (v :: vs, e, s'')
      | (ErrEOF, s') => ([], SEOF, s')
      | (Err, s') => ([], SErr, s')
      | (OutOfFuel, s') => ([], SFuel, s')
      end
  end.

(* bytes taken from the transport so far *)
Definition pulled (b0 : base) (s : cstate) : N := blen (b_data b0) - blen (b_data (bs (rd s))).
