(* UserTypes.v - the generic models run on USER-DEFINED structure types: declarations handed over at run time
   (the harness builds the same types with reflect.StructOf) are pushed through the model of fields.go (Fields.v),
   elaborated, and the codec model (Codec.v) encodes / decodes with the resulting schema.  The library's own types
   stay available (a user structure may contain kmip.Name, ...).  This is what ties Fields.v and the schema-generic
   part of Codec.v to fields.go / encode.go / decode.go beyond the one schema the library itself declares. *)
From Coq Require Import List String NArith Bool.
Require Import Bytes Schema Fields Codec Generated Instance.
Import ListNotations.
Open Scope string_scope.
Open Scope N_scope.

Section User.
  Variable unamed : list (string * gty).     (* defined non-struct types: name, underlying type *)
  Variable ustructs : list rawstruct.

  Definition user_desc (ty : string) : res sdesc :=
    get_struct_desc the_tagmap (unamed ++ gen_named) (ustructs ++ gen_structs) ty.

  Definition user_table : list (string * (N * flist)) :=
    flat_map (fun n =>
      match user_desc n, elab user_desc gen_dispatch elab_fuel n with
      | ROk sd, Some (SStruct _ fl) => [(n, (sd_tag sd, fl))]
      | _, _ => []
      end) (map rs_name ustructs) ++ the_type_table.

  Definition user_enc (v : val) : option bytes :=
    let tbl := user_table in enc_top (fun ty => tassoc ty tbl) v.

  Definition user_dec (ty : string) (bs : bytes) : dres (val * N * dstate) :=
    let tbl := user_table in
    match tassoc ty tbl with
    | Some (tag, fl) => dec_top ty tag fl {| rest := bs; last := 0 |}
    | None => Err
    end.
End User.
