(* Reflect.v - the type discipline of the reflective code in decode.go / encode.go, over EVERY universe of Go struct
   declarations (not only the library's own types): the descriptor getStructDesc computes for a field determines
   (1) the Go type of the value Decoder.decodeValue hands back for that field, and (2) which reflect accessor
   Encoder.encodeValue applies to it.  reflect.Value.Set / reflect.Append panic unless the value's type is assignable to
   the field / element type; Value.Int, Uint, Bool, String, Bytes panic unless the Kind matches; a type assertion
   x.(time.Time) panics unless the dynamic type is exactly that.  The theorems below say that the descriptor builder
   (Fields.v, the model of fields.go) only ever pairs a field with a descriptor for which all of these hold:
   "reflection sets only values of the exact field / element type" (C03), "the accessor fits the kind" (C13).
   The tie of Fields.v to fields.go is the `udesc` correspondence (random reflect.StructOf types, real descriptors
   through the VerifStructDesc hook). *)
From Coq Require Import List String NArith Bool.
Require Import Schema Fields.
Import ListNotations.
Open Scope string_scope.

(* the Go type of the core value the decoder's read<Kind> returns / the encoder's write<Kind> takes *)
Definition core_gty (k : kind) : gty :=
  match k with
  | KInt => TInt32 | KLong => TInt64 | KEnum => TEnum | KBool => TBool
  | KBytes => TBytes | KStr => TString | KTime => TTime | KDur => TDuration
  end.

(* reflect.Kind, as far as the accessors care *)
Inductive rkind := RkInt | RkUint | RkBool | RkString | RkSlice | RkStruct | RkInterface | RkOtherKind.

Section Discipline.
  Variable tagmap : list (string * N).
  Variable named : list (string * gty).
  Variable structs : list rawstruct.

  Definition is_struct (t : gty) (n : string) : Prop :=
    t = TNamed n /\ exists s, find_struct n structs = Some s.

  (* an interface type: interface{} itself or a defined interface type *)
  Definition is_iface (t : gty) : Prop :=
    t = TIface \/ exists n, t = TNamed n /\ find_struct n structs = None /\ assoc n named = Some TIface.

  (* Go's assignability, the fragment that matters here: identical types, or anything (that implements it) into an interface *)
  Definition assignable (from to : gty) : Prop := from = to \/ is_iface to.

  (* the Go type of the value decodeValue returns for a descriptor type, if it is statically known *)
  Definition produced (ft : ftyp) (t : gty) : Prop :=
    match ft with
    | FPrim k => t = core_gty k
    | FStruct n => t = TNamed n          (* v = vv.Elem().Interface() with vv = reflect.New(t) *)
    | FDyn => True                       (* whatever BuildFieldValue chose *)
    end.

  Lemma guess_type_exact t ft :
    guess_type named structs t = ROk ft ->
    match ft with
    | FPrim k => t = core_gty k
    | FStruct n => is_struct t n
    | FDyn => is_iface t
    end.
  Proof.
    destruct t; cbn [guess_type]; intros H; try (injection H as <-; cbn; try reflexivity); try discriminate.
    - left; reflexivity.
    - destruct (find_struct n structs) as [s|] eqn:Hs.
      + injection H as <-. split; [reflexivity|eauto].
      + destruct (assoc n named) as [[]|] eqn:Hn; try discriminate.
        injection H as <-. right. exists n. auto.
  Qed.

  (* what getStructDesc derives from one field declaration *)
  Definition field_ann (f : rawfield) : string * string := parse_tag (if rf_has_ann f then rf_ann f else "").
  Definition field_elem (f : rawfield) : gty :=
    match slice_elem named (rf_type f) with Some e => e | None => rf_type f end.
  Definition field_is_slice (f : rawfield) : bool :=
    match slice_elem named (rf_type f) with Some _ => true | None => false end.

  Definition described (f : rawfield) (d : fdesc) : Prop :=
    rf_exported f = true /\ rf_type f <> TTagTy /\ fst (field_ann f) <> "" /\
    fd_name d = rf_name f /\
    assoc (fst (field_ann f)) tagmap = Some (fd_tag d) /\
    fd_req d = contains "required" (snd (field_ann f)) /\
    fd_skip d = contains "skip" (snd (field_ann f)) /\
    fd_slice d = field_is_slice f /\
    guess_type named structs (field_elem f) = ROk (fd_typ d).

  Lemma desc_fields_described fs : forall tag acc sd,
    desc_fields tagmap named structs fs tag acc = ROk sd ->
    Forall (fun d => exists f, described f d) acc ->
    Forall (fun d => exists f, described f d) (sd_fields sd).
  Proof.
    induction fs as [|f r IH]; intros tag acc sd H Hacc; cbn [desc_fields] in H.
    - injection H as <-. cbn. apply Forall_rev. exact Hacc.
    - destruct (parse_tag (if rf_has_ann f then rf_ann f else "")) as [name opt] eqn:Ept.
      destruct (rf_type f) eqn:Ety;
        try (destruct (String.eqb name "" || negb (rf_exported f)) eqn:Eskip; [eapply IH; eassumption|];
             destruct (assoc name tagmap) as [t|] eqn:Et; [|discriminate];
             match type of H with context [slice_elem named ?ty] => destruct (slice_elem named ty) as [e|] eqn:Ese end;
             match type of H with context [guess_type named structs ?x] => destruct (guess_type named structs x) as [ft|m] eqn:Eg end;
             try discriminate;
             (eapply IH; [eassumption|]; constructor; [|exact Hacc]; exists f;
              apply orb_false_iff in Eskip; destruct Eskip as [En Ex];
              apply negb_false_iff in Ex; apply String.eqb_neq in En;
              unfold described, field_ann, field_elem, field_is_slice; rewrite Ept, Ety, Ese; cbn [fst snd fd_name fd_tag fd_typ fd_req fd_slice fd_skip];
              repeat split; try assumption; try reflexivity; discriminate)).
      (* TTagTy *)
      destruct (assoc name tagmap) as [t|]; [|discriminate]. eapply IH; eassumption.
  Qed.

  Theorem get_struct_desc_described ty sd :
    get_struct_desc tagmap named structs ty = ROk sd ->
    Forall (fun d => exists f, described f d) (sd_fields sd).
  Proof.
    unfold get_struct_desc. destruct (find_struct ty structs) as [s|]; [|discriminate].
    intros H. eapply desc_fields_described; [exact H|constructor].
  Qed.

  (* ---- decode side: Set / Append receive a value of an assignable type ---- *)
  Theorem decode_store_assignable f d vt :
    described f d -> produced (fd_typ d) vt -> assignable vt (field_elem f).
  Proof.
    intros (_ & _ & _ & _ & _ & _ & _ & _ & Hg) Hp. apply guess_type_exact in Hg.
    destruct (fd_typ d) as [k|n|]; cbn [produced] in Hp.
    - left. congruence.
    - left. destruct Hg as [-> _]. exact Hp.
    - right. exact Hg.
  Qed.

  (* the slice case really is a slice whose element type is the one decodeValue is asked for *)
  Theorem decode_slice_target f d :
    described f d -> fd_slice d = true -> slice_elem named (rf_type f) = Some (field_elem f).
  Proof.
    intros (_ & _ & _ & _ & _ & _ & _ & Hs & _) Ht. unfold field_is_slice, field_elem in *.
    destruct (slice_elem named (rf_type f)); [reflexivity|congruence].
  Qed.

  (* ---- encode side: the accessor encodeValue applies fits the Kind (or exact type) of the field / element ---- *)
  Definition kind_of (t : gty) : rkind :=
    match t with
    | TInt32 | TInt64 | TDuration => RkInt
    | TEnum => RkUint
    | TBool => RkBool
    | TString => RkString
    | TBytes => RkSlice
    | TTime => RkStruct
    | TIface => RkInterface
    | _ => RkOtherKind
    end.

  (* rv.Int / rv.Uint / rv.Bool / rv.String / rv.Bytes / rv.Interface().(time.Time|time.Duration) *)
  Definition accessor_fits (k : kind) (t : gty) : Prop :=
    match k with
    | KInt | KLong => kind_of t = RkInt
    | KEnum => kind_of t = RkUint
    | KBool => kind_of t = RkBool
    | KStr => kind_of t = RkString
    | KBytes => t = TBytes
    | KTime => t = TTime
    | KDur => t = TDuration
    end.

  Theorem encode_accessor_fits f d k :
    described f d -> fd_typ d = FPrim k -> accessor_fits k (field_elem f).
  Proof.
    intros (_ & _ & _ & _ & _ & _ & _ & _ & Hg) Hk. apply guess_type_exact in Hg. rewrite Hk in Hg. rewrite Hg.
    destruct k; reflexivity.
  Qed.

  (* a STRUCTURE descriptor sits on a struct type (getStructDesc(rt) is given a struct) or on an interface (unwrapped first) *)
  Theorem encode_structure_target f d :
    described f d ->
    match fd_typ d with
    | FStruct n => is_struct (field_elem f) n
    | FDyn => is_iface (field_elem f)
    | FPrim _ => True
    end.
  Proof.
    intros (_ & _ & _ & _ & _ & _ & _ & _ & Hg). apply guess_type_exact in Hg. destruct (fd_typ d); [exact I|exact Hg|exact Hg].
  Qed.

  (* unsupported field types never get a descriptor: the whole structure type is rejected with an error *)
  Theorem unsupported_field_rejects f d :
    described f d ->
    match field_elem f with
    | TOther _ | TSliceOf _ | TTagTy => False
    | _ => True
    end.
  Proof.
    intros (_ & _ & _ & _ & _ & _ & _ & _ & Hg). destruct (field_elem f); try exact I; cbn in Hg; discriminate.
  Qed.
End Discipline.
