(* Codec.v - executable model of encode.go / encode_core.go / decode.go / decode_core.go
   (the tree after the fix: commits; the pinned quirks they removed are described in
   DESIGN.md section 7).  Definitions only - proofs live in *Proofs.v. *)
From Coq Require Import List String NArith ZArith Bool Strings.Byte.
Require Import Bytes Schema.
Import ListNotations.
Open Scope N_scope.

(* ---------- Go values as reflect sees them ---------- *)
Inductive val :=
| VInt (z : Z)            (* int32 *)
| VLong (z : Z)           (* int64 *)
| VEnum (n : N)           (* Enum (uint32) *)
| VBool (b : bool)
| VBytes (b : bytes)      (* []byte, nil and empty identified *)
| VStr (b : bytes)        (* string *)
| VTime (sec : Z)         (* time.Time, whole seconds since the Unix epoch *)
| VDur (ns : Z)           (* time.Duration in nanoseconds *)
| VStruct (ty : string) (fs : vlist)   (* annotated fields in declaration order *)
| VList (vs : vlist)      (* slice field, nil and empty identified *)
| VNil                    (* nil interface *)
| VPtr (v : val)          (* non-nil pointer held by an interface / passed at top level *)
| VBad (what : string)    (* any other dynamic value: typed nil pointer, foreign scalar, map, slice, chan, func *)
with vlist := VNone | VCons (v : val) (r : vlist).

Fixpoint vl_nth (i : nat) (l : vlist) : val :=
  match l, i with
  | VNone, _ => VNil
  | VCons v _, O => v
  | VCons _ r, S j => vl_nth j r
  end.
Fixpoint vl_set (i : nat) (x : val) (l : vlist) : vlist :=
  match l, i with
  | VNone, _ => VNone
  | VCons _ r, O => VCons x r
  | VCons v r, S j => VCons v (vl_set j x r)
  end.
Fixpoint vl_snoc (l : vlist) (x : val) : vlist :=
  match l with VNone => VCons x VNone | VCons v r => VCons v (vl_snoc r x) end.
Fixpoint vl_length (l : vlist) : nat :=
  match l with VNone => O | VCons _ r => S (vl_length r) end.

(* item type codes (checked against the regenerated constants in Instance.v) *)
Definition tc_structure : N := 1.
Definition type_code (k : kind) : N :=
  match k with
  | KInt => 2 | KLong => 3 | KEnum => 5 | KBool => 6
  | KStr => 7 | KBytes => 8 | KTime => 9 | KDur => 10
  end.

Definition zero_time : Z := (-62135596800)%Z.   (* time.Time{}.Unix() *)
Definition nanos : Z := 1000000000%Z.

Definition header (tag typ len : N) : bytes := be 3 tag ++ be 1 typ ++ be 4 len.

Definition blen (b : bytes) : N := N.of_nat (List.length b).

(* ====================================================================== *)
(* Encoder                                                                *)
(* ====================================================================== *)

(* encode_core.go: the eight writers; a value of another Go type cannot reach them *)
Definition enc_prim (tag : N) (k : kind) (v : val) : option bytes :=
  match k, v with
  | KInt, VInt z => Some (header tag 2 4 ++ be 4 (to_u32 z) ++ zeros 4)
  | KLong, VLong z => Some (header tag 3 8 ++ be 8 (to_u64 z))
  | KEnum, VEnum n => Some (header tag 5 4 ++ be 4 n ++ zeros 4)
  | KBool, VBool b => Some (header tag 6 8 ++ zeros 7 ++ [if b then x01 else x00])
  | KTime, VTime s => Some (header tag 9 8 ++ be 8 (to_u64 s))
  | KDur, VDur ns => Some (header tag 10 4 ++ be 4 (to_u32 (Z.quot ns nanos)) ++ zeros 4)
  | KBytes, VBytes b => Some (header tag 8 (blen b) ++ b ++ zeros (N.to_nat (pad8 (blen b))))
  | KStr, VStr b => Some (header tag 7 (blen b) ++ b ++ zeros (N.to_nat (pad8 (blen b))))
  | _, _ => None
  end.

(* the re-typing switch of encodeValue for a value found in an interface *)
Definition enc_dyn_prim (tag : N) (v : val) : option bytes :=
  match v with
  | VInt _ => enc_prim tag KInt v
  | VLong _ => enc_prim tag KLong v
  | VEnum _ => enc_prim tag KEnum v
  | VBool _ => enc_prim tag KBool v
  | VBytes _ => enc_prim tag KBytes v
  | VStr _ => enc_prim tag KStr v
  | VTime _ => enc_prim tag KTime v
  | VDur _ => enc_prim tag KDur v
  | _ => None     (* getStructDesc of a non-struct type: error *)
  end.

(* isZeroValue, directed by the static type of the position *)
Definition prim_is_zero (k : kind) (v : val) : bool :=
  match k, v with
  | KInt, VInt z | KLong, VLong z | KDur, VDur z => (z =? 0)%Z
  | KEnum, VEnum n => n =? 0
  | KBool, VBool b => negb b
  | KBytes, VBytes b | KStr, VStr b => match b with [] => true | _ => false end
  | KTime, VTime s => (s =? zero_time)%Z
  | _, _ => false
  end.

Fixpoint is_zero (s : sch) (v : val) {struct s} : bool :=
  match s with
  | SPrim k => prim_is_zero k v
  | SDyn _ _ _ => match v with VNil => true | _ => false end
  | SStruct _ fl => match v with VStruct _ vs => fields_zero fl vs | _ => false end
  end
with fields_zero (fl : flist) (vs : vlist) {struct fl} : bool :=
  match fl, vs with
  | FNil, _ => true
  | FCons a s r, VCons v vr =>
      (if (fa_tag a =? ANY_TAG) || fa_skip a then true     (* never encoded: ignored *)
       else if fa_slice a then match v with VList VNone => true | _ => false end
       else is_zero s v)
      && fields_zero r vr
  | FCons _ _ _, VNone => false
  end.

Definition wrap (tag : N) (body : bytes) : bytes := header tag tc_structure (blen body) ++ body.

Definition obind {A B} (o : option A) (f : A -> option B) : option B :=
  match o with Some a => f a | None => None end.
Notation "'let?' x := o 'in' f" := (obind o (fun x => f)) (at level 200, x pattern).

(* T: getStructDesc by type name: own tag and elaborated fields; None = error.
   (an argument of the fixpoints rather than a section variable, so that cbn refolds the mutual calls) *)
Definition tyenv := string -> option (N * flist).

(* a type environment given by an association table *)
Fixpoint tassoc (k : string) (l : list (string * (N * flist))) : option (N * flist) :=
  match l with [] => None | (k', v) :: r => if String.eqb k k' then Some v else tassoc k r end.

  Fixpoint enc_value (T : tyenv) (s : sch) (tag : N) (v : val) {struct v} : option bytes :=
    match s with
    | SPrim k => enc_prim tag k v
    | SStruct _ fl =>
        match v with
        | VStruct _ vs => let? body := enc_fields T fl vs in Some (wrap tag body)
        | _ => None
        end
    | SDyn _ _ _ =>
        match v with
        | VNil => None                                   (* nil value for field *)
        | VStruct ty vs =>
            let? d := T ty in let? body := enc_fields T (snd d) vs in Some (wrap tag body)
        | VPtr (VStruct ty vs) =>
            let? d := T ty in let? body := enc_fields T (snd d) vs in Some (wrap tag body)
        | VPtr v' => enc_dyn_prim tag v'                 (* one dereference; **T, *iface, ... : error *)
        | _ => enc_dyn_prim tag v
        end
    end
  with enc_fields (T : tyenv) (fl : flist) (vs : vlist) {struct vs} : option bytes :=
    match fl, vs with
    | FNil, VNone => Some []
    | FCons a s r, VCons v vr =>
        if (fa_tag a =? ANY_TAG) || fa_skip a then enc_fields T r vr
        else if fa_slice a then
          match v with
          | VList es => let? b := enc_elems T s (fa_tag a) es in let? rest := enc_fields T r vr in Some (b ++ rest)
          | _ => None
          end
        else if negb (fa_req a) && is_zero s v then enc_fields T r vr
        else let? b := enc_value T s (fa_tag a) v in let? rest := enc_fields T r vr in Some (b ++ rest)
    | _, _ => None
    end
  with enc_elems (T : tyenv) (s : sch) (tag : N) (es : vlist) {struct es} : option bytes :=
    match es with
    | VNone => Some []
    | VCons e er => let? b := enc_value T s tag e in let? rest := enc_elems T s tag er in Some (b ++ rest)
    end.

  (* Encoder.Encode(v) *)
  Definition enc_top (T : tyenv) (v : val) : option bytes :=
    match v with
    | VStruct ty vs | VPtr (VStruct ty vs) =>
        let? d := T ty in let? body := enc_fields T (snd d) vs in Some (wrap (fst d) body)
    | VTime _ | VPtr (VTime _) => Some (wrap 0 [])   (* time.Time is a struct without annotated fields *)
    | _ => None   (* invalid value, nil pointer, non-struct: error *)
    end.

  (* what reaches the destination writer: nothing unless the whole message was built *)
  Definition enc_to (T : tyenv) (w : bytes) (v : val) : bytes * bool :=
    match enc_top T v with Some b => (w ++ b, true) | None => (w, false) end.


(* ====================================================================== *)
(* Decoder                                                                *)
(* ====================================================================== *)

(* one Decoder: bytes still to come on its reader, and the peeked tag (0 = none) *)
Record dstate := { rest : bytes; last : N }.

Inductive dres (A : Type) := Ok (a : A) | ErrEOF | Err | OutOfFuel.
Arguments Ok {A}. Arguments ErrEOF {A}. Arguments Err {A}. Arguments OutOfFuel {A}.

Definition bind {A B} (r : dres A) (f : A -> dres B) : dres B :=
  match r with Ok a => f a | ErrEOF => ErrEOF | Err => Err | OutOfFuel => OutOfFuel end.
Notation "'let*' x := r 'in' f" := (bind r (fun x => f)) (at level 200, x pattern).

(* errors.Wrapf: the result is no longer == io.EOF *)
Definition wrapped {A} (r : dres A) : dres A := match r with ErrEOF => Err | x => x end.

(* io.ReadFull / ReadByte: io.EOF only if nothing at all could be read *)
Definition read_n (n : nat) (s : dstate) : dres (bytes * dstate) :=
  if Nat.leb n (List.length (rest s))
  then Ok (firstn n (rest s), {| rest := skipn n (rest s); last := last s |})
  else match rest s with [] => ErrEOF | _ => Err end.

(* the same for a length taken from the wire: compared in N before any conversion to nat *)
Definition read_nN (n : N) (s : dstate) : dres (bytes * dstate) :=
  if n <=? blen (rest s) then read_n (N.to_nat n) s
  else match rest s with [] => ErrEOF | _ => Err end.

(* io.CopyN: a short copy from a source that ended cleanly is io.EOF even if some bytes arrived *)
Definition copy_nN (n : N) (s : dstate) : dres (bytes * dstate) :=
  if n <=? blen (rest s) then read_n (N.to_nat n) s else ErrEOF.

Definition takeN (n : N) (l : bytes) : bytes := firstn (N.to_nat (N.min n (blen l))) l.
Definition dropN (n : N) (l : bytes) : bytes := skipn (N.to_nat (N.min n (blen l))) l.

Definition read_num (k : nat) (s : dstate) : dres (N * dstate) :=
  let* (b, s') := read_n k s in Ok (unbe b 0, s').

Definition iread_tag (s : dstate) : dres (N * dstate) := read_num 3 s.

Definition read_tag (s : dstate) : dres (N * dstate) :=
  if negb (last s =? 0) then Ok (last s, {| rest := rest s; last := 0 |}) else iread_tag s.

Definition peek_tag (s : dstate) : dres (N * dstate) :=
  if negb (last s =? 0) then Ok (last s, s)
  else let* (t, s') := iread_tag s in Ok (t, {| rest := rest s'; last := t |}).

Definition expect_tag (t : N) (s : dstate) : dres dstate :=
  let* (t', s') := read_tag s in
  if negb (t =? t') && negb (t =? ANY_TAG) then Err else Ok s'.

Definition expect_num (k : nat) (v : N) (s : dstate) : dres dstate :=
  let* (x, s') := read_num k s in if x =? v then Ok s' else Err.

(* decode_core.go *)
Definition all_zero (b : bytes) : bool := forallb (fun x => Byte.eqb x x00) b.

Definition dec_prim (k : kind) (tag : N) (s : dstate) : dres (val * N * dstate) :=
  let* s1 := expect_tag tag s in
  let* s2 := expect_num 1 (type_code k) s1 in
  match k with
  | KInt =>
      let* s3 := expect_num 4 4 s2 in let* (b, s4) := read_n 8 s3 in
      Ok (VInt (of_u32 (unbe (firstn 4 b) 0)), 16, s4)
  | KEnum =>
      let* s3 := expect_num 4 4 s2 in let* (b, s4) := read_n 8 s3 in
      Ok (VEnum (unbe (firstn 4 b) 0), 16, s4)
  | KDur =>
      let* s3 := expect_num 4 4 s2 in let* (b, s4) := read_n 8 s3 in
      Ok (VDur (Z.of_N (unbe (firstn 4 b) 0) * nanos)%Z, 16, s4)
  | KLong =>
      let* s3 := expect_num 4 8 s2 in let* (b, s4) := read_n 8 s3 in
      Ok (VLong (of_u64 (unbe b 0)), 16, s4)
  | KTime =>
      let* s3 := expect_num 4 8 s2 in let* (b, s4) := read_n 8 s3 in
      Ok (VTime (of_u64 (unbe b 0)), 16, s4)
  | KBool =>
      let* s3 := expect_num 4 8 s2 in let* (b, s4) := read_n 8 s3 in
      if all_zero (firstn 7 b) then
        match skipn 7 b with
        | [x] => if Byte.eqb x x01 then Ok (VBool true, 16, s4)
                 else if Byte.eqb x x00 then Ok (VBool false, 16, s4) else Err
        | _ => Err
        end
      else Err
  | KBytes | KStr =>
      let* (l, s3) := read_num 4 s2 in
      (* io.CopyN into a growing buffer: fails unless all l bytes arrive *)
      let* (b, s4) := copy_nN l s3 in
      let* (_, s5) := read_nN (pad8 l) s4 in
      Ok (match k with KBytes => VBytes b | _ => VStr b end, 8 + l + pad8 l, s5)
  end.

(* the skip path of decodeValue: tag (any, for ANY_TAG), type unchecked, padded length in 64 bits *)
Definition dec_skip (tag : N) (s : dstate) : dres (N * dstate) :=
  let* s1 := expect_tag tag s in
  let* (_, s2) := read_n 1 s1 in
  let* (l, s3) := read_num 4 s2 in
  let p := padded l in
  if N.leb p (blen (rest s3))
  then Ok (8 + p, {| rest := dropN p (rest s3); last := last s3 |})
  else ErrEOF.          (* io.CopyN(ioutil.Discard, ..) cut short *)

Definition zero_prim (k : kind) : val :=
  match k with
  | KInt => VInt 0 | KLong => VLong 0 | KEnum => VEnum 0 | KBool => VBool false
  | KBytes => VBytes [] | KStr => VStr [] | KTime => VTime zero_time | KDur => VDur 0
  end.

Fixpoint zero_of (s : sch) : val :=
  match s with
  | SPrim k => zero_prim k
  | SStruct ty fl => VStruct ty (zeros_of fl)
  | SDyn _ _ _ => VNil
  end
with zeros_of (fl : flist) : vlist :=
  match fl with
  | FNil => VNone
  | FCons a s r => VCons (if fa_slice a then VList VNone else zero_of s) (zeros_of r)
  end.

Definition key_matches (k : dkey) (v : val) : bool :=
  match k, v with
  | DKEnum n, VEnum m => n =? m
  | DKStr s, VStr b => bytes_eqb (bytes_of_string s) b
  | _, _ => false
  end.

(* the slice loop of decode(): [step] decodes one element *)
Fixpoint slice_loop (fuel : nat) (step : dstate -> dres (val * N * dstate)) (tag : N) (skip : bool)
         (explen : N) (dd : dstate) (actual nsum : N) (acc : vlist)
  : dres (vlist * N * N * dstate) :=
  match fuel with
  | O => OutOfFuel
  | S f =>
      let* (v, nn, dd1) := wrapped (step dd) in
      let actual' := (actual + nn) mod 2^32 in
      let acc' := if skip then acc else vl_snoc acc v in
      if explen <=? actual' then Ok (acc', actual', nsum + nn, dd1)
      else
        let* (t, dd2) := peek_tag dd1 in       (* error returned unwrapped *)
        if t =? tag then slice_loop f step tag skip explen dd2 actual' (nsum + nn) acc'
        else Ok (acc', actual', nsum + nn, dd2)
  end.

Fixpoint dec_value (s : sch) (a : fattr) (st : dstate) (cur : vlist) {struct s}
  : dres (val * N * dstate) :=
  match s with
  | SPrim k => dec_prim k (fa_tag a) st
  | SStruct ty fl =>
      let* s1 := expect_tag (fa_tag a) st in
      let* s2 := expect_num 1 tc_structure s1 in
      let* (len, s3) := read_num 4 s2 in
      (* NewDecoder(io.LimitReader(d.r, len)) *)
      let dd := {| rest := takeN len (rest s3); last := 0 |} in
      let* (vs, actual, nsum, _) := dec_fields fl O len dd 0 0 (zeros_of fl) in
      if actual =? len
      then Ok (VStruct ty vs, 8 + nsum, {| rest := dropN len (rest s3); last := last s3 |})
      else Err
  | SDyn _ ki cs => dec_cases cs (vl_nth ki cur) a st
  end
with dec_fields (fl : flist) (i : nat) (explen : N) (dd : dstate) (actual nsum : N) (cur : vlist) {struct fl}
  : dres (vlist * N * N * dstate) :=
  match fl with
  | FNil => Ok (cur, actual, nsum, dd)
  | FCons a s r =>
      let item := fun (st : dstate) =>
        if fa_skip a
        then (let* (n, st') := dec_skip (fa_tag a) st in Ok (VNil, n, st'))
        else dec_value s a st cur in
      match peek_tag dd with
      | OutOfFuel => OutOfFuel
      | Err => Err
      | ErrEOF =>
          if fa_req a then Err
          else dec_fields r (S i) explen {| rest := rest dd; last := 0 |} actual nsum cur
      | Ok (t, dd1) =>
          if negb (fa_req a) && negb (t =? fa_tag a) && negb (fa_tag a =? ANY_TAG)
          then dec_fields r (S i) explen dd1 actual nsum cur
          else if fa_slice a then
            let* (es, actual', nsum', dd2) :=
              slice_loop (S (List.length (rest dd1))) item (fa_tag a) (fa_skip a) explen dd1 actual nsum VNone in
            dec_fields r (S i) explen dd2 actual' nsum' (vl_set i (VList es) cur)
          else
            let* (v, nn, dd2) := wrapped (item dd1) in
            dec_fields r (S i) explen dd2 ((actual + nn) mod 2^32) (nsum + nn)
                       (if fa_skip a then cur else vl_set i v cur)
      end
  end
with dec_cases (cs : dcases) (key : val) (a : fattr) (st : dstate) {struct cs}
  : dres (val * N * dstate) :=
  match cs with
  | DNil => Err                         (* BuildFieldValue: unsupported ... *)
  | DCase k s r => if key_matches k key then dec_value s a st VNone else dec_cases r key a st
  end.

(* Decoder.Decode(&v) with v of struct type [ty] (own tag [tag], fields [fl]) on a decoder in
   state [st]; the error class is what the caller can test with == io.EOF *)
Definition top_attr (tag : N) : fattr :=
  {| fa_name := EmptyString; fa_tag := tag; fa_req := true; fa_slice := false; fa_skip := false |}.

Definition dec_top (ty : string) (tag : N) (fl : flist) (st : dstate) : dres (val * N * dstate) :=
  dec_value (SStruct ty fl) (top_attr tag) st VNone.

(* successive Decode calls on one Decoder: values until the first error, and that error *)
Inductive stream_end := SEOF | SErr | SFuel.
Fixpoint dec_stream (fuel : nat) (ty : string) (tag : N) (fl : flist) (st : dstate) : list val * stream_end :=
  match fuel with
  | O => ([], SFuel)
  | S f =>
      match dec_top ty tag fl st with
      | Ok (v, _, st') => let '(vs, e) := dec_stream f ty tag fl st' in (v :: vs, e)
      | ErrEOF => ([], SEOF)
      | Err => ([], SErr)
      | OutOfFuel => ([], SFuel)
      end
  end.

(* documented normalisations of a round trip: pointer payload -> value payload, skip fields cleared *)

  Fixpoint normalize (T : tyenv) (s : sch) (v : val) {struct v} : val :=
    match s, v with
    | SStruct _ fl, VStruct ty vs => VStruct ty (normalize_fields T fl vs)
    | SDyn _ _ _, VStruct ty vs =>
        match T ty with Some d => VStruct ty (normalize_fields T (snd d) vs) | None => v end
    | SDyn _ _ _, VPtr (VStruct ty vs) =>
        match T ty with Some d => VStruct ty (normalize_fields T (snd d) vs) | None => VStruct ty vs end
    | SDyn _ _ _, VPtr v' => v'
    | _, _ => v
    end
  with normalize_fields (T : tyenv) (fl : flist) (vs : vlist) {struct vs} : vlist :=
    match fl, vs with
    | FCons a s r, VCons v vr =>
        VCons (if (fa_tag a =? ANY_TAG) || fa_skip a then (if fa_slice a then VList VNone else zero_of s)
               else if fa_slice a then match v with VList es => VList (normalize_elems T s es) | _ => v end
               else normalize T s v)
              (normalize_fields T r vr)
    | _, _ => vs
    end
  with normalize_elems (T : tyenv) (s : sch) (es : vlist) {struct es} : vlist :=
    match es with
    | VNone => VNone
    | VCons e er => VCons (normalize T s e) (normalize_elems T s er)
    end.

