(* ShutdownProofs.v - C11 / C12: inductive invariants of the Serve / Shutdown / session interleaving
   semantics, for every schedule and any number of connections. *)
From Coq Require Import List ZArith Bool Arith Lia.
Require Import Shutdown.
Import ListNotations.
Open Scope Z_scope.

Fixpoint cnt (l : list sstate) : Z :=
  match l with [] => 0 | x :: r => (if active x then 1 else 0) + cnt r end.

Lemma cnt_nonneg l : 0 <= cnt l.
Proof. induction l as [|x r IH]; cbn; [lia|]. destruct (active x); lia. Qed.

Lemma cnt_app a b : cnt (a ++ b) = cnt a + cnt b.
Proof. induction a as [|x r IH]; cbn; [lia|]. rewrite IH. lia. Qed.

Lemma upd_length {A} i (x : A) l : length (upd i x l) = length l.
Proof. revert i; induction l as [|y r IH]; intros i; destruct i; cbn; auto. Qed.

Lemma nth_upd_same i x l : (i < length l)%nat -> nth i (upd i x l) SNone = x.
Proof. revert i; induction l as [|y r IH]; intros i H; cbn in *; [lia|]. destruct i; cbn; [reflexivity|apply IH; lia]. Qed.

Lemma nth_upd_other i j x l : i <> j -> nth i (upd j x l) SNone = nth i l SNone.
Proof.
  revert i j; induction l as [|y r IH]; intros i j H; [destruct j; reflexivity|].
  destruct j, i; cbn; try reflexivity; try congruence. apply IH. congruence.
Qed.

Definition b2z (b : bool) : Z := if b then 1 else 0.

Lemma cnt_upd i x l : (i < length l)%nat ->
  cnt (upd i x l) = cnt l - b2z (active (nth i l SNone)) + b2z (active x).
Proof.
  revert i; induction l as [|y r IH]; intros i H; cbn in *; [lia|].
  destruct i; cbn.
  - unfold b2z. destruct (active x), (active y); lia.
  - rewrite IH by lia. lia.
Qed.

Lemma nth_not_none_lt i l : nth i l SNone <> SNone -> (i < length l)%nat.
Proof.
  intros H. destruct (Nat.lt_ge_cases i (length l)) as [|Hge]; [assumption|].
  rewrite nth_overflow in H by assumption. congruence.
Qed.

Lemma cnt_zero_inactive l : cnt l = 0 -> forall c, active (nth c l SNone) = false.
Proof.
  induction l as [|x r IH]; intros H c; [destruct c; reflexivity|]. cbn in H.
  pose proof (cnt_nonneg r). destruct (active x) eqn:E; [lia|].
  destruct c; cbn; [exact E|apply IH; lia].
Qed.

Lemma cnt_active_pos l c : active (nth c l SNone) = true -> 1 <= cnt l.
Proof.
  revert c; induction l as [|x r IH]; intros c H; [destruct c; discriminate|]. cbn.
  pose proof (cnt_nonneg r). destruct c; cbn in H; [rewrite H; lia|].
  specialize (IH _ H). destruct (active x); lia.
Qed.

(* ---------------------------------------------------------------- *)
Record Inv (s : st) : Prop := {
  i_wg : wg s = cnt (sess s);
  i_done : s_pc s <> SNotCalled -> done s = true;
  i_lis : lis_closed s = true -> done s = true;
  i_waiter : w_pc s <> WNotStarted -> done s = true /\ (s_pc s = SWaiting \/ exists r, s_pc s = SReturned r);
  i_woken : (w_pc s = WWoken \/ w_pc s = WSignalled) -> wg s = 0;
  i_ret_nil : s_pc s = SReturned RNil -> w_pc s = WSignalled;
  i_ret_ctx : s_pc s = SReturned RCtx -> ctx_expired s = true;
  i_ret_err : s_pc s <> SReturned RErr;
  i_acc : forall c, (a_pc s = AHasConn c \/ a_pc s = ASpawn c) -> (c < length (sess s))%nat;
  i_spawn : forall c, a_pc s = ASpawn c -> nth c (sess s) SNone = SRegistered;
  i_backlog : Forall (fun c => (c < length (sess s))%nat) (backlog s);
  i_serve : forall r, a_pc s = AReturned r -> r = RNil /\ done s = true
}.

Lemma inv_init : Inv init.
Proof.
  constructor; cbn; try tauto; try discriminate; try (intros; discriminate); try (intros [|]; discriminate).
  - intros c [H|H]; discriminate.
  - constructor.
Qed.

Ltac inv_fields H :=
  destruct H as [Hwg Hdone Hlis Hwaiter Hwoken Hnil Hctx Herr Hacc Hspawn Hback Hserve].

Ltac same := first [eassumption | solve [auto] | solve [intuition (eauto; congruence)] | solve [intros; split; eauto; intuition (eauto; congruence)]].

Lemma step_inv s l s' : Inv s -> step true s l = Some s' -> Inv s'.
Proof.
  intros HI Hs. inv_fields HI. destruct l; cbn [step] in Hs.
  - (* LServeStart *)
    destruct (a_pc s) eqn:Ha; try discriminate. destruct (done s) eqn:Hd; injection Hs as <-.
    + constructor; cbn;
      [> same | same | same | same | same | same | same | same
       | intros c [H|H]; discriminate | intros c H; discriminate | same
       | intros r H; injection H as <-; auto ].
    + constructor; cbn;
      [> same | same | same | same | same | same | same | same
       | intros c [H|H]; discriminate | intros c H; discriminate | same | intros r H; discriminate ].
  - (* LConnect *)
    destruct (lis_closed s) eqn:Hl; [discriminate|]. injection Hs as <-.
    constructor; cbn;
    [> rewrite cnt_app; cbn; lia | same | intros H; discriminate | same | same | same | same | same
     | intros c H; rewrite app_length; specialize (Hacc c H); cbn; lia
     | intros c H; rewrite app_nth1 by (apply Hacc; auto); auto
     | apply Forall_app; split;
       [eapply Forall_impl; [|exact Hback]; intros c Hc; cbn beta in Hc; rewrite app_length; cbn [length]; lia
       |constructor; [|constructor]; rewrite app_length; cbn; lia]
     | same ].
  - (* LAcceptDequeue *)
    destruct (a_pc s) eqn:Ha; try discriminate. destruct (backlog s) as [|c r] eqn:Hb; [discriminate|].
    destruct (lis_closed s) eqn:Hl; [discriminate|]. injection Hs as <-.
    inversion Hback; subst.
    constructor; cbn;
    [> same | same | intros H; discriminate | same | same | same | same | same
     | intros c0 [H|H]; [injection H as <-; assumption|discriminate]
     | intros c0 H; discriminate | same | intros r0 H; discriminate ].
  - (* LAcceptFail *)
    destruct (a_pc s) eqn:Ha; try discriminate. destruct (lis_closed s) eqn:Hl; [|discriminate].
    injection Hs as <-. specialize (Hlis eq_refl). rewrite Hlis.
    constructor; cbn;
    [> same | same | same | same | same | same | same | same
     | intros c [H|H]; discriminate | intros c H; discriminate | same
     | intros r H; injection H as <-; auto ].
  - (* LRegister *)
    destruct (a_pc s) as [| |c|c|r] eqn:Ha; try discriminate.
    unfold sget in Hs. destruct (nth c (sess s) SNone) eqn:Hn; cbn [negb] in Hs; try discriminate.
    assert (Hlt: (c < length (sess s))%nat) by (apply Hacc; auto).
    cbn [andb] in Hs. destruct (done s) eqn:Hd; injection Hs as <-.
    + (* late: closed, Serve returns nil *)
      constructor; cbn;
      [> rewrite cnt_upd by assumption; rewrite Hn; cbn; lia | same | same | same | same | same | same | same
       | intros c0 [H|H]; discriminate | intros c0 H; discriminate
       | rewrite upd_length; assumption | intros r H; injection H as <-; auto ].
    + (* registered *)
      constructor; cbn;
      [> rewrite cnt_upd by assumption; rewrite Hn; cbn; lia | same | same
       | intros H; destruct (Hwaiter H) as [Hx _]; congruence
       | intros H; destruct (Hwaiter ltac:(destruct H as [H|H]; rewrite H; discriminate)) as [Hx _]; congruence
       | same | same | same
       | intros c0 [H|H]; [discriminate|]; injection H as <-; rewrite upd_length; assumption
       | intros c0 H; injection H as <-; apply nth_upd_same; assumption
       | rewrite upd_length; assumption | intros r H; discriminate ].
  - (* LSpawn *)
    destruct (a_pc s) as [| |c|c|r] eqn:Ha; try discriminate. injection Hs as <-.
    assert (Hlt: (c < length (sess s))%nat) by (apply Hacc; auto).
    constructor; cbn;
    [> rewrite cnt_upd by assumption; rewrite (Hspawn c eq_refl); cbn; lia | same | same | same | same | same | same | same
     | intros c0 [H|H]; discriminate | intros c0 H; discriminate
     | rewrite upd_length; assumption | intros r H; discriminate ].
  - (* LReqStart *)
    unfold sget in Hs. destruct (nth c (sess s) SNone) eqn:Hn; try discriminate. injection Hs as <-.
    assert (Hlt: (c < length (sess s))%nat) by (apply nth_not_none_lt; congruence).
    constructor; cbn;
    [> rewrite cnt_upd by assumption; rewrite Hn; cbn; lia | same | same | same | same | same | same | same
     | intros c0 H; rewrite upd_length; auto
     | intros c0 H; destruct (Nat.eq_dec c0 c) as [->|Hne];
       [rewrite (Hspawn c H) in Hn; discriminate | rewrite nth_upd_other by assumption; auto]
     | rewrite upd_length; assumption | same ].
  - (* LReqEnd *)
    unfold sget in Hs. destruct (nth c (sess s) SNone) eqn:Hn; try discriminate. injection Hs as <-.
    assert (Hlt: (c < length (sess s))%nat) by (apply nth_not_none_lt; congruence).
    constructor; cbn;
    [> rewrite cnt_upd by assumption; rewrite Hn; cbn; lia | same | same | same | same | same | same | same
     | intros c0 H; rewrite upd_length; auto
     | intros c0 H; destruct (Nat.eq_dec c0 c) as [->|Hne];
       [rewrite (Hspawn c H) in Hn; discriminate | rewrite nth_upd_other by assumption; auto]
     | rewrite upd_length; assumption | same ].
  - (* LSessClose *)
    unfold sget in Hs. destruct (nth c (sess s) SNone) eqn:Hn; try discriminate. injection Hs as <-.
    assert (Hlt: (c < length (sess s))%nat) by (apply nth_not_none_lt; congruence).
    constructor; cbn;
    [> rewrite cnt_upd by assumption; rewrite Hn; cbn; lia | same | same | same | same | same | same | same
     | intros c0 H; rewrite upd_length; auto
     | intros c0 H; destruct (Nat.eq_dec c0 c) as [->|Hne];
       [rewrite (Hspawn c H) in Hn; discriminate | rewrite nth_upd_other by assumption; auto]
     | rewrite upd_length; assumption | same ].
  - (* LSessDone *)
    unfold sget in Hs. destruct (nth c (sess s) SNone) eqn:Hn; try discriminate. injection Hs as <-.
    assert (Hlt: (c < length (sess s))%nat) by (apply nth_not_none_lt; congruence).
    assert (Hpos: 1 <= cnt (sess s)) by (apply (cnt_active_pos _ c); rewrite Hn; reflexivity).
    constructor; cbn;
    [> rewrite cnt_upd by assumption; rewrite Hn; cbn; lia | same | same | same
     | intros H; specialize (Hwoken H); lia | same | same | same
     | intros c0 H; rewrite upd_length; auto
     | intros c0 H; destruct (Nat.eq_dec c0 c) as [->|Hne];
       [rewrite (Hspawn c H) in Hn; discriminate | rewrite nth_upd_other by assumption; auto]
     | rewrite upd_length; assumption | same ].
  - (* LShCloseDone *)
    destruct (s_pc s) eqn:Hp; try discriminate. injection Hs as <-.
    constructor; cbn;
    [> same | reflexivity | reflexivity
     | intros H; destruct (Hwaiter H) as [_ [Hx|[r Hx]]]; congruence
     | same | intros H; discriminate | intros H; discriminate | intros H; discriminate
     | same | same | same | intros r H; destruct (Hserve r H); auto ].
  - (* LShCloseListener *)
    destruct (s_pc s) eqn:Hp; try discriminate. injection Hs as <-.
    assert (Hd: done s = true) by (apply Hdone; congruence).
    constructor; cbn;
    [> same | same | same
     | intros H; destruct (Hwaiter H) as [_ [Hx|[r Hx]]]; congruence
     | same | intros H; discriminate | intros H; discriminate | intros H; discriminate
     | same | same | same | same ].
  - (* LShStartWaiter *)
    destruct (s_pc s) eqn:Hp; try discriminate. injection Hs as <-.
    assert (Hd: done s = true) by (apply Hdone; congruence).
    constructor; cbn;
    [> same | same | same | intros _; auto | intros [H|H]; discriminate
     | intros H; discriminate | intros H; discriminate | intros H; discriminate
     | same | same | same | same ].
  - (* LShSelectCtx *)
    destruct (s_pc s) eqn:Hp; try discriminate. destruct (ctx_expired s) eqn:Hc; [|discriminate]. injection Hs as <-.
    assert (Hd: done s = true) by (apply Hdone; congruence).
    constructor; cbn;
    [> same | same | same
     | intros H; destruct (Hwaiter H) as [Hx _]; split; [assumption|]; right; eauto
     | same | intros H; discriminate | same | intros H; discriminate
     | same | same | same | same ].
  - (* LShSelectDone *)
    destruct (s_pc s) eqn:Hp; try discriminate. destruct (w_pc s) eqn:Hw; try discriminate. injection Hs as <-.
    assert (Hd: done s = true) by (apply Hdone; congruence).
    constructor; cbn;
    [> same | same | same
     | intros H; split; [assumption|]; right; eauto
     | same | same | intros H; discriminate | intros H; discriminate
     | same | same | same | same ].
  - (* LWaitReturn *)
    destruct (w_pc s) eqn:Hw; try discriminate. destruct (Z.eqb_spec (wg s) 0) as [Hz|]; [|discriminate]. injection Hs as <-.
    constructor; cbn;
    [> same | same | same | intros _; apply Hwaiter; congruence | same
     | intros H; specialize (Hnil H); congruence | same | same | same | same | same | same ].
  - (* LWaitSignal *)
    destruct (w_pc s) eqn:Hw; try discriminate. injection Hs as <-.
    constructor; cbn;
    [> same | same | same | intros _; apply Hwaiter; congruence
     | intros _; apply Hwoken; auto | same | same | same | same | same | same | same ].
  - (* LCtxExpire *)
    injection Hs as <-. constructor; cbn;
    [> same | same | same | same | same | same | reflexivity | same | same | same | same | same ].
Qed.

Lemma run_inv ls : forall s, Inv s -> Inv (run true ls s).
Proof.
  induction ls as [|l r IH]; intros s H; cbn [run]; [assumption|].
  apply IH. destruct (step true s l) as [s'|] eqn:E; [eapply step_inv; eauto|assumption].
Qed.

Theorem reachable_inv s : reachable true s -> Inv s.
Proof. intros [ls ->]. apply run_inv. apply inv_init. Qed.

(* ---------------- the statements of C11 / C12 ---------------- *)

(* Shutdown returns nil only when no started session is still registered, running or closing: every
   session that was started has ended, and (SEnded is entered only from SClosed) its connection is closed.
   The statement is about EVERY reachable state, so it also holds at every later moment: nothing
   starts after Shutdown has returned nil *)
Theorem shutdown_waits s : reachable true s -> s_pc s = SReturned RNil -> forall c, active (sget s c) = false.
Proof.
  intros Hr Hp c. apply reachable_inv in Hr. inv_fields Hr.
  unfold sget. apply cnt_zero_inactive. rewrite <- Hwg. apply Hwoken. right. apply Hnil. assumption.
Qed.

(* how one step changes the session table *)
Lemma step_sess fixed s l s' : step fixed s l = Some s' ->
  sess s' = sess s \/ sess s' = sess s ++ [SNone] \/
  exists c x, sess s' = upd c x (sess s) /\ (x = SEnded -> nth c (sess s) SNone = SClosed).
Proof.
  intros Hs. destruct l; cbn [step] in Hs.
  - destruct (a_pc s); try discriminate. destruct (done s); injection Hs as <-; left; reflexivity.
  - destruct (lis_closed s); [discriminate|]. injection Hs as <-. right; left; reflexivity.
  - destruct (a_pc s); try discriminate. destruct (backlog s); [discriminate|]. destruct (lis_closed s); [discriminate|].
    injection Hs as <-. left; reflexivity.
  - destruct (a_pc s); try discriminate. destruct (lis_closed s); [|discriminate]. injection Hs as <-. left; reflexivity.
  - destruct (a_pc s); try discriminate. destruct (negb _); [discriminate|].
    destruct (fixed && done s); injection Hs as <-; right; right; eexists _, _; (split; [reflexivity|discriminate]).
  - destruct (a_pc s); try discriminate. injection Hs as <-. right; right. eexists _, _; (split; [reflexivity|discriminate]).
  - unfold sget in Hs. destruct (nth c (sess s) SNone); try discriminate. injection Hs as <-.
    right; right. eexists _, _; (split; [reflexivity|discriminate]).
  - unfold sget in Hs. destruct (nth c (sess s) SNone); try discriminate. injection Hs as <-.
    right; right. eexists _, _; (split; [reflexivity|discriminate]).
  - unfold sget in Hs. destruct (nth c (sess s) SNone); try discriminate. injection Hs as <-.
    right; right. eexists _, _; (split; [reflexivity|discriminate]).
  - unfold sget in Hs. destruct (nth c (sess s) SNone) eqn:Hn; try discriminate. injection Hs as <-.
    right; right. exists c, SEnded. split; [reflexivity|]. intros _. exact Hn.
  - destruct (s_pc s); try discriminate. injection Hs as <-. left; reflexivity.
  - destruct (s_pc s); try discriminate. injection Hs as <-. left; reflexivity.
  - destruct (s_pc s); try discriminate. injection Hs as <-. left; reflexivity.
  - destruct (s_pc s); try discriminate. destruct (ctx_expired s); [|discriminate]. injection Hs as <-. left; reflexivity.
  - destruct (s_pc s); try discriminate. destruct (w_pc s); try discriminate. injection Hs as <-. left; reflexivity.
  - destruct (w_pc s); try discriminate. destruct (wg s =? 0); [|discriminate]. injection Hs as <-. left; reflexivity.
  - destruct (w_pc s); try discriminate. injection Hs as <-. left; reflexivity.
  - injection Hs as <-. left; reflexivity.
Qed.

(* a session ends only after its connection was closed: SEnded is entered only from SClosed *)
Theorem ended_was_closed fixed s c l s' :
  step fixed s l = Some s' -> sget s' c = SEnded -> sget s c <> SEnded -> sget s c = SClosed.
Proof.
  intros Hs He Hne. unfold sget in *. destruct (step_sess _ _ _ _ Hs) as [E|[E|[c0 [x [E Hx]]]]]; rewrite E in He.
  - congruence.
  - destruct (Nat.lt_ge_cases c (length (sess s))) as [Hlt|Hge].
    + rewrite app_nth1 in He by assumption. congruence.
    + destruct (Nat.eq_dec c (length (sess s))) as [->|Hd].
      * rewrite app_nth2, Nat.sub_diag in He by lia. discriminate.
      * rewrite nth_overflow in He by (rewrite app_length; cbn; lia). discriminate.
  - destruct (Nat.eq_dec c c0) as [->|Hd].
    + destruct (Nat.lt_ge_cases c0 (length (sess s))) as [Hlt|Hge].
      * rewrite nth_upd_same in He by assumption. auto.
      * rewrite nth_overflow in He by (rewrite upd_length; assumption). discriminate.
    + rewrite nth_upd_other in He by assumption. congruence.
Qed.

(* the context's error is returned only if the context has ended; nil only after the waiter signalled *)
Theorem shutdown_ctx s : reachable true s ->
  (s_pc s = SReturned RCtx -> ctx_expired s = true) /\ (s_pc s = SReturned RNil -> w_pc s = WSignalled) /\ s_pc s <> SReturned RErr.
Proof. intros Hr. apply reachable_inv in Hr. inv_fields Hr. auto. Qed.

(* Serve's only result in this protocol is nil, and only once Shutdown has been signalled; a connection
   accepted too late is closed, never served *)
Theorem serve_returns_nil s r : reachable true s -> a_pc s = AReturned r -> r = RNil /\ done s = true.
Proof. intros Hr. apply reachable_inv in Hr. inv_fields Hr. auto. Qed.

Theorem late_connection_closed s c s' :
  reachable true s -> a_pc s = AHasConn c -> done s = true -> step true s LRegister = Some s' ->
  a_pc s' = AReturned RNil /\ sget s' c = SLateClosed.
Proof.
  intros Hr Ha Hd Hs. apply reachable_inv in Hr. inv_fields Hr.
  assert (Hlt: (c < length (sess s))%nat) by (apply Hacc; auto).
  cbn [step] in Hs. rewrite Ha in Hs. unfold sget in *.
  destruct (nth c (sess s) SNone) eqn:Hn; cbn [negb] in Hs; try discriminate.
  rewrite Hd in Hs. cbn [andb] in Hs. injection Hs as <-. cbn. split; [reflexivity|].
  apply nth_upd_same. assumption.
Qed.

(* no step of the Shutdown caller, the waiter or the context touches any session: in-flight requests are never aborted *)
Definition shutdown_label (l : label) : bool :=
  match l with
  | LShCloseDone | LShCloseListener | LShStartWaiter | LShSelectCtx | LShSelectDone | LWaitReturn | LWaitSignal | LCtxExpire => true
  | _ => false
  end.

Theorem shutdown_never_aborts fixed s l s' : shutdown_label l = true -> step fixed s l = Some s' -> sess s' = sess s.
Proof.
  intros Hl Hs. destruct l; try discriminate; cbn [step] in Hs;
    repeat match type of Hs with
           | context [match ?x with _ => _ end] => destruct x; try discriminate
           end; injection Hs as <-; reflexivity.
Qed.

(* ... nor the responses written so far *)
Theorem shutdown_keeps_answers fixed s l s' : shutdown_label l = true -> step fixed s l = Some s' -> answered s' = answered s.
Proof.
  intros Hl Hs. destruct l; try discriminate; cbn [step] in Hs;
    repeat match type of Hs with
           | context [match ?x with _ => _ end] => destruct x; try discriminate
           end; injection Hs as <-; reflexivity.
Qed.

(* a request in flight: whatever any thread does, the session stays in flight until its own handler returns, and
   that step - the only one that leaves the state - writes the response on the session's connection *)
Theorem inflight_completes s l s' c :
  Inv s -> step true s l = Some s' -> sget s c = SInFlight ->
  (sget s' c = SInFlight /\ answered s' = answered s)
  \/ (exists c', l = LReqEnd c' /\ c' <> c /\ sget s' c = SInFlight)
  \/ (l = LReqEnd c /\ sget s' c = SRunning /\ answered s' = answered s ++ [c]).
Proof.
  intros HI Hs Hc. inv_fields HI. unfold sget in *.
  assert (Hlt: (c < length (sess s))%nat) by (apply nth_not_none_lt; congruence).
  destruct l as [| | | | | |c0|c0|c0|c0| | | | | | | |]; cbn [step] in Hs;
    try (left;
         repeat match type of Hs with
                | context [match ?x with _ => _ end] => destruct x eqn:?; try discriminate
                end; injection Hs as <-; cbn; (split; [assumption|reflexivity])).
  - (* LConnect *) destruct (lis_closed s); [discriminate|]. injection Hs as <-. cbn. left.
    split; [rewrite app_nth1 by assumption; assumption|reflexivity].
  - (* LRegister *)
    destruct (a_pc s) as [| |c0|c0|r]; try discriminate. unfold sget in Hs.
    destruct (nth c0 (sess s) SNone) eqn:Hn; cbn [negb] in Hs; try discriminate.
    assert (c0 <> c) by congruence.
    destruct (true && done s); injection Hs as <-; cbn; left;
      (split; [rewrite nth_upd_other by congruence; assumption|reflexivity]).
  - (* LSpawn *)
    destruct (a_pc s) as [| |c0|c0|r] eqn:Ha; try discriminate. injection Hs as <-. cbn.
    assert (c0 <> c) by (intros ->; rewrite (Hspawn c eq_refl) in Hc; discriminate).
    left. split; [rewrite nth_upd_other by congruence; assumption|reflexivity].
  - (* LReqStart *)
    unfold sget in Hs. destruct (nth c0 (sess s) SNone) eqn:Hn; try discriminate. injection Hs as <-. cbn.
    assert (c0 <> c) by congruence. left. split; [rewrite nth_upd_other by congruence; assumption|reflexivity].
  - (* LReqEnd *)
    unfold sget in Hs. destruct (nth c0 (sess s) SNone) eqn:Hn; try discriminate. injection Hs as <-. cbn.
    destruct (Nat.eq_dec c0 c) as [->|Hne].
    + right; right. split; [reflexivity|]. split; [apply nth_upd_same; assumption|reflexivity].
    + right; left. exists c0. split; [reflexivity|]. split; [assumption|]. rewrite nth_upd_other by congruence. assumption.
  - (* LSessClose *)
    unfold sget in Hs. destruct (nth c0 (sess s) SNone) eqn:Hn; try discriminate. injection Hs as <-. cbn.
    assert (c0 <> c) by congruence. left. split; [rewrite nth_upd_other by congruence; assumption|reflexivity].
  - (* LSessDone *)
    unfold sget in Hs. destruct (nth c0 (sess s) SNone) eqn:Hn; try discriminate. injection Hs as <-. cbn.
    assert (c0 <> c) by congruence. left. split; [rewrite nth_upd_other by congruence; assumption|reflexivity].
Qed.

(* once Shutdown has been signalled no session is registered any more *)
Theorem no_registration_after_done s s' : done s = true -> step true s LRegister = Some s' -> wg s' = wg s.
Proof.
  intros Hd Hs. cbn [step] in Hs. destruct (a_pc s); try discriminate.
  destruct (negb _); [discriminate|]. rewrite Hd in Hs. cbn [andb] in Hs. injection Hs as <-. reflexivity.
Qed.

(* C12: the WaitGroup is never incremented once the waiter may be in Wait (sync.WaitGroup's rule that
   an Add from zero must happen before Wait) *)
Theorem waitgroup_protocol s s' : reachable true s -> step true s LRegister = Some s' -> wg s' = wg s + 1 -> w_pc s = WNotStarted.
Proof.
  intros Hr Hs Hw. apply reachable_inv in Hr. inv_fields Hr.
  destruct (w_pc s) eqn:E; [reflexivity| | |].
  all: destruct (Hwaiter ltac:(discriminate)) as [Hd _];
       rewrite (no_registration_after_done s s' Hd Hs) in Hw; lia.
Qed.

(* the counter never goes negative (Done without Add) *)
Theorem waitgroup_nonnegative s : reachable true s -> 0 <= wg s.
Proof. intros Hr. apply reachable_inv in Hr. inv_fields Hr. rewrite Hwg. apply cnt_nonneg. Qed.

(* ---------------- the pinned tree: regression witness ---------------- *)
Definition pinned_schedule : list label :=
  [LServeStart; LConnect; LAcceptDequeue; LShCloseDone; LShCloseListener; LShStartWaiter; LWaitReturn; LWaitSignal;
   LShSelectDone; LRegister; LSpawn].

Theorem pinned_refuted :
  let s := run false pinned_schedule init in s_pc s = SReturned RNil /\ sget s 0 = SRunning.
Proof. vm_compute. split; reflexivity. Qed.

(* the same schedule on the fixed tree: the late connection is closed and Serve returns nil *)
Theorem fixed_same_schedule :
  let s := run true pinned_schedule init in
  s_pc s = SReturned RNil /\ sget s 0 = SLateClosed /\ a_pc s = AReturned RNil.
Proof. vm_compute. repeat split; reflexivity. Qed.
