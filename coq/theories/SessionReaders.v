(* SessionReaders.v - the request loop of Server.serve on the reader objects of Readers.v: the
   connection hands out the peer's bytes in an arbitrary script of read sizes (one request per
   read, several requests in one read, single bytes, a request split anywhere) and the server's
   one persistent Decoder sits on NewDecoder's bufio.Reader.  The trace of the session is the one
   Session.v computes on the flat byte list: how the transport fragments the requests does not
   matter (C07 "one at a time or pipelined", session-level half of C06, C10). *)
From Coq Require Import String.
From Coq Require Import List NArith ZArith Bool Strings.Byte.
Require Import Bytes Schema Codec CodecProofs Readers ReadersProofs Session.
Import ListNotations.
Open Scope list_scope.
Open Scope N_scope.

Section SessionOnReaders.
  Variable T : tyenv.
  Variable K : sconsts.

  (* request_step of Session.v with the decoder on reader objects *)
  Definition c_request_step (c : cfg) (st : cstate) (script : list behaviour)
    : list event * option (cstate * list behaviour) :=
    let arm := if c_read_to c then [EArmRead] else [] in
    match request_top T with
    | None => (arm ++ [EClose CloseError], None)
    | Some (tag, fl) =>
        match c_dec_top "Request" tag fl st with
        | (ErrEOF, _) => (arm ++ [EClose CloseEOF], None)
        | (Err, _) => (arm ++ [EClose CloseError], None)
        | (OutOfFuel, _) => (arm ++ [EOutOfFuel], None)
        | (Ok (req, _), st') =>
            let '(evs, oresp, script') := handle_batch T K c req script in
            match oresp with
            | None => (arm ++ evs ++ [EClose CloseError], None)
            | Some resp =>
                let armw := if c_write_to c then [EArmWrite] else [] in
                match enc_top T (VPtr resp) with
                | None => (arm ++ evs ++ armw ++ [EEncodeFailed; EClose CloseError], None)
                | Some b => (arm ++ evs ++ armw ++ [EWrote b], Some (st', script'))
                end
            end
        end
    end.

  Fixpoint c_serve_loop (fuel : nat) (c : cfg) (st : cstate) (script : list behaviour) : list event :=
    match fuel with
    | O => [EOutOfFuel]
    | S f =>
        let '(evs, k) := c_request_step c st script in
        evs ++ match k with
               | None => []
               | Some (st', script') => c_serve_loop f c st' script'
               end
    end.

  Lemma c_request_step_flat c st script :
    wf_c st -> b_term (bs (rd st)) = EOF ->
    match c_request_step c st script, request_step T K c (flat st) script with
    | (evs, None), (evs', None) => evs = evs'
    | (evs, Some (st1, sc1)), (evs', Some (st1', sc1')) =>
        evs = evs' /\ sc1 = sc1' /\ flat st1 = st1' /\ wf_c st1 /\ b_term (bs (rd st1)) = EOF
    | _, _ => False
    end.
  Proof.
    intros Hw Ht. unfold c_request_step, request_step.
    destruct (request_top T) as [[tag fl]|]; [|reflexivity].
    destruct (c_dec_top "Request" tag fl st) as [x st'] eqn:E.
    destruct (decode_on_readers _ _ _ _ _ _ Hw E) as [O F _ _]. specialize (F Ht).
    destruct x as [[req n]| | |].
    - destruct (O _ eq_refl) as (st1 & Efr & Efl & Hw1 & Sh1). rewrite Efr.
      destruct (handle_batch T K c req script) as [[evs oresp] script'].
      destruct oresp as [resp|]; [|reflexivity].
      destruct (enc_top T (VPtr resp)); [|reflexivity].
      split; [reflexivity|]. split; [reflexivity|]. split; [exact Efl|]. split; [exact Hw1|].
      destruct Sh1 as (Tm & _). congruence.
    - destruct (dec_top "Request" tag fl (flat st)) as [[[? ?] ?]| | |]; cbn in F; try discriminate. reflexivity.
    - destruct (dec_top "Request" tag fl (flat st)) as [[[? ?] ?]| | |]; cbn in F; try discriminate. reflexivity.
    - destruct (dec_top "Request" tag fl (flat st)) as [[[? ?] ?]| | |]; cbn in F; try discriminate. reflexivity.
  Qed.

  Theorem c_serve_loop_flat fuel : forall c st script,
    wf_c st -> b_term (bs (rd st)) = EOF ->
    c_serve_loop fuel c st script = serve_loop T K fuel c (flat st) script.
  Proof.
    induction fuel as [|f IH]; intros c st script Hw Ht; cbn [c_serve_loop serve_loop]; [reflexivity|].
    pose proof (c_request_step_flat c st script Hw Ht) as R.
    destruct (c_request_step c st script) as [evs k], (request_step T K c (flat st) script) as [evs' k'].
    destruct k as [[st1 sc1]|], k' as [[st1' sc1']|]; try contradiction.
    - destruct R as (-> & -> & <- & Hw1 & Ht1). f_equal. apply IH; assumption.
    - subst. reflexivity.
  Qed.

  (* ---- a connection that FAILS (I/O error at any offset) instead of ending: what the peer can observe - handler
     invocations, authentication events, responses - is a prefix of what happens on the delivered bytes ---- *)
  Definition visible (e : event) : bool :=
    match e with
    | ECall _ _ _ _ _ | EWrote _ | EReqAuth _ _ | EEncodeFailed => true
    | _ => false
    end.

  Definition prefix {A} (l1 l2 : list A) : Prop := exists r, l2 = l1 ++ r.

  Lemma prefix_nil {A} (l : list A) : prefix [] l.
  Proof. exists l. reflexivity. Qed.
  Lemma prefix_refl {A} (l : list A) : prefix l l.
  Proof. exists []. symmetry. apply app_nil_r. Qed.
  Lemma prefix_app {A} (p l1 l2 : list A) : prefix l1 l2 -> prefix (p ++ l1) (p ++ l2).
  Proof. intros [r ->]. exists r. rewrite app_assoc. reflexivity. Qed.

  Lemma filter_arm c : filter visible (if c_read_to c then [EArmRead] else []) = [].
  Proof. destruct (c_read_to c); reflexivity. Qed.

  Theorem c_serve_loop_prefix fuel : forall c st script,
    wf_c st ->
    prefix (filter visible (c_serve_loop fuel c st script)) (filter visible (serve_loop T K fuel c (flat st) script)).
  Proof.
    induction fuel as [|f IH]; intros c st script Hw; cbn [c_serve_loop serve_loop]; [apply prefix_nil|].
    unfold c_request_step, request_step.
    destruct (request_top T) as [[tag fl]|].
    - destruct (c_dec_top "Request" tag fl st) as [x st'] eqn:E.
      destruct (decode_on_readers _ _ _ _ _ _ Hw E) as [O _ _ _].
      destruct x as [[req n]| | |].
      + destruct (O _ eq_refl) as (st1 & Efr & Efl & Hw1 & _). rewrite Efr.
        destruct (handle_batch T K c req script) as [[evs oresp] script'].
        destruct oresp as [resp|].
        * destruct (enc_top T (VPtr resp)).
          -- rewrite !filter_app, <- !app_assoc. repeat apply prefix_app.
             rewrite <- Efl. apply IH. exact Hw1.
          -- apply prefix_refl.
        * apply prefix_refl.
      + rewrite app_nil_r, filter_app, filter_arm. apply prefix_nil.
      + rewrite app_nil_r, filter_app, filter_arm. apply prefix_nil.
      + rewrite app_nil_r, filter_app, filter_arm. apply prefix_nil.
    - apply prefix_refl.
  Qed.

  Corollary failing_connection_prefix fuel c conn script :
    transport_ok conn ->
    prefix (filter visible (c_serve_loop fuel c (new_decoder false conn) script))
           (filter visible (serve_loop T K fuel c {| rest := b_data conn; last := 0 |} script)).
  Proof.
    intros Hok. destruct (new_decoder_wf false conn Hok) as [Hw Hfl]. rewrite <- Hfl. apply c_serve_loop_prefix. exact Hw.
  Qed.

  (* the session after the handshake, on a connection that delivers [input] by ANY script of read sizes and then ends *)
  Definition c_session_body (c : cfg) (input : bytes) (sizes : list N) (weof : bool) (script : list behaviour) : list event :=
    let conn := new_decoder false {| b_data := input; b_sizes := sizes; b_weof := weof; b_term := EOF |} in
    match c_sess_auth c with
    | Some false => [ESessAuth false; EClose CloseError]
    | Some true => ESessAuth true :: c_serve_loop (S (List.length input)) c conn script
    | None => c_serve_loop (S (List.length input)) c conn script
    end.

  Theorem session_fragmentation_independent c input sizes weof script :
    stall_free sizes -> c_session_body c input sizes weof script = session_body T K c input script.
  Proof.
    intros Hsf. unfold c_session_body, session_body.
    set (b := {| b_data := input; b_sizes := sizes; b_weof := weof; b_term := EOF |}).
    destruct (new_decoder_wf false b Hsf) as [Hw Hfl].
    assert (Ht: b_term (bs (rd (new_decoder false b))) = EOF) by reflexivity.
    pose proof (c_serve_loop_flat (S (List.length input)) c _ script Hw Ht) as E. rewrite Hfl in E.
    cbn [b_data b] in E.
    destruct (c_sess_auth c) as [[|]|]; [rewrite E; reflexivity|reflexivity|exact E].
  Qed.
End SessionOnReaders.
