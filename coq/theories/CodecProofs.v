(* CodecProofs.v - C02: the encoder emits exactly [ser (to_tree v)]; layout lemmas of [ser];
   C03: the decoder model is total (its fuel always suffices). *)
From Coq Require Import String.
From Coq Require Import List NArith ZArith Bool Lia Strings.Byte ZifyN ZifyNat.
Require Import Bytes BytesProofs Schema Codec TTLV.
Import ListNotations.
Open Scope N_scope.

Arguments N.add : simpl never.
Arguments N.mul : simpl never.
Arguments N.pow : simpl never.
Arguments N.modulo : simpl never.
Arguments N.div : simpl never.

Scheme val_ind2 := Induction for val Sort Prop
  with vlist_ind2 := Induction for vlist Sort Prop.
Combined Scheme val_mutind from val_ind2, vlist_ind2.

(* ---------------------------------------------------------------- *)
(* layout of ser                                                    *)
(* ---------------------------------------------------------------- *)
Lemma blen_app (a b : bytes) : blen (a ++ b) = blen a + blen b.
Proof. unfold blen. rewrite app_length. lia. Qed.

Lemma blen_be k n : blen (be k n) = N.of_nat k.
Proof. unfold blen. rewrite be_length. reflexivity. Qed.

Lemma blen_zeros n : blen (zeros n) = N.of_nat n.
Proof. unfold blen. rewrite zeros_length. reflexivity. Qed.

Scheme ttlv_ind2 := Induction for ttlv Sort Prop
  with tlist_ind2 := Induction for tlist Sort Prop.
Combined Scheme ttlv_mutind from ttlv_ind2, tlist_ind2.

Lemma add_mod8 a b : a mod 8 = 0 -> b mod 8 = 0 -> (a + b) mod 8 = 0.
Proof. intros Ha Hb. rewrite N.add_mod by lia. rewrite Ha, Hb. reflexivity. Qed.

Lemma ser_mod8 :
  (forall t, blen (ser t) mod 8 = 0) /\ (forall l, blen (ser_list l) mod 8 = 0).
Proof.
  apply ttlv_mutind.
  - intros tag typ v. cbn [ser]. rewrite !blen_app, !blen_be, blen_zeros, N2Nat.id.
    pose proof (padded_mod8 (blen v)) as H. unfold padded in H.
    replace (N.of_nat 3 + (N.of_nat 1 + (N.of_nat 4 + (blen v + pad8 (blen v)))))
      with (8 + (blen v + pad8 (blen v))) by lia.
    apply add_mod8; [reflexivity|exact H].
  - intros tag cs IH. cbn [ser]. rewrite !blen_app, !blen_be.
    replace (N.of_nat 3 + (N.of_nat 1 + (N.of_nat 4 + blen (ser_list cs)))) with (8 + blen (ser_list cs)) by lia.
    apply add_mod8; [reflexivity|exact IH].
  - reflexivity.
  - intros t IHt r IHr. cbn [ser_list]. rewrite blen_app. apply add_mod8; assumption.
Qed.

(* a structure's declared length is the total size of its serialised children *)
Lemma ser_structure_length tag cs :
  exists hdr, ser (TStructure tag cs) = hdr ++ ser_list cs /\
              hdr = be 3 tag ++ be 1 1 ++ be 4 (blen (ser_list cs)).
Proof. eexists; split; [|reflexivity]. cbn [ser]. rewrite <- !app_assoc. reflexivity. Qed.

Lemma ser_list_app a b : ser_list (tl_app a b) = ser_list a ++ ser_list b.
Proof. induction a as [|t r IH]; cbn [tl_app ser_list]; [reflexivity|]. rewrite IH, app_assoc. reflexivity. Qed.

(* ---------------------------------------------------------------- *)
(* C02: encoder = ser . to_tree                                     *)
(* ---------------------------------------------------------------- *)
Definition omap {A B} (f : A -> B) (o : option A) : option B :=
  match o with Some a => Some (f a) | None => None end.

Lemma enc_prim_ser tag k v : enc_prim tag k v = omap ser (prim_item tag k v).
Proof.
  unfold prim_item, enc_prim, prim_bytes, header.
  destruct k, v; try reflexivity; cbn [omap ser type_code];
    rewrite ?blen_be; rewrite <- ?app_assoc; try reflexivity.
  destruct b; reflexivity.
Qed.

Lemma enc_dyn_prim_ser tag v :
  enc_dyn_prim tag v = omap ser (obind (kind_of_val v) (fun k => prim_item tag k v)).
Proof. destruct v; cbn [enc_dyn_prim kind_of_val obind]; try reflexivity; apply enc_prim_ser. Qed.

Lemma wrap_ser tag cs : wrap tag (ser_list cs) = ser (TStructure tag cs).
Proof. unfold wrap, header, tc_structure. cbn [ser]. rewrite <- !app_assoc. reflexivity. Qed.

Section Canon.
  Variable T : tyenv.

  Definition elems_stmt (v : val) : Prop :=
    match v with
    | VList es => forall s tag, enc_elems T s tag es = omap ser_list (to_elems T s tag es)
    | _ => True
    end.

  Ltac prim_case := intros; split; [|exact I]; intros s tag; destruct s; cbn [enc_value enc_fields enc_elems to_tree to_fields to_elems obind omap];
                    try reflexivity; first [apply enc_prim_ser | apply enc_dyn_prim_ser].

  Lemma enc_canonical_mut :
    (forall v, (forall s tag, enc_value T s tag v = omap ser (to_tree T s tag v)) /\ elems_stmt v) /\
    (forall vs, (forall fl, enc_fields T fl vs = omap ser_list (to_fields T fl vs)) /\
                (forall s tag, enc_elems T s tag vs = omap ser_list (to_elems T s tag vs))).
  Proof.
    apply val_mutind.
    - prim_case. - prim_case. - prim_case. - prim_case.
    - prim_case. - prim_case. - prim_case. - prim_case.
    - (* VStruct *) intros ty fs [IHf _]. split; [|exact I]. intros s tag.
      destruct s as [k|ty' fl|h ki cs]; cbn [enc_value enc_fields enc_elems to_tree to_fields to_elems obind omap].
      + apply enc_prim_ser.
      + rewrite IHf. destruct (to_fields T fl fs); cbn [enc_value enc_fields enc_elems to_tree to_fields to_elems obind omap]; [rewrite wrap_ser|]; reflexivity.
      + destruct (T ty) as [d|]; cbn [enc_value enc_fields enc_elems to_tree to_fields to_elems obind omap]; [|reflexivity].
        rewrite IHf. destruct (to_fields T (snd d) fs); cbn [enc_value enc_fields enc_elems to_tree to_fields to_elems obind omap]; [rewrite wrap_ser|]; reflexivity.
    - (* VList *) intros vs [_ IHe]. split; [|exact IHe]. intros s tag.
      destruct s; cbn [enc_value enc_fields enc_elems to_tree to_fields to_elems obind omap]; try reflexivity; apply enc_prim_ser.
    - (* VNil *) split; [|exact I]. intros s tag. destruct s; cbn [enc_value enc_fields enc_elems to_tree to_fields to_elems obind omap]; try reflexivity; apply enc_prim_ser.
    - (* VPtr *) intros v [IH _]. split; [|exact I]. intros s tag.
      destruct s as [k|ty' fl|h ki cs]; cbn [enc_value enc_fields enc_elems to_tree to_fields to_elems obind omap].
      + apply enc_prim_ser.
      + reflexivity.
      + destruct v; try apply enc_dyn_prim_ser.
        specialize (IH (SDyn h ki cs) tag). cbn [enc_value enc_fields enc_elems to_tree to_fields to_elems obind omap] in IH. exact IH.
    - (* VBad *) intros w. split; [|exact I]. intros s tag.
      destruct s; cbn [enc_value enc_fields enc_elems to_tree to_fields to_elems obind omap]; try reflexivity; apply enc_prim_ser.
    - (* VNone *) split.
      + intros fl. destruct fl; reflexivity.
      + intros s tag. reflexivity.
    - (* VCons *) intros v [IHv IHl] r [IHrf IHre]. split.
      + intros fl. destruct fl as [|a s fr]; [reflexivity|]. cbn [enc_value enc_fields enc_elems to_tree to_fields to_elems obind omap].
        rewrite IHrf.
        destruct ((fa_tag a =? ANY_TAG) || fa_skip a).
        { destruct (to_fields T fr r); reflexivity. }
        destruct (fa_slice a).
        { destruct v; try (destruct (to_fields T fr r); reflexivity).
          cbn [elems_stmt] in IHl. rewrite IHl.
          destruct (to_fields T fr r) as [rest|]; cbn [enc_value enc_fields enc_elems to_tree to_fields to_elems obind omap].
          - destruct (to_elems T s (fa_tag a) vs) as [items|]; cbn [enc_value enc_fields enc_elems to_tree to_fields to_elems obind omap]; [|reflexivity].
            rewrite ser_list_app. reflexivity.
          - destruct (to_elems T s (fa_tag a) vs); reflexivity. }
        rewrite IHv.
        destruct (fa_req a); cbn [negb andb].
        { destruct (to_fields T fr r) as [rest|]; cbn [enc_value enc_fields enc_elems to_tree to_fields to_elems obind omap].
          - destruct (to_tree T s (fa_tag a) v); reflexivity.
          - destruct (to_tree T s (fa_tag a) v); reflexivity. }
        destruct (is_zero s v).
        { destruct (to_fields T fr r); reflexivity. }
        destruct (to_fields T fr r) as [rest|]; cbn [enc_value enc_fields enc_elems to_tree to_fields to_elems obind omap];
          destruct (to_tree T s (fa_tag a) v); reflexivity.
      + intros s tag. cbn [enc_value enc_fields enc_elems to_tree to_fields to_elems obind omap]. rewrite (proj1 (conj IHv IHl)), IHre.
        destruct (to_tree T s tag v); cbn [enc_value enc_fields enc_elems to_tree to_fields to_elems obind omap]; [|reflexivity].
        destruct (to_elems T s tag r); reflexivity.
  Qed.

  Theorem enc_top_canonical v : enc_top T v = omap ser (to_tree_top T v).
  Proof.
    destruct enc_canonical_mut as [_ Hl].
    unfold enc_top, to_tree_top.
    destruct v; try reflexivity.
    - destruct (T ty) as [d|]; cbn [enc_value enc_fields enc_elems to_tree to_fields to_elems obind omap]; [|reflexivity].
      rewrite (proj1 (Hl fs)). destruct (to_fields T (snd d) fs); cbn [enc_value enc_fields enc_elems to_tree to_fields to_elems obind omap]; [rewrite wrap_ser|]; reflexivity.
    - destruct v; try reflexivity.
      destruct (T ty) as [d|]; cbn [enc_value enc_fields enc_elems to_tree to_fields to_elems obind omap]; [|reflexivity].
      rewrite (proj1 (Hl fs)). destruct (to_fields T (snd d) fs); cbn [enc_value enc_fields enc_elems to_tree to_fields to_elems obind omap]; [rewrite wrap_ser|]; reflexivity.
  Qed.
End Canon.

(* ---------------------------------------------------------------- *)
(* C03: the decoder model is total - its fuel always suffices        *)
(* ---------------------------------------------------------------- *)
Lemma bind_ok {A B} (r : dres A) (f : A -> dres B) y :
  bind r f = Ok y -> exists x, r = Ok x /\ f x = Ok y.
Proof. destruct r; cbn [bind]; intros H; try discriminate. eauto. Qed.

Lemma bind_fuel {A B} (r : dres A) (f : A -> dres B) :
  bind r f = OutOfFuel -> r = OutOfFuel \/ exists x, r = Ok x /\ f x = OutOfFuel.
Proof. destruct r; cbn [bind]; intros H; try discriminate; eauto. Qed.

Lemma wrapped_ok {A} (r : dres A) x : wrapped r = Ok x -> r = Ok x.
Proof. destruct r; cbn; intros H; try discriminate; exact H. Qed.

Lemma wrapped_fuel {A} (r : dres A) : wrapped r = OutOfFuel -> r = OutOfFuel.
Proof. destruct r; cbn; intros H; try discriminate; reflexivity. Qed.

Ltac binv H :=
  let x := fresh "x" in let H1 := fresh "Hb" in let H2 := fresh "Hk" in
  apply bind_ok in H; destruct H as [x [H1 H2]].

Lemma read_n_ok n s b s' :
  read_n n s = Ok (b, s') ->
  (length (rest s') + n = length (rest s))%nat /\ last s' = last s /\ b = firstn n (rest s) /\ rest s' = skipn n (rest s).
Proof.
  unfold read_n. destruct (Nat.leb_spec n (length (rest s))) as [Hle|Hlt].
  - intros H; injection H as <- <-. cbn [rest last]. rewrite skipn_length. repeat split; lia.
  - destruct (rest s); discriminate.
Qed.

Lemma read_n_nofuel n s : read_n n s <> OutOfFuel.
Proof. unfold read_n. destruct (Nat.leb n (length (rest s))); [discriminate|]. destruct (rest s); discriminate. Qed.

Lemma read_nN_ok n s b s' :
  read_nN n s = Ok (b, s') -> (length (rest s') <= length (rest s))%nat /\ last s' = last s.
Proof.
  unfold read_nN. destruct (n <=? blen (rest s)).
  - intros H. apply read_n_ok in H. destruct H as [H1 [H2 _]]. split; [lia|assumption].
  - destruct (rest s); discriminate.
Qed.

Lemma copy_nN_ok n s x : copy_nN n s = Ok x -> read_nN n s = Ok x.
Proof. unfold copy_nN, read_nN. destruct (n <=? blen (rest s)); [auto|discriminate]. Qed.

Lemma copy_nN_nofuel n s : copy_nN n s <> OutOfFuel.
Proof. unfold copy_nN. destruct (n <=? blen (rest s)); [apply read_n_nofuel|discriminate]. Qed.

Lemma read_nN_nofuel n s : read_nN n s <> OutOfFuel.
Proof. unfold read_nN. destruct (n <=? blen (rest s)); [apply read_n_nofuel|]. destruct (rest s); discriminate. Qed.

Lemma read_num_ok k s x s' :
  read_num k s = Ok (x, s') -> (length (rest s') + k = length (rest s))%nat /\ last s' = last s.
Proof.
  unfold read_num. intros H. binv H. destruct x0 as [b s0]. injection Hk as <- <-.
  apply read_n_ok in Hb. tauto.
Qed.

Lemma read_num_nofuel k s : read_num k s <> OutOfFuel.
Proof.
  unfold read_num. intros H. apply bind_fuel in H. destruct H as [H|[[b s0] [_ H]]].
  - exact (read_n_nofuel _ _ H). - discriminate.
Qed.

Lemma read_tag_ok s t s' : read_tag s = Ok (t, s') -> (length (rest s') <= length (rest s))%nat.
Proof.
  unfold read_tag, iread_tag. destruct (negb (last s =? 0)).
  - intros H; injection H as <- <-. cbn [rest]. lia.
  - intros H. apply read_num_ok in H. lia.
Qed.

Lemma read_tag_nofuel s : read_tag s <> OutOfFuel.
Proof. unfold read_tag, iread_tag. destruct (negb (last s =? 0)); [discriminate|apply read_num_nofuel]. Qed.

Lemma peek_tag_ok s t s' : peek_tag s = Ok (t, s') -> (length (rest s') <= length (rest s))%nat.
Proof.
  unfold peek_tag, iread_tag. destruct (negb (last s =? 0)).
  - intros H; injection H as <- <-. lia.
  - intros H. binv H. destruct x as [t0 s0]. injection Hk as <- <-. cbn [rest].
    apply read_num_ok in Hb. lia.
Qed.

Lemma peek_tag_nofuel s : peek_tag s <> OutOfFuel.
Proof.
  unfold peek_tag, iread_tag. destruct (negb (last s =? 0)); [discriminate|].
  intros H. apply bind_fuel in H. destruct H as [H|[[t0 s0] [_ H]]].
  - exact (read_num_nofuel _ _ H). - discriminate.
Qed.

Lemma expect_tag_ok t s s' : expect_tag t s = Ok s' -> (length (rest s') <= length (rest s))%nat.
Proof.
  unfold expect_tag. intros H. binv H. destruct x as [t' s0].
  destruct (negb (t =? t') && negb (t =? ANY_TAG)); [discriminate|]. injection Hk as <-.
  eapply read_tag_ok; eauto.
Qed.

Lemma expect_tag_nofuel t s : expect_tag t s <> OutOfFuel.
Proof.
  unfold expect_tag. intros H. apply bind_fuel in H. destruct H as [H|[[t' s0] [_ H]]].
  - exact (read_tag_nofuel _ H).
  - destruct (negb (t =? t') && negb (t =? ANY_TAG)); discriminate.
Qed.

Lemma expect_num_ok k v s s' : expect_num k v s = Ok s' -> (length (rest s') + k = length (rest s))%nat.
Proof.
  unfold expect_num. intros H. binv H. destruct x as [x s0]. destruct (x =? v); [|discriminate].
  injection Hk as <-. apply read_num_ok in Hb. lia.
Qed.

Lemma expect_num_nofuel k v s : expect_num k v s <> OutOfFuel.
Proof.
  unfold expect_num. intros H. apply bind_fuel in H. destruct H as [H|[[x s0] [_ H]]].
  - exact (read_num_nofuel _ _ H).
  - destruct (x =? v); discriminate.
Qed.

(* every successfully decoded item takes at least its type and length bytes from the reader *)
Lemma dec_prim_progress k tag s v nn s' :
  dec_prim k tag s = Ok (v, nn, s') -> (length (rest s') + 5 <= length (rest s))%nat.
Proof.
  unfold dec_prim. intros H. binv H. binv Hk.
  apply expect_tag_ok in Hb. apply expect_num_ok in Hb0.
  destruct k.
  all: try (binv Hk0; binv Hk; destruct x2 as [b s4]; apply expect_num_ok in Hb1; apply read_n_ok in Hb2;
            destruct Hb2 as [Hb2 _]).
  all: try (injection Hk0 as <- <- <-; lia).
  - (* bool *)
    destruct (all_zero (firstn 7 b)); [|discriminate].
    destruct (skipn 7 b) as [|y [|? ?]]; try discriminate.
    destruct (Byte.eqb y x01); [injection Hk0 as <- <- <-; lia|].
    destruct (Byte.eqb y x00); [injection Hk0 as <- <- <-; lia|discriminate].
  - (* bytes *)
    binv Hk0. destruct x1 as [l s3]. binv Hk. destruct x1 as [b s4]. binv Hk0. destruct x1 as [p s5].
    injection Hk as <- <- <-. apply read_num_ok in Hb1. apply copy_nN_ok in Hb2. apply read_nN_ok in Hb2. apply read_nN_ok in Hb3. lia.
  - (* string *)
    binv Hk0. destruct x1 as [l s3]. binv Hk. destruct x1 as [b s4]. binv Hk0. destruct x1 as [p s5].
    injection Hk as <- <- <-. apply read_num_ok in Hb1. apply copy_nN_ok in Hb2. apply read_nN_ok in Hb2. apply read_nN_ok in Hb3. lia.
Qed.

Lemma dec_prim_nofuel k tag s : dec_prim k tag s <> OutOfFuel.
Proof.
  unfold dec_prim. intros H.
  apply bind_fuel in H. destruct H as [H|[s1 [_ H]]]; [exact (expect_tag_nofuel _ _ H)|].
  apply bind_fuel in H. destruct H as [H|[s2 [_ H]]]; [exact (expect_num_nofuel _ _ _ H)|].
  destruct k.
  all: try (apply bind_fuel in H; destruct H as [H|[s3 [_ H]]]; [exact (expect_num_nofuel _ _ _ H)|];
            apply bind_fuel in H; destruct H as [H|[[b s4] [_ H]]]; [exact (read_n_nofuel _ _ H)|]).
  all: try discriminate.
  - destruct (all_zero (firstn 7 b)); [|discriminate].
    destruct (skipn 7 b) as [|y [|? ?]]; try discriminate.
    destruct (Byte.eqb y x01); [discriminate|]. destruct (Byte.eqb y x00); discriminate.
  - apply bind_fuel in H; destruct H as [H|[[l s3] [_ H]]]; [exact (read_num_nofuel _ _ H)|].
    apply bind_fuel in H; destruct H as [H|[[b s4] [_ H]]]; [exact (copy_nN_nofuel _ _ H)|].
    apply bind_fuel in H; destruct H as [H|[[p s5] [_ H]]]; [exact (read_nN_nofuel _ _ H)|]. discriminate.
  - apply bind_fuel in H; destruct H as [H|[[l s3] [_ H]]]; [exact (read_num_nofuel _ _ H)|].
    apply bind_fuel in H; destruct H as [H|[[b s4] [_ H]]]; [exact (copy_nN_nofuel _ _ H)|].
    apply bind_fuel in H; destruct H as [H|[[p s5] [_ H]]]; [exact (read_nN_nofuel _ _ H)|]. discriminate.
Qed.

Lemma dropN_length n l : (length (dropN n l) <= length l)%nat.
Proof. unfold dropN. rewrite skipn_length. lia. Qed.

Lemma dec_skip_progress tag s n s' :
  dec_skip tag s = Ok (n, s') -> (length (rest s') + 5 <= length (rest s))%nat.
Proof.
  unfold dec_skip. intros H. binv H. binv Hk. destruct x0 as [b s2]. binv Hk0. destruct x0 as [l s3].
  destruct (N.leb (padded l) (blen (rest s3))); [|discriminate]. injection Hk as <- <-. cbn [rest].
  apply expect_tag_ok in Hb. apply read_n_ok in Hb0. apply read_num_ok in Hb1.
  pose proof (dropN_length (padded l) (rest s3)). lia.
Qed.

Lemma dec_skip_nofuel tag s : dec_skip tag s <> OutOfFuel.
Proof.
  unfold dec_skip. intros H.
  apply bind_fuel in H. destruct H as [H|[s1 [_ H]]]; [exact (expect_tag_nofuel _ _ H)|].
  apply bind_fuel in H. destruct H as [H|[[b s2] [_ H]]]; [exact (read_n_nofuel _ _ H)|].
  apply bind_fuel in H. destruct H as [H|[[l s3] [_ H]]]; [exact (read_num_nofuel _ _ H)|].
  destruct (N.leb (padded l) (blen (rest s3))); discriminate.
Qed.

Scheme sch_ind2 := Induction for sch Sort Prop
  with flist_ind2 := Induction for flist Sort Prop
  with dcases_ind2 := Induction for dcases Sort Prop.
Combined Scheme sch_mutind from sch_ind2, flist_ind2, dcases_ind2.

Lemma dec_value_progress :
  (forall s a st cur v nn st', dec_value s a st cur = Ok (v, nn, st') ->
      (length (rest st') + 5 <= length (rest st))%nat) /\
  (forall fl : flist, True) /\
  (forall cs key a st v nn st', dec_cases cs key a st = Ok (v, nn, st') ->
      (length (rest st') + 5 <= length (rest st))%nat).
Proof.
  apply sch_mutind.
  - intros k a st cur v nn st' H. cbn [dec_value] in H. eapply dec_prim_progress; eauto.
  - intros ty fl _ a st cur v nn st' H. cbn [dec_value] in H.
    binv H. binv Hk. binv Hk0. destruct x1 as [len s3]. binv Hk. destruct x1 as [[[vs actual] nsum] dd'].
    destruct (actual =? len); [|discriminate]. injection Hk0 as <- <- <-. cbn [rest].
    apply expect_tag_ok in Hb. apply expect_num_ok in Hb0. apply read_num_ok in Hb1.
    pose proof (dropN_length len (rest s3)). lia.
  - intros h ki cs IH a st cur v nn st' H. cbn [dec_value] in H. eapply IH; eauto.
  - exact I.
  - intros; exact I.
  - intros key a st v nn st' H. cbn [dec_cases] in H. discriminate.
  - intros k s IHs r IHr key a st v nn st' H. cbn [dec_cases] in H.
    destruct (key_matches k key); [eapply IHs|eapply IHr]; eauto.
Qed.

Lemma slice_loop_nofuel step tag skip explen :
  (forall dd, step dd <> OutOfFuel) ->
  (forall dd v nn dd1, step dd = Ok (v, nn, dd1) -> (length (rest dd1) < length (rest dd))%nat) ->
  forall fuel dd actual nsum acc, (length (rest dd) < fuel)%nat ->
    slice_loop fuel step tag skip explen dd actual nsum acc <> OutOfFuel.
Proof.
  intros Hnf Hprog. induction fuel as [|f IH]; intros dd actual nsum acc Hlt; [lia|].
  cbn [slice_loop]. intros H.
  apply bind_fuel in H. destruct H as [H|[[[v nn] dd1] [Hs H]]].
  - apply wrapped_fuel in H. exact (Hnf _ H).
  - apply wrapped_ok in Hs. apply Hprog in Hs.
    destruct (explen <=? (actual + nn) mod 2 ^ 32); [discriminate|].
    apply bind_fuel in H. destruct H as [H|[[t dd2] [Hp H]]]; [exact (peek_tag_nofuel _ H)|].
    apply peek_tag_ok in Hp.
    destruct (t =? tag); [|discriminate].
    revert H. apply IH. lia.
Qed.

Lemma dec_nofuel :
  (forall s a st cur, dec_value s a st cur <> OutOfFuel) /\
  (forall fl i explen dd actual nsum cur, dec_fields fl i explen dd actual nsum cur <> OutOfFuel) /\
  (forall cs key a st, dec_cases cs key a st <> OutOfFuel).
Proof.
  apply sch_mutind.
  - intros k a st cur. cbn [dec_value]. apply dec_prim_nofuel.
  - intros ty fl IH a st cur. cbn [dec_value]. intros H.
    apply bind_fuel in H. destruct H as [H|[s1 [_ H]]]; [exact (expect_tag_nofuel _ _ H)|].
    apply bind_fuel in H. destruct H as [H|[s2 [_ H]]]; [exact (expect_num_nofuel _ _ _ H)|].
    apply bind_fuel in H. destruct H as [H|[[len s3] [_ H]]]; [exact (read_num_nofuel _ _ H)|].
    apply bind_fuel in H. destruct H as [H|[[[[vs actual] nsum] dd'] [_ H]]]; [exact (IH _ _ _ _ _ _ H)|].
    destruct (actual =? len); discriminate.
  - intros h ki cs IH a st cur. cbn [dec_value]. apply IH.
  - intros i explen dd actual nsum cur. cbn [dec_fields]. discriminate.
  - intros a s IHs r IHr i explen dd actual nsum cur. cbn [dec_fields].
    destruct (peek_tag dd) as [[t dd1]| | |] eqn:Hp; try discriminate.
    + destruct (negb (fa_req a) && negb (t =? fa_tag a) && negb (fa_tag a =? ANY_TAG)); [apply IHr|].
      set (item := fun st : dstate =>
             if fa_skip a then (let* (n, st') := dec_skip (fa_tag a) st in Ok (VNil, n, st'))
             else dec_value s a st cur).
      assert (Hitem_nf: forall st, item st <> OutOfFuel).
      { intros st. unfold item. destruct (fa_skip a); [|apply IHs].
        intros H. apply bind_fuel in H. destruct H as [H|[[n st'] [_ H]]]; [exact (dec_skip_nofuel _ _ H)|discriminate]. }
      assert (Hitem_pr: forall st v nn st1, item st = Ok (v, nn, st1) -> (length (rest st1) < length (rest st))%nat).
      { intros st v nn st1. unfold item. destruct (fa_skip a).
        - intros H. binv H. destruct x as [n st']. injection Hk as _ _ <-. apply dec_skip_progress in Hb. lia.
        - intros H. apply (proj1 dec_value_progress) in H. lia. }
      destruct (fa_slice a).
      * intros H. apply bind_fuel in H. destruct H as [H|[[[[es actual'] nsum'] dd2] [_ H]]].
        -- revert H. apply slice_loop_nofuel; auto.
        -- exact (IHr _ _ _ _ _ _ H).
      * intros H. apply bind_fuel in H. destruct H as [H|[[[v nn] dd2] [_ H]]].
        -- apply wrapped_fuel in H. exact (Hitem_nf _ H).
        -- exact (IHr _ _ _ _ _ _ H).
    + destruct (fa_req a); [discriminate|apply IHr].
    + exfalso. exact (peek_tag_nofuel _ Hp).
  - intros key a st. cbn [dec_cases]. discriminate.
  - intros k s IHs r IHr key a st. cbn [dec_cases]. destruct (key_matches k key); [apply IHs|apply IHr].
Qed.

Theorem dec_top_total ty tag fl st : dec_top ty tag fl st <> OutOfFuel.
Proof. unfold dec_top. apply (proj1 dec_nofuel). Qed.
