(* Bytes.v - big-endian numbers over Coq's primitive [byte], padding arithmetic *)
From Coq Require Import List NArith ZArith Lia Strings.Byte Bool String Ascii.
Import ListNotations.
Open Scope N_scope.

Definition bytes := list byte.

Definition b2n : byte -> N := Byte.to_N.
Definition n2b (n : N) : byte :=
  match Byte.of_N (n mod 256) with Some b => b | None => x00 end.

Fixpoint unbe (l : bytes) (acc : N) : N :=
  match l with [] => acc | b :: t => unbe t (acc * 256 + b2n b) end.

Fixpoint be (k : nat) (n : N) : bytes :=
  match k with O => [] | S k' => be k' (n / 256) ++ [n2b n] end.

(* number of padding bytes after a value of length l *)
Definition pad8 (l : N) : N := (8 - l mod 8) mod 8.
Definition padded (l : N) : N := l + pad8 l.

Definition zeros (n : nat) : bytes := repeat x00 n.

Definition bytes_of_string (s : string) : bytes := list_byte_of_string s.

Fixpoint bytes_eqb (a b : bytes) : bool :=
  match a, b with
  | [], [] => true
  | x :: a', y :: b' => Byte.eqb x y && bytes_eqb a' b'
  | _, _ => false
  end.

(* two's complement views used by the codec *)
Definition to_u32 (z : Z) : N := Z.to_N (z mod 2^32)%Z.
Definition to_u64 (z : Z) : N := Z.to_N (z mod 2^64)%Z.
Definition of_u32 (n : N) : Z := if n <? 2^31 then Z.of_N n else (Z.of_N n - 2^32)%Z.
Definition of_u64 (n : N) : Z := if n <? 2^63 then Z.of_N n else (Z.of_N n - 2^64)%Z.
