(* Tables.v - boolean checkers for the table properties C18 and C19, evaluated on the
   regenerated declarations; the lemmas lifting them to universally quantified statements. *)
From Coq Require Import List String NArith Bool.
Require Import Schema Fields Generated Instance Registry SpecSchema.
Import ListNotations.
Open Scope string_scope.
Open Scope N_scope.

(* ---------------- C18 ---------------- *)
Definition gen_const (n : string) : option (string * N) :=
  let fix go (l : list (string * string * N * N)) :=
    match l with
    | [] => None
    | (k, ty, v, _) :: r => if String.eqb k n then Some (ty, v) else go r
    end in go gen_consts.

(* registry -> code: the name is exported with the registry's number and the right Go type *)
Definition reg_entry_ok (goty : string) (e : string * N) : bool :=
  match gen_const (fst e) with
  | Some (ty, v) => String.eqb ty goty && (v =? snd e)
  | None => false
  end.

Definition registry_sections : list (string * list (string * N)) :=
  [("Tag", reg_tags); ("Type", reg_types); ("Enum", reg_operations);
   ("Enum", reg_result_status); ("Enum", reg_result_reason); ("Enum", reg_credential_type)].

Definition all_registry : list (string * N) := List.concat (map snd registry_sections).

Definition c18_constants_b : bool :=
  forallb (fun sec => forallb (reg_entry_ok (fst sec)) (snd sec)) registry_sections.

(* code -> registry: a generated constant carrying a registry name has the registry number *)
Definition code_entry_ok (c : string * string * N * N) : bool :=
  let '(n, _, v, _) := c in
  match assoc n all_registry with Some rv => v =? rv | None => true end.
Definition c18_code_b : bool := forallb code_entry_ok gen_consts.

(* annotation lookup: every tagMap entry maps a name to the constant of that name
   ("-" is the internal any-tag marker), and every registry tag name is a key *)
Definition tagmap_entry_ok (e : string * string) : bool :=
  let '(k, id) := e in
  (String.eqb k id || (String.eqb k "-" && String.eqb id "ANY_TAG")) &&
  match gen_const id with Some (ty, _) => String.eqb ty "Tag" | None => false end.
Definition c18_tagmap_b : bool :=
  gen_tagmap_found && forallb tagmap_entry_ok gen_tagmap &&
  match resolve_tagmap with Some _ => true | None => false end.

(* kmip:"NAME" resolves (through the model of the lookup) to the registry number of NAME *)
Definition annotation_resolves (e : string * N) : bool :=
  match assoc (fst e) the_tagmap with Some v => v =? snd e | None => false end.
Definition c18_lookup_b : bool := forallb annotation_resolves reg_tags.

(* no two distinct tag names share a number, except the batch-item aliases *)
Definition batch_aliases : list string := ["BATCH_ITEM"; "REQUEST_BATCH_ITEM"; "RESPONSE_BATCH_ITEM"].
Definition is_alias (n : string) : bool := existsb (String.eqb n) batch_aliases.
Definition gen_tag_consts : list (string * N) :=
  flat_map (fun c => let '(n, ty, v, _) := c in if String.eqb ty "Tag" then [(n, v)] else []) gen_consts.
Definition tag_pair_ok (a b : string * N) : bool :=
  String.eqb (fst a) (fst b) || negb (snd a =? snd b) || (is_alias (fst a) && is_alias (fst b)).
Definition c18_injective_b : bool :=
  forallb (fun a => forallb (tag_pair_ok a) gen_tag_consts) gen_tag_consts.

Definition c18_any_tag_b : bool :=
  match gen_const "ANY_TAG" with Some (_, v) => v =? ANY_TAG | None => false end
  && negb (existsb (fun e => snd e =? ANY_TAG) reg_tags).

(* first failing elements, for the replay *)
Definition c18_failures : list (string * string) :=
  List.concat [
  flat_map (fun sec => flat_map (fun e => if reg_entry_ok (fst sec) e then [] else [("registry entry not matched by code", fst e)]) (snd sec)) registry_sections;
  flat_map (fun c => if code_entry_ok c then [] else [("constant differs from registry", fst (fst (fst c)))]) gen_consts;
  flat_map (fun e => if tagmap_entry_ok e then [] else [("tagMap entry resolves to another constant", fst e)]) gen_tagmap;
  flat_map (fun e => if annotation_resolves e then [] else [("annotation does not resolve to registry number", fst e)]) reg_tags;
  flat_map (fun a => flat_map (fun b => if tag_pair_ok a b then [] else [("two tag names share a number", (fst a ++ "/" ++ fst b)%string)]) gen_tag_consts) gen_tag_consts].

(* ---------------- C19 ---------------- *)
Definition kmip_structs : list rawstruct :=
  filter (fun s => existsb rf_has_ann (rs_fields s)) gen_structs.

Fixpoint find_obj (ty : string) (l : list specobj) : option specobj :=
  match l with [] => None | o :: r => if String.eqb ty (so_type o) then Some o else find_obj ty r end.
Fixpoint find_sf (f : string) (l : list specfield) : option specfield :=
  match l with [] => None | x :: r => if String.eqb f (sf_field x) then Some x else find_sf f r end.

(* name of the struct type a field nests, "" for anything else *)
Definition nested_struct (t : gty) : string :=
  let e := match slice_elem gen_named t with Some e => e | None => t end in
  match e with
  | TNamed n => match find_struct n gen_structs with Some _ => n | None => "" end
  | _ => ""
  end.

Definition is_deviation (ty f : string) : bool :=
  existsb (fun d => String.eqb (fst d) ty && String.eqb (snd d) f) known_deviations.

Definition field_conforms (ty : string) (f : rawfield) : bool :=
  match find_obj ty spec_schema with
  | None => false
  | Some o =>
      let '(name, opt) := parse_tag (if rf_has_ann f then rf_ann f else "") in
      match rf_type f with
      | TTagTy => String.eqb name (so_tag o)
      | t =>
          if String.eqb name "" || negb (rf_exported f) then true          (* not a KMIP field *)
          else if String.eqb name "-" && contains "skip" opt then true     (* never put on the wire *)
          else match find_sf (rf_name f) (so_fields o) with
               | None => false
               | Some sf => String.eqb name (sf_tag sf) && String.eqb (nested_struct t) (sf_nested sf)
               end
      end
  end.

Definition has_own_tag (s : rawstruct) : bool :=
  existsb (fun f => match rf_type f with TTagTy => true | _ => false end) (rs_fields s).

Definition struct_conforms (s : rawstruct) : bool :=
  match find_obj (rs_name s) spec_schema with
  | None => false
  | Some o => (String.eqb (so_tag o) "" || has_own_tag s)
  end &&
  forallb (fun f => is_deviation (rs_name s) (rf_name f) || field_conforms (rs_name s) f) (rs_fields s).

Definition c19_fields_b : bool := forallb struct_conforms kmip_structs.

(* the numbers that go on the wire: descriptor (model of getStructDesc) vs registry *)
Definition reg_tag (n : string) : option N := assoc n reg_tags.
Definition desc_field_ok (ty : string) (o : specobj) (fd : fdesc) : bool :=
  is_deviation ty (fd_name fd) ||
  (fd_skip fd && (fd_tag fd =? ANY_TAG)) ||
  match find_sf (fd_name fd) (so_fields o) with
  | Some sf => match reg_tag (sf_tag sf) with Some v => fd_tag fd =? v | None => false end
  | None => false
  end.
Definition desc_conforms (s : rawstruct) : bool :=
  match find_obj (rs_name s) spec_schema, the_desc (rs_name s) with
  | Some o, ROk sd =>
      (if String.eqb (so_tag o) "" then sd_tag sd =? 0
       else match reg_tag (so_tag o) with Some v => sd_tag sd =? v | None => false end)
      && forallb (desc_field_ok (rs_name s) o) (sd_fields sd)
  | _, _ => false
  end.
Definition c19_wire_b : bool := forallb desc_conforms kmip_structs.

(* the recorded deviations are real (if one is repaired the record must go) *)
Definition deviation_real (d : string * string) : bool :=
  match find_struct (fst d) gen_structs with
  | Some s => existsb (fun f => String.eqb (rf_name f) (snd d) && negb (field_conforms (fst d) f)) (rs_fields s)
  | None => false
  end.
Definition c19_deviations_real_b : bool := forallb deviation_real known_deviations.

Definition c19_failures : list (string * string) :=
  List.concat [
  flat_map (fun s =>
    List.app (match find_obj (rs_name s) spec_schema with None => [(rs_name s, "<no row in SpecSchema>")] | Some _ => [] end)
    (flat_map (fun f => if is_deviation (rs_name s) (rf_name f) || field_conforms (rs_name s) f then [] else [(rs_name s, rf_name f)]) (rs_fields s)))
    kmip_structs;
  flat_map (fun s => if desc_conforms s then [] else [(rs_name s, "<descriptor tag numbers>")]) kmip_structs].

(* ---------------- lifting lemmas ---------------- *)
Lemma forallb2_forall {A B} (f : A -> B -> bool) (la : list A) (lb : A -> list B) :
  forallb (fun a => forallb (f a) (lb a)) la = true ->
  forall a b, In a la -> In b (lb a) -> f a b = true.
Proof.
  intros H a b Ha Hb. rewrite forallb_forall in H. specialize (H a Ha).
  rewrite forallb_forall in H. exact (H b Hb).
Qed.
