(* Session.v - executable model of Server.serve / handleBatch / handleWrapped /
   handleDiscoverVersions (server.go, after the fix: commits): one connection's bytes and a
   script of handler behaviours in, the trace of observable events out.  Requests are decoded
   with the codec model on ONE persistent decoder state and responses are serialised with the
   encoder model, so codec failures surface exactly where they do in server.go. *)
From Coq Require Import String.
From Coq Require Import List NArith ZArith Bool Strings.Byte.
Require Import Bytes Schema Codec.
Import ListNotations.
Open Scope string_scope.
Open Scope list_scope.
Open Scope N_scope.

(* ---------- field access by Go field name (robust against reordering) ---------- *)
Fixpoint field_index (fl : flist) (name : string) (i : nat) : option nat :=
  match fl with
  | FNil => None
  | FCons a _ r => if String.eqb (fa_name a) name then Some i else field_index r name (S i)
  end.

Definition get_field (T : tyenv) (v : val) (name : string) : val :=
  match v with
  | VStruct ty vs =>
      match T ty with
      | Some (_, fl) => match field_index fl name 0 with Some i => vl_nth i vs | None => VNil end
      | None => VNil
      end
  | _ => VNil
  end.

Definition set_field (T : tyenv) (v : val) (name : string) (x : val) : val :=
  match v with
  | VStruct ty vs =>
      match T ty with
      | Some (_, fl) => match field_index fl name 0 with Some i => VStruct ty (vl_set i x vs) | None => v end
      | None => v
      end
  | _ => v
  end.

Definition zero_struct (T : tyenv) (ty : string) : val :=
  match T ty with Some (_, fl) => VStruct ty (zeros_of fl) | None => VNil end.

Fixpoint list_of_vl (l : vlist) : list val :=
  match l with VNone => [] | VCons v r => v :: list_of_vl r end.
Fixpoint vl_of_list (l : list val) : vlist :=
  match l with [] => VNone | v :: r => VCons v (vl_of_list r) end.

(* ---------- configuration, behaviours, events ---------- *)
Inductive behaviour :=
| BSuccess (payload : val)                    (* return payload, nil *)
| BFail (msg : bytes)                         (* return nil, errors.New(msg) *)
| BFailReason (msg : bytes) (reason : N)      (* return nil, an Error with ResultReason() *)
| BPanic (shown : bytes).                     (* panic(p); shown = fmt.Sprintf("%s", p) *)

Record cfg := {
  c_read_to : bool;                 (* ReadTimeout != 0 *)
  c_write_to : bool;                (* WriteTimeout != 0 *)
  c_tls : option bool;              (* None: not a *tls.Conn; Some ok: TLS, the handshake succeeds / fails *)
  c_sess_auth : option bool;        (* None: no SessionAuthHandler; Some ok: it returns ok / an error *)
  c_req_auth : bool;                (* RequestAuthHandler configured *)
  c_ops : list N;                   (* operations with a (scripted) handler registered through Handle *)
  c_supported : list (Z * Z);       (* Server.SupportedVersions after Serve's defaulting *)
  c_sid : bytes;                    (* session id *)
  c_sauth : bytes;                  (* token the session-auth callback returns *)
  c_now : Z                         (* time.Now() (the harness normalises real time stamps to this) *)
}.

Inductive close_kind := CloseEOF | CloseError.

Inductive event :=
| EArmRead | EArmWrite
| EHandshake (ok : bool)
| ESessAuth (ok : bool)
| EReqAuth (creds : val) (ok : bool)
| ECall (sid sauth : bytes) (rauth : option bytes) (op : N) (payload : val)
| EWrote (b : bytes)
| EEncodeFailed
| EClose (k : close_kind)
| EOutOfFuel.

(* protocol constants used by server.go (checked against the regenerated constants in Instance.v) *)
Record sconsts := {
  k_success : N; k_failed : N; k_general_failure : N; k_not_supported : N; k_invalid_message : N;
  k_discover_versions : N
}.

Section Session.
  Variable T : tyenv.
  Variable K : sconsts.

  (* the scripted RequestAuthHandler of the harness.  Its verdict and its result depend on the
     credentials AND on the session: it accepts credentials whose user name starts with 'o' unless
     the user name ends in the character the session id ends in, and returns user name @ session id
     as the request-auth value (so a verdict or a value carried over from another session shows) *)
  Definition last_byte (b : bytes) : byte := List.last b x00.
  Definition req_auth_fn (sid : bytes) (auth : val) : option bytes :=
    match get_field T (get_field T auth "CredentialValue") "Username" with
    | VStr (x6f :: r) =>
        if Byte.eqb (last_byte (x6f :: r)) (last_byte sid) then None
        else Some ((x6f :: r) ++ [x40] ++ sid)
    | _ => None
    end.

  Definition version_pair (v : val) : Z * Z :=
    match get_field T v "Major", get_field T v "Minor" with
    | VInt a, VInt b => (a, b)
    | _, _ => (0, 0)%Z
    end.

  Definition pair_eqb (a b : Z * Z) : bool := (fst a =? fst b)%Z && (snd a =? snd b)%Z.

  Definition version_val (p : Z * Z) : val :=
    set_field T (set_field T (zero_struct T "ProtocolVersion") "Major" (VInt (fst p))) "Minor" (VInt (snd p)).

  (* handleDiscoverVersions: empty offer -> all supported versions in the server's order;
     otherwise, for each offered version in the offer's order, the first supported version equal to it *)
  Definition discover (supported offer : list (Z * Z)) : list (Z * Z) :=
    match offer with
    | [] => supported
    | _ => flat_map (fun o => match find (pair_eqb o) supported with Some s => [s] | None => [] end) offer
    end.

  Inductive outcome := OSuccess (payload : val) | OFailed (msg : bytes) (reason : N).

  Definition bytes_of (s : string) : bytes := bytes_of_string s.

  Definition builtin_dv (c : cfg) (payload : val) : outcome :=
    match payload with
    | VStruct "DiscoverVersionsRequest" _ =>
        let offer := match get_field T payload "ProtocolVersions" with
                     | VList vs => map version_pair (list_of_vl vs) | _ => [] end in
        let res := discover (c_supported c) offer in
        OSuccess (set_field T (zero_struct T "DiscoverVersionsResponse") "ProtocolVersions"
                            (VList (vl_of_list (map version_val res))))
    | _ => OFailed (bytes_of "wrong request body") (k_invalid_message K)
    end.

  Definition outcome_of (b : behaviour) : outcome :=
    match b with
    | BSuccess p => OSuccess p
    | BFail m => OFailed m (k_general_failure K)
    | BFailReason m r => OFailed m r
    | BPanic shown => OFailed (bytes_of "panic: " ++ shown) (k_general_failure K)
    end.

  (* handleWrapped for one item: events, outcome, remaining script *)
  (* SessionContext.SessionAuth: what the callback returned, nil without a callback *)
  Definition sauth_of (c : cfg) : bytes := match c_sess_auth c with Some true => c_sauth c | _ => [] end.

  Definition handle_item (c : cfg) (rauth : option bytes) (item : val) (script : list behaviour)
    : list event * outcome * list behaviour :=
    let op := match get_field T item "Operation" with VEnum n => n | _ => 0 end in
    let payload := get_field T item "RequestPayload" in
    if existsb (N.eqb op) (c_ops c) then
      match script with
      | b :: rest => ([ECall (c_sid c) (sauth_of c) rauth op payload], outcome_of b, rest)
      | [] => ([ECall (c_sid c) (sauth_of c) rauth op payload], OSuccess VNil, [])
      end
    else if op =? k_discover_versions K then       (* initHandlers: built-in unless overridden *)
      ([], builtin_dv c payload, script)
    else ([], OFailed (bytes_of "operation not supported") (k_not_supported K), script).

  Definition response_item (item : val) (o : outcome) : val :=
    let r0 := zero_struct T "ResponseBatchItem" in
    let r1 := set_field T r0 "Operation" (get_field T item "Operation") in
    let r2 := set_field T r1 "UniqueID" (get_field T item "UniqueID") in
    match o with
    | OSuccess p => set_field T (set_field T r2 "ResultStatus" (VEnum (k_success K))) "ResponsePayload" p
    | OFailed m reason =>
        set_field T (set_field T (set_field T r2 "ResultStatus" (VEnum (k_failed K)))
                                 "ResultMessage" (VStr m)) "ResultReason" (VEnum reason)
    end.

  Fixpoint handle_items (c : cfg) (rauth : option bytes) (items : list val) (script : list behaviour)
    : list event * list val * list behaviour :=
    match items with
    | [] => ([], [], script)
    | it :: r =>
        let '(ev, o, script1) := handle_item c rauth it script in
        let '(evs, rs, script2) := handle_items c rauth r script1 in
        (ev ++ evs, response_item it o :: rs, script2)
    end.

  (* handleBatch: None = fatal error (the session ends without a response) *)
  Definition handle_batch (c : cfg) (req : val) (script : list behaviour)
    : list event * option val * list behaviour :=
    let hdr := get_field T req "Header" in
    let items := match get_field T req "BatchItems" with VList vs => list_of_vl vs | _ => [] end in
    let count := match get_field T hdr "BatchCount" with VInt z => z | _ => 0%Z end in
    if negb (count =? Z.of_nat (List.length items))%Z then ([], None, script)
    else match get_field T hdr "AsynchronousIndicator" with
    | VBool true => ([], None, script)
    | _ =>
      let auth := get_field T hdr "Authentication" in
      let has_creds := match get_field T auth "CredentialType" with VEnum 0 => false | VEnum _ => true | _ => false end in
      let go (evs0 : list event) (rauth : option bytes) :=
        let '(evs, ritems, script') := handle_items c rauth items script in
        let h0 := zero_struct T "ResponseHeader" in
        let h1 := set_field T h0 "Version" (get_field T hdr "Version") in
        let h2 := set_field T h1 "TimeStamp" (VTime (c_now c)) in
        let h3 := set_field T h2 "ClientCorrelationValue" (get_field T hdr "ClientCorrelationValue") in
        let h4 := set_field T h3 "BatchCount" (get_field T hdr "BatchCount") in
        let resp := set_field T (set_field T (zero_struct T "Response") "Header" h4)
                              "BatchItems" (VList (vl_of_list ritems)) in
        (evs0 ++ evs, Some resp, script') in
      if has_creds then
        if c_req_auth c then
          match req_auth_fn (c_sid c) auth with
          | Some tok => go [EReqAuth auth true] (Some tok)
          | None => ([EReqAuth auth false], None, script)
          end
        else ([], None, script)
      else go [] None
    end.

  Definition request_top : option (N * flist) := T "Request".

  (* one iteration of the request loop of serve(): its events, and - if the request was answered -
     the decoder state and script the next iteration starts from *)
  Definition request_step (c : cfg) (st : dstate) (script : list behaviour)
    : list event * option (dstate * list behaviour) :=
    let arm := if c_read_to c then [EArmRead] else [] in
    match request_top with
    | None => (arm ++ [EClose CloseError], None)
    | Some (tag, fl) =>
        match dec_top "Request" tag fl st with
        | ErrEOF => (arm ++ [EClose CloseEOF], None)
        | Err => (arm ++ [EClose CloseError], None)
        | OutOfFuel => (arm ++ [EOutOfFuel], None)
        | Ok (req, _, st') =>
            let '(evs, oresp, script') := handle_batch c req script in
            match oresp with
            | None => (arm ++ evs ++ [EClose CloseError], None)
            | Some resp =>
                let armw := if c_write_to c then [EArmWrite] else [] in
                match enc_top T (VPtr resp) with
                | None => (arm ++ evs ++ armw ++ [EEncodeFailed; EClose CloseError], None)
                | Some b => (arm ++ evs ++ armw ++ [EWrote b], Some (st', script'))
                end
            end
        end
    end.

  (* the request loop: one persistent decoder state; a request that is not answered ends the session *)
  Fixpoint serve_loop (fuel : nat) (c : cfg) (st : dstate) (script : list behaviour) : list event :=
    match fuel with
    | O => [EOutOfFuel]
    | S f =>
        let '(evs, k) := request_step c st script in
        evs ++ match k with
               | None => []
               | Some (st', script') => serve_loop f c st' script'
               end
    end.

  (* serve() after the handshake *)
  Definition session_body (c : cfg) (input : bytes) (script : list behaviour) : list event :=
    match c_sess_auth c with
    | Some false => [ESessAuth false; EClose CloseError]
    | Some true => ESessAuth true :: serve_loop (S (List.length input)) c {| rest := input; last := 0 |} script
    | None => serve_loop (S (List.length input)) c {| rest := input; last := 0 |} script
    end.

  (* serve(): on a *tls.Conn both deadlines are armed (iff configured) before the handshake; a failed
     handshake ends the session before any callback *)
  Definition session (c : cfg) (input : bytes) (script : list behaviour) : list event :=
    match c_tls c with
    | None => session_body c input script
    | Some ok =>
        (if c_read_to c then [EArmRead] else []) ++ (if c_write_to c then [EArmWrite] else []) ++
        EHandshake ok :: (if ok then session_body c input script else [EClose CloseError])
    end.
End Session.
