(* C19 - Modelled KMIP structures use the tag and nesting the spec assigns to each field.
   Statements only.  Generated.v (struct declarations) is regenerated from /repo on every
   run, SpecSchema.v / Registry.v are the committed oracles. *)
From Coq Require Import List String NArith.
Require Import Schema Fields Generated Instance Registry SpecSchema Tables TablesProofs.
Import ListNotations.
Open Scope string_scope.

(* every annotated field of every KMIP structure type carries the tag name the specification
   gives it and nests the structure the specification nests there (recorded deviations apart) *)
Theorem C19_fields :
  forall s f, In s kmip_structs -> In f (rs_fields s) ->
    is_deviation (rs_name s) (rf_name f) = false -> field_conforms (rs_name s) f = true.
Proof. exact c19_fields. Qed.
Print Assumptions C19_fields.

(* the numbers the descriptor builder (model of getStructDesc) puts on the wire are the
   registry numbers of those tag names *)
Theorem C19_wire_numbers :
  forall s, In s kmip_structs ->
    exists o sd, find_obj (rs_name s) spec_schema = Some o /\ the_desc (rs_name s) = ROk sd /\
      forall fd, In fd (sd_fields sd) -> desc_field_ok (rs_name s) o fd = true.
Proof. exact c19_wire. Qed.
Print Assumptions C19_wire_numbers.

(* the recorded deviations (known findings) are real on this tree *)
Theorem C19_known_deviations_real : c19_deviations_real_b = true.
Proof. exact c19_deviations_real_true. Qed.
Print Assumptions C19_known_deviations_real.
