(* C20 - Built-in Discover Versions returns exactly the supported subset of the offer.
   Statements only.  Discover.v models handleDiscoverVersions and Serve's defaulting with Go slices
   made explicit (backing arrays in a heap); Session.v's built-in handler computes the same list. *)
From Coq Require Import List ZArith Bool Arith.
Require Import Discover DiscoverProofs Session Generated Instance.
Import ListNotations.

(* empty offer: the complete supported list in the server's order *)
Theorem C20_empty_offer : forall sup, discover_spec sup [] = sup.
Proof. exact discover_spec_empty. Qed.
Print Assumptions C20_empty_offer.

(* non-empty offer: exactly the offered versions the server supports, in the offer's order and multiplicity *)
Theorem C20_subset : forall sup offer, offer <> [] ->
  discover_spec sup offer = filter (fun o => existsb (pv_eqb o) sup) offer.
Proof. exact discover_spec_filter. Qed.
Print Assumptions C20_subset.

Theorem C20_none_invented_none_omitted : forall sup offer v, offer <> [] ->
  (In v (discover_spec sup offer) <-> In v offer /\ In v sup).
Proof. exact discover_spec_sound. Qed.
Print Assumptions C20_none_invented_none_omitted.

(* for ANY heap: the reply holds exactly that list, its backing array (if any) is allocated by this
   call, and every array that existed before - the configuration's and DefaultSupportedVersions' - is
   unchanged *)
Theorem C20_no_alias : forall h sup offer,
  let '(h', res) := handle_discover h sup offer in
  elems h' res = discover_spec (elems h sup) offer /\
  fresh_from (length h) h' res /\
  (forall a, (a < length h)%nat -> arr h' a = arr h a).
Proof. exact handle_discover_correct. Qed.
Print Assumptions C20_no_alias.

(* Serve: an empty configuration is replaced by a fresh copy of the default list, a non-empty one is kept *)
Theorem C20_defaulting : forall h configured dflt,
  let '(h', s) := serve_defaults h configured dflt in
  (s_len configured = 0%nat -> elems h' s = elems h dflt /\ fresh_from (length h) h' s) /\
  (s_len configured <> 0%nat -> h' = h /\ s = configured) /\
  (forall a, (a < length h)%nat -> arr h' a = arr h a).
Proof. exact serve_defaults_correct. Qed.
Print Assumptions C20_defaulting.

(* the default list of this tree (regenerated): 1.4, 1.3, 1.2, 1.1 *)
Theorem C20_default : gen_default_versions_found = true /\ default_versions = [(1, 4); (1, 3); (1, 2); (1, 1)]%Z.
Proof. split; reflexivity. Qed.
Print Assumptions C20_default.

(* the session model's built-in handler returns discover_spec *)
Theorem C20_session_handler : forall sup offer, Session.discover sup offer = discover_spec sup offer.
Proof. exact session_discover_spec. Qed.
Print Assumptions C20_session_handler.

(* several Discover Versions items in ONE request: read after the last item has been handled, every reply still holds
   exactly the answer to its own offer, the configuration is untouched, and two non-empty replies never share memory *)
Theorem C20_batch_replies_independent : forall offers h sup,
  (s_arr sup < length h)%nat ->
  let '(h', ss) := discover_batch h sup offers in
  map (elems h') ss = map (discover_spec (elems h sup)) offers /\
  (forall a, (a < length h)%nat -> arr h' a = arr h a) /\
  (forall i j si sj, nth_error ss i = Some si -> nth_error ss j = Some sj -> i <> j ->
     s_cap si = 0%nat \/ s_cap sj = 0%nat \/ s_arr si <> s_arr sj).
Proof.
  intros offers h sup Hs.
  pose proof (discover_batch_correct offers h sup Hs) as C. pose proof (discover_batch_disjoint offers h sup Hs) as D.
  destruct (discover_batch h sup offers) as [h' ss]. destruct C as (E & _ & A & _). auto.
Qed.
Print Assumptions C20_batch_replies_independent.
