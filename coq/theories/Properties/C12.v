(* C12 - No data races inside the library under documented concurrent use.
   Statements only.  gen_accesses / gen_pkg_var_writes are regenerated from the source on every run. *)
From Coq Require Import String.
From Coq Require Import List ZArith Bool.
Require Import Schema Generated Races Shutdown ShutdownProofs.
Import ListNotations.

(* every pair of accesses to the same Server field that may overlap in time and contains a write
   holds the mutex on both sides or is ordered by the go statement (complete enumeration of the
   regenerated table: the domain is finite and fully enumerated) *)
Theorem C12_discipline : forall a1 a2, In a1 gen_accesses -> In a2 gen_accesses -> conflict a1 a2 = false.
Proof.
  assert (H: race_free_b gen_accesses = true) by (vm_compute; reflexivity).
  intros a1 a2 H1 H2. unfold race_free_b in H. rewrite forallb_forall in H. specialize (H a1 H1).
  rewrite forallb_forall in H. specialize (H a2 H2). apply negb_true_iff in H. exact H.
Qed.
Print Assumptions C12_discipline.

(* Encoder / Decoder instances share nothing: no function of the package assigns a package-level variable *)
Theorem C12_codec_stateless : gen_pkg_var_writes = [].
Proof. reflexivity. Qed.
Print Assumptions C12_codec_stateless.

(* the WaitGroup is used as sync.WaitGroup requires: no Add once the waiter may be in Wait, never negative *)
Theorem C12_waitgroup_protocol : forall s s',
  reachable true s -> step true s LRegister = Some s' -> wg s' = (wg s + 1)%Z -> w_pc s = WNotStarted.
Proof. exact waitgroup_protocol. Qed.
Print Assumptions C12_waitgroup_protocol.

Theorem C12_waitgroup_nonnegative : forall s, reachable true s -> (0 <= wg s)%Z.
Proof. exact waitgroup_nonnegative. Qed.
Print Assumptions C12_waitgroup_nonnegative.

(* objects the caller hands to the library and may share (a *tls.Config used by several Clients, a *log.Logger): no method
   of Server or Client assigns through a pointer held in one of its fields, nor through a local copy of such a pointer -
   they are only read, cloned or called (complete enumeration of the regenerated list) *)
Theorem C12_caller_objects_not_written : gen_deep_writes = [].
Proof. reflexivity. Qed.
Print Assumptions C12_caller_objects_not_written.

(* every call of wg.Add in the regenerated table is made by the acceptor with the mutex held - the premise under which the
   interleaving model's WaitGroup protocol (C12_waitgroup_protocol) describes the code *)
Theorem C12_waitgroup_add_sites : forall a, In a gen_accesses -> wg_add_site_ok a = true.
Proof.
  assert (H: forallb wg_add_site_ok gen_accesses = true) by (vm_compute; reflexivity).
  intros a Ha. rewrite forallb_forall in H. exact (H a Ha).
Qed.
Print Assumptions C12_waitgroup_add_sites.

(* the rule is not vacuous: the table does contain a wg.Add site (registerSession), and it satisfies it *)
Example C12_add_site_exists :
  existsb (fun a => String.eqb (ac_field a) "wg" && String.eqb (ac_kind a) "call:Add" && wg_add_site_ok a) gen_accesses = true.
Proof. vm_compute. reflexivity. Qed.
