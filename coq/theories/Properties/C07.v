(* C07 - Server answers every request exactly once, in order, or closes the connection.
   Statements only.  Session.v is the model of serve()/handleBatch, tied to /repo by the session
   correspondence suite; Instance.v instantiates it with the regenerated schema and constants. *)
From Coq Require Import String.
From Coq Require Import List NArith ZArith.
Require Import Bytes Schema Codec Session SessionProofs Instance InstanceProofs.
Import ListNotations.

(* for EVERY configuration, input byte stream and script of handler behaviours, the trace has the
   shape  (read-arm? request-events write-arm? Wrote)*  read-arm? events Close : each processed
   request is followed by exactly one response before anything of the next request happens, and a
   request that gets no response is followed by Close and nothing else *)
Theorem C07_trace_shape : forall T K c input script,
  c_tls c = None ->
  match c_sess_auth c with
  | Some false => session T K c input script = [ESessAuth false; EClose CloseError]
  | Some true => exists t, session T K c input script = ESessAuth true :: t /\ trace_ok c t
  | None => trace_ok c (session T K c input script)
  end.
Proof. exact session_trace. Qed.
Print Assumptions C07_trace_shape.

(* one iteration: the request decoded from the persistent decoder state is the one answered; the
   response written is the encoding of build_response for THAT request; the next iteration continues
   from the decoder state left behind, so the k-th response answers the k-th request *)
Theorem C07_step : forall T K c st script,
  let '(evs, k) := request_step T K c st script in step_result T K c st script evs k.
Proof. exact request_step_spec. Qed.
Print Assumptions C07_step.

(* what the response echoes: version, correlation value, batch count, the server's time, and one
   item per request item in order with the same operation and unique batch item id *)
Theorem C07_response_answers : forall c req ritems,
  let resp := build_response inst_T c req ritems in
  let ph := get_field inst_T resp "Header" in
  get_field inst_T ph "Version" = get_field inst_T (req_header inst_T req) "Version" /\
  get_field inst_T ph "ClientCorrelationValue" = get_field inst_T (req_header inst_T req) "ClientCorrelationValue" /\
  get_field inst_T ph "BatchCount" = get_field inst_T (req_header inst_T req) "BatchCount" /\
  get_field inst_T ph "TimeStamp" = VTime (c_now c) /\
  get_field inst_T resp "BatchItems" = VList (vl_of_list ritems).
Proof. exact (fun c req ritems => response_answers inst_T c req ritems inst_env_ok). Qed.
Print Assumptions C07_response_answers.

Theorem C07_one_item_per_request_item : forall T K c rauth items script,
  length (snd (fst (handle_items T K c rauth items script))) = length items.
Proof. exact handle_items_length. Qed.
Print Assumptions C07_one_item_per_request_item.

Theorem C07_item_echo : forall item o,
  let r := response_item inst_T inst_K item o in
  get_field inst_T r "Operation" = get_field inst_T item "Operation" /\
  get_field inst_T r "UniqueID" = get_field inst_T item "UniqueID" /\
  match o with
  | OSuccess p => get_field inst_T r "ResultStatus" = VEnum (k_success inst_K) /\ get_field inst_T r "ResponsePayload" = p
  | OFailed m reason =>
      get_field inst_T r "ResultStatus" = VEnum (k_failed inst_K) /\ get_field inst_T r "ResultMessage" = VStr m /\
      get_field inst_T r "ResultReason" = VEnum reason
  end.
Proof. exact (fun item o => response_item_reports inst_T inst_K item o inst_env_ok). Qed.
Print Assumptions C07_item_echo.

(* "one at a time or pipelined", and however the transport fragments them: the server's persistent Decoder on its
   bufio.Reader over a connection that hands out the peer's bytes in ANY script of read sizes (one request per read,
   several requests in one read, single bytes, a request split anywhere; fewer than 100 consecutive empty reads)
   produces exactly the trace computed on the flat byte stream - which the theorems above speak about *)
Require Import Readers ReadersProofs SessionReaders.
Theorem C07_fragmentation_independent : forall T K c input sizes weof script,
  stall_free sizes ->
  c_session_body T K c input sizes weof script = session_body T K c input script.
Proof. exact session_fragmentation_independent. Qed.
Print Assumptions C07_fragmentation_independent.
