(* C08 - Every batch item handled once with its own outcome; handlers cannot kill the server.
   Statements only. *)
From Coq Require Import String.
From Coq Require Import List NArith ZArith.
Require Import Bytes Schema Codec Session SessionProofs Instance InstanceProofs.
Import ListNotations.

(* the handler invocations of a batch are exactly the items that have a registered handler, once
   each, in item order, with that item's decoded payload; the response items are, position by
   position, the outcome assigned to that item *)
Theorem C08_items : forall T K c rauth items script,
  let '(evs, ritems, _) := handle_items T K c rauth items script in
  evs = calls T c rauth items /\
  ritems = map (fun p => response_item T K (fst p) (snd p)) (combine items (outcomes T K c items script)).
Proof. exact handle_items_spec. Qed.
Print Assumptions C08_items.

(* outcome per behaviour: Success with the handler's payload; Operation Failed with the error's
   message and reason, General Failure when it has none or when the handler panicked *)
Theorem C08_outcome : forall K b,
  match b with
  | BSuccess p => outcome_of K b = OSuccess p
  | BFail m => outcome_of K b = OFailed m (k_general_failure K)
  | BFailReason m r => outcome_of K b = OFailed m r
  | BPanic shown => exists m, outcome_of K b = OFailed m (k_general_failure K)
  end.
Proof. exact outcome_of_classification. Qed.
Print Assumptions C08_outcome.

(* independence: when every item has a scripted handler, item i's outcome is behaviour i alone;
   items without a scripted handler get their outcome whatever the other items' handlers do *)
Theorem C08_independent : forall T K c items script,
  Forall (fun it => scripted T c it = true) items -> length script = length items ->
  outcomes T K c items script = map (outcome_of K) script.
Proof. exact outcomes_all_scripted. Qed.
Print Assumptions C08_independent.

Theorem C08_unscripted_independent : forall T K c items script script',
  Forall (fun it => scripted T c it = false) items -> outcomes T K c items script = outcomes T K c items script'.
Proof. exact outcomes_unscripted. Qed.
Print Assumptions C08_unscripted_independent.

(* whatever a handler returns (including values that cannot be encoded) the session model ends in
   Close or goes on: it never runs out of fuel, i.e. serve() terminates the iteration normally *)
Theorem C08_no_divergence : forall c t, trace_ok c t -> ~ In EOutOfFuel t.
Proof. exact trace_ok_no_fuel. Qed.
Print Assumptions C08_no_divergence.

Theorem C08_constants :
  k_success inst_K = 0%N /\ k_failed inst_K = 1%N /\ k_general_failure inst_K = 256%N /\
  k_not_supported inst_K = 5%N /\ k_invalid_message inst_K = 4%N /\ k_discover_versions inst_K = 30%N.
Proof. exact inst_K_values. Qed.
Print Assumptions C08_constants.
