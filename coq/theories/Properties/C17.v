(* C17 - Serve survives transient Accept errors; stops only on permanent error / Shutdown.
   Statements only.  Accept.v is the model of the accept loop of Server.Serve, tied to /repo by
   feeding every sequence over {temporary error, connection, permanent error, shutdown} up to a
   length bound to the real Serve through a fault-injecting listener. *)
From Coq Require Import List NArith Bool.
Require Import Accept AcceptProofs.
Import ListNotations.
Open Scope N_scope.

(* for EVERY finite sequence of accept results: every back-off is between 5 ms and 1 s *)
Theorem C17_backoff_bounded : forall rs, Forall sleep_ok (fst (serve rs)).
Proof. exact (fun rs => accept_loop_sleeps rs 0 O (or_introl eq_refl)). Qed.
Print Assumptions C17_backoff_bounded.

(* any number of temporary errors only sleeps (doubling from 5 ms, capped at 1 s) and the loop goes on *)
Theorem C17_survives_temporary_errors : forall k rest delay n,
  accept_loop (temps k ++ rest) delay n =
  (backoff k delay ++ fst (accept_loop rest (iter_delay k delay) n), snd (accept_loop rest (iter_delay k delay) n)).
Proof. exact temps_survived. Qed.
Print Assumptions C17_survives_temporary_errors.

Theorem C17_doubling_law : forall k, iter_delay (S k) 0 = N.min 1000 (5 * 2 ^ N.of_nat k).
Proof. exact backoff_from_reset. Qed.
Print Assumptions C17_doubling_law.

(* the connection that arrives after them is served, and the delay is reset *)
Theorem C17_next_connection_served : forall k rest delay n,
  accept_loop (temps k ++ AConn false :: rest) delay n =
  (backoff k delay ++ ServeConn n :: fst (accept_loop rest 0 (S n)), snd (accept_loop rest 0 (S n))).
Proof. exact conn_after_temps. Qed.
Print Assumptions C17_next_connection_served.

(* result: the error at the first permanent error before Shutdown; nil for ANY error (and a late
   connection, which is closed) once Shutdown has been signalled; still running otherwise *)
Theorem C17_result : forall rs delay n,
  match snd (accept_loop rs delay n) with
  | ARErr => exists pre rest, rs = pre ++ APerm false :: rest /\ Forall (fun r => r = ATemp false \/ r = AConn false) pre
  | ARNil => exists pre r rest, rs = pre ++ r :: rest /\ Forall (fun r => r = ATemp false \/ r = AConn false) pre /\
                               (r = ATemp true \/ r = APerm true \/ r = AConn true)
  | ARRunning => Forall (fun r => r = ATemp false \/ r = AConn false) rs
  end.
Proof. exact result_classification. Qed.
Print Assumptions C17_result.

Theorem C17_late_connection_closed : forall rest delay n, fst (accept_loop (AConn true :: rest) delay n) = [CloseLate n].
Proof. exact late_conn_closed. Qed.
Print Assumptions C17_late_connection_closed.

(* the three constants of the back-off are the ones Serve is written with (regenerated from server.go on every run):
   first delay 5 ms, doubling, cap 1 s *)
Require Import Generated.
Theorem C17_backoff_constants :
  gen_backoff = Some (5, 2, 1000)%N /\ forall d, next_delay d = next_delay_with 5 2 1000 d.
Proof. split; [reflexivity|intros d; reflexivity]. Qed.
Print Assumptions C17_backoff_constants.
