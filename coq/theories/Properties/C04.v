(* C04 - Decode accepts exactly the well-formed encodings and reports what they denote.
   Statements only.  (Grows with the soundness / completeness development.) *)
From Coq Require Import String.
From Coq Require Import List NArith ZArith.
Require Import Bytes Schema Codec CodecProofs CodecRT.
Import ListNotations.
Open Scope N_scope.

(* the decoder decides: on every input it accepts (Ok) or rejects (an error), never diverges *)
Theorem C04_decides : forall ty tag fl st, dec_top ty tag fl st <> OutOfFuel.
Proof. exact dec_top_total. Qed.
Print Assumptions C04_decides.

(* completeness on primitives: every canonical primitive item is accepted with the value it denotes *)
Theorem C04_primitive_complete : forall k tag v b tl st,
  tag <> 0 -> tag < 2 ^ 24 -> wf_prim k v -> enc_prim tag k v = Some b -> at_item tag b tl st ->
  dec_prim k tag st = Ok (v, blen b, {| rest := tl; last := 0 |}).
Proof. exact dec_prim_enc. Qed.
Print Assumptions C04_primitive_complete.
