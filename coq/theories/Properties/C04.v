(* C04 - Decode accepts exactly the well-formed encodings and reports what they denote.
   Statements only.  The specification is Denote.v: a schema-free TTLV splitter (every item fits in
   what is there, the items tile each structure exactly) and a schema matcher (mandated lengths,
   Booleans 0/1, required fields present, nothing left over, values field by field).  DenoteProofs.v
   proves that the decoder model (Codec.v, tied to /repo by the codec correspondence on every run,
   where the implementation is also compared with the extracted specification itself) and the
   specification are the same partial function - for EVERY schema and EVERY byte string. *)
From Coq Require Import String.
From Coq Require Import List NArith ZArith.
Require Import Bytes Schema Codec CodecProofs CodecRT Denote DenoteProofs Generated Instance InstanceProofs.
Import ListNotations.
Open Scope N_scope.

(* GENERIC, both directions at once: on a decoder without look-ahead positioned on [bs], Decode into a
   structure type returns nil with value v having consumed n bytes  <=>  the specification accepts
   bs with value v and message length n (n = 8 + the declared length, so the stream stays in sync) *)
Theorem C04_decoder_is_spec : forall ty tag fl bs v n st',
  tag <> ANY_TAG ->
  (dec_top ty tag fl {| rest := bs; last := 0 |} = Ok (v, n, st') <->
   spec_decode ty tag fl bs = Some (v, n) /\ st' = {| rest := skipn (N.to_nat n) bs; last := 0 |}).
Proof. exact decoder_is_spec. Qed.
Print Assumptions C04_decoder_is_spec.

(* soundness alone: Decode succeeds only on well-formed input and returns what it denotes *)
Theorem C04_sound : forall ty tag fl bs v n st',
  tag <> ANY_TAG -> dec_top ty tag fl {| rest := bs; last := 0 |} = Ok (v, n, st') ->
  spec_decode ty tag fl bs = Some (v, n) /\ st' = {| rest := skipn (N.to_nat n) bs; last := 0 |}.
Proof. exact dec_top_sound. Qed.
Print Assumptions C04_sound.

(* completeness alone: every valid encoding - canonical or not - is accepted with the value it denotes *)
Theorem C04_complete : forall ty tag fl bs v n,
  spec_decode ty tag fl bs = Some (v, n) ->
  dec_top ty tag fl {| rest := bs; last := 0 |} = Ok (v, n, {| rest := skipn (N.to_nat n) bs; last := 0 |}).
Proof. exact dec_top_complete. Qed.
Print Assumptions C04_complete.

(* what is not well-formed is rejected, with one of the two error classes, never silently *)
Theorem C04_rejects : forall ty tag fl bs, tag <> ANY_TAG ->
  (spec_decode ty tag fl bs = None <->
   dec_top ty tag fl {| rest := bs; last := 0 |} = Err \/ dec_top ty tag fl {| rest := bs; last := 0 |} = ErrEOF).
Proof. exact decoder_rejects. Qed.
Print Assumptions C04_rejects.

(* hence no truncation of a valid message is accepted *)
Theorem C04_truncation_rejected : forall ty tag fl bs v n k,
  tag <> ANY_TAG -> spec_decode ty tag fl bs = Some (v, n) -> (k < N.to_nat n)%nat ->
  spec_decode ty tag fl (firstn k bs) = None.
Proof. exact truncation_rejected. Qed.
Print Assumptions C04_truncation_rejected.

(* the splitter is exact: what it accepts is the concatenation of the items it returns, each with a
   24-bit tag, an 8-bit type, its value of the declared length and padding to the next multiple of 8 -
   so no item over- or understates its content; and every such concatenation is accepted *)
Theorem C04_split_exact : forall bs its, split_items bs = Some its <-> Forall item_wf its /\ bs = flat_raw its.
Proof. exact split_items_exact. Qed.
Print Assumptions C04_split_exact.

(* the decider never runs out of fuel *)
Theorem C04_decides : forall ty tag fl st, dec_top ty tag fl st <> OutOfFuel.
Proof. exact dec_top_total. Qed.
Print Assumptions C04_decides.

(* INSTANCE: for every struct type of the tree regenerated on this run *)
Theorem C04_instance : forall ty bs v n st',
  inst_dec_top ty bs = Ok (v, n, st') <->
  inst_spec_decode ty bs = Some (v, n) /\ st' = {| rest := skipn (N.to_nat n) bs; last := 0 |}.
Proof. exact inst_decoder_is_spec. Qed.
Print Assumptions C04_instance.

(* non-vacuity: a RequestHeader spelling out Maximum Response Size = 0 is accepted and denotes the same
   value as the canonical encoding; a missing required field, a left-over item, an understated length,
   a Boolean 2 and a truncation are rejected *)
Theorem C04_example_noncanonical :
  inst_spec_decode "RequestHeader" hdr_noncanonical = Some (hdr_value, blen hdr_noncanonical) /\
  inst_spec_decode "RequestHeader" hdr_canonical = Some (hdr_value, blen hdr_canonical) /\
  inst_enc_top hdr_value = Some hdr_canonical /\ hdr_noncanonical <> hdr_canonical.
Proof. exact noncanonical_accepted. Qed.
Print Assumptions C04_example_noncanonical.

Theorem C04_example_rejections :
  inst_spec_decode "RequestHeader" hdr_no_batchcount = None /\
  inst_spec_decode "RequestHeader" hdr_trailing = None /\
  inst_spec_decode "RequestHeader" hdr_understated = None /\
  inst_spec_decode "RequestHeader" hdr_bad_bool = None /\
  inst_spec_decode "RequestHeader" (firstn 40 hdr_canonical) = None.
Proof. exact malformed_rejected. Qed.
Print Assumptions C04_example_rejections.
