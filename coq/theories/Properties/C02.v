(* C02 - Encode emits exactly the canonical KMIP TTLV bytes, a pure function of the value.
   Statements only.  [ser] / [to_tree] (TTLV.v) are the independent layout and presence rule
   sets; [enc_top] (Codec.v) is the model of encode.go, tied to /repo by the codec
   correspondence suite on every run. *)
From Coq Require Import String.
From Coq Require Import List NArith.
Require Import Bytes Schema Fields Codec TTLV CodecProofs Generated Instance.
Import ListNotations.
Open Scope N_scope.

(* for EVERY value and type environment: the encoder either fails or emits the canonical
   serialisation of the tree the presence rules assign to the value *)
Theorem C02_enc_canonical : forall (T : tyenv) (v : val), enc_top T v = omap ser (to_tree_top T v).
Proof. exact enc_top_canonical. Qed.
Print Assumptions C02_enc_canonical.

(* layout: every serialised item is a multiple of 8 bytes long ... *)
Theorem C02_padded : (forall t, blen (ser t) mod 8 = 0) /\ (forall l, blen (ser_list l) mod 8 = 0).
Proof. exact ser_mod8. Qed.
Print Assumptions C02_padded.

(* ... and a structure's declared length is the total size of its serialised children *)
Theorem C02_structure_length : forall tag cs,
  exists hdr, ser (TStructure tag cs) = (hdr ++ ser_list cs)%list /\ hdr = (be 3 tag ++ be 1 1 ++ be 4 (blen (ser_list cs)))%list.
Proof. exact ser_structure_length. Qed.
Print Assumptions C02_structure_length.

(* history independence: the encoder model takes no state; the generated facts that make this a
   faithful model: no function of the package assigns a package-level variable *)
Theorem C02_no_package_state_written : gen_pkg_var_writes = [].
Proof. reflexivity. Qed.
Print Assumptions C02_no_package_state_written.

(* the item type codes of the model are the ones consts.go declares *)
Theorem C02_type_codes : type_codes_b = true.
Proof. vm_compute. reflexivity. Qed.
Print Assumptions C02_type_codes.

(* the fixed-length primitives: item type code and value length per kind, as the model has them, are the ones every read* /
   write* function of decode_core.go / encode_core.go is written with (regenerated from the source on every run), and the
   model's encoder writes exactly that header *)
Require Import Generated Instance.
Theorem C02_primitive_layout_matches_code : prim_layout_b = true.
Proof. vm_compute. reflexivity. Qed.
Print Assumptions C02_primitive_layout_matches_code.

Theorem C02_fixed_primitive_header : forall tag k v b l,
  enc_prim tag k v = Some b -> fixed_len k = Some l ->
  firstn 8 b = header tag (type_code k) l /\ blen b = 16%N.
Proof.
  intros tag k v b l H Hl.
  destruct k; cbn in Hl; try discriminate; injection Hl as <-;
    destruct v; cbn [enc_prim] in H; try discriminate; injection H as <-;
    (split; [reflexivity|]); unfold blen; rewrite ?app_length; cbn; reflexivity.
Qed.
Print Assumptions C02_fixed_primitive_header.
