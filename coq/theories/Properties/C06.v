(* C06 - Message framing on a stream is independent of how the transport fragments bytes.
   Statements only. *)
From Coq Require Import String.
From Coq Require Import List NArith ZArith.
Require Import Bytes Schema Codec CodecProofs CodecRT SchemaCheck Instance InstanceProofs.
Import ListNotations.
Open Scope N_scope.

(* several messages written back to back on one stream: successive Decode calls on ONE decoder state
   return them one by one, in order, (normalised,) and then report io.EOF exactly at the clean end -
   for any number of messages of any size *)
Theorem C06_stream : forall T, env_ok T -> forall ty tag fl, T ty = Some (tag, fl) -> tag_ok tag ->
  forall ms bs fuel,
    Forall2 (fun vs b => wf T (SStruct ty fl) VNil (VStruct ty vs) /\ enc_top T (VStruct ty vs) = Some b) ms bs ->
    (length ms < fuel)%nat ->
    dec_stream fuel ty tag fl {| rest := concat bs; last := 0 |}
    = (map (fun vs => VStruct ty (normalize_fields T fl vs)) ms, SEOF).
Proof. exact stream_roundtrip. Qed.
Print Assumptions C06_stream.

(* each successful Decode consumes exactly its own message - 8 bytes plus the declared length - and
   leaves the decoder without look-ahead, whatever follows: the stream stays in sync *)
Theorem C06_exact_consumption : forall T, env_ok T ->
  forall ty tag fl vs b tl,
    T ty = Some (tag, fl) -> tag_ok tag -> wf T (SStruct ty fl) VNil (VStruct ty vs) ->
    enc_top T (VStruct ty vs) = Some b ->
    dec_top ty tag fl {| rest := (b ++ tl)%list; last := 0 |}
    = Ok (VStruct ty (normalize_fields T fl vs), blen b, {| rest := tl; last := 0 |}).
Proof. exact roundtrip_top. Qed.
Print Assumptions C06_exact_consumption.

Theorem C06_message_length : forall tag body, blen (wrap tag body) = 8 + blen body.
Proof. exact wrap_blen. Qed.
Print Assumptions C06_message_length.

(* the schema of the current tree satisfies the hypothesis *)
Theorem C06_instance : env_ok inst_T.
Proof. exact inst_codec_env_ok. Qed.
Print Assumptions C06_instance.

(* a decoded item always moves the stream forward *)
Theorem C06_forward_progress : forall s a st cur v nn st',
  dec_value s a st cur = Ok (v, nn, st') -> (length (rest st') + 5 <= length (rest st))%nat.
Proof. exact (proj1 dec_value_progress). Qed.
Print Assumptions C06_forward_progress.

(* ---------------------------------------------------------------------------------------------
   The same on the reader objects (Readers.v): however the transport fragments the bytes. *)
From Coq Require Import Lia.
Require Import Readers ReadersProofs.

(* several messages back to back, delivered by ANY script of read sizes (single bytes, any split,
   zero-length reads, last data together with io.EOF), through a buffered source or an io.ByteScanner:
   successive Decode calls on one Decoder return them one by one, in order, and then io.EOF *)
Theorem C06_chunking : forall T, env_ok T -> forall ty tag fl, T ty = Some (tag, fl) -> tag_ok tag ->
  forall ms bs fuel sizes weof scanner,
    Forall2 (fun vs b => wf T (SStruct ty fl) VNil (VStruct ty vs) /\ enc_top T (VStruct ty vs) = Some b) ms bs ->
    (length ms < fuel)%nat -> stall_free sizes ->
    fst (c_dec_stream fuel ty tag fl
           (new_decoder scanner {| b_data := concat bs; b_sizes := sizes; b_weof := weof; b_term := EOF |}))
    = (map (fun vs => VStruct ty (normalize_fields T fl vs)) ms, SEOF).
Proof.
  intros T HT ty tag fl Hty Htag ms bs fuel sizes weof scanner Hms Hfuel Hsf.
  set (b := {| b_data := concat bs; b_sizes := sizes; b_weof := weof; b_term := EOF |}).
  destruct (c_dec_stream fuel ty tag fl (new_decoder scanner b)) as [[vs e] s1] eqn:E.
  destruct (new_decoder_wf scanner b Hsf) as [Hw Hfl].
  assert (Hterm: b_term (Readers.bs (rd (new_decoder scanner b))) = EOF) by (destruct scanner; reflexivity).
  pose proof (stream_on_readers ty tag fl fuel _ _ _ _ Hw Hterm E) as R. rewrite Hfl in R. cbn [b_data b] in R.
  rewrite (stream_roundtrip T HT ty tag fl Hty Htag ms bs fuel Hms Hfuel) in R. injection R as <- <-.
  reflexivity.
Qed.
Print Assumptions C06_chunking.

(* from an io.ByteScanner (no buffering) a successful Decode leaves exactly the bytes after its own
   message in the source: 8 bytes plus the declared length were consumed, nothing more *)
Theorem C06_unbuffered_exact_consumption : forall T, env_ok T ->
  forall ty tag fl vs b tl sizes weof x s',
    T ty = Some (tag, fl) -> tag_ok tag -> wf T (SStruct ty fl) VNil (VStruct ty vs) ->
    enc_top T (VStruct ty vs) = Some b -> stall_free sizes ->
    c_dec_top ty tag fl (new_decoder true {| b_data := (b ++ tl)%list; b_sizes := sizes; b_weof := weof; b_term := EOF |}) = (x, s') ->
    x = Ok (VStruct ty (normalize_fields T fl vs), blen b) /\ b_data (Readers.bs (rd s')) = tl /\ clast s' = 0.
Proof.
  intros T HT ty tag fl vs b tl sizes weof x s' Hty Htag Hwf Henc Hsf H.
  set (b0 := {| b_data := (b ++ tl)%list; b_sizes := sizes; b_weof := weof; b_term := EOF |}) in *.
  destruct (new_decoder_wf true b0 Hsf) as [Hw Hfl].
  destruct (decode_on_readers _ _ _ _ _ _ Hw H) as [O F _ _]. rewrite Hfl in O, F. cbn [b_data b0] in O, F.
  rewrite (roundtrip_top T HT ty tag fl vs b tl Hty Htag Hwf Henc) in O, F.
  specialize (F eq_refl). cbn [strip] in F. split; [exact F|].
  destruct (O _ F) as (st' & Est & Efl & _ & Sh). injection Est as <-.
  destruct Sh as (_ & (K & _) & _). cbn [new_decoder rd ls map] in K.
  destruct (ls (rd s')) eqn:El; [|discriminate].
  unfold flat, rden in Efl. rewrite El in Efl. cbn [den] in Efl. injection Efl as -> ->. split; reflexivity.
Qed.
Print Assumptions C06_unbuffered_exact_consumption.
