(* C06 - Message framing on a stream is independent of how the transport fragments bytes.
   Statements only.  (Grows with CodecRT.v.) *)
From Coq Require Import String.
From Coq Require Import List NArith ZArith.
Require Import Bytes Schema Codec CodecProofs CodecRT.
Import ListNotations.
Open Scope N_scope.

(* a successfully decoded item took at least its type and length bytes: the stream position only moves forward *)
Theorem C06_forward_progress : forall s a st cur v nn st',
  dec_value s a st cur = Ok (v, nn, st') -> (length (rest st') + 5 <= length (rest st))%nat.
Proof. exact (proj1 dec_value_progress). Qed.
Print Assumptions C06_forward_progress.

(* items are consumed exactly: what follows a primitive item is untouched and no look-ahead is left *)
Theorem C06_item_exact_consumption : forall k tag v b tl st,
  tag <> 0 -> tag < 2 ^ 24 -> wf_prim k v -> enc_prim tag k v = Some b -> at_item tag b tl st ->
  dec_prim k tag st = Ok (v, blen b, {| rest := tl; last := 0 |}).
Proof. exact dec_prim_enc. Qed.
Print Assumptions C06_item_exact_consumption.
