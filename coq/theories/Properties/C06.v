(* C06 - Message framing on a stream is independent of how the transport fragments bytes.
   Statements only. *)
From Coq Require Import String.
From Coq Require Import List NArith ZArith.
Require Import Bytes Schema Codec CodecProofs CodecRT SchemaCheck Instance InstanceProofs.
Import ListNotations.
Open Scope N_scope.

(* several messages written back to back on one stream: successive Decode calls on ONE decoder state
   return them one by one, in order, (normalised,) and then report io.EOF exactly at the clean end -
   for any number of messages of any size *)
Theorem C06_stream : forall T, env_ok T -> forall ty tag fl, T ty = Some (tag, fl) -> tag_ok tag ->
  forall ms bs fuel,
    Forall2 (fun vs b => wf T (SStruct ty fl) VNil (VStruct ty vs) /\ enc_top T (VStruct ty vs) = Some b) ms bs ->
    (length ms < fuel)%nat ->
    dec_stream fuel ty tag fl {| rest := concat bs; last := 0 |}
    = (map (fun vs => VStruct ty (normalize_fields T fl vs)) ms, SEOF).
Proof. exact stream_roundtrip. Qed.
Print Assumptions C06_stream.

(* each successful Decode consumes exactly its own message - 8 bytes plus the declared length - and
   leaves the decoder without look-ahead, whatever follows: the stream stays in sync *)
Theorem C06_exact_consumption : forall T, env_ok T ->
  forall ty tag fl vs b tl,
    T ty = Some (tag, fl) -> tag_ok tag -> wf T (SStruct ty fl) VNil (VStruct ty vs) ->
    enc_top T (VStruct ty vs) = Some b ->
    dec_top ty tag fl {| rest := (b ++ tl)%list; last := 0 |}
    = Ok (VStruct ty (normalize_fields T fl vs), blen b, {| rest := tl; last := 0 |}).
Proof. exact roundtrip_top. Qed.
Print Assumptions C06_exact_consumption.

Theorem C06_message_length : forall tag body, blen (wrap tag body) = 8 + blen body.
Proof. exact wrap_blen. Qed.
Print Assumptions C06_message_length.

(* the schema of the current tree satisfies the hypothesis *)
Theorem C06_instance : env_ok inst_T.
Proof. exact inst_codec_env_ok. Qed.
Print Assumptions C06_instance.

(* a decoded item always moves the stream forward *)
Theorem C06_forward_progress : forall s a st cur v nn st',
  dec_value s a st cur = Ok (v, nn, st') -> (length (rest st') + 5 <= length (rest st))%nat.
Proof. exact (proj1 dec_value_progress). Qed.
Print Assumptions C06_forward_progress.
