(* C05 - Decode memory is proportional to bytes actually received, not declared lengths.
   Statements only.  Readers.v is the decoder on models of the reader objects it uses (bufio,
   LimitedReader, ReadFull, CopyN into a growing bytes.Buffer) and charges an allocation ledger for
   every make / new / append / boxing / error value the Go code performs (constants K_* are upper
   bounds; the ledger is compared with runtime.MemStats.TotalAlloc on every run). *)
From Coq Require Import String.
From Coq Require Import List NArith ZArith Lia Bool Strings.Byte.
Require Import Bytes Schema Codec CodecProofs Readers ReadersProofs LedgerProofs Instance.
Import ListNotations.
Open Scope N_scope.

(* reading a value of declared length n succeeds only if n bytes are really there, and then holds exactly n *)
Theorem C05_value_within_input : forall n s b s', read_nN n s = Ok (b, s') -> blen b = n /\ n <= blen (rest s).
Proof.
  intros n s b s' H. unfold read_nN in H. destruct (N.leb_spec n (blen (rest s))) as [Hle|Hgt].
  - apply read_n_ok in H. destruct H as [_ [_ [-> _]]]. split; [|exact Hle].
    unfold blen in *. rewrite firstn_length. lia.
  - destruct (rest s); discriminate.
Qed.
Print Assumptions C05_value_within_input.

(* the region handed to a nested decoder is never larger than what is really there, whatever length was declared *)
Theorem C05_region_within_input : forall len l, blen (takeN len l) <= blen l /\ blen (takeN len l) <= len.
Proof. intros len l. unfold takeN, blen. rewrite firstn_length. lia. Qed.
Print Assumptions C05_region_within_input.

(* the buffer io.CopyN grows for a string / byte string: at most 4 x the bytes that really arrived + 2 KiB,
   whatever the declared length l - for every script of the transport, success or failure *)
Theorem C05_string_buffer_follows_data : forall l r x r' al, wf_reader r -> copy_buf l r = (x, r', al) ->
  al + 4 * blen (rden r') <= 4 * blen (rden r) + 2048.
Proof. exact copy_buf_cost. Qed.
Print Assumptions C05_string_buffer_follows_data.

(* THE BOUND.  One Decode call, on a decoder in any well-formed state, for every schema whose structures have at most
   30 fields, every input, every script of the transport, whether it succeeds or fails: the ledger grows by at most
   A = 1536 bytes per byte the reader can still deliver (+3 for a tag already looked at) plus EB = 8 KiB.
   Lengths declared inside the input do not occur in the bound. *)
Theorem C05_alloc_linear : forall ty tag fl s x s',
  (flist_len fl <=? NMAX) && small_fl fl = true -> wf_c s -> c_dec_top ty tag fl s = (x, s') ->
  (Z.of_N (alloc s') <= Z.of_N (alloc s) + A * phi s + EB)%Z.
Proof. exact decode_alloc_linear. Qed.
Print Assumptions C05_alloc_linear.

(* from a fresh Decoder on a transport that will deliver [data] (by any script, ending in EOF or in an I/O error) *)
Theorem C05_decode_bound : forall ty tag fl data sizes weof term scanner x s',
  (flist_len fl <=? NMAX) && small_fl fl = true -> stall_free sizes ->
  c_dec_top ty tag fl (new_decoder scanner {| b_data := data; b_sizes := sizes; b_weof := weof; b_term := term |}) = (x, s') ->
  (Z.of_N (alloc s') <= 1536 * Z.of_N (blen data) + 8192 + 4288)%Z.
Proof.
  intros ty tag fl data sizes weof term scanner x s' Hsm Hsf H.
  set (b := {| b_data := data; b_sizes := sizes; b_weof := weof; b_term := term |}) in *.
  destruct (new_decoder_wf scanner b Hsf) as [Hw Hfl].
  pose proof (decode_alloc_linear _ _ _ _ _ _ Hsm Hw H) as R.
  assert (Hphi: phi (new_decoder scanner b) = Z.of_N (blen data)).
  { unfold phi, look. apply (f_equal rest) in Hfl. unfold flat in Hfl. cbn [rest] in Hfl. rewrite Hfl.
    destruct scanner; cbn; lia. }
  assert (Ha: (Z.of_N (alloc (new_decoder scanner b)) <= 4288)%Z) by (destruct scanner; cbn; lia).
  rewrite Hphi in R. unfold A, EB in R. lia.
Qed.
Print Assumptions C05_decode_bound.

(* INSTANCE: every structure type of the schema regenerated from /repo has at most 30 fields, at every nesting level *)
Definition inst_small_b : bool :=
  forallb (fun e => (flist_len (snd (snd e)) <=? NMAX) && small_fl (snd (snd e))) the_type_table.
Theorem C05_instance_small : inst_small_b = true.
Proof. vm_compute. reflexivity. Qed.
Print Assumptions C05_instance_small.

Theorem C05_instance : forall ty tag fl, inst_T ty = Some (tag, fl) -> (flist_len fl <=? NMAX) && small_fl fl = true.
Proof.
  intros ty tag fl H. unfold inst_T in H. pose proof C05_instance_small as S. unfold inst_small_b in S.
  rewrite forallb_forall in S.
  assert (Hin: In (ty, (tag, fl)) the_type_table).
  { revert H. generalize the_type_table. induction l as [|[k v] r IH]; cbn [tassoc]; [discriminate|].
    destruct (String.eqb_spec ty k) as [->|Hne].
    - intros E. injection E as ->. left. reflexivity.
    - intros E. right. apply IH. exact E. }
  exact (S _ Hin).
Qed.
Print Assumptions C05_instance.

(* the hypothesis has instances and the bound bites: a 16-byte Request header that declares a 4 GiB structure *)
Example C05_example_planted_length :
  let data := [x42;x00;x78;x01;xff;xff;xff;xf8; x42;x00;x77;x01;xff;xff;xff;xf0] in
  match inst_T "Request" with
  | Some (tag, fl) =>
      let '(x, s') := c_dec_top "Request" tag fl (new_decoder false {| b_data := data; b_sizes := [1;0;2;5]; b_weof := true; b_term := EOF |}) in
      x = Err /\ alloc s' < 32768
  | None => False
  end.
Proof. vm_compute. split; reflexivity. Qed.
