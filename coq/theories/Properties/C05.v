(* C05 - Decode memory is proportional to bytes actually received, not declared lengths.
   Statements only.  What the model can carry: a value or a nested region is only ever as large as
   the bytes that are really there, whatever length the item declares. *)
From Coq Require Import String.
From Coq Require Import List NArith ZArith Lia.
Require Import Bytes Schema Codec CodecProofs.
Import ListNotations.
Open Scope N_scope.

(* reading a value of declared length n succeeds only if n bytes are really there, and then holds exactly n *)
Theorem C05_value_within_input : forall n s b s', read_nN n s = Ok (b, s') -> blen b = n /\ n <= blen (rest s).
Proof.
  intros n s b s' H. unfold read_nN in H. destruct (N.leb_spec n (blen (rest s))) as [Hle|Hgt].
  - apply read_n_ok in H. destruct H as [_ [_ [-> _]]]. split; [|exact Hle].
    unfold blen in *. rewrite firstn_length. lia.
  - destruct (rest s); discriminate.
Qed.
Print Assumptions C05_value_within_input.

(* the region handed to a nested decoder is never larger than what is really there, whatever length was declared *)
Theorem C05_region_within_input : forall len l, blen (takeN len l) <= blen l /\ blen (takeN len l) <= len.
Proof. intros len l. unfold takeN, blen. rewrite firstn_length. lia. Qed.
Print Assumptions C05_region_within_input.
