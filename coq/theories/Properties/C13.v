(* C13 - Encode/Decode never panic on the Go value given; a failed Encode writes nothing.
   Statements only.  The model is a total function: "never panics" is the correspondence
   (the harness observes panics of the implementation); what is proved here is the decision
   table - which values are errors - and that an error leaves the destination untouched. *)
From Coq Require Import String.
From Coq Require Import List NArith.
Require Import Bytes Schema Codec.
Import ListNotations.

Theorem C13_failed_writes_nothing : forall T w v, snd (enc_to T w v) = false -> fst (enc_to T w v) = w.
Proof. intros T w v. unfold enc_to. destruct (enc_top T v); cbn; [discriminate|reflexivity]. Qed.
Print Assumptions C13_failed_writes_nothing.

Theorem C13_success_appends_message : forall T w v, snd (enc_to T w v) = true ->
  exists b, enc_top T v = Some b /\ fst (enc_to T w v) = (w ++ b)%list.
Proof. intros T w v. unfold enc_to. destruct (enc_top T v); cbn; [eauto|discriminate]. Qed.
Print Assumptions C13_success_appends_message.

(* top level: nil, typed nil, scalars, maps, slices, pointer-to-pointer are errors *)
Theorem C13_top_level_rejects :
  forall T, enc_top T VNil = None /\ (forall w, enc_top T (VBad w) = None) /\
            (forall v, enc_top T (VPtr (VPtr v)) = None) /\ (forall z, enc_top T (VInt z) = None) /\
            (forall vs, enc_top T (VList vs) = None) /\
            (forall ty vs, T ty = None -> enc_top T (VStruct ty vs) = None).
Proof.
  intros T. repeat split; try reflexivity.
  intros ty vs H. cbn. rewrite H. reflexivity.
Qed.
Print Assumptions C13_top_level_rejects.

(* interface-typed positions: nil, unsupported kinds, pointer-to-pointer, structs with bad
   annotations (no descriptor) are errors, whatever the dispatch table says *)
Theorem C13_dynamic_rejects :
  forall T h ki cs tag,
    enc_value T (SDyn h ki cs) tag VNil = None /\
    (forall w, enc_value T (SDyn h ki cs) tag (VBad w) = None) /\
    (forall w, enc_value T (SDyn h ki cs) tag (VPtr (VBad w)) = None) /\
    (forall v, enc_value T (SDyn h ki cs) tag (VPtr (VPtr v)) = None) /\
    (forall vs, enc_value T (SDyn h ki cs) tag (VList vs) = None) /\
    (forall ty vs, T ty = None -> enc_value T (SDyn h ki cs) tag (VStruct ty vs) = None).
Proof.
  intros. repeat split; try reflexivity.
  intros ty vs H. cbn. rewrite H. reflexivity.
Qed.
Print Assumptions C13_dynamic_rejects.

(* ---- the reflective calls: for EVERY universe of Go struct declarations (user-defined types included) ---- *)
Require Import Fields Reflect.

(* whatever getStructDesc (Fields.v) accepts: every field descriptor belongs to an exported, annotated field whose
   tag name resolves, and was derived from that field's (element) type by guessType *)
Theorem C13_descriptor_well_formed : forall tagmap named structs ty sd,
  get_struct_desc tagmap named structs ty = ROk sd ->
  Forall (fun d => exists f, described tagmap named structs f d) (sd_fields sd).
Proof. exact get_struct_desc_described. Qed.
Print Assumptions C13_descriptor_well_formed.

(* Encode: the accessor applied to a field / element - rv.Int, Uint, Bool, String, Bytes, .(time.Time), .(time.Duration) -
   fits its Kind / exact type, so it cannot panic; a STRUCTURE descriptor sits on a struct type or an interface *)
Theorem C13_encode_accessors_fit : forall tagmap named structs f d,
  described tagmap named structs f d ->
  (forall k, fd_typ d = FPrim k -> accessor_fits k (field_elem named f)) /\
  match fd_typ d with
  | FStruct n => is_struct structs (field_elem named f) n
  | FDyn => is_iface named structs (field_elem named f)
  | FPrim _ => True
  end.
Proof.
  intros tagmap named structs f d H. split.
  - intros k Hk. exact (encode_accessor_fits tagmap named structs f d k H Hk).
  - exact (encode_structure_target tagmap named structs f d H).
Qed.
Print Assumptions C13_encode_accessors_fit.

(* a field of an unsupported type (any other kind, a slice of slices, a user-defined type of a core kind ...) never gets
   a descriptor: getStructDesc answers with an error for the whole structure type *)
Theorem C13_unsupported_field_types_rejected : forall tagmap named structs f d,
  described tagmap named structs f d ->
  match field_elem named f with TOther _ | TSliceOf _ | TTagTy => False | _ => True end.
Proof. exact unsupported_field_rejects. Qed.
Print Assumptions C13_unsupported_field_types_rejected.

(* the hypothesis is satisfiable: the library's own Name structure gets a descriptor with its two fields *)
Require Import Generated Instance.
Example C13_descriptor_example :
  match get_struct_desc the_tagmap gen_named gen_structs "Name" with
  | ROk sd => map fd_typ (sd_fields sd) = [FPrim KStr; FPrim KEnum]
  | RErr _ => False
  end.
Proof. vm_compute. reflexivity. Qed.

(* a nested structure type without a descriptor is elaborated as a position no value can occupy (Fields.elab_struct): whatever
   arrives there fails to decode, and a structure value of a type without a descriptor - or nil - fails to encode *)
Theorem C13_position_without_descriptor : forall T h ki a st cur tag,
  dec_value (SDyn h ki DNil) a st cur = Err /\
  (forall ty vs, T ty = None -> enc_value T (SDyn h ki DNil) tag (VStruct ty vs) = None) /\
  enc_value T (SDyn h ki DNil) tag VNil = None.
Proof.
  intros. split; [reflexivity|]. split; [|reflexivity].
  intros ty vs H. cbn. rewrite H. reflexivity.
Qed.
Print Assumptions C13_position_without_descriptor.
