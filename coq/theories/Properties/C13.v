(* C13 - Encode/Decode never panic on the Go value given; a failed Encode writes nothing.
   Statements only.  The model is a total function: "never panics" is the correspondence
   (the harness observes panics of the implementation); what is proved here is the decision
   table - which values are errors - and that an error leaves the destination untouched. *)
From Coq Require Import String.
From Coq Require Import List NArith.
Require Import Bytes Schema Codec.
Import ListNotations.

Theorem C13_failed_writes_nothing : forall T w v, snd (enc_to T w v) = false -> fst (enc_to T w v) = w.
Proof. intros T w v. unfold enc_to. destruct (enc_top T v); cbn; [discriminate|reflexivity]. Qed.
Print Assumptions C13_failed_writes_nothing.

Theorem C13_success_appends_message : forall T w v, snd (enc_to T w v) = true ->
  exists b, enc_top T v = Some b /\ fst (enc_to T w v) = (w ++ b)%list.
Proof. intros T w v. unfold enc_to. destruct (enc_top T v); cbn; [eauto|discriminate]. Qed.
Print Assumptions C13_success_appends_message.

(* top level: nil, typed nil, scalars, maps, slices, pointer-to-pointer are errors *)
Theorem C13_top_level_rejects :
  forall T, enc_top T VNil = None /\ (forall w, enc_top T (VBad w) = None) /\
            (forall v, enc_top T (VPtr (VPtr v)) = None) /\ (forall z, enc_top T (VInt z) = None) /\
            (forall vs, enc_top T (VList vs) = None) /\
            (forall ty vs, T ty = None -> enc_top T (VStruct ty vs) = None).
Proof.
  intros T. repeat split; try reflexivity.
  intros ty vs H. cbn. rewrite H. reflexivity.
Qed.
Print Assumptions C13_top_level_rejects.

(* interface-typed positions: nil, unsupported kinds, pointer-to-pointer, structs with bad
   annotations (no descriptor) are errors, whatever the dispatch table says *)
Theorem C13_dynamic_rejects :
  forall T h ki cs tag,
    enc_value T (SDyn h ki cs) tag VNil = None /\
    (forall w, enc_value T (SDyn h ki cs) tag (VBad w) = None) /\
    (forall w, enc_value T (SDyn h ki cs) tag (VPtr (VBad w)) = None) /\
    (forall v, enc_value T (SDyn h ki cs) tag (VPtr (VPtr v)) = None) /\
    (forall vs, enc_value T (SDyn h ki cs) tag (VList vs) = None) /\
    (forall ty vs, T ty = None -> enc_value T (SDyn h ki cs) tag (VStruct ty vs) = None).
Proof.
  intros. repeat split; try reflexivity.
  intros ty vs H. cbn. rewrite H. reflexivity.
Qed.
Print Assumptions C13_dynamic_rejects.
