(* C03 - Decode is total and safe on arbitrary bytes.  Statements only. *)
From Coq Require Import String.
From Coq Require Import List NArith.
Require Import Bytes Schema Codec CodecProofs.
Import ListNotations.

(* for EVERY schema, decoder state and byte string the decoder model terminates with a value or
   an error: the fuel of its only loop (slice elements) always suffices, because every decoded
   element takes at least 5 bytes from the reader.  Struct nesting is structural recursion. *)
Theorem C03_total : forall ty tag fl st, dec_top ty tag fl st <> OutOfFuel.
Proof. exact dec_top_total. Qed.
Print Assumptions C03_total.

Theorem C03_total_all :
  (forall s a st cur, dec_value s a st cur <> OutOfFuel) /\
  (forall fl i explen dd actual nsum cur, dec_fields fl i explen dd actual nsum cur <> OutOfFuel) /\
  (forall cs key a st, dec_cases cs key a st <> OutOfFuel).
Proof. exact dec_nofuel. Qed.
Print Assumptions C03_total_all.

(* progress: a successfully decoded item consumed at least its type and length bytes *)
Theorem C03_progress : forall s a st cur v nn st',
  dec_value s a st cur = Ok (v, nn, st') -> (length (rest st') + 5 <= length (rest st))%nat.
Proof. exact (proj1 dec_value_progress). Qed.
Print Assumptions C03_progress.
