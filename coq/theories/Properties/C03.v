(* C03 - Decode is total and safe on arbitrary bytes.  Statements only. *)
From Coq Require Import String.
From Coq Require Import List NArith.
Require Import Bytes Schema Codec CodecProofs.
Import ListNotations.

(* for EVERY schema, decoder state and byte string the decoder model terminates with a value or
   an error: the fuel of its only loop (slice elements) always suffices, because every decoded
   element takes at least 5 bytes from the reader.  Struct nesting is structural recursion. *)
Theorem C03_total : forall ty tag fl st, dec_top ty tag fl st <> OutOfFuel.
Proof. exact dec_top_total. Qed.
Print Assumptions C03_total.

Theorem C03_total_all :
  (forall s a st cur, dec_value s a st cur <> OutOfFuel) /\
  (forall fl i explen dd actual nsum cur, dec_fields fl i explen dd actual nsum cur <> OutOfFuel) /\
  (forall cs key a st, dec_cases cs key a st <> OutOfFuel).
Proof. exact dec_nofuel. Qed.
Print Assumptions C03_total_all.

(* progress: a successfully decoded item consumed at least its type and length bytes *)
Theorem C03_progress : forall s a st cur v nn st',
  dec_value s a st cur = Ok (v, nn, st') -> (length (rest st') + 5 <= length (rest st))%nat.
Proof. exact (proj1 dec_value_progress). Qed.
Print Assumptions C03_progress.

(* ---------------------------------------------------------------------------------------------
   Delivery independence.  Readers.v is the decoder once more, reading through models of the Go
   reader objects it really uses - the transport handing out the data in an arbitrary scripted
   sequence of read sizes (empty reads, data together with the terminal error), bufio.Reader,
   io.LimitedReader, io.ReadFull, io.CopyN.  For EVERY script: *)
From Coq Require Import Lia.
Require Import Readers ReadersProofs.
Open Scope N_scope.

Definition transport (data : bytes) (sizes : list N) (weof : bool) (term : ioerr) : base :=
  {| b_data := data; b_sizes := sizes; b_weof := weof; b_term := term |}.

(* a transport that ends with io.EOF: Decode returns exactly what it returns on the bytes in memory -
   the same value, the same error class - whatever the fragmentation, through a buffered source
   (scanner = false: NewDecoder wraps it in a bufio.Reader) or an io.ByteScanner (scanner = true) *)
Theorem C03_delivery_independent : forall ty tag fl data sizes weof scanner x s',
  stall_free sizes ->          (* fewer than 100 consecutive empty reads: bufio's io.ErrNoProgress rule *)
  c_dec_top ty tag fl (new_decoder scanner (transport data sizes weof EOF)) = (x, s') ->
  x = strip (dec_top ty tag fl {| rest := data; last := 0 |}).
Proof.
  intros ty tag fl data sizes weof scanner x s' Hsf H.
  destruct (new_decoder_wf scanner (transport data sizes weof EOF) Hsf) as [Hw Hfl].
  destruct (decode_on_readers _ _ _ _ _ _ Hw H) as [_ F _ _]. rewrite Hfl in F. apply F.
  destruct scanner; reflexivity.
Qed.
Print Assumptions C03_delivery_independent.

(* the same for a caller-supplied bufio.Reader of any buffer size *)
Theorem C03_delivery_independent_bufio : forall ty tag fl data sizes weof size x s',
  0 < size -> stall_free sizes ->
  c_dec_top ty tag fl (new_decoder_bufio size (transport data sizes weof EOF)) = (x, s') ->
  x = strip (dec_top ty tag fl {| rest := data; last := 0 |}).
Proof.
  intros ty tag fl data sizes weof size x s' Hs Hsf H.
  destruct (new_decoder_bufio_wf size (transport data sizes weof EOF) Hs Hsf) as [Hw Hfl].
  destruct (decode_on_readers _ _ _ _ _ _ Hw H) as [_ F _ _]. rewrite Hfl in F. apply F. reflexivity.
Qed.
Print Assumptions C03_delivery_independent_bufio.

(* a transport that ends in an I/O error at any offset: Decode still terminates (no loop runs out of
   fuel, bufio never gives up), and it returns nil only if the bytes that did arrive decode to that
   very value in memory - an I/O error is never turned into a success or into another value *)
Theorem C03_io_error_safe : forall ty tag fl data sizes weof scanner x s',
  stall_free sizes ->
  c_dec_top ty tag fl (new_decoder scanner (transport data sizes weof IOE)) = (x, s') ->
  x <> OutOfFuel /\
  (forall v n, x = Ok (v, n) -> exists st', dec_top ty tag fl {| rest := data; last := 0 |} = Ok (v, n, st')).
Proof.
  intros ty tag fl data sizes weof scanner x s' Hsf H.
  destruct (new_decoder_wf scanner (transport data sizes weof IOE) Hsf) as [Hw Hfl].
  destruct (decode_on_readers _ _ _ _ _ _ Hw H) as [O _ U _]. rewrite Hfl in O, U. split.
  - intros E. apply (dec_top_total _ _ _ _ (U E)).
  - intros v n E. destruct (O _ E) as (st' & Ef & _). exists st'. exact Ef.
Qed.
Print Assumptions C03_io_error_safe.

(* the statement has instances: a 300-byte script with empty reads and data delivered with EOF *)
Example C03_script_example : stall_free [3; 0; 0; 5; 1; 0; 7; 100] /\ stall_free (repeat 1 300).
Proof. split; vm_compute; repeat split; lia. Qed.

(* reading from an unbuffered byte source (io.ByteScanner) Decode never consumes bytes beyond the outermost
   item's declared end - on EVERY outcome, for every input and every way the source hands out its bytes
   (schemas with at most 30 fields per structure; the regenerated schema is one: C05_instance) *)
Require Import LedgerProofs.
Theorem C03_no_overread : forall ty tag fl data sizes weof term x s',
  ((flist_len fl <=? NMAX) && small_fl fl)%bool = true -> stall_free sizes ->
  c_dec_top ty tag fl (new_decoder true (transport data sizes weof term)) = (x, s') ->
  ls (rd s') = [] /\
  blen data <= blen (b_data (bs (rd s'))) + 8 + (if 8 <=? blen data then unbe (firstn 4 (skipn 4 data)) 0 else 0).
Proof.
  intros ty tag fl data sizes weof term x s' Hsm Hsf H.
  destruct (new_decoder_wf true (transport data sizes weof term) Hsf) as [Hw Hfl].
  destruct (struct_no_overread ty fl (top_attr tag) VNone Hsm _ _ _ Hw H) as (Sh & len & C1 & C2).
  assert (Hls: ls (rd s') = []).
  { destruct Sh as (_ & (K & _) & _). cbn [new_decoder rd ls map] in K. destruct (ls (rd s')); [reflexivity|discriminate]. }
  split; [exact Hls|].
  assert (Hr': rden (rd s') = b_data (bs (rd s'))) by (unfold rden; rewrite Hls; reflexivity).
  assert (Hr: rden (rd (new_decoder true (transport data sizes weof term))) = data) by reflexivity.
  rewrite Hr, Hr' in C1, C2.
  destruct (N.leb_spec 8 (blen data)) as [H8|H8]; [apply C2; [exact H8|reflexivity]|lia].
Qed.
Print Assumptions C03_no_overread.

(* ---- "reflection sets only values of the exact field / element type": for EVERY universe of Go struct declarations,
   the value decodeValue hands back for a descriptor is assignable to the field it is Set into (or the element type of
   the slice it is Appended to), so reflect.Value.Set / reflect.Append cannot panic on a type confusion ---- *)
Require Import Fields Reflect.
Theorem C03_stores_are_type_exact : forall tagmap named structs f d vt,
  described tagmap named structs f d ->
  produced (fd_typ d) vt ->
  assignable named structs vt (field_elem named f) /\
  (fd_slice d = true -> slice_elem named (rf_type f) = Some (field_elem named f)).
Proof.
  intros tagmap named structs f d vt H Hp. split.
  - exact (decode_store_assignable tagmap named structs f d vt H Hp).
  - exact (decode_slice_target tagmap named structs f d H).
Qed.
Print Assumptions C03_stores_are_type_exact.
