(* C10 - Malformed or hostile byte streams only cost the sender its own connection.
   Statements only. *)
From Coq Require Import String.
From Coq Require Import List NArith ZArith.
Require Import Bytes Schema Codec Session SessionProofs.
Import ListNotations.

(* for EVERY byte stream: handler invocations and responses occur only inside iterations whose
   message decoded completely (dec_top = Ok) and was cleared (count consistent, not asynchronous,
   credentials accepted); the first message that is not is followed by Close and nothing else *)
Theorem C10_step : forall T K c st script,
  let '(evs, k) := request_step T K c st script in step_result T K c st script evs k.
Proof. exact request_step_spec. Qed.
Print Assumptions C10_step.

Theorem C10_trace : forall T K c input script,
  c_tls c = None ->
  match c_sess_auth c with
  | Some false => session T K c input script = [ESessAuth false; EClose CloseError]
  | Some true => exists t, session T K c input script = ESessAuth true :: t /\ trace_ok c t
  | None => trace_ok c (session T K c input script)
  end.
Proof. exact session_trace. Qed.
Print Assumptions C10_trace.

(* the session model terminates on every input (no crash / no divergence event) *)
Theorem C10_terminates : forall c t, trace_ok c t -> ~ In EOutOfFuel t.
Proof. exact trace_ok_no_fuel. Qed.
Print Assumptions C10_terminates.

(* sessions are a function of their own connection only: the model of a server with several
   connections is the map of [session] over them, so one connection's bytes cannot appear in
   another's trace *)
Definition server_run T K (conns : list (cfg * bytes * list behaviour)) : list (list event) :=
  map (fun x => session T K (fst (fst x)) (snd (fst x)) (snd x)) conns.
Theorem C10_isolation : forall T K conns i c inp sc,
  nth_error conns i = Some (c, inp, sc) -> nth_error (server_run T K conns) i = Some (session T K c inp sc).
Proof. intros T K conns i c inp sc H. unfold server_run. rewrite nth_error_map, H. reflexivity. Qed.
Print Assumptions C10_isolation.

(* ---- the byte stream as the transport really delivers it (reader objects of C03): any script of read sizes, ending
   with io.EOF or FAILING with an I/O error at any offset (reset, deadline) ---- *)
Require Import Readers ReadersProofs SessionReaders.

(* the peer closes: the trace is the one computed on the flat stream (all statements above apply to it) *)
Theorem C10_any_fragmentation : forall T K c input sizes weof script,
  stall_free sizes ->
  c_session_body T K c input sizes weof script = session_body T K c input script.
Proof. exact session_fragmentation_independent. Qed.
Print Assumptions C10_any_fragmentation.

(* the connection fails instead: what can be observed of the session - request authentication, handler invocations,
   responses - is a prefix of what happens on the bytes that were delivered; a failure never makes the server run a
   handler or send a response it would not have run or sent on those bytes *)
Theorem C10_failing_connection : forall T K fuel c conn script,
  transport_ok conn ->
  prefix (filter visible (c_serve_loop T K fuel c (new_decoder false conn) script))
         (filter visible (serve_loop T K fuel c {| rest := b_data conn; last := 0 |} script)).
Proof. exact failing_connection_prefix. Qed.
Print Assumptions C10_failing_connection.

(* the hypothesis is satisfiable: a connection that hands out its bytes in reads of 1, 0, 3 and 2 bytes and then fails *)
Example C10_failing_transport_example :
  transport_ok {| b_data := [Byte.x42; Byte.x00; Byte.x78; Byte.x01; Byte.x00; Byte.x00]; b_sizes := [1; 0; 3; 2]%N; b_weof := true; b_term := IOE |}.
Proof. cbn. repeat split; auto with arith. Qed.
