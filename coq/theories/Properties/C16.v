(* C16 - Default TLS configuration enforces mutual authentication and TLS >= 1.2.
   Statements only.  gen_DefaultServerTLSConfig / gen_DefaultClientTLSConfig are the assignments of
   tls.go, regenerated on every run; TLS.v's server_handshake_ok / client_handshake_ok specify
   crypto/tls (validated against the real library over the whole peer space by the tls suite). *)
From Coq Require Import String.
From Coq Require Import List NArith Bool.
Require Import Schema Generated TLS.
Import ListNotations.
Open Scope N_scope.

Definition default_server_cfg : option tlscfg := apply_assignments gen_DefaultServerTLSConfig zero_server_cfg.
Definition default_client_cfg : option tlscfg := apply_assignments gen_DefaultClientTLSConfig zero_client_cfg.

(* what the functions of this tree assign *)
Theorem C16_defaults :
  gen_DefaultServerTLSConfig_found = true /\ gen_DefaultClientTLSConfig_found = true /\
  default_server_cfg = Some {| min_version := 771; cauth := RequireAndVerifyClientCert; insecure_skip_verify := false |} /\
  default_client_cfg = Some {| min_version := 771; cauth := NoClientCert; insecure_skip_verify := false |}.
Proof. repeat split; reflexivity. Qed.
Print Assumptions C16_defaults.

(* whatever the configuration held before (weaker MinVersion / ClientAuth included), after the call the
   fields that decide who is cleared are the defaults: the assignments are unconditional *)
Theorem C16_overwrites_weaker_settings : forall c0 c,
  apply_assignments gen_DefaultServerTLSConfig c0 = Some c -> min_version c = 771 /\ cauth c = RequireAndVerifyClientCert.
Proof. intros c0 c H. cbn in H. injection H as <-. split; reflexivity. Qed.
Print Assumptions C16_overwrites_weaker_settings.

Theorem C16_client_overwrites_weaker_version : forall c0 c,
  apply_assignments gen_DefaultClientTLSConfig c0 = Some c -> min_version c = 771 /\ insecure_skip_verify c = insecure_skip_verify c0.
Proof. intros c0 c H. cbn in H. injection H as <-. split; reflexivity. Qed.
Print Assumptions C16_client_overwrites_weaker_version.

(* server: for EVERY peer, a completed handshake means TLS >= 1.2 and a certificate that verifies
   against the client-CA pool; nothing else gets as far as the session (callbacks, handlers, responses) *)
Theorem C16_server : forall c p, default_server_cfg = Some c -> server_handshake_ok c p = true ->
  plaintext p = false /\ 771 <= max_version p /\ cert_verifies (cert p) = true.
Proof.
  intros c p Hc H. injection Hc as <-. unfold server_handshake_ok in H. cbn [min_version cauth] in H.
  apply andb_true_iff in H; destruct H as [H H3]. apply andb_true_iff in H; destruct H as [H1 H2].
  apply negb_true_iff in H1. apply N.leb_le in H2. repeat split; auto.
  destruct (N.min_spec (max_version p) 772) as [[_ E]|[_ E]]; rewrite E in H2; [exact H2|].
  apply N.min_r_iff in E. etransitivity; [|exact E]. discriminate.
Qed.
Print Assumptions C16_server.

(* client: a completed handshake means TLS >= 1.2 and a server certificate that verifies against the
   root pool and matches the host name; no request is sent otherwise (Connect fails before Send) *)
Theorem C16_client : forall c p, default_client_cfg = Some c -> client_handshake_ok c p = true ->
  plaintext p = false /\ 771 <= max_version p /\ cert p = CertValid.
Proof.
  intros c p Hc H. injection Hc as <-. unfold client_handshake_ok in H. cbn [min_version insecure_skip_verify orb] in H.
  apply andb_true_iff in H; destruct H as [H H3]. apply andb_true_iff in H; destruct H as [H1 H2].
  apply negb_true_iff in H1. apply N.leb_le in H2. repeat split; auto.
  - destruct (N.min_spec (max_version p) 772) as [[_ E]|[_ E]]; rewrite E in H2; [exact H2|].
    apply N.min_r_iff in E. etransitivity; [|exact E]. discriminate.
  - destruct (cert p); try discriminate; reflexivity.
Qed.
Print Assumptions C16_client.

(* one *tls.Config prepared for BOTH roles (a process that is a KMIP server and a client of another one): the client helper
   leaves the server's client-authentication policy alone and the server helper leaves the client's verification switch
   alone, so in either order the result keeps both guarantees *)
Theorem C16_helpers_do_not_undo_each_other : forall c0 c,
  (apply_assignments gen_DefaultClientTLSConfig c0 = Some c -> cauth c = cauth c0 /\ 771 <= min_version c) /\
  (apply_assignments gen_DefaultServerTLSConfig c0 = Some c -> insecure_skip_verify c = insecure_skip_verify c0).
Proof.
  intros c0 c. split; intros H; cbn in H; injection H as <-; cbn; [split; [reflexivity|discriminate]|reflexivity].
Qed.
Print Assumptions C16_helpers_do_not_undo_each_other.

Theorem C16_shared_config : forall c0 s c p,
  apply_assignments gen_DefaultServerTLSConfig c0 = Some s ->
  apply_assignments gen_DefaultClientTLSConfig s = Some c ->
  server_handshake_ok c p = true ->
  plaintext p = false /\ 771 <= max_version p /\ cert_verifies (cert p) = true.
Proof.
  intros c0 s c p Hs Hc. cbn in Hs. injection Hs as <-. cbn in Hc. injection Hc as <-.
  exact (C16_server _ p eq_refl).
Qed.
Print Assumptions C16_shared_config.
