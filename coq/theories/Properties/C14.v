(* C14 - Client returns a payload only for a matching successful reply, and never panics.
   Statements only.  Client.v models Client.Send / DiscoverVersions; tied to /repo by running the
   real Client against a scripted TLS peer and the extracted model on the same replies. *)
From Coq Require Import String.
From Coq Require Import List NArith ZArith Bool.
Require Import Bytes Schema Codec Session Client ClientProofs.
Import ListNotations.

(* for EVERY reply byte string: a payload is returned only if the reply decodes to a response with
   batch count 1, exactly one item, the requested operation and status Success - and it is that item's payload *)
Theorem C14_payload_only_for_matching_success : forall T K c op payload reply p,
  snd (send T K c op payload reply) = SPayload p ->
  cc_connected c = true /\
  exists tag fl resp n st', T "Response" = Some (tag, fl) /\
    dec_top "Response" tag fl {| rest := reply; last := 0 |} = Ok (resp, n, st') /\ good_reply T K op resp p.
Proof. exact send_payload. Qed.
Print Assumptions C14_payload_only_for_matching_success.

Theorem C14_judge_iff : forall T K op resp p, judge T K op resp = SPayload p <-> good_reply T K op resp p.
Proof. exact judge_payload. Qed.
Print Assumptions C14_judge_iff.

(* a server error carries the server's reason and message and arises only from a single-item reply
   with the requested operation and a status other than Success *)
Theorem C14_server_error : forall T K op resp r m, judge T K op resp = SServerError r m ->
  get_field T (get_field T resp "Header") "BatchCount" = VInt 1 /\
  exists item st, get_field T resp "BatchItems" = VList (VCons item VNone) /\
    get_field T item "Operation" = VEnum op /\ get_field T item "ResultStatus" = VEnum st /\ st <> k_success K /\
    r = match get_field T item "ResultReason" with VEnum x => x | _ => 0%N end /\
    m = match get_field T item "ResultMessage" with VStr x => x | _ => nil end.
Proof. exact judge_server_error. Qed.
Print Assumptions C14_server_error.

Theorem C14_not_connected : forall T K c op payload reply,
  cc_connected c = false -> send T K c op payload reply = (nil, SError).
Proof. exact send_not_connected. Qed.
Print Assumptions C14_not_connected.

(* a payload that cannot be encoded (nil, typed nil, ...) is an error and nothing is sent *)
Theorem C14_unencodable_payload : forall T K c op payload reply,
  cc_connected c = true -> enc_top T (VPtr (build_request T c op payload)) = None ->
  snd (send T K c op payload reply) = SError /\ forall b, ~ In (CSent b) (fst (send T K c op payload reply)).
Proof. exact send_unencodable. Qed.
Print Assumptions C14_unencodable_payload.

(* DiscoverVersions returns versions only from a Discover Versions Response payload (checked assertion) *)
Theorem C14_discover_versions : forall T K c offer reply vs,
  snd (discover_versions T K c offer reply) = DVVersions vs ->
  exists fs, snd (send T K c (k_discover_versions K)
                    (set_field T (zero_struct T "DiscoverVersionsRequest") "ProtocolVersions"
                               (VList (vl_of_list (map (version_val T) offer)))) reply)
             = SPayload (VStruct "DiscoverVersionsResponse" fs).
Proof. exact discover_versions_versions. Qed.
Print Assumptions C14_discover_versions.

(* C15, client side: deadlines armed iff configured - write before the request, read before the reply *)
Theorem C14_client_deadlines : forall T K c op payload reply b,
  In (CSent b) (fst (send T K c op payload reply)) ->
  fst (send T K c op payload reply) =
    (if cc_write_to c then [CArmWrite] else []) ++ [CSent b] ++ (if cc_read_to c then [CArmRead] else []).
Proof. exact send_arms. Qed.
Print Assumptions C14_client_deadlines.

(* the life cycle of a Client value: after ANY history of Connect (succeeding or failing at any stage),
   Close and Send calls, Send never dereferences a missing connection or codec ... *)
Theorem C14_lifecycle_no_panic : forall ops, ~ In LPanic (clife_run clife0 ops).
Proof. intros ops. apply clife_run_no_panic. unfold clife_inv; cbn; discriminate. Qed.
Print Assumptions C14_lifecycle_no_panic.

(* ... and it returns the "not connected" error exactly when the last Connect/Close on this client was
   not a successful Connect; otherwise it performs the exchange judged by C14_payload_only_for_matching_success *)
Theorem C14_not_connected_after_any_history : forall ops,
  clife_run clife0 (ops ++ [CSend]) =
  (clife_run clife0 ops ++ [if connected_after false ops then LExchange else LErr])%list.
Proof. exact clife_send_after. Qed.
Print Assumptions C14_not_connected_after_any_history.

(* ---- "any bytes, cut off anywhere", delivered in any way: the Client's Decoder on its bufio.Reader over a connection
   that hands out the reply in ANY script of read sizes (fewer than 100 consecutive empty reads) ---- *)
Require Import Readers ReadersProofs ClientReaders.

(* the peer closes after its reply: Send returns exactly what the flat model (all theorems above) says for those bytes *)
Theorem C14_reply_fragmentation_independent : forall T K c op payload conn,
  transport_ok conn -> b_term conn = EOF ->
  c_send T K c op payload conn = send T K c op payload (b_data conn).
Proof. exact client_fragmentation_independent. Qed.
Print Assumptions C14_reply_fragmentation_independent.

(* the connection fails instead (reset, deadline: an I/O error at any offset): a payload or a server error is returned only
   if the bytes that did arrive are a complete reply saying so; a reply cut off by the failure yields an error *)
Theorem C14_cut_off_reply_safe : forall T K c op payload conn evs r,
  transport_ok conn ->
  c_send T K c op payload conn = (evs, r) -> r <> SError ->
  send T K c op payload (b_data conn) = (evs, r).
Proof. exact client_io_error_safe. Qed.
Print Assumptions C14_cut_off_reply_safe.

Example C14_transport_example :
  transport_ok {| b_data := [Byte.x42; Byte.x00; Byte.x7b]; b_sizes := [2; 0; 0; 1]%N; b_weof := false; b_term := EOF |}.
Proof. cbn. repeat split; auto with arith. Qed.
