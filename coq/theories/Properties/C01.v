(* C01 - Encode/Decode round-trip preserves every KMIP message value.
   Statements only.  (This file grows with CodecRT.v; what is stated here is what is proved.) *)
From Coq Require Import String.
From Coq Require Import List NArith ZArith.
Require Import Bytes Schema Codec CodecRT.
Import ListNotations.
Open Scope N_scope.

(* every primitive value in range - 32/64-bit integers, enumerations, booleans, arbitrary byte and text
   strings of any length, whole-second date-times, intervals of 0..2^32-1 seconds - decodes, from a
   decoder positioned at the item (tag already peeked or not), to itself, consuming exactly the item
   and leaving no look-ahead, whatever follows on the stream *)
Theorem C01_primitive_roundtrip : forall k tag v b tl st,
  tag <> 0 -> tag < 2 ^ 24 -> wf_prim k v -> enc_prim tag k v = Some b -> at_item tag b tl st ->
  dec_prim k tag st = Ok (v, blen b, {| rest := tl; last := 0 |}).
Proof. exact dec_prim_enc. Qed.
Print Assumptions C01_primitive_roundtrip.
