(* C01 - Encode/Decode round-trip preserves every KMIP message value.
   Statements only.  Codec.v is the model of encode.go / decode.go (tied to /repo by the codec
   correspondence on every run); CodecRT.v holds the proofs; Instance.v / InstanceProofs.v the
   schema regenerated from /repo. *)
From Coq Require Import String.
From Coq Require Import List NArith ZArith.
Require Import Bytes Schema Fields Codec CodecRT SchemaCheck Generated Instance InstanceProofs.
Import ListNotations.
Open Scope N_scope.

(* GENERIC: for EVERY type environment whose structures satisfy the schema conditions (env_ok), every
   structure type with a proper own tag, and EVERY well-formed message value of it - unbounded depth,
   widths, string lengths, sequence lengths; dynamic payloads agreeing with the dispatch table -
   decoding the bytes Encode produced, from a stream with anything after them, yields the normalised
   value (pointer payloads -> value payloads, never-encoded fields cleared), consumes exactly the
   message and leaves no look-ahead *)
Theorem C01_roundtrip : forall T, env_ok T ->
  forall ty tag fl vs b tl,
    T ty = Some (tag, fl) -> tag_ok tag -> wf T (SStruct ty fl) VNil (VStruct ty vs) ->
    enc_top T (VStruct ty vs) = Some b ->
    dec_top ty tag fl {| rest := (b ++ tl)%list; last := 0 |}
    = Ok (VStruct ty (normalize_fields T fl vs), blen b, {| rest := tl; last := 0 |}).
Proof. exact roundtrip_top. Qed.
Print Assumptions C01_roundtrip.

(* ... and encoding that decoded value again reproduces the identical bytes *)
Theorem C01_reencode_identical : forall T ty tag fl vs b,
  T ty = Some (tag, fl) -> enc_top T (VStruct ty vs) = Some b ->
  enc_top T (VStruct ty (normalize_fields T fl vs)) = Some b.
Proof. exact reencode_top. Qed.
Print Assumptions C01_reencode_identical.

(* the hypothesis wf is decidable: a computable check that implies it (used to MEASURE, on every run, how
   many generated values the theorem covers) *)
Theorem C01_wf_checkable : forall T s key v, wf_b T s key v = true -> wf T s key v.
Proof. exact wf_b_wf. Qed.
Print Assumptions C01_wf_checkable.

(* non-vacuity: a Create request with a pointer payload, dispatched attribute values (Enumeration, Integer,
   a Name structure through a pointer), unique batch item id and correlation value satisfies the
   hypotheses, and the theorem applied to it gives its round trip *)
Theorem C01_example_wf : wf inst_T (SStruct "Request" request_fl) VNil (VStruct "Request" golden_fields).
Proof. exact golden_request_wf. Qed.
Print Assumptions C01_example_wf.

Theorem C01_example_roundtrips : exists b,
  inst_enc_top (VStruct "Request" golden_fields) = Some b /\
  dec_top "Request" request_tag request_fl {| rest := b; last := 0 |}
  = Ok (VStruct "Request" (normalize_fields inst_T request_fl golden_fields), blen b, {| rest := []; last := 0 |}).
Proof. exact golden_request_roundtrips. Qed.
Print Assumptions C01_example_roundtrips.

(* a pointer to a message is encoded like the message (pointer versus value payloads) *)
Theorem C01_pointer_top : forall T ty vs, enc_top T (VPtr (VStruct ty vs)) = enc_top T (VStruct ty vs).
Proof. exact enc_top_ptr. Qed.
Print Assumptions C01_pointer_top.

(* INSTANCE: the schema regenerated from /repo on this run satisfies the conditions (re-checked by
   vm_compute whenever a struct, an annotation or a dispatch switch changes), Request and Response
   carry proper tags *)
Theorem C01_instance_schema_ok : env_ok inst_T.
Proof. exact inst_codec_env_ok. Qed.
Print Assumptions C01_instance_schema_ok.

Theorem C01_instance_messages :
  (exists fl, inst_T "Request" = Some (request_tag, fl)) /\ (exists fl, inst_T "Response" = Some (response_tag, fl)) /\
  tag_ok request_tag /\ tag_ok response_tag.
Proof. exact (conj inst_request_type (conj inst_response_type message_tags_ok)). Qed.
Print Assumptions C01_instance_messages.

(* hence: Request and Response of the current tree round-trip *)
Theorem C01_request_roundtrip : forall fl vs b tl,
  inst_T "Request" = Some (request_tag, fl) -> wf inst_T (SStruct "Request" fl) VNil (VStruct "Request" vs) ->
  inst_enc_top (VStruct "Request" vs) = Some b ->
  dec_top "Request" request_tag fl {| rest := (b ++ tl)%list; last := 0 |}
  = Ok (VStruct "Request" (normalize_fields inst_T fl vs), blen b, {| rest := tl; last := 0 |}).
Proof.
  intros fl vs b tl HT Hwf He.
  exact (roundtrip_top inst_T inst_codec_env_ok "Request" request_tag fl vs b tl HT (proj1 message_tags_ok) Hwf He).
Qed.
Print Assumptions C01_request_roundtrip.

Theorem C01_response_roundtrip : forall fl vs b tl,
  inst_T "Response" = Some (response_tag, fl) -> wf inst_T (SStruct "Response" fl) VNil (VStruct "Response" vs) ->
  inst_enc_top (VStruct "Response" vs) = Some b ->
  dec_top "Response" response_tag fl {| rest := (b ++ tl)%list; last := 0 |}
  = Ok (VStruct "Response" (normalize_fields inst_T fl vs), blen b, {| rest := tl; last := 0 |}).
Proof.
  intros fl vs b tl HT Hwf He.
  exact (roundtrip_top inst_T inst_codec_env_ok "Response" response_tag fl vs b tl HT (proj2 message_tags_ok) Hwf He).
Qed.
Print Assumptions C01_response_roundtrip.

(* primitives: every value in range round-trips *)
Theorem C01_primitive_roundtrip : forall k tag v b tl st,
  tag <> 0 -> tag < 2 ^ 24 -> wf_prim k v -> enc_prim tag k v = Some b -> at_item tag b tl st ->
  dec_prim k tag st = Ok (v, blen b, {| rest := tl; last := 0 |}).
Proof. exact dec_prim_enc. Qed.
Print Assumptions C01_primitive_roundtrip.
