(* C11 - Shutdown stops accepting, waits for every started session, honours the context.
   Statements only.  Shutdown.v is the interleaving semantics of Serve / Shutdown / waiter / sessions;
   [reachable true] = every state reachable under ANY schedule with any number of connections.
   Tied to /repo by forced schedules (gated listener / connections / context) on the real server. *)
From Coq Require Import List ZArith Bool.
Require Import Shutdown ShutdownProofs.
Import ListNotations.

(* Shutdown returns nil only when no started session is still registered, running or closing - in
   every reachable state, hence also at every later moment: nothing starts after it has returned *)
Theorem C11_shutdown_waits : forall s, reachable true s -> s_pc s = SReturned RNil -> forall c, active (sget s c) = false.
Proof. exact shutdown_waits. Qed.
Print Assumptions C11_shutdown_waits.

(* ... and a session that has ended had its connection closed first *)
Theorem C11_ended_was_closed : forall fixed s c l s',
  step fixed s l = Some s' -> sget s' c = SEnded -> sget s c <> SEnded -> sget s c = SClosed.
Proof. exact ended_was_closed. Qed.
Print Assumptions C11_ended_was_closed.

(* the context's error only if the context has ended; nil only after the waiter signalled *)
Theorem C11_ctx : forall s, reachable true s ->
  (s_pc s = SReturned RCtx -> ctx_expired s = true) /\ (s_pc s = SReturned RNil -> w_pc s = WSignalled) /\ s_pc s <> SReturned RErr.
Proof. exact shutdown_ctx. Qed.
Print Assumptions C11_ctx.

(* Serve returns nil (never the listener's error) once Shutdown was signalled, and the connection it
   had accepted too late is closed, not served *)
Theorem C11_serve_nil : forall s r, reachable true s -> a_pc s = AReturned r -> r = RNil /\ done s = true.
Proof. exact serve_returns_nil. Qed.
Print Assumptions C11_serve_nil.

Theorem C11_late_connection_closed : forall s c s',
  reachable true s -> a_pc s = AHasConn c -> done s = true -> step true s LRegister = Some s' ->
  a_pc s' = AReturned RNil /\ sget s' c = SLateClosed.
Proof. exact late_connection_closed. Qed.
Print Assumptions C11_late_connection_closed.

(* no step of Shutdown, its waiter or the context touches a session: requests in flight are never aborted *)
Theorem C11_no_abort : forall fixed s l s', shutdown_label l = true -> step fixed s l = Some s' -> sess s' = sess s.
Proof. exact shutdown_never_aborts. Qed.
Print Assumptions C11_no_abort.

(* a request in flight (handler entered, response not yet written): under EVERY step of any thread - Shutdown
   called, listener closed, context expired, other sessions coming and going - the session stays in flight, and the
   only step that ends this state is its own handler returning, which writes the response on its connection *)
Theorem C11_inflight_request_completes : forall s l s' c,
  reachable true s -> step true s l = Some s' -> sget s c = SInFlight ->
  (sget s' c = SInFlight /\ answered s' = answered s)
  \/ (exists c', l = LReqEnd c' /\ c' <> c /\ sget s' c = SInFlight)
  \/ (l = LReqEnd c /\ sget s' c = SRunning /\ answered s' = (answered s ++ [c])%list).
Proof. intros s l s' c Hr. apply inflight_completes. apply reachable_inv. exact Hr. Qed.
Print Assumptions C11_inflight_request_completes.

(* and Shutdown / waiter / context steps never change which responses have been written *)
Theorem C11_no_abort_answers : forall fixed s l s', shutdown_label l = true -> step fixed s l = Some s' -> answered s' = answered s.
Proof. exact shutdown_keeps_answers. Qed.
Print Assumptions C11_no_abort_answers.

(* an in-flight session counts as started: Shutdown does not return nil while a handler is running *)
Theorem C11_inflight_is_waited_for : forall s c, reachable true s -> sget s c = SInFlight -> s_pc s <> SReturned RNil.
Proof.
  intros s c Hr Hc Hn. pose proof (shutdown_waits s Hr Hn c) as H. rewrite Hc in H. discriminate.
Qed.
Print Assumptions C11_inflight_is_waited_for.

(* regression witness: on the pinned tree (wg.Add not ordered with Shutdown) this schedule lets a session
   run after Shutdown returned nil; on the fixed tree the same schedule closes the late connection *)
Theorem C11_refuted_pinned :
  let s := run false pinned_schedule init in s_pc s = SReturned RNil /\ sget s 0 = SRunning.
Proof. exact pinned_refuted. Qed.
Print Assumptions C11_refuted_pinned.

Theorem C11_fixed_same_schedule :
  let s := run true pinned_schedule init in
  s_pc s = SReturned RNil /\ sget s 0 = SLateClosed /\ a_pc s = AReturned RNil.
Proof. exact fixed_same_schedule. Qed.
Print Assumptions C11_fixed_same_schedule.

(* Shutdown called BEFORE Serve has stored its listener (there is nothing to close yet): it returns nil at once; when
   Serve is called afterwards it accepts nobody: it closes its listener and returns nil.
   (The general theorems above cover this order too: [init] is the state before Serve is called.) *)
Theorem C11_serve_after_shutdown : forall s s', done s = true -> step true s LServeStart = Some s' ->
  a_pc s' = AReturned RNil /\ lis_closed s' = true /\ sess s' = sess s.
Proof.
  intros s s' Hd H. cbn [step] in H. destruct (a_pc s); try discriminate. rewrite Hd in H. injection H as <-.
  cbn. auto.
Qed.
Print Assumptions C11_serve_after_shutdown.

Example C11_shutdown_before_serve :
  let s := run true [LShCloseDone; LShCloseListener; LShStartWaiter; LWaitReturn; LWaitSignal; LShSelectDone;
                     LServeStart; LConnect] init in
  s_pc s = SReturned RNil /\ a_pc s = AReturned RNil /\ lis_closed s = true /\ sess s = [].
Proof. vm_compute. repeat split; reflexivity. Qed.
