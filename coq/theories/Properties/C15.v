(* C15 - I/O timeouts are re-armed for every message, and absent when configured as zero.
   Statements only (server side; the client side is in C14's Client.v). *)
From Coq Require Import String.
From Coq Require Import List NArith ZArith.
Require Import Bytes Schema Codec Session SessionProofs.
Import ListNotations.

(* every trace is  (arm_r c ++ events ++ arm_w c ++ Wrote)* ++ arm_r c ++ events ++ Close  where
   arm_r c = [ArmRead] iff ReadTimeout <> 0 and arm_w c = [ArmWrite] iff WriteTimeout <> 0:
   a fresh read deadline before waiting for each request, a fresh write deadline immediately
   before each response *)
Theorem C15_rearmed : forall T K c input script,
  c_tls c = None ->
  match c_sess_auth c with
  | Some false => session T K c input script = [ESessAuth false; EClose CloseError]
  | Some true => exists t, session T K c input script = ESessAuth true :: t /\ trace_ok c t
  | None => trace_ok c (session T K c input script)
  end.
Proof. exact session_trace. Qed.
Print Assumptions C15_rearmed.

(* on a TLS connection both deadlines are armed (iff configured) before the handshake, nothing else *)
Theorem C15_handshake_arms : forall T K c input script ok,
  c_tls c = Some ok ->
  session T K c input script =
    arm_r c ++ arm_w c ++ EHandshake ok :: (if ok then session_body T K c input script else [EClose CloseError]).
Proof. exact session_tls. Qed.
Print Assumptions C15_handshake_arms.

(* with zero timeouts no deadline is ever set *)
Theorem C15_zero_means_none : forall c t, trace_ok c t ->
  (c_read_to c = false -> ~ In EArmRead t) /\ (c_write_to c = false -> ~ In EArmWrite t).
Proof. exact trace_ok_no_arms. Qed.
Print Assumptions C15_zero_means_none.
