(* C18 - Protocol constants and tag-name resolution match the KMIP registry.
   Statements only; every proof is [exact <lemma>].  Generated.v (constants, tagMap) is
   regenerated from /repo on every run, Registry.v is the committed oracle. *)
From Coq Require Import List String NArith.
Require Import Schema Fields Generated Instance Registry Tables TablesProofs.
Import ListNotations.
Open Scope string_scope.

(* every KMIP 1.0-1.4 tag, item type, operation, result status, result reason and credential
   type of the registry is a constant of the package with that name, Go type and number *)
Theorem C18_constants :
  forall goty sec n v, In (goty, sec) registry_sections -> In (n, v) sec ->
    gen_const n = Some (goty, v).
Proof. exact c18_constants. Qed.
Print Assumptions C18_constants.

(* conversely a constant of the package that bears a registry name has the registry's number *)
Theorem C18_code_agrees :
  forall n ty v b rv, In (n, ty, v, b) gen_consts -> assoc n all_registry = Some rv -> v = rv.
Proof. exact c18_code. Qed.
Print Assumptions C18_code_agrees.

(* a kmip:"NAME" annotation resolves, through the lookup used by getStructDesc, to NAME's number *)
Theorem C18_lookup : forall n v, In (n, v) reg_tags -> assoc n the_tagmap = Some v.
Proof. exact c18_lookup. Qed.
Print Assumptions C18_lookup.

Theorem C18_tagmap_keys :
  forall k id, In (k, id) gen_tagmap ->
    (k = id \/ (k = "-" /\ id = "ANY_TAG")) /\ exists v, gen_const id = Some ("Tag", v).
Proof. exact c18_tagmap_keys. Qed.
Print Assumptions C18_tagmap_keys.

(* no two distinct tag names share a number, apart from the three batch-item aliases *)
Theorem C18_injective :
  forall n1 v1 n2 v2, In (n1, v1) gen_tag_consts -> In (n2, v2) gen_tag_consts ->
    v1 = v2 -> n1 = n2 \/ (In n1 batch_aliases /\ In n2 batch_aliases).
Proof. exact c18_injective. Qed.
Print Assumptions C18_injective.

(* the internal any-tag marker is 0xffffff and collides with no registry tag; the translator
   evaluated every constant expression *)
Theorem C18_any_tag : c18_any_tag_b = true /\ gen_unevaluated_consts = [].
Proof. exact (conj c18_any_tag_true c18_no_unevaluated). Qed.
Print Assumptions C18_any_tag.
