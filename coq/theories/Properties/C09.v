(* C09 - No handler runs unauthenticated; auth context never leaks between requests.
   Statements only. *)
From Coq Require Import String.
From Coq Require Import List NArith ZArith Bool.
Require Import Bytes Schema Codec Session SessionProofs.
Import ListNotations.

(* a failed session-auth callback: the whole trace is [SessAuth false; Close] - no handler, no response *)
Theorem C09_session_gate : forall T K c input script,
  c_tls c = None -> c_sess_auth c = Some false -> session T K c input script = [ESessAuth false; EClose CloseError].
Proof. intros T K c input script Ht H. pose proof (session_trace T K c input script Ht) as S. rewrite H in S. exact S. Qed.

(* on a TLS connection a failed handshake ends the session before any callback, handler or response *)
Theorem C09_handshake_gate : forall T K c input script,
  c_tls c = Some false ->
  session T K c input script = arm_r c ++ arm_w c ++ [EHandshake false; EClose CloseError].
Proof. intros T K c input script H. rewrite (session_tls T K c input script false H). reflexivity. Qed.
Print Assumptions C09_handshake_gate.
Print Assumptions C09_session_gate.

(* a request is processed iff it is cleared: consistent, and - if it carries credentials - a
   request-auth callback is configured and accepts them; otherwise no handler runs and no response
   is written for it: the events are at most the failed ReqAuth, then Close *)
Theorem C09_request_gate : forall T K c req script,
  let '(evs, oresp, script') := handle_batch T K c req script in
  if cleared T c req then
    evs = (if has_creds T req then [EReqAuth (req_auth_val T req) true] else []) ++ calls T c (rauth_of T c req) (req_items T req) /\
    oresp = Some (build_response T c req
              (map (fun p => response_item T K (fst p) (snd p))
                   (combine (req_items T req) (outcomes T K c (req_items T req) script))))
  else oresp = None /\ script' = script /\ (evs = [] \/ evs = [EReqAuth (req_auth_val T req) false]).
Proof. exact handle_batch_spec. Qed.
Print Assumptions C09_request_gate.

(* credentials without a configured callback, or rejected by it, are never cleared *)
Theorem C09_not_cleared : forall T c req,
  has_creds T req = true -> (c_req_auth c = false \/ req_auth_fn T (c_sid c) (req_auth_val T req) = None) -> cleared T c req = false.
Proof.
  intros T c req Hc [H|H]; unfold cleared; rewrite Hc, H; cbn [negb orb andb]; rewrite ?andb_false_r; reflexivity.
Qed.
Print Assumptions C09_not_cleared.

(* context: every handler invocation anywhere in the trace carries this connection's session id and
   session-auth value; within a batch it carries the request-auth value of THAT request - nil when the
   request has no credentials (calls ... (rauth_of req) in C09_request_gate) *)
Theorem C09_context : forall c t, trace_ok c t ->
  forall sid sa ra op p, In (ECall sid sa ra op p) t -> sid = c_sid c /\ sa = sauth_of c.
Proof. exact trace_ok_calls. Qed.
Print Assumptions C09_context.

Theorem C09_rauth_nil_without_credentials : forall T c req, has_creds T req = false -> rauth_of T c req = None.
Proof. intros T c req H. unfold rauth_of. rewrite H. reflexivity. Qed.
Print Assumptions C09_rauth_nil_without_credentials.

(* "the session ID established for its own connection": for EVERY sequence of Accept results, the connections handed to
   session goroutines get the ids 1, 2, 3, ... in accept order (temporary errors and back-offs in between do not consume
   or repeat a number), so no two connections of a server ever share one *)
Require Import Accept AcceptProofs.
Theorem C09_session_ids_distinct : forall rs,
  NoDup (map session_id (served (fst (serve rs)))) /\
  map session_id (served (fst (serve rs))) = map (fun k => N.of_nat k) (seq 1 (length (served (fst (serve rs))))).
Proof. intros rs. split; [apply session_ids_distinct|apply session_ids_consecutive]. Qed.
Print Assumptions C09_session_ids_distinct.
