(* TTLV.v - the independent specification of the wire format (C02, C04):
   a TTLV tree, its canonical serialisation [ser] (3-byte big-endian tag, 1-byte type,
   4-byte big-endian length of the UNPADDED value, value zero-padded to a multiple of 8;
   a structure's length is the total size of its serialised children), and the declarative
   rule set [to_tree] saying which items a message value consists of (fields in declaration
   order; an optional field present exactly when its value is non-zero; a required field
   always; slices element by element; never-encoded fields absent).
   Written without reference to Codec.v's encoder. *)
From Coq Require Import List String NArith ZArith Bool Strings.Byte.
Require Import Bytes Schema Codec.
Import ListNotations.
Open Scope N_scope.

Inductive ttlv :=
| TItem (tag typ : N) (value : bytes)
| TStructure (tag : N) (children : tlist)
with tlist := TNil | TCons (t : ttlv) (r : tlist).

Fixpoint ser (t : ttlv) : bytes :=
  match t with
  | TItem tag typ v => be 3 tag ++ be 1 typ ++ be 4 (blen v) ++ v ++ zeros (N.to_nat (pad8 (blen v)))
  | TStructure tag cs => let body := ser_list cs in be 3 tag ++ be 1 1 ++ be 4 (blen body) ++ body
  end
with ser_list (l : tlist) : bytes :=
  match l with TNil => [] | TCons t r => ser t ++ ser_list r end.

Fixpoint tl_app (a b : tlist) : tlist :=
  match a with TNil => b | TCons t r => TCons t (tl_app r b) end.

(* the value bytes of a primitive, KMIP 1.4 section 9.1.1 *)
Definition prim_bytes (k : kind) (v : val) : option bytes :=
  match k, v with
  | KInt, VInt z => Some (be 4 (to_u32 z))                         (* 32-bit two's complement *)
  | KLong, VLong z => Some (be 8 (to_u64 z))
  | KEnum, VEnum n => Some (be 4 n)
  | KBool, VBool b => Some (be 8 (if b then 1 else 0))
  | KTime, VTime s => Some (be 8 (to_u64 s))                       (* POSIX seconds *)
  | KDur, VDur ns => Some (be 4 (to_u32 (Z.quot ns nanos)))        (* seconds *)
  | KBytes, VBytes b => Some b
  | KStr, VStr b => Some b
  | _, _ => None
  end.

Definition kind_of_val (v : val) : option kind :=
  match v with
  | VInt _ => Some KInt | VLong _ => Some KLong | VEnum _ => Some KEnum | VBool _ => Some KBool
  | VBytes _ => Some KBytes | VStr _ => Some KStr | VTime _ => Some KTime | VDur _ => Some KDur
  | _ => None
  end.


  Definition prim_item (tag : N) (k : kind) (v : val) : option ttlv :=
    match prim_bytes k v with Some b => Some (TItem tag (type_code k) b) | None => None end.

  Fixpoint to_tree (T : tyenv) (s : sch) (tag : N) (v : val) {struct v} : option ttlv :=
    match s with
    | SPrim k => prim_item tag k v
    | SStruct _ fl =>
        match v with
        | VStruct _ vs => let? cs := to_fields T fl vs in Some (TStructure tag cs)
        | _ => None
        end
    | SDyn _ _ _ =>
        (* the payload's own type decides: a structure (by value or through one pointer) or a primitive *)
        match v with
        | VStruct ty vs | VPtr (VStruct ty vs) =>
            let? d := T ty in let? cs := to_fields T (snd d) vs in Some (TStructure tag cs)
        | VPtr v' => let? k := kind_of_val v' in prim_item tag k v'
        | _ => let? k := kind_of_val v in prim_item tag k v
        end
    end
  with to_fields (T : tyenv) (fl : flist) (vs : vlist) {struct vs} : option tlist :=
    match fl, vs with
    | FNil, VNone => Some TNil
    | FCons a s r, VCons v vr =>
        let? rest := to_fields T r vr in
        if (fa_tag a =? ANY_TAG) || fa_skip a then Some rest                   (* never on the wire *)
        else if fa_slice a then
          match v with
          | VList es => let? items := to_elems T s (fa_tag a) es in Some (tl_app items rest)
          | _ => None
          end
        else if fa_req a then let? t := to_tree T s (fa_tag a) v in Some (TCons t rest)     (* always *)
        else if is_zero s v then Some rest                                     (* optional and zero: absent *)
        else let? t := to_tree T s (fa_tag a) v in Some (TCons t rest)
    | _, _ => None
    end
  with to_elems (T : tyenv) (s : sch) (tag : N) (es : vlist) {struct es} : option tlist :=
    match es with
    | VNone => Some TNil
    | VCons e er => let? t := to_tree T s tag e in let? r := to_elems T s tag er in Some (TCons t r)
    end.

  Definition to_tree_top (T : tyenv) (v : val) : option ttlv :=
    match v with
    | VStruct ty vs | VPtr (VStruct ty vs) =>
        let? d := T ty in let? cs := to_fields T (snd d) vs in Some (TStructure (fst d) cs)
    | VTime _ | VPtr (VTime _) => Some (TStructure 0 TNil)
    | _ => None
    end.

