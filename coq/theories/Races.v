(* Races.v - lockset / happens-before discipline over the regenerated table of accesses to Server
   fields (C12).  The table is produced by the translator from server.go on every run: one row per
   syntactic access recv.field in a method of Server, with the lock state at that point.
   Which function runs on which thread, and which happens-before edges the documentation grants,
   is fixed here by hand. *)
From Coq Require Import String.
From Coq Require Import List Bool.
Require Import Schema.
Import ListNotations.
Open Scope string_scope.

Inductive tclass :=
| TConfig        (* the configuring caller: documented to finish before Serve is called *)
| TAcceptor      (* the goroutine running Serve *)
| TSession       (* one goroutine per connection *)
| TShutdown      (* the caller of Shutdown *)
| TWaiter        (* Shutdown's helper goroutine *)
| TShared        (* helpers called from several threads: every access must hold the mutex *)
| TUnknown.      (* a method this table does not know: treated as concurrent with everything *)

Definition mem (x : string) (l : list string) : bool := existsb (String.eqb x) l.

Definition class_of (a : access) : tclass :=
  let f := ac_func a in
  if mem f ["Handle"; "initHandlers"] then TConfig       (* initHandlers: from Handle, or from Serve's prologue under the mutex *)
  else if mem f ["Serve"; "ListenAndServe"; "registerSession"] then TAcceptor
  else if mem f ["serve"; "handleBatch"; "handleWrapped"; "handleDiscoverVersions"; "VerifDiscoverVersions"] then TSession
  else if String.eqb f "Shutdown" then (if ac_in_go a then TWaiter else TShutdown)
  else if String.eqb f "getDoneChan" then TShared
  else TUnknown.

(* fields holding synchronisation primitives: method calls on them are safe by themselves *)
Definition sync_call (a : access) : bool :=
  mem (ac_field a) ["mu"; "wg"] && negb (ac_write a).

(* can accesses of these two classes overlap in time? (a class with itself: two different goroutines of that class) *)
Definition may_overlap (c1 c2 : tclass) : bool :=
  match c1, c2 with
  | TConfig, _ | _, TConfig => false                       (* configuration happens before Serve *)
  | TAcceptor, TAcceptor => false                          (* one Serve per Server *)
  | TShutdown, TShutdown | TWaiter, TWaiter | TShutdown, TWaiter | TWaiter, TShutdown => false   (* Shutdown is called once; go statement orders caller -> waiter *)
  | _, _ => true
  end.

(* happens-before edge: what the acceptor does before its accept loop is ordered before every session by the go statement *)
Definition ordered (a1 a2 : access) : bool :=
  match class_of a1, class_of a2 with
  | TAcceptor, TSession => negb (ac_in_loop a1)
  | TSession, TAcceptor => negb (ac_in_loop a2)
  | _, _ => false
  end.

Definition conflict (a1 a2 : access) : bool :=
  String.eqb (ac_recv a1) "Server" && String.eqb (ac_recv a2) "Server" &&
  String.eqb (ac_field a1) (ac_field a2) &&
  (ac_write a1 || ac_write a2) &&
  negb (sync_call a1 && sync_call a2) &&
  may_overlap (class_of a1) (class_of a2) &&
  negb (ac_locked a1 && ac_locked a2) &&
  negb (ordered a1 a2).

Definition race_free_b (accs : list access) : bool :=
  forallb (fun a1 => forallb (fun a2 => negb (conflict a1 a2)) accs) accs.

Definition races (accs : list access) : list (string * string) :=
  flat_map (fun a1 => flat_map (fun a2 => if conflict a1 a2
                                          then [(ac_func a1 ++ " / " ++ ac_func a2, ac_field a1)] else []) accs) accs.

(* the codec keeps no package state: no function assigns a package-level variable *)
Definition codec_stateless_b (writes : list (string * string * string)) : bool :=
  match writes with [] => true | _ => false end.

(* the WaitGroup protocol the interleaving model proves safe (ShutdownProofs.waitgroup_protocol) rests on WHERE Add is called:
   by the acceptor, with the mutex held (so that it is ordered against Shutdown's signal and hence before the waiter's Wait) *)
Definition wg_add_site_ok (a : access) : bool :=
  if String.eqb (ac_recv a) "Server" && String.eqb (ac_field a) "wg" && String.eqb (ac_kind a) "call:Add"
  then match class_of a with TAcceptor => ac_locked a && negb (ac_in_go a) | _ => false end
  else true.
