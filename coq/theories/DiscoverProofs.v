(* DiscoverProofs.v - C20 *)
From Coq Require Import List ZArith Bool Arith Lia.
Require Import Discover.
Import ListNotations.

Lemma pv_eqb_eq a b : pv_eqb a b = true <-> a = b.
Proof.
  destruct a as [a1 a2], b as [b1 b2]. unfold pv_eqb; cbn [fst snd]. rewrite andb_true_iff, !Z.eqb_eq.
  split; [intros [-> ->]; reflexivity|intros H; injection H; auto].
Qed.

Lemma first_match_some o sup v : first_match o sup = Some v -> v = o /\ In v sup.
Proof.
  induction sup as [|x r IH]; cbn; [discriminate|]. destruct (pv_eqb o x) eqn:E.
  - intros H; injection H as <-. apply pv_eqb_eq in E. subst. auto.
  - intros H. destruct (IH H). auto.
Qed.

Lemma first_match_none o sup : first_match o sup = None -> ~ In o sup.
Proof.
  induction sup as [|x r IH]; cbn; [auto|]. destruct (pv_eqb o x) eqn:E; [discriminate|].
  intros H [Hx|Hr]; [subst; rewrite (proj2 (pv_eqb_eq o o) eq_refl) in E; discriminate|exact (IH H Hr)].
Qed.

(* ---------- value level: exactly the supported subset of the offer ---------- *)
Theorem discover_spec_empty sup : discover_spec sup [] = sup.
Proof. reflexivity. Qed.

Theorem discover_spec_filter sup offer : offer <> [] ->
  discover_spec sup offer = filter (fun o => existsb (pv_eqb o) sup) offer.
Proof.
  intros Hne. unfold discover_spec. destruct offer as [|o0 r0]; [contradiction|]. clear Hne.
  generalize (o0 :: r0) as offer. induction offer as [|o r IH]; cbn [flat_map filter]; [reflexivity|].
  destruct (first_match o sup) as [v|] eqn:E.
  - destruct (first_match_some _ _ _ E) as [-> Hin].
    assert (existsb (pv_eqb o) sup = true) as ->.
    { apply existsb_exists. exists o. split; [assumption|apply pv_eqb_eq; reflexivity]. }
    cbn. f_equal. exact IH.
  - assert (existsb (pv_eqb o) sup = false) as ->.
    { apply not_true_is_false. intros H. apply existsb_exists in H. destruct H as [x [Hx Ex]].
      apply pv_eqb_eq in Ex. subst. exact (first_match_none _ _ E Hx). }
    exact IH.
Qed.

Theorem discover_spec_sound sup offer v : offer <> [] -> (In v (discover_spec sup offer) <-> In v offer /\ In v sup).
Proof.
  intros Hne. rewrite discover_spec_filter by assumption. rewrite filter_In. split.
  - intros [Ho He]. split; [assumption|]. apply existsb_exists in He. destruct He as [x [Hx Ex]].
    apply pv_eqb_eq in Ex. subst. assumption.
  - intros [Ho Hs]. split; [assumption|]. apply existsb_exists. exists v. split; [assumption|apply pv_eqb_eq; reflexivity].
Qed.

(* ---------- heap level ---------- *)
(* h' extends h: every array that existed is unchanged *)
Definition extends (h h' : heap) : Prop := exists ext, h' = h ++ ext.

Lemma extends_refl h : extends h h. Proof. exists []. rewrite app_nil_r. reflexivity. Qed.
Lemma extends_trans a b c : extends a b -> extends b c -> extends a c.
Proof. intros [x ->] [y ->]. exists (x ++ y). rewrite app_assoc. reflexivity. Qed.

Lemma extends_arr h h' a : extends h h' -> (a < length h)%nat -> arr h' a = arr h a.
Proof. intros [ext ->] Hlt. unfold arr. rewrite app_nth1 by assumption. reflexivity. Qed.

(* a slice that is nil or lives in an array allocated at or after [base] with all of its capacity inside it *)
Definition fresh_from (base : nat) (h : heap) (s : slice) : Prop :=
  (s_cap s = 0%nat /\ s_len s = 0%nat) \/ ((base <= s_arr s < length h)%nat /\ s_off s = 0%nat /\ s_cap s = length (arr h (s_arr s)) /\ (s_len s <= s_cap s)%nat).

Lemma set_nth_length {A} i (x : A) l : length (set_nth i x l) = length l.
Proof. revert i; induction l as [|y r IH]; intros i; destruct i; cbn; auto. Qed.

Lemma nth_set_nth_same {A} i (x d : A) l : (i < length l)%nat -> nth i (set_nth i x l) d = x.
Proof. revert i; induction l as [|y r IH]; intros i H; cbn in *; [lia|]. destruct i; cbn; [reflexivity|apply IH; lia]. Qed.

Lemma nth_set_nth_other {A} i j (x d : A) l : i <> j -> nth i (set_nth j x l) d = nth i l d.
Proof.
  revert i j; induction l as [|y r IH]; intros i j H; [destruct j; reflexivity|].
  destruct j, i; cbn; try reflexivity; try congruence. apply IH. congruence.
Qed.

Lemma firstn_set_nth {A} n i (x : A) l : (n <= i)%nat -> firstn n (set_nth i x l) = firstn n l.
Proof.
  revert i l; induction n as [|m IH]; intros i l H; [reflexivity|].
  destruct l as [|y r]; [destruct i; reflexivity|]. destruct i; [lia|]. cbn. f_equal. apply IH. lia.
Qed.

Lemma firstn_snoc_set {A} n (x : A) l : (n < length l)%nat -> firstn (S n) (set_nth n x l) = firstn n l ++ [x].
Proof.
  revert l; induction n as [|m IH]; intros l H; destruct l as [|y r]; cbn in *; try lia; [reflexivity|].
  f_equal. apply IH. lia.
Qed.

(* appending to a slice that is fresh w.r.t. base keeps every array below base untouched, keeps the
   slice fresh, and appends the element *)
Lemma append1_fresh base h s x :
  (base <= length h)%nat -> fresh_from base h s ->
  let '(h', s') := append1 h s x in
  fresh_from base h' s' /\ (length h <= length h')%nat /\
  (forall a, (a < base)%nat -> arr h' a = arr h a) /\
  elems h' s' = elems h s ++ [x] /\ (0 < s_cap s')%nat.
Proof.
  intros Hb Hf. unfold append1. destruct (Nat.ltb_spec (s_len s) (s_cap s)) as [Hlt|Hge].
  - destruct Hf as [[Hz Hz']|[Ha [Ho [Hc Hl]]]]; [lia|].
    cbn [s_arr s_off s_len s_cap]. rewrite Ho. cbn [Nat.add].
    repeat split.
    + right. cbn [s_arr s_off s_len s_cap]. rewrite set_nth_length. repeat split; try lia.
      unfold arr at 1. rewrite nth_set_nth_same by lia. rewrite set_nth_length. exact Hc.
    + rewrite set_nth_length. lia.
    + intros a Hlt'. unfold arr. apply nth_set_nth_other. lia.
    + unfold elems. cbn [s_arr s_off s_len]. rewrite Ho. cbn [skipn].
      unfold arr at 1. rewrite nth_set_nth_same by lia. apply firstn_snoc_set. fold (arr h (s_arr s)). lia.
    + lia.
  - cbn [s_arr s_off s_len s_cap]. repeat split.
    + right. cbn [s_arr s_off s_len s_cap]. rewrite app_length. cbn [length]. repeat split; try lia.
      * unfold arr. rewrite app_nth2 by lia. rewrite Nat.sub_diag. cbn [nth].
        rewrite !app_length, repeat_length. cbn [length].
        assert (Hel: length (elems h s) = s_len s).
        { unfold elems. rewrite firstn_length, skipn_length.
          destruct Hf as [[Hz Hz']|[Ha [Ho [Hc Hl]]]]; [rewrite Hz'; lia|]. rewrite Ho. lia. }
        rewrite Hel. unfold grow. lia.
      * unfold grow. lia.
    + rewrite app_length. cbn. lia.
    + intros a Hlt'. unfold arr. rewrite app_nth1 by lia. reflexivity.
    + unfold elems at 1. cbn [s_arr s_off s_len]. cbn [skipn]. unfold arr. rewrite app_nth2 by lia.
      rewrite Nat.sub_diag. cbn [nth].
      assert (Hel: length (elems h s) = s_len s).
      { unfold elems. rewrite firstn_length, skipn_length.
        destruct Hf as [[Hz Hz']|[Ha [Ho [Hc Hl]]]]; [lia|]. rewrite Ho. lia. }
      rewrite app_assoc. rewrite firstn_app. rewrite app_length. cbn [length]. rewrite Hel.
      replace (S (s_len s) - (s_len s + 1))%nat with 0%nat by lia. rewrite firstn_O, app_nil_r.
      rewrite firstn_all2 by (rewrite app_length; cbn; lia). reflexivity.
    + unfold grow. lia.
Qed.

Lemma append_all_fresh base xs : forall h s,
  (base <= length h)%nat -> fresh_from base h s ->
  let '(h', s') := append_all h s xs in
  fresh_from base h' s' /\ (length h <= length h')%nat /\
  (forall a, (a < base)%nat -> arr h' a = arr h a) /\ elems h' s' = elems h s ++ xs.
Proof.
  induction xs as [|x r IH]; intros h s Hb Hf; cbn [append_all].
  - repeat split; auto. rewrite app_nil_r. reflexivity.
  - pose proof (append1_fresh base h s x Hb Hf) as H1. destruct (append1 h s x) as [h1 s1].
    destruct H1 as [Hf1 [Hl1 [Ha1 [He1 _]]]].
    specialize (IH h1 s1 ltac:(lia) Hf1). destruct (append_all h1 s1 r) as [h2 s2].
    destruct IH as [Hf2 [Hl2 [Ha2 He2]]]. repeat split; auto; try lia.
    + intros a Hlt. rewrite Ha2, Ha1 by assumption. reflexivity.
    + rewrite He2, He1, <- app_assoc. reflexivity.
Qed.

Lemma match_loop_fresh base sup offer : forall h s,
  (base <= length h)%nat -> fresh_from base h s ->
  let '(h', s') := match_loop h s offer sup in
  fresh_from base h' s' /\ (length h <= length h')%nat /\
  (forall a, (a < base)%nat -> arr h' a = arr h a) /\
  elems h' s' = elems h s ++ flat_map (fun o => match first_match o sup with Some v => [v] | None => [] end) offer.
Proof.
  induction offer as [|o r IH]; intros h s Hb Hf; cbn [match_loop flat_map].
  - repeat split; auto. rewrite app_nil_r. reflexivity.
  - destruct (first_match o sup) as [v|].
    + pose proof (append1_fresh base h s v Hb Hf) as H1. destruct (append1 h s v) as [h1 s1].
      destruct H1 as [Hf1 [Hl1 [Ha1 [He1 _]]]].
      specialize (IH h1 s1 ltac:(lia) Hf1). destruct (match_loop h1 s1 r sup) as [h2 s2].
      destruct IH as [Hf2 [Hl2 [Ha2 He2]]]. repeat split; auto; try lia.
      * intros a Hlt. rewrite Ha2, Ha1 by assumption. reflexivity.
      * rewrite He2, He1, <- app_assoc. reflexivity.
    + apply IH; assumption.
Qed.

Lemma elems_nil h : elems h nil_slice = [].
Proof. reflexivity. Qed.

Lemma fresh_nil base h : fresh_from base h nil_slice.
Proof. left. split; reflexivity. Qed.

(* C20: the reply holds exactly discover_spec, lives (if non-empty) in an array allocated by this call,
   and every array that existed before the call - the configuration's, DefaultSupportedVersions', any
   other - is unchanged *)
Theorem handle_discover_correct h sup offer :
  let '(h', res) := handle_discover h sup offer in
  elems h' res = discover_spec (elems h sup) offer /\
  fresh_from (length h) h' res /\
  (forall a, (a < length h)%nat -> arr h' a = arr h a).
Proof.
  unfold handle_discover, discover_spec. destruct offer as [|o r].
  - pose proof (append_all_fresh (length h) (elems h sup) h nil_slice (le_n _) (fresh_nil _ _)) as H.
    destruct (append_all h nil_slice (elems h sup)) as [h' res]. destruct H as [Hf [_ [Ha He]]].
    rewrite He, elems_nil. auto.
  - pose proof (match_loop_fresh (length h) (elems h sup) (o :: r) h nil_slice (le_n _) (fresh_nil _ _)) as H.
    destruct (match_loop h nil_slice (o :: r) (elems h sup)) as [h' res]. destruct H as [Hf [_ [Ha He]]].
    rewrite He, elems_nil. auto.
Qed.

(* the reply's backing array is not the configuration's *)
Corollary reply_not_aliased h sup offer :
  (s_arr sup < length h)%nat ->
  let '(h', res) := handle_discover h sup offer in s_cap res = 0%nat \/ s_arr res <> s_arr sup.
Proof.
  intros Hs. pose proof (handle_discover_correct h sup offer) as H.
  destruct (handle_discover h sup offer) as [h' res]. destruct H as [_ [[[Hz _]|[Ha _]] _]]; [left; assumption|right; lia].
Qed.

(* Serve's defaulting: an empty configuration becomes a fresh copy of the default list *)
Theorem serve_defaults_correct h configured dflt :
  let '(h', s) := serve_defaults h configured dflt in
  (s_len configured = 0%nat -> elems h' s = elems h dflt /\ fresh_from (length h) h' s) /\
  (s_len configured <> 0%nat -> h' = h /\ s = configured) /\
  (forall a, (a < length h)%nat -> arr h' a = arr h a).
Proof.
  unfold serve_defaults. destruct (Nat.eqb_spec (s_len configured) 0) as [E|E].
  - pose proof (append_all_fresh (length h) (elems h dflt) h nil_slice (le_n _) (fresh_nil _ _)) as H.
    destruct (append_all h nil_slice (elems h dflt)) as [h' s]. destruct H as [Hf [_ [Ha He]]].
    split; [|split].
    + intros _. split; [|exact Hf]. rewrite He. reflexivity.
    + intros Hc. contradiction.
    + exact Ha.
  - split; [|split].
    + intros Hc. contradiction.
    + intros _. split; reflexivity.
    + intros a _. reflexivity.
Qed.

(* the session model's Discover Versions computes discover_spec *)
Require Import Session.
Lemma session_discover_spec sup offer : Session.discover sup offer = discover_spec sup offer.
Proof.
  unfold Session.discover, discover_spec. destruct offer as [|o r]; [reflexivity|].
  apply flat_map_ext. intros a. clear.
  induction sup as [|v s IH]; cbn [find first_match]; [reflexivity|].
  change (Session.pair_eqb a v) with (pv_eqb a v). destruct (pv_eqb a v); [reflexivity|exact IH].
Qed.

(* ---------- several items of one request ---------- *)
Lemma handle_discover_length h sup offer : (length h <= length (fst (handle_discover h sup offer)))%nat.
Proof.
  unfold handle_discover. destruct offer as [|o r].
  - pose proof (append_all_fresh (length h) (elems h sup) h nil_slice (le_n _) (fresh_nil _ _)) as H.
    destruct (append_all h nil_slice (elems h sup)) as [h' res]. cbn [fst]. tauto.
  - pose proof (match_loop_fresh (length h) (elems h sup) (o :: r) h nil_slice (le_n _) (fresh_nil _ _)) as H.
    destruct (match_loop h nil_slice (o :: r) (elems h sup)) as [h' res]. cbn [fst]. tauto.
Qed.

(* a slice stays what it is as long as the array it lives in is left alone *)
Lemma elems_stable h h' s :
  ((s_cap s = 0 /\ s_len s = 0) \/ arr h' (s_arr s) = arr h (s_arr s))%nat -> elems h' s = elems h s.
Proof.
  intros [[_ Hl]|Ha]; unfold elems.
  - rewrite Hl. reflexivity.
  - rewrite Ha. reflexivity.
Qed.

Lemma discover_batch_correct offers : forall h sup,
  (s_arr sup < length h)%nat ->
  let '(h', ss) := discover_batch h sup offers in
  map (elems h') ss = map (discover_spec (elems h sup)) offers /\
  (length h <= length h')%nat /\
  (forall a, (a < length h)%nat -> arr h' a = arr h a) /\
  Forall (fun s => fresh_from (length h) h' s \/ (s_cap s = 0 /\ s_len s = 0)%nat) ss.
Proof.
  induction offers as [|o r IH]; intros h sup Hs; cbn [discover_batch map].
  - split; [reflexivity|]. split; [lia|]. split; [auto|constructor].
  - pose proof (handle_discover_correct h sup o) as H1. pose proof (handle_discover_length h sup o) as L1.
    destruct (handle_discover h sup o) as [h1 s1]. cbn [fst] in L1. destruct H1 as (E1 & F1 & A1).
    specialize (IH h1 sup ltac:(lia)). destruct (discover_batch h1 sup r) as [h2 ss]. destruct IH as (E2 & L2 & A2 & F2).
    assert (Esup: elems h1 sup = elems h sup) by (apply elems_stable; right; apply A1; exact Hs).
    split; [|split; [|split]].
    + cbn [map]. f_equal.
      * rewrite <- E1. apply elems_stable. destruct F1 as [Z|((Hlo & Hhi) & _)]; [left; exact Z|right; apply A2; exact Hhi].
      * rewrite E2, Esup. reflexivity.
    + lia.
    + intros a Ha. rewrite A2 by lia. apply A1. exact Ha.
    + constructor.
      * destruct F1 as [Z|((Hlo & Hhi) & Ho & Hc & Hl)]; [right; exact Z|].
        left. right. rewrite (A2 _ Hhi). split; [lia|]. split; [exact Ho|]. split; [exact Hc|exact Hl].
      * eapply Forall_impl; [|exact F2]. intros s [[Z|((Hlo & Hhi) & Rest)]|Z]; [right; exact Z| |right; exact Z].
        left. right. split; [lia|exact Rest].
Qed.

(* distinct non-empty replies of one batch live in distinct arrays *)
Lemma discover_batch_disjoint offers : forall h sup,
  (s_arr sup < length h)%nat ->
  let '(h', ss) := discover_batch h sup offers in
  forall i j si sj, nth_error ss i = Some si -> nth_error ss j = Some sj -> i <> j ->
    s_cap si = 0%nat \/ s_cap sj = 0%nat \/ s_arr si <> s_arr sj.
Proof.
  induction offers as [|o r IH]; intros h sup Hs; cbn [discover_batch].
  - intros i j si sj Hi. destruct i; discriminate.
  - pose proof (handle_discover_correct h sup o) as H1. pose proof (handle_discover_length h sup o) as L1.
    destruct (handle_discover h sup o) as [h1 s1]. cbn [fst] in L1. destruct H1 as (E1 & F1 & A1).
    pose proof (discover_batch_correct r h1 sup ltac:(lia)) as C2.
    specialize (IH h1 sup ltac:(lia)). destruct (discover_batch h1 sup r) as [h2 ss]. destruct C2 as (_ & _ & _ & F2).
    intros i j si sj Hi Hj Hij.
    assert (Hfirst: forall k sk, nth_error ss k = Some sk -> s_cap s1 = 0%nat \/ s_cap sk = 0%nat \/ s_arr s1 <> s_arr sk).
    { intros k sk Hk. apply nth_error_In in Hk. rewrite Forall_forall in F2. specialize (F2 _ Hk).
      destruct F1 as [[Z _]|((Hlo & Hhi) & _)]; [left; exact Z|].
      destruct F2 as [[[Z _]|((Hlo2 & _) & _)]|[Z _]]; [right; left; exact Z| |right; left; exact Z].
      right. right. lia. }
    destruct i as [|i], j as [|j]; cbn [nth_error] in Hi, Hj.
    + congruence.
    + injection Hi as <-. apply (Hfirst j sj Hj).
    + injection Hj as <-. destruct (Hfirst i si Hi) as [Z|[Z|Z]]; [right; left; exact Z|left; exact Z|right; right; congruence].
    + apply (IH i j si sj Hi Hj). congruence.
Qed.
