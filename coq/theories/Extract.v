(* Extract.v - extraction of the executable models to ocaml/model.ml.
   Directives: ExtrOcamlBasic (bool, option, unit, list, prod, sumbool -> OCaml natives) and
   ExtrOcamlString (ascii -> char, string -> char list).  N, Z, positive, nat and byte stay Coq
   inductives.  No Extract Constant. *)
From Coq Require Import Extraction ExtrOcamlBasic ExtrOcamlString NArith ZArith Strings.Byte.
Require Import Bytes Schema Fields Codec Readers Session Discover Accept Client TLS Shutdown Instance InstanceProofs UserTypes.
Extraction Language OCaml.
Extraction "model.ml" inst_wf_b Shutdown.step Shutdown.init Shutdown.run inst_send inst_discover_versions clife_run clife0 inst_server_tls inst_client_tls inst_server_tls_from inst_client_tls_from server_handshake_ok client_handshake_ok handle_discover serve_defaults elems serve inst_session default_versions inst_enc_top inst_cdec inst_cstream rden inst_dec_top inst_spec_decode inst_normalize inst_T type_codes_b user_desc user_enc user_dec type_code tc_structure session_id
  Byte.to_N Byte.of_N N.of_nat N.to_nat Z.of_N Z.to_N Z.opp Z.add Z.mul N.add N.mul N.eqb N.leb Z.eqb Z.leb Z.ltb blen.
