(* SessionProofs.v - theorems about the session model (C07, C08, C09, C10, C15) *)
From Coq Require Import String.
From Coq Require Import List NArith ZArith Bool Lia Strings.Byte ZifyN ZifyNat.
Require Import Bytes BytesProofs Schema Codec CodecProofs Session.
Import ListNotations.
Open Scope N_scope.

Arguments N.add : simpl never.
Arguments N.mul : simpl never.
Arguments N.pow : simpl never.
Arguments N.modulo : simpl never.

(* ---------- vlist / field access ---------- *)
Fixpoint flen (fl : flist) : nat := match fl with FNil => O | FCons _ _ r => S (flen r) end.

Lemma vl_length_set i x l : vl_length (vl_set i x l) = vl_length l.
Proof. revert i; induction l as [|v r IH]; intros i; destruct i; cbn; auto. Qed.

Lemma vl_nth_set_same i x l : (i < vl_length l)%nat -> vl_nth i (vl_set i x l) = x.
Proof. revert i; induction l as [|v r IH]; intros i H; cbn in *; [lia|]. destruct i; cbn; [reflexivity|apply IH; lia]. Qed.

Lemma vl_nth_set_other i j x l : i <> j -> vl_nth i (vl_set j x l) = vl_nth i l.
Proof.
  revert i j; induction l as [|v r IH]; intros i j H; [destruct j; reflexivity|].
  destruct j, i; cbn; try reflexivity; try congruence. apply IH. congruence.
Qed.

Lemma zeros_of_length fl : vl_length (zeros_of fl) = flen fl.
Proof. induction fl as [|a s r IH]; cbn; [reflexivity|]. rewrite IH. reflexivity. Qed.

Lemma field_index_range fl n k i : field_index fl n k = Some i -> (k <= i < k + flen fl)%nat.
Proof.
  revert k; induction fl as [|a s r IH]; intros k H; cbn in *; [discriminate|].
  destruct (String.eqb (fa_name a) n).
  - injection H as <-. lia.
  - apply IH in H. lia.
Qed.

Lemma field_index_inj fl n m k i : field_index fl n k = Some i -> field_index fl m k = Some i -> n = m.
Proof.
  revert k; induction fl as [|a s r IH]; intros k Hn Hm; cbn in *; [discriminate|].
  destruct (String.eqb_spec (fa_name a) n) as [En|En]; destruct (String.eqb_spec (fa_name a) m) as [Em|Em].
  - congruence.
  - injection Hn as <-. apply field_index_range in Hm. lia.
  - injection Hm as <-. apply field_index_range in Hn. lia.
  - eapply IH; eauto.
Qed.

Local Opaque bytes_of.

Section Proofs.
  Variable T : tyenv.
  Variable K : sconsts.

  (* a struct value whose field list has the length its type's descriptor says *)
  Definition shaped (v : val) : Prop :=
    match v with
    | VStruct ty vs => exists tag fl, T ty = Some (tag, fl) /\ vl_length vs = flen fl
    | _ => False
    end.

  Definition has_field (v : val) (n : string) : Prop :=
    match v with
    | VStruct ty vs => exists tag fl i, T ty = Some (tag, fl) /\ field_index fl n 0 = Some i
    | _ => False
    end.

  Lemma shaped_set v n x : shaped v -> shaped (set_field T v n x).
  Proof.
    destruct v; cbn; try tauto. intros [tag [fl [HT Hl]]]. rewrite HT.
    destruct (field_index fl n 0); cbn; [|eauto]. exists tag, fl. rewrite vl_length_set. auto.
  Qed.

  Lemma has_field_set v n m x : has_field v m -> has_field (set_field T v n x) m.
  Proof.
    destruct v; cbn; try tauto. intros [tag [fl [i [HT Hi]]]]. rewrite HT.
    destruct (field_index fl n 0); cbn; eauto.
  Qed.

  Lemma get_set_same v n x : shaped v -> has_field v n -> get_field T (set_field T v n x) n = x.
  Proof.
    destruct v; cbn; try tauto. intros [tag [fl [HT Hl]]] [tag' [fl' [i [HT' Hi]]]].
    rewrite HT in HT'. injection HT' as <- <-. rewrite HT, Hi. cbn. rewrite HT, Hi.
    apply vl_nth_set_same. apply field_index_range in Hi. lia.
  Qed.

  Lemma get_set_other v n m x : n <> m -> get_field T (set_field T v n x) m = get_field T v m.
  Proof.
    intros Hne. destruct v; cbn; try reflexivity. destruct (T ty) as [[tag fl]|] eqn:HT; [|cbn; rewrite HT; reflexivity].
    destruct (field_index fl n 0) as [i|] eqn:Hi; cbn; rewrite HT; [|reflexivity].
    destruct (field_index fl m 0) as [j|] eqn:Hj; [|reflexivity].
    apply vl_nth_set_other. intros ->. apply Hne. eapply field_index_inj; eauto.
  Qed.

  Lemma shaped_zero ty tag fl : T ty = Some (tag, fl) -> shaped (zero_struct T ty).
  Proof. intros H. unfold zero_struct. rewrite H. cbn. exists tag, fl. rewrite zeros_of_length. auto. Qed.

  (* ------------------------------------------------------------------ *)
  (* C08: items                                                         *)
  (* ------------------------------------------------------------------ *)
  Definition item_op (item : val) : N := match get_field T item "Operation" with VEnum n => n | _ => 0 end.
  Definition scripted (c : cfg) (item : val) : bool := existsb (N.eqb (item_op item)) (c_ops c).

  (* the outcome the property assigns to each item, given the behaviours of the scripted handlers in call order *)
  Fixpoint outcomes (c : cfg) (items : list val) (script : list behaviour) : list outcome :=
    match items with
    | [] => []
    | it :: r =>
        if scripted c it then
          match script with
          | b :: rest => outcome_of K b :: outcomes c r rest
          | [] => OSuccess VNil :: outcomes c r []
          end
        else (if item_op it =? k_discover_versions K then builtin_dv T K c (get_field T it "RequestPayload")
              else OFailed (bytes_of "operation not supported") (k_not_supported K)) :: outcomes c r script
    end.

  (* the handler invocations: exactly the items with a registered handler, in item order, with that item's payload *)
  Definition calls (c : cfg) (rauth : option bytes) (items : list val) : list event :=
    map (fun it => ECall (c_sid c) (sauth_of c) rauth (item_op it) (get_field T it "RequestPayload"))
        (filter (scripted c) items).

  Lemma handle_items_spec c rauth items script :
    let '(evs, ritems, _) := handle_items T K c rauth items script in
    evs = calls c rauth items /\
    ritems = map (fun p => response_item T K (fst p) (snd p)) (combine items (outcomes c items script)).
  Proof.
    revert script. induction items as [|it r IH]; intros script; cbn [handle_items]; [split; reflexivity|].
    unfold handle_item. fold (item_op it). unfold calls. cbn [filter outcomes].
    change (existsb (N.eqb (item_op it)) (c_ops c)) with (scripted c it).
    destruct (scripted c it) eqn:Hs.
    - destruct script as [|b rest].
      + specialize (IH []). destruct (handle_items T K c rauth r []) as [[evs rs] sc].
        destruct IH as [-> ->]. cbn. split; reflexivity.
      + specialize (IH rest). destruct (handle_items T K c rauth r rest) as [[evs rs] sc].
        destruct IH as [-> ->]. cbn. split; reflexivity.
    - destruct (item_op it =? k_discover_versions K).
      + specialize (IH script). destruct (handle_items T K c rauth r script) as [[evs rs] sc].
        destruct IH as [-> ->]. cbn. split; reflexivity.
      + specialize (IH script). destruct (handle_items T K c rauth r script) as [[evs rs] sc].
        destruct IH as [-> ->]. cbn. split; reflexivity.
  Qed.

  Lemma outcomes_length c items script : length (outcomes c items script) = length items.
  Proof.
    revert script; induction items as [|it r IH]; intros script; cbn; [reflexivity|].
    destruct (scripted c it); [destruct script|]; cbn; rewrite IH; reflexivity.
  Qed.

  (* one response item per request item, in order *)
  Lemma handle_items_length c rauth items script :
    length (snd (fst (handle_items T K c rauth items script))) = length items.
  Proof.
    pose proof (handle_items_spec c rauth items script) as H.
    destruct (handle_items T K c rauth items script) as [[evs rs] sc]. destruct H as [_ ->]. cbn.
    rewrite map_length, combine_length, outcomes_length. lia.
  Qed.

  (* independence: an item without a scripted handler gets its outcome whatever the script says,
     and the outcome of the j-th scripted item is the j-th behaviour alone *)
  Lemma outcomes_unscripted c items script script' :
    Forall (fun it => scripted c it = false) items -> outcomes c items script = outcomes c items script'.
  Proof.
    intros H; revert script script'; induction H as [|it r Hit _ IH]; intros s s'; cbn; [reflexivity|].
    rewrite Hit. f_equal. apply IH.
  Qed.

  Lemma outcomes_all_scripted c items script :
    Forall (fun it => scripted c it = true) items -> length script = length items ->
    outcomes c items script = map (outcome_of K) script.
  Proof.
    intros H; revert script; induction H as [|it r Hit _ IH]; intros s Hl; destruct s; cbn in *; try discriminate; [reflexivity|].
    rewrite Hit. f_equal. apply IH. lia.
  Qed.

  (* ------------------------------------------------------------------ *)
  (* handleBatch                                                        *)
  (* ------------------------------------------------------------------ *)
  Definition req_header (req : val) : val := get_field T req "Header".
  Definition req_items (req : val) : list val :=
    match get_field T req "BatchItems" with VList vs => list_of_vl vs | _ => [] end.
  Definition req_auth_val (req : val) : val := get_field T (req_header req) "Authentication".
  Definition has_creds (req : val) : bool :=
    match get_field T (req_auth_val req) "CredentialType" with VEnum 0 => false | VEnum _ => true | _ => false end.
  Definition count_ok (req : val) : bool :=
    (match get_field T (req_header req) "BatchCount" with VInt z => z | _ => 0%Z end =? Z.of_nat (length (req_items req)))%Z.
  Definition is_async (req : val) : bool :=
    match get_field T (req_header req) "AsynchronousIndicator" with VBool true => true | _ => false end.
  (* the request-auth value of THIS request: nil if it carries no credentials *)
  Definition rauth_of (c : cfg) (req : val) : option bytes :=
    if has_creds req then req_auth_fn T (c_sid c) (req_auth_val req) else None.
  (* a request is processed iff it is consistent and, if it carries credentials, they are accepted by a configured callback *)
  Definition cleared (c : cfg) (req : val) : bool :=
    count_ok req && negb (is_async req) &&
    (negb (has_creds req) || (c_req_auth c && match req_auth_fn T (c_sid c) (req_auth_val req) with Some _ => true | None => false end)).

  Definition build_response (c : cfg) (req : val) (ritems : list val) : val :=
    let hdr := req_header req in
    let h0 := zero_struct T "ResponseHeader" in
    let h1 := set_field T h0 "Version" (get_field T hdr "Version") in
    let h2 := set_field T h1 "TimeStamp" (VTime (c_now c)) in
    let h3 := set_field T h2 "ClientCorrelationValue" (get_field T hdr "ClientCorrelationValue") in
    let h4 := set_field T h3 "BatchCount" (get_field T hdr "BatchCount") in
    set_field T (set_field T (zero_struct T "Response") "Header" h4) "BatchItems" (VList (vl_of_list ritems)).

  Definition is_call (e : event) : bool := match e with ECall _ _ _ _ _ => true | _ => false end.
  Definition is_wrote (e : event) : bool := match e with EWrote _ => true | _ => false end.

  Lemma handle_batch_spec c req script :
    let '(evs, oresp, script') := handle_batch T K c req script in
    if cleared c req then
      evs = (if has_creds req then [EReqAuth (req_auth_val req) true] else []) ++ calls c (rauth_of c req) (req_items req) /\
      oresp = Some (build_response c req
                (map (fun p => response_item T K (fst p) (snd p))
                     (combine (req_items req) (outcomes c (req_items req) script))))
    else
      oresp = None /\ script' = script /\
      (evs = [] \/ evs = [EReqAuth (req_auth_val req) false]).
  Proof.
    unfold handle_batch, cleared.
    fold (req_header req). fold (req_items req). fold (count_ok req). fold (req_auth_val req). fold (has_creds req).
    destruct (count_ok req); cbn [negb andb]; [|auto].
    unfold is_async. destruct (get_field T (req_header req) "AsynchronousIndicator") as [| | |[|]| | | | | | | | |];
      cbn [negb andb]; auto.
    all: unfold rauth_of; destruct (has_creds req); cbn [negb orb andb].
    all: try (destruct (c_req_auth c); cbn [andb]; [|auto];
              destruct (req_auth_fn T (c_sid c) (req_auth_val req)) as [tok|]; [|auto]).
    all: lazymatch goal with
         | |- context [handle_items T K ?cc ?ra ?its ?scr] =>
             let Hs := fresh "Hs" in
             pose proof (handle_items_spec cc ra its scr) as Hs;
             destruct (handle_items T K cc ra its scr) as [[evs rs] sc];
             destruct Hs as [-> ->]; split; reflexivity
         end.
  Qed.

  (* ------------------------------------------------------------------ *)
  (* one iteration of the request loop                                   *)
  (* ------------------------------------------------------------------ *)
  Definition arm_r (c : cfg) : list event := if c_read_to c then [EArmRead] else [].
  Definition arm_w (c : cfg) : list event := if c_write_to c then [EArmWrite] else [].

  Inductive step_result (c : cfg) (st : dstate) (script : list behaviour) : list event -> option (dstate * list behaviour) -> Prop :=
  | SR_undecodable k :
      (* the next message does not decode (or the stream ended): close, nothing else *)
      (forall tag fl, request_top T = Some (tag, fl) -> forall r, dec_top "Request" tag fl st <> Ok r) ->
      step_result c st script (arm_r c ++ [EClose k]) None
  | SR_rejected tag fl req n st' evs k :
      request_top T = Some (tag, fl) -> dec_top "Request" tag fl st = Ok (req, n, st') ->
      cleared c req = false -> (evs = [] \/ evs = [EReqAuth (req_auth_val req) false]) ->
      step_result c st script (arm_r c ++ evs ++ [EClose k]) None
  | SR_unencodable tag fl req n st' ritems k :
      request_top T = Some (tag, fl) -> dec_top "Request" tag fl st = Ok (req, n, st') ->
      cleared c req = true ->
      ritems = map (fun p => response_item T K (fst p) (snd p)) (combine (req_items req) (outcomes c (req_items req) script)) ->
      enc_top T (VPtr (build_response c req ritems)) = None ->
      step_result c st script
        (arm_r c ++ ((if has_creds req then [EReqAuth (req_auth_val req) true] else []) ++ calls c (rauth_of c req) (req_items req))
               ++ arm_w c ++ [EEncodeFailed; EClose k]) None
  | SR_answered tag fl req n st' ritems b script' :
      request_top T = Some (tag, fl) -> dec_top "Request" tag fl st = Ok (req, n, st') ->
      cleared c req = true ->
      ritems = map (fun p => response_item T K (fst p) (snd p)) (combine (req_items req) (outcomes c (req_items req) script)) ->
      enc_top T (VPtr (build_response c req ritems)) = Some b ->
      step_result c st script
        (arm_r c ++ ((if has_creds req then [EReqAuth (req_auth_val req) true] else []) ++ calls c (rauth_of c req) (req_items req))
               ++ arm_w c ++ [EWrote b]) (Some (st', script')).

  Lemma request_step_spec c st script :
    let '(evs, k) := request_step T K c st script in step_result c st script evs k.
  Proof.
    unfold request_step. fold (arm_r c).
    destruct (request_top T) as [[tag fl]|] eqn:Htop.
    2:{ apply SR_undecodable. intros tag fl H; rewrite Htop in H; discriminate. }
    destruct (dec_top "Request" tag fl st) as [[[req n] st']| | |] eqn:Hdec.
    2,3:(apply SR_undecodable; intros tag' fl' H r; rewrite Htop in H; injection H as <- <-; rewrite Hdec; discriminate).
    2:{ exfalso. exact (dec_top_total _ _ _ _ Hdec). }
    pose proof (handle_batch_spec c req script) as Hb.
    destruct (handle_batch T K c req script) as [[evs oresp] script'].
    destruct (cleared c req) eqn:Hadm.
    - destruct Hb as [-> ->]. fold (arm_w c).
      destruct (enc_top T (VPtr (build_response c req _))) as [b|] eqn:Henc.
      + eapply SR_answered; eauto.
      + eapply SR_unencodable; eauto.
    - destruct Hb as [-> [-> Hev]]. eapply SR_rejected; eauto.
  Qed.

  (* ------------------------------------------------------------------ *)
  (* whole traces                                                       *)
  (* ------------------------------------------------------------------ *)
  Definition is_close (e : event) : bool := match e with EClose _ => true | _ => false end.
  (* events that belong to the processing of one cleared request *)
  Definition req_event (c : cfg) (e : event) : Prop :=
    match e with
    | EReqAuth _ _ => True
    | ECall sid sa _ _ _ => sid = c_sid c /\ sa = sauth_of c
    | _ => False
    end.
  (* events that may precede the final close *)
  Definition tail_event (c : cfg) (e : event) : Prop :=
    match e with
    | EArmWrite => c_write_to c = true
    | EEncodeFailed => True
    | _ => req_event c e
    end.

  (* the shape of every session trace: per request, the read deadline is armed iff configured, then
     the request's own events, then - iff configured - the write deadline, then exactly one response;
     a request that is not answered is followed by Close and nothing else *)
  Inductive trace_ok (c : cfg) : list event -> Prop :=
  | TO_final mid k : Forall (tail_event c) mid -> trace_ok c (arm_r c ++ mid ++ [EClose k])
  | TO_answered mid b rest :
      Forall (req_event c) mid -> trace_ok c rest ->
      trace_ok c (arm_r c ++ mid ++ arm_w c ++ EWrote b :: rest).

  Lemma calls_req_event c ra items : Forall (req_event c) (calls c ra items).
  Proof. unfold calls. apply Forall_forall. intros e He. apply in_map_iff in He. destruct He as [it [<- _]]. cbn. auto. Qed.

  Lemma req_tail c e : req_event c e -> tail_event c e.
  Proof. destruct e; cbn; tauto. Qed.

  Lemma arm_w_tail c : Forall (tail_event c) (arm_w c).
  Proof. unfold arm_w. destruct (c_write_to c) eqn:E; constructor; [exact E|constructor]. Qed.

  Lemma serve_loop_trace_ok c : forall fuel st script,
    (length (rest st) < fuel)%nat -> trace_ok c (serve_loop T K fuel c st script).
  Proof.
    induction fuel as [|f IH]; intros st script Hlt; [lia|].
    cbn [serve_loop]. pose proof (request_step_spec c st script) as Hs.
    destruct (request_step T K c st script) as [evs k].
    destruct Hs as [k Hund | tag fl req n st' evs k Htop Hdec Hadm Hev | tag fl req n st' ritems k Htop Hdec Hadm Hri Henc
                   | tag fl req n st' ritems b script' Htop Hdec Hadm Hri Henc].
    - rewrite app_nil_r. apply (TO_final c [] k). constructor.
    - rewrite app_nil_r. apply TO_final. destruct Hev as [->| ->]; repeat constructor.
    - rewrite app_nil_r.
      replace (arm_r c ++ ((if has_creds req then [EReqAuth (req_auth_val req) true] else []) ++ calls c (rauth_of c req) (req_items req))
                      ++ arm_w c ++ [EEncodeFailed; EClose k])
        with (arm_r c ++ (((if has_creds req then [EReqAuth (req_auth_val req) true] else []) ++ calls c (rauth_of c req) (req_items req))
                      ++ arm_w c ++ [EEncodeFailed]) ++ [EClose k])
        by (rewrite <- !app_assoc; reflexivity).
      apply TO_final. apply Forall_app; split; [apply Forall_app; split|apply Forall_app; split].
      + destruct (has_creds req); repeat constructor.
      + eapply Forall_impl; [apply req_tail|apply calls_req_event].
      + apply arm_w_tail.
      + repeat constructor.
    - rewrite <- !app_assoc. cbn [app].
      replace (arm_r c ++ (if has_creds req then [EReqAuth (req_auth_val req) true] else []) ++
               calls c (rauth_of c req) (req_items req) ++ arm_w c ++ EWrote b :: serve_loop T K f c st' script')
        with (arm_r c ++ ((if has_creds req then [EReqAuth (req_auth_val req) true] else []) ++ calls c (rauth_of c req) (req_items req))
                      ++ arm_w c ++ EWrote b :: serve_loop T K f c st' script')
        by (rewrite <- !app_assoc; reflexivity).
      apply TO_answered.
      + apply Forall_app; split; [destruct (has_creds req); repeat constructor|apply calls_req_event].
      + apply IH. unfold dec_top in Hdec. apply (proj1 dec_value_progress) in Hdec. lia.
  Qed.

  (* consequences of the shape *)
  Lemma trace_ok_no_fuel c t : trace_ok c t -> ~ In EOutOfFuel t.
  Proof.
    induction 1 as [mid k Hmid | mid b rest Hmid _ IH]; intros Hin.
    - apply in_app_or in Hin. destruct Hin as [Hin|Hin].
      { unfold arm_r in Hin. destruct (c_read_to c); cbn in Hin; [destruct Hin as [E|[]]; discriminate|contradiction]. }
      apply in_app_or in Hin. destruct Hin as [Hin|Hin].
      { rewrite Forall_forall in Hmid. apply Hmid in Hin. exact Hin. }
      cbn in Hin. destruct Hin as [E|[]]; discriminate.
    - apply in_app_or in Hin. destruct Hin as [Hin|Hin].
      { unfold arm_r in Hin. destruct (c_read_to c); cbn in Hin; [destruct Hin as [E|[]]; discriminate|contradiction]. }
      apply in_app_or in Hin. destruct Hin as [Hin|Hin].
      { rewrite Forall_forall in Hmid. apply Hmid in Hin. exact Hin. }
      apply in_app_or in Hin. destruct Hin as [Hin|Hin].
      { unfold arm_w in Hin. destruct (c_write_to c); cbn in Hin; [destruct Hin as [E|[]]; discriminate|contradiction]. }
      cbn in Hin. destruct Hin as [E|Hin]; [discriminate|auto].
  Qed.

  (* every handler invocation of the trace carries this connection's session id and session-auth value *)
  Lemma trace_ok_calls c t : trace_ok c t ->
    forall sid sa ra op p, In (ECall sid sa ra op p) t -> sid = c_sid c /\ sa = sauth_of c.
  Proof.
    induction 1 as [mid k Hmid | mid b rest Hmid _ IH]; intros sid sa ra op p Hin.
    - apply in_app_or in Hin. destruct Hin as [Hin|Hin].
      { unfold arm_r in Hin. destruct (c_read_to c); cbn in Hin; [destruct Hin as [E|[]]; discriminate|contradiction]. }
      apply in_app_or in Hin. destruct Hin as [Hin|Hin].
      { rewrite Forall_forall in Hmid. apply Hmid in Hin. exact Hin. }
      cbn in Hin. destruct Hin as [E|[]]; discriminate.
    - apply in_app_or in Hin. destruct Hin as [Hin|Hin].
      { unfold arm_r in Hin. destruct (c_read_to c); cbn in Hin; [destruct Hin as [E|[]]; discriminate|contradiction]. }
      apply in_app_or in Hin. destruct Hin as [Hin|Hin].
      { rewrite Forall_forall in Hmid. apply Hmid in Hin. exact Hin. }
      apply in_app_or in Hin. destruct Hin as [Hin|Hin].
      { unfold arm_w in Hin. destruct (c_write_to c); cbn in Hin; [destruct Hin as [E|[]]; discriminate|contradiction]. }
      cbn in Hin. destruct Hin as [E|Hin]; [discriminate|eauto].
  Qed.

  (* no deadline is ever armed when the timeouts are zero *)
  Lemma trace_ok_no_arms c t : trace_ok c t ->
    (c_read_to c = false -> ~ In EArmRead t) /\ (c_write_to c = false -> ~ In EArmWrite t).
  Proof.
    induction 1 as [mid k Hmid | mid b rest Hmid _ [IHr IHw]]; split; intros Hc Hin.
    all: unfold arm_r, arm_w in *; rewrite ?Hc in *.
    all: repeat (apply in_app_or in Hin; destruct Hin as [Hin|Hin]).
    all: try (rewrite Forall_forall in Hmid; apply Hmid in Hin; cbn in Hin; try congruence; try contradiction).
    all: try (destruct (c_read_to c); cbn in Hin; intuition discriminate).
    all: try (destruct (c_write_to c); cbn in Hin; intuition discriminate).
    all: try (cbn in Hin; destruct Hin as [E|Hin]; [discriminate|]; auto).
    all: try (cbn in Hin; intuition discriminate).
  Qed.

  (* the session as a whole *)
  Lemma session_body_trace c input script :
    match c_sess_auth c with
    | Some false => session_body T K c input script = [ESessAuth false; EClose CloseError]
    | Some true => exists t, session_body T K c input script = ESessAuth true :: t /\ trace_ok c t
    | None => trace_ok c (session_body T K c input script)
    end.
  Proof.
    unfold session_body. destruct (c_sess_auth c) as [[|]|].
    - eexists; split; [reflexivity|]. apply serve_loop_trace_ok. cbn [rest]. lia.
    - reflexivity.
    - apply serve_loop_trace_ok. cbn [rest]. lia.
  Qed.

  Theorem session_trace c input script :
    c_tls c = None ->
    match c_sess_auth c with
    | Some false => session T K c input script = [ESessAuth false; EClose CloseError]
    | Some true => exists t, session T K c input script = ESessAuth true :: t /\ trace_ok c t
    | None => trace_ok c (session T K c input script)
    end.
  Proof. intros H. unfold session. rewrite H. apply session_body_trace. Qed.

  (* on a TLS connection: both deadlines armed iff configured, then the handshake; if it fails nothing else
     happens - no callback, no handler, no response - and the connection is closed *)
  Theorem session_tls c input script ok :
    c_tls c = Some ok ->
    session T K c input script =
      arm_r c ++ arm_w c ++ EHandshake ok :: (if ok then session_body T K c input script else [EClose CloseError]).
  Proof. intros H. unfold session. rewrite H. reflexivity. Qed.

  (* ------------------------------------------------------------------ *)
  (* the response answers the request (C07), item outcomes (C08)        *)
  (* ------------------------------------------------------------------ *)
  Definition env_fields : list (string * string) :=
    [("Response", "Header"); ("Response", "BatchItems");
     ("ResponseHeader", "Version"); ("ResponseHeader", "TimeStamp");
     ("ResponseHeader", "ClientCorrelationValue"); ("ResponseHeader", "BatchCount");
     ("ResponseBatchItem", "Operation"); ("ResponseBatchItem", "UniqueID");
     ("ResponseBatchItem", "ResultStatus"); ("ResponseBatchItem", "ResultReason");
     ("ResponseBatchItem", "ResultMessage"); ("ResponseBatchItem", "ResponsePayload")]%string.

  Definition env_ok_b : bool :=
    forallb (fun p => match T (fst p) with
                      | Some (_, fl) => match field_index fl (snd p) 0 with Some _ => true | None => false end
                      | None => false
                      end) env_fields.

  Lemma env_ok_field ty n : env_ok_b = true -> In (ty, n) env_fields ->
    shaped (zero_struct T ty) /\ has_field (zero_struct T ty) n.
  Proof.
    intros H Hin. unfold env_ok_b in H. rewrite forallb_forall in H. specialize (H _ Hin). cbn [fst snd] in H.
    destruct (T ty) as [[tag fl]|] eqn:HT; [|discriminate].
    destruct (field_index fl n 0) as [i|] eqn:Hi; [|discriminate].
    split; [eapply shaped_zero; eauto|]. unfold zero_struct. rewrite HT. cbn. eauto.
  Qed.

  Ltac in_env := cbn; repeat (first [left; reflexivity | right]).
  Ltac env_side Hok :=
    first [ apply shaped_set; env_side Hok
          | apply has_field_set; env_side Hok
          | eapply proj1; eapply (env_ok_field _ _ Hok); in_env
          | eapply proj2; eapply (env_ok_field _ _ Hok); in_env ].

  Ltac getset Hok :=
    repeat first [ rewrite get_set_other by discriminate
                 | rewrite get_set_same by (env_side Hok) ].

  Theorem response_answers c req ritems : env_ok_b = true ->
    let resp := build_response c req ritems in
    let ph := get_field T resp "Header" in
    get_field T ph "Version" = get_field T (req_header req) "Version" /\
    get_field T ph "ClientCorrelationValue" = get_field T (req_header req) "ClientCorrelationValue" /\
    get_field T ph "BatchCount" = get_field T (req_header req) "BatchCount" /\
    get_field T ph "TimeStamp" = VTime (c_now c) /\
    get_field T resp "BatchItems" = VList (vl_of_list ritems).
  Proof.
    intros Hok. cbv zeta. unfold build_response.
    repeat split; getset Hok; reflexivity.
  Qed.

  Theorem response_item_reports item o : env_ok_b = true ->
    let r := response_item T K item o in
    get_field T r "Operation" = get_field T item "Operation" /\
    get_field T r "UniqueID" = get_field T item "UniqueID" /\
    match o with
    | OSuccess p => get_field T r "ResultStatus" = VEnum (k_success K) /\ get_field T r "ResponsePayload" = p
    | OFailed m reason =>
        get_field T r "ResultStatus" = VEnum (k_failed K) /\ get_field T r "ResultMessage" = VStr m /\
        get_field T r "ResultReason" = VEnum reason
    end.
  Proof.
    intros Hok. cbv zeta. unfold response_item. destruct o; repeat split; getset Hok; reflexivity.
  Qed.

  (* the outcome classification of the property *)
  Theorem outcome_of_classification b :
    match b with
    | BSuccess p => outcome_of K b = OSuccess p
    | BFail m => outcome_of K b = OFailed m (k_general_failure K)
    | BFailReason m r => outcome_of K b = OFailed m r
    | BPanic shown => exists m, outcome_of K b = OFailed m (k_general_failure K)
    end.
  Proof. destruct b; cbn; eauto. Qed.
End Proofs.
