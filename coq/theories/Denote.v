(* Denote.v - the independent specification of what Decode must accept and what the accepted bytes
   denote (C04).  Two parts, neither of which knows anything about the decoder:

     1. a schema-free TTLV splitter: [head_item] takes one item off a byte string - 3-byte tag,
        1-byte type, 4-byte length, the value, padding to a multiple of 8 - provided it fits in what
        is there; [split_items] tiles a byte string with items, None unless the tiling is exact
        (padding content is not inspected: the property does not ask for zero padding);
     2. a schema matcher over items, [match_fields]: fields in declaration order; an item belongs to
        the next field whose tag it carries (tag 000000 is not a KMIP tag and belongs to no field);
        optional fields may be absent, required ones not; a sequence is the maximal run of items
        under its tag; fixed-size types have their mandated length; booleans are 0 or 1; a
        structure's payload is split and matched again and nothing may be left over in it; a
        skipped position takes its item(s) whatever they contain; dynamic fields are typed by the
        dispatch table applied to the fields before them.

   No decoder state, no look-ahead, no limit readers, no length accounting.  Definitions only;
   DenoteProofs.v proves that the decoder model accepts exactly what [spec_decode] accepts, with the
   same value and the same byte count. *)
From Coq Require Import String.
From Coq Require Import List NArith ZArith Bool Strings.Byte.
Require Import Bytes Schema Codec.
Import ListNotations.
Open Scope N_scope.

Record item := {
  i_tag : N; i_typ : N; i_len : N;
  i_val : bytes;          (* the value: i_len bytes *)
  i_pad : bytes           (* the padding after it *)
}.

Definition i_size (it : item) : N := 8 + padded (i_len it).
Definition raw (it : item) : bytes := header (i_tag it) (i_typ it) (i_len it) ++ i_val it ++ i_pad it.

(* the item at the head of a byte string, and what follows it *)
Definition head_item (bs : bytes) : option (item * bytes) :=
  if blen bs <? 8 then None
  else
    let len := unbe (firstn 4 (skipn 4 bs)) 0 in
    if blen bs <? 8 + padded len then None
    else Some ({| i_tag := unbe (firstn 3 bs) 0;
                  i_typ := unbe (firstn 1 (skipn 3 bs)) 0;
                  i_len := len;
                  i_val := firstn (N.to_nat len) (skipn 8 bs);
                  i_pad := firstn (N.to_nat (pad8 len)) (skipn (8 + N.to_nat len) bs) |},
               skipn (N.to_nat (8 + padded len)) bs).

(* tile a byte string with items *)
Fixpoint parse_items (fuel : nat) (bs : bytes) : option (list item) :=
  match fuel with
  | O => None
  | S f =>
      match bs with
      | [] => Some []
      | _ =>
          match head_item bs with
          | Some (it, tl) =>
              match parse_items f tl with Some r => Some (it :: r) | None => None end
          | None => None
          end
      end
  end.

Definition split_items (bs : bytes) : option (list item) := parse_items (S (List.length bs)) bs.

(* the value a primitive item denotes: type code and mandated length must be right *)
Definition prim_of_item (k : kind) (it : item) : option val :=
  if negb (i_typ it =? type_code k) then None
  else
    match k with
    | KInt => if i_len it =? 4 then Some (VInt (of_u32 (unbe (i_val it) 0))) else None
    | KEnum => if i_len it =? 4 then Some (VEnum (unbe (i_val it) 0)) else None
    | KDur => if i_len it =? 4 then Some (VDur (Z.of_N (unbe (i_val it) 0) * nanos)%Z) else None
    | KLong => if i_len it =? 8 then Some (VLong (of_u64 (unbe (i_val it) 0))) else None
    | KTime => if i_len it =? 8 then Some (VTime (of_u64 (unbe (i_val it) 0))) else None
    | KBool =>
        if i_len it =? 8 then
          match unbe (i_val it) 0 with
          | 0 => Some (VBool false)
          | 1 => Some (VBool true)
          | _ => None
          end
        else None
    | KBytes => Some (VBytes (i_val it))
    | KStr => Some (VStr (i_val it))
    end.

(* does this item belong to the field? *)
Definition item_for (a : fattr) (it : item) : bool :=
  negb (i_tag it =? 0) && ((i_tag it =? fa_tag a) || (fa_tag a =? ANY_TAG)).

(* the maximal run of items under a tag *)
Fixpoint span_tag (tag : N) (its : list item) : list item * list item :=
  match its with
  | it :: r => if i_tag it =? tag then let '(a, b) := span_tag tag r in (it :: a, b) else ([], its)
  | [] => ([], [])
  end.

Fixpoint vl_of_list (l : list val) : vlist :=
  match l with [] => VNone | v :: r => VCons v (vl_of_list r) end.

Fixpoint map_opt {A B} (f : A -> option B) (l : list A) : option (list B) :=
  match l with
  | [] => Some []
  | x :: r => match f x with
              | Some y => match map_opt f r with Some ys => Some (y :: ys) | None => None end
              | None => None
              end
  end.

Fixpoint interp_val (s : sch) (cur : vlist) (it : item) {struct s} : option val :=
  match s with
  | SPrim k => prim_of_item k it
  | SStruct ty fl =>
      if i_typ it =? tc_structure then
        match split_items (i_val it) with
        | Some its =>
            match match_fields fl O (zeros_of fl) its with
            | Some (vs, []) => Some (VStruct ty vs)       (* nothing unaccounted for *)
            | _ => None
            end
        | None => None
        end
      else None
  | SDyn _ ki cs => interp_cases cs (vl_nth ki cur) it
  end
with match_fields (fl : flist) (i : nat) (cur : vlist) (its : list item) {struct fl}
  : option (vlist * list item) :=
  match fl with
  | FNil => Some (cur, its)
  | FCons a s r =>
      match its with
      | it :: its' =>
          if item_for a it then
            if fa_slice a then
              (* this item and the run of items under the field's tag after it *)
              let '(es, rest) := span_tag (fa_tag a) its' in
              if fa_skip a then match_fields r (S i) (vl_set i (VList VNone) cur) rest
              else
                match map_opt (interp_val s cur) (it :: es) with
                | Some vs => match_fields r (S i) (vl_set i (VList (vl_of_list vs)) cur) rest
                | None => None
                end
            else if fa_skip a then match_fields r (S i) cur its'      (* one item, whatever it contains *)
            else
              match interp_val s cur it with
              | Some v => match_fields r (S i) (vl_set i v cur) its'
              | None => None
              end
          else if fa_req a then None else match_fields r (S i) cur its
      | [] => if fa_req a then None else match_fields r (S i) cur []
      end
  end
with interp_cases (cs : dcases) (key : val) (it : item) {struct cs} : option val :=
  match cs with
  | DNil => None
  | DCase k s r => if key_matches k key then interp_val s VNone it else interp_cases r key it
  end.

(* Decode(&v) for v of struct type [ty] (own tag [tag], fields [fl]) on the bytes [bs]: the value
   and the number of bytes that are the message *)
Definition spec_decode (ty : string) (tag : N) (fl : flist) (bs : bytes) : option (val * N) :=
  if blen bs <? 8 then None
  else
    let t := unbe (firstn 3 bs) 0 in
    let len := unbe (firstn 4 (skipn 4 bs)) 0 in
    if negb (t =? tag) then None
    else if blen bs <? 8 + len then None       (* the message must be there in full *)
    else
      match interp_val (SStruct ty fl) VNone
              {| i_tag := t; i_typ := unbe (firstn 1 (skipn 3 bs)) 0; i_len := len;
                 i_val := firstn (N.to_nat len) (skipn 8 bs); i_pad := [] |} with
      | Some v => Some (v, 8 + len)
      | None => None
      end.
