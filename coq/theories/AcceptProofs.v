(* AcceptProofs.v - C17 *)
From Coq Require Import List NArith Bool Lia ZifyN ZifyNat ZifyBool FinFun.
Require Import Accept.
Import ListNotations.
Open Scope N_scope.

Lemma next_delay_bounds d : d = 0 \/ 5 <= d -> 5 <= next_delay d <= 1000.
Proof. unfold next_delay. destruct (N.eqb_spec d 0); cbv iota; lia. Qed.

Definition sleep_ok (a : action) : Prop := match a with Sleep d => 5 <= d <= 1000 | _ => True end.

(* every back-off is between 5 ms and 1 s (the delay variable is 0 or a previous back-off) *)
Lemma accept_loop_sleeps rs : forall delay n, delay = 0 \/ 5 <= delay -> Forall sleep_ok (fst (accept_loop rs delay n)).
Proof.
  induction rs as [|[done|done|done] r IH]; intros delay n Hd; cbn [accept_loop]; try constructor.
  - destruct done; [constructor|].
    pose proof (next_delay_bounds delay Hd) as Hb.
    specialize (IH (next_delay delay) n). destruct (accept_loop r (next_delay delay) n) as [acts res]. cbn [fst] in *.
    constructor; [exact Hb|apply IH; lia].
  - destruct done; constructor.
  - destruct done; [repeat constructor|].
    specialize (IH 0 (S n)). destruct (accept_loop r 0 (S n)) as [acts res]. cbn [fst] in *.
    constructor; [exact I|apply IH; lia].
Qed.

(* the k-th consecutive temporary error (k = 0, 1, ...) after a reset sleeps min(5 * 2^k, 1000) ms *)
Fixpoint temps (k : nat) : list accept_result := match k with O => [] | S j => ATemp false :: temps j end.

Fixpoint backoff (k : nat) (d : N) : list action :=
  match k with O => [] | S j => Sleep (next_delay d) :: backoff j (next_delay d) end.

Fixpoint iter_delay (k : nat) (d : N) : N := match k with O => d | S j => iter_delay j (next_delay d) end.

(* a prefix of temporary errors never terminates the loop: it only sleeps, then goes on with what follows *)
Lemma temps_survived k : forall rest delay n,
  accept_loop (temps k ++ rest) delay n =
  (backoff k delay ++ fst (accept_loop rest (iter_delay k delay) n), snd (accept_loop rest (iter_delay k delay) n)).
Proof.
  induction k as [|j IH]; intros rest delay n; cbn [temps app backoff iter_delay].
  - destruct (accept_loop rest delay n); reflexivity.
  - cbn [accept_loop]. rewrite IH. reflexivity.
Qed.

Lemma iter_delay_closed k : forall d, 0 < d <= 1000 -> iter_delay k d = N.min 1000 (d * 2 ^ N.of_nat k).
Proof.
  induction k as [|j IH]; intros d Hd; cbn [iter_delay].
  - rewrite N.pow_0_r. lia.
  - assert (Hn: next_delay d = N.min 1000 (d * 2)) by (unfold next_delay; destruct (N.eqb_spec d 0); cbv iota; lia).
    rewrite IH by (rewrite Hn; lia). rewrite Hn.
    rewrite Nat2N.inj_succ, N.pow_succ_r'.
    assert (Hp: 1 <= 2 ^ N.of_nat j) by (pose proof (N.pow_nonzero 2 (N.of_nat j)); lia).
    destruct (N.le_gt_cases (d * 2) 1000) as [Hle|Hgt].
    + rewrite (N.min_r 1000 (d * 2)) by lia. f_equal. lia.
    + rewrite (N.min_l 1000 (d * 2)) by lia.
      rewrite N.min_l by nia. rewrite N.min_l by nia. reflexivity.
Qed.

(* doubling law: the (k+1)-th consecutive temporary error after a reset sleeps min(1000, 5 * 2^k) ms *)
Lemma backoff_from_reset k : iter_delay (S k) 0 = N.min 1000 (5 * 2 ^ N.of_nat k).
Proof. cbn [iter_delay]. change (next_delay 0) with 5. apply iter_delay_closed. lia. Qed.

(* the connection that follows any number of temporary errors is served, and the delay is reset *)
Lemma conn_after_temps k rest delay n :
  accept_loop (temps k ++ AConn false :: rest) delay n =
  (backoff k delay ++ ServeConn n :: fst (accept_loop rest 0 (S n)), snd (accept_loop rest 0 (S n))).
Proof.
  rewrite temps_survived. cbn [accept_loop]. destruct (accept_loop rest 0 (S n)); reflexivity.
Qed.

(* the first permanent error (before Shutdown) ends Serve with that error, whatever preceded it *)
Lemma perm_returns_error k rest delay n :
  snd (accept_loop (temps k ++ APerm false :: rest) delay n) = ARErr.
Proof. rewrite temps_survived. reflexivity. Qed.

(* once Shutdown has been signalled every Accept error - temporary or permanent - and every late
   connection ends Serve with nil *)
Lemma done_returns_nil r rest delay n :
  (r = ATemp true \/ r = APerm true \/ r = AConn true) -> snd (accept_loop (r :: rest) delay n) = ARNil.
Proof. intros [->|[->| ->]]; reflexivity. Qed.

Lemma late_conn_closed rest delay n : fst (accept_loop (AConn true :: rest) delay n) = [CloseLate n].
Proof. reflexivity. Qed.

(* general result classification *)
Lemma result_classification rs : forall delay n,
  match snd (accept_loop rs delay n) with
  | ARErr => exists pre rest, rs = pre ++ APerm false :: rest /\ Forall (fun r => r = ATemp false \/ r = AConn false) pre
  | ARNil => exists pre r rest, rs = pre ++ r :: rest /\ Forall (fun r => r = ATemp false \/ r = AConn false) pre /\
                               (r = ATemp true \/ r = APerm true \/ r = AConn true)
  | ARRunning => Forall (fun r => r = ATemp false \/ r = AConn false) rs
  end.
Proof.
  induction rs as [|[done|done|done] r IH]; intros delay n; cbn [accept_loop].
  - constructor.
  - destruct done; cbn [snd].
    + exists [], (ATemp true), r. repeat split; auto.
    + specialize (IH (next_delay delay) n). destruct (accept_loop r (next_delay delay) n) as [acts res]. cbn [snd] in *.
      destruct res.
      * destruct IH as [pre [x [rest [-> [Hp Hx]]]]]. exists (ATemp false :: pre), x, rest. repeat split; auto.
      * destruct IH as [pre [rest [-> Hp]]]. exists (ATemp false :: pre), rest. split; auto.
      * constructor; auto.
  - destruct done; cbn [snd].
    + exists [], (APerm true), r. repeat split; auto.
    + exists [], r. split; auto.
  - destruct done; cbn [snd].
    + exists [], (AConn true), r. repeat split; auto.
    + specialize (IH 0 (S n)). destruct (accept_loop r 0 (S n)) as [acts res]. cbn [snd] in *.
      destruct res.
      * destruct IH as [pre [x [rest [-> [Hp Hx]]]]]. exists (AConn false :: pre), x, rest. repeat split; auto.
      * destruct IH as [pre [rest [-> Hp]]]. exists (AConn false :: pre), rest. split; auto.
      * constructor; auto.
Qed.

(* ---- session ids (C09): the served connections get consecutive numbers in accept order ---- *)
Lemma accept_loop_served rs : forall delay n,
  served (fst (accept_loop rs delay n)) = seq n (length (served (fst (accept_loop rs delay n)))).
Proof.
  induction rs as [|[done|done|done] r IH]; intros delay n; cbn [accept_loop]; try reflexivity.
  - destruct done; [reflexivity|].
    specialize (IH (next_delay delay) n). destruct (accept_loop r (next_delay delay) n) as [acts res]. cbn [fst] in *.
    cbn [served flat_map app]. exact IH.
  - destruct done; reflexivity.
  - destruct done; [reflexivity|].
    specialize (IH 0 (S n)). destruct (accept_loop r 0 (S n)) as [acts res]. cbn [fst] in *.
    cbn [served flat_map app length seq]. fold (served acts). f_equal. exact IH.
Qed.

Lemma session_id_inj i j : session_id i = session_id j -> i = j.
Proof. unfold session_id. lia. Qed.

Theorem session_ids_consecutive rs :
  map session_id (served (fst (serve rs))) =
  map (fun k => N.of_nat k) (seq 1 (length (served (fst (serve rs))))).
Proof.
  unfold serve. rewrite accept_loop_served. rewrite seq_length.
  generalize (length (served (fst (accept_loop rs 0 0)))) as m. intros m.
  rewrite <- seq_shift, map_map. reflexivity.
Qed.

Theorem session_ids_distinct rs : NoDup (map session_id (served (fst (serve rs)))).
Proof.
  unfold serve. rewrite accept_loop_served. apply Injective_map_NoDup; [intros i j; apply session_id_inj|apply seq_NoDup].
Qed.
