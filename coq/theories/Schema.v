(* Schema.v - the data the translator emits (raw, as written in the Go source)
   and the two schema views the codec models work on. *)
From Coq Require Import List String NArith ZArith Bool.
Import ListNotations.
Open Scope N_scope.

(* the eight primitive KMIP kinds the library supports *)
Inductive kind := KInt | KLong | KEnum | KBool | KBytes | KStr | KTime | KDur.

Definition kind_eqb (a b : kind) : bool :=
  match a, b with
  | KInt, KInt | KLong, KLong | KEnum, KEnum | KBool, KBool
  | KBytes, KBytes | KStr, KStr | KTime, KTime | KDur, KDur => true
  | _, _ => false
  end.

(* Go type expressions of struct fields, as the translator sees them *)
Inductive gty :=
| TInt32 | TInt64 | TEnum | TBool | TBytes | TString | TTime | TDuration
| TIface | TTagTy
| TNamed (n : string)
| TSliceOf (t : gty)
| TOther (desc : string).

Record rawfield := {
  rf_name : string; rf_exported : bool; rf_type : gty;
  rf_has_ann : bool; rf_ann : string   (* value of the `kmip:"..."` struct tag *)
}.
Record rawstruct := { rs_name : string; rs_file : string; rs_fields : list rawfield }.

Inductive dkey := DKEnum (n : N) | DKStr (s : string) | DKUnknown (e : string).
Inductive dtarget :=
| DTPrim (k : kind)            (* v = Enum(0), int32(0), "", time.Time{} ... *)
| DTPtr (ty : string)          (* v = &T{} *)
| DTValStruct (ty : string)    (* v = T{}  (non-pointer: the decoder panics on it) *)
| DTOther (e : string).
Record rawdispatch := {
  rd_type : string; rd_keyfield : string; rd_shape : string;
  rd_cases : list (list dkey * dtarget)
}.

Record access := {
  ac_func : string; ac_recv : string; ac_field : string;
  ac_write : bool; ac_locked : bool; ac_in_go : bool; ac_in_loop : bool; ac_kind : string
}.

(* ---------- descriptor view: what fields.go computes per struct type ---------- *)
Inductive ftyp := FPrim (k : kind) | FStruct (ty : string) | FDyn.

Record fdesc := {
  fd_name : string; fd_tag : N; fd_typ : ftyp;
  fd_req : bool; fd_slice : bool; fd_skip : bool
}.
Record sdesc := { sd_tag : N; sd_fields : list fdesc }.

(* ---------- tree view: all type references inlined; the decoder recurses on it ---------- *)
Record fattr := { fa_name : string; fa_tag : N; fa_req : bool; fa_slice : bool; fa_skip : bool }.

Inductive sch :=
| SPrim (k : kind)
| SStruct (ty : string) (fs : flist)
| SDyn (holder : string) (keyidx : nat) (cs : dcases)
with flist := FNil | FCons (a : fattr) (s : sch) (r : flist)
with dcases := DNil | DCase (k : dkey) (s : sch) (r : dcases).

Definition ANY_TAG : N := 16777215.
