(* CodecRT.v - round trip of the codec model (C01, C06): decoding what the encoder produced, from
   a stream with arbitrary bytes after it, yields the normalised value, consumes exactly the message
   and leaves the decoder without look-ahead. *)
From Coq Require Import String.
From Coq Require Import List NArith ZArith Bool Lia Strings.Byte ZifyN ZifyNat ZifyBool.
Require Import Bytes BytesProofs Schema Codec TTLV CodecProofs.
Import ListNotations.
Open Scope N_scope.

Arguments N.add : simpl never.
Arguments N.mul : simpl never.
Arguments N.pow : simpl never.
Arguments N.modulo : simpl never.
Arguments N.div : simpl never.
Arguments N.sub : simpl never.
Arguments N.min : simpl never.

(* ------------------------------------------------------------------ *)
(* exact reader lemmas                                                 *)
(* ------------------------------------------------------------------ *)
Lemma read_n_app n (b tl : bytes) l : length b = n ->
  read_n n {| rest := b ++ tl; last := l |} = Ok (b, {| rest := tl; last := l |}).
Proof.
  intros H. unfold read_n; cbn [rest last]. rewrite app_length.
  destruct (Nat.leb_spec n (length b + length tl)); [|lia].
  subst n. rewrite firstn_app_exact, skipn_app_exact. reflexivity.
Qed.

Lemma read_nN_app n (b tl : bytes) l : blen b = n ->
  read_nN n {| rest := b ++ tl; last := l |} = Ok (b, {| rest := tl; last := l |}).
Proof.
  intros H. unfold read_nN; cbn [rest]. rewrite blen_app.
  destruct (N.leb_spec n (blen b + blen tl)); [|lia].
  apply read_n_app. unfold blen in H. lia.
Qed.

Lemma read_num_be k v tl l : v < 256 ^ N.of_nat k ->
  read_num k {| rest := be k v ++ tl; last := l |} = Ok (v, {| rest := tl; last := l |}).
Proof.
  intros H. unfold read_num. rewrite read_n_app by apply be_length. cbn [bind].
  rewrite unbe_be0 by assumption. reflexivity.
Qed.

Lemma expect_num_be k v tl l : v < 256 ^ N.of_nat k ->
  expect_num k v {| rest := be k v ++ tl; last := l |} = Ok {| rest := tl; last := l |}.
Proof. intros H. unfold expect_num. rewrite read_num_be by assumption. cbn [bind]. rewrite N.eqb_refl. reflexivity. Qed.

Definition tag_ok (t : N) : Prop := t <> 0 /\ t < 2 ^ 24 /\ t <> ANY_TAG.

(* decoder positioned at the start of an item with tag [tag] whose bytes are [b], followed by [tl]:
   either nothing has been read yet, or exactly the tag has been peeked *)
Definition at_item (tag : N) (b tl : bytes) (s : dstate) : Prop :=
  s = {| rest := b ++ tl; last := 0 |} \/
  (exists b', b = be 3 tag ++ b' /\ s = {| rest := b' ++ tl; last := tag |}).

Lemma expect_tag_item tag b' tl s : tag <> 0 -> tag < 2 ^ 24 ->
  at_item tag (be 3 tag ++ b') tl s -> expect_tag tag s = Ok {| rest := b' ++ tl; last := 0 |}.
Proof.
  intros Hz Hlt [->|[b'' [Heq ->]]].
  - unfold expect_tag, read_tag; cbn [last rest]. cbn [N.eqb negb]. unfold iread_tag.
    rewrite <- app_assoc. rewrite read_num_be by (cbn; lia). cbn [bind].
    rewrite N.eqb_refl. cbn [negb andb]. reflexivity.
  - apply app_inv_head in Heq. subst b''.
    unfold expect_tag, read_tag; cbn [last rest].
    destruct (N.eqb_spec tag 0); [contradiction|]. cbn [negb bind]. rewrite N.eqb_refl. reflexivity.
Qed.

(* decoder somewhere in a stream of items [bs]: nothing peeked, or the tag of the first item peeked *)
Definition at_stream (bs : bytes) (s : dstate) : Prop :=
  s = {| rest := bs; last := 0 |} \/
  (exists t bs', bs = be 3 t ++ bs' /\ t <> 0 /\ t < 2 ^ 24 /\ s = {| rest := bs'; last := t |}).

Lemma be3_inj t1 t2 a b : t1 < 2 ^ 24 -> t2 < 2 ^ 24 -> be 3 t1 ++ a = be 3 t2 ++ b -> t1 = t2 /\ a = b.
Proof.
  intros H1 H2 H.
  assert (E: firstn 3 (be 3 t1 ++ a) = firstn 3 (be 3 t2 ++ b)) by (rewrite H; reflexivity).
  pose proof (firstn_app_exact (be 3 t1) a) as F1. pose proof (firstn_app_exact (be 3 t2) b) as F2.
  rewrite be_length in F1, F2. rewrite F1, F2 in E.
  assert (t1 = t2).
  { apply (f_equal (fun l => unbe l 0)) in E. rewrite !unbe_be0 in E by (cbn; lia). exact E. }
  subst. split; [reflexivity|]. apply app_inv_head in H. exact H.
Qed.

Lemma peek_stream_nil s : at_stream [] s -> peek_tag s = ErrEOF /\ s = {| rest := []; last := 0 |}.
Proof.
  intros [->|[t [bs' [H _]]]].
  - split; reflexivity.
  - exfalso. apply (f_equal (@length byte)) in H. rewrite app_length, be_length in H. cbn in H. lia.
Qed.

Lemma peek_stream_cons t b' s : t <> 0 -> t < 2 ^ 24 -> at_stream (be 3 t ++ b') s ->
  exists s', peek_tag s = Ok (t, s') /\ at_item t (be 3 t ++ b') [] s' /\ at_stream (be 3 t ++ b') s'.
Proof.
  intros Hz Hlt [->|[t2 [bs2 [Heq [Hz2 [Hlt2 ->]]]]]].
  - eexists; split; [|split].
    + unfold peek_tag; cbn [last rest]. cbn [N.eqb negb]. unfold iread_tag.
      rewrite read_num_be by (cbn; lia). cbn [bind rest]. reflexivity.
    + right. exists b'. split; [reflexivity|]. rewrite app_nil_r. reflexivity.
    + right. exists t, b'. auto.
  - destruct (be3_inj _ _ _ _ Hlt Hlt2 Heq) as [<- <-].
    eexists; split; [|split].
    + unfold peek_tag; cbn [last]. destruct (N.eqb_spec t 0); [contradiction|]. reflexivity.
    + right. exists b'. split; [reflexivity|]. rewrite app_nil_r. reflexivity.
    + right. exists t, b'. auto.
Qed.

Lemma at_item_of_stream t b bs s : at_item t b [] s -> at_item t b bs {| rest := rest s ++ bs; last := last s |}.
Proof.
  intros [->|[b' [-> ->]]]; cbn [rest last].
  - left. rewrite app_nil_r. reflexivity.
  - right. exists b'. split; [reflexivity|]. rewrite app_nil_r. reflexivity.
Qed.

(* ------------------------------------------------------------------ *)
(* primitives                                                          *)
(* ------------------------------------------------------------------ *)
Definition wf_prim (k : kind) (v : val) : Prop :=
  match k, v with
  | KInt, VInt z => (- 2 ^ 31 <= z < 2 ^ 31)%Z
  | KLong, VLong z | KTime, VTime z => (- 2 ^ 63 <= z < 2 ^ 63)%Z
  | KEnum, VEnum n => n < 2 ^ 32
  | KBool, VBool _ => True
  | KBytes, VBytes b | KStr, VStr b => blen b < 2 ^ 32
  | KDur, VDur ns => exists secs, (0 <= secs < 2 ^ 32)%Z /\ ns = (secs * nanos)%Z     (* intervals of 0 .. 2^32-1 seconds *)
  | _, _ => False
  end.

Lemma of_to_u32 z : (- 2 ^ 31 <= z < 2 ^ 31)%Z -> of_u32 (to_u32 z) = z.
Proof.
  intros H. unfold of_u32, to_u32.
  destruct (Z.lt_ge_cases z 0) as [Hn|Hp].
  - assert (E: (z mod 2 ^ 32 = z + 2 ^ 32)%Z) by (symmetry; apply (Z.mod_unique _ _ (-1)); lia).
    rewrite E. destruct (N.ltb_spec (Z.to_N (z + 2 ^ 32)) (2 ^ 31)); lia.
  - rewrite Z.mod_small by lia. destruct (N.ltb_spec (Z.to_N z) (2 ^ 31)); lia.
Qed.

Lemma of_to_u64 z : (- 2 ^ 63 <= z < 2 ^ 63)%Z -> of_u64 (to_u64 z) = z.
Proof.
  intros H. unfold of_u64, to_u64.
  destruct (Z.lt_ge_cases z 0) as [Hn|Hp].
  - assert (E: (z mod 2 ^ 64 = z + 2 ^ 64)%Z) by (symmetry; apply (Z.mod_unique _ _ (-1)); lia).
    rewrite E. destruct (N.ltb_spec (Z.to_N (z + 2 ^ 64)) (2 ^ 63)); lia.
  - rewrite Z.mod_small by lia. destruct (N.ltb_spec (Z.to_N z) (2 ^ 63)); lia.
Qed.

Lemma to_u32_lt z : to_u32 z < 2 ^ 32.
Proof. unfold to_u32. pose proof (Z.mod_pos_bound z (2 ^ 32) ltac:(lia)). lia. Qed.
Lemma to_u64_lt z : to_u64 z < 2 ^ 64.
Proof. unfold to_u64. pose proof (Z.mod_pos_bound z (2 ^ 64) ltac:(lia)). lia. Qed.

Lemma all_zero_zeros n : all_zero (zeros n) = true.
Proof. unfold all_zero, zeros. induction n; cbn; auto. Qed.

Lemma firstn_be4_zeros x : firstn 4 (be 4 x ++ zeros 4) = be 4 x.
Proof. pose proof (firstn_app_exact (be 4 x) (zeros 4)) as H. rewrite be_length in H. exact H. Qed.

Lemma pad8_blen_zeros l : blen (zeros (N.to_nat (pad8 l))) = pad8 l.
Proof. rewrite blen_zeros, N2Nat.id. reflexivity. Qed.

Global Opaque be zeros.

Ltac hdr_step Htag Hz Hlt :=
  unfold header in *; rewrite <- ?app_assoc in *;
  erewrite expect_tag_item by eauto; cbn [bind]; rewrite <- ?app_assoc.

Lemma dec_prim_enc k tag v b tl st :
  tag <> 0 -> tag < 2 ^ 24 -> wf_prim k v -> enc_prim tag k v = Some b -> at_item tag b tl st ->
  dec_prim k tag st = Ok (v, blen b, {| rest := tl; last := 0 |}).
Proof.
  intros Hz Hlt Hwf Henc Hat. unfold dec_prim. unfold enc_prim in Henc. unfold wf_prim in Hwf.
  destruct k, v; cbv beta iota in Henc, Hwf; try discriminate; try contradiction;
    injection Henc as <-; unfold header in Hat; rewrite <- ?app_assoc in Hat;
    rewrite (expect_tag_item _ _ _ _ Hz Hlt Hat); cbn [bind]; unfold type_code; rewrite <- ?app_assoc;
    rewrite expect_num_be by (cbn; lia); cbn [bind].
  - (* int *)
    rewrite expect_num_be by (cbn; lia). cbn [bind].
    rewrite app_assoc. rewrite read_n_app by (rewrite app_length, be_length, zeros_length; reflexivity). cbn [bind].
    rewrite firstn_be4_zeros. pose proof (to_u32_lt z). rewrite unbe_be0 by (cbn; lia). rewrite of_to_u32 by assumption.
    unfold header. rewrite !blen_app, !blen_be, blen_zeros. reflexivity.
  - (* long *)
    rewrite expect_num_be by (cbn; lia). cbn [bind].
    rewrite read_n_app by apply be_length. cbn [bind].
    pose proof (to_u64_lt z). rewrite unbe_be0 by (cbn; lia). rewrite of_to_u64 by assumption.
    unfold header. rewrite !blen_app, !blen_be. reflexivity.
  - (* enum *)
    rewrite expect_num_be by (cbn; lia). cbn [bind].
    rewrite app_assoc. rewrite read_n_app by (rewrite app_length, be_length, zeros_length; reflexivity). cbn [bind].
    rewrite firstn_be4_zeros. rewrite unbe_be0 by (cbn; lia).
    unfold header. rewrite !blen_app, !blen_be, blen_zeros. reflexivity.
  - (* bool *)
    rewrite expect_num_be by (cbn; lia). cbn [bind].
    rewrite app_assoc. rewrite read_n_app by (rewrite app_length, zeros_length; cbn; reflexivity). cbn [bind].
    set (x := if b0 then x01 else x00).
    pose proof (firstn_app_exact (zeros 7) [x]) as F. pose proof (skipn_app_exact (zeros 7) [x]) as G.
    rewrite zeros_length in F, G. rewrite F, G, all_zero_zeros.
    unfold header. rewrite !blen_app, !blen_be, blen_zeros.
    unfold x. destruct b0; cbn [Byte.eqb]; reflexivity.
  - (* bytes *)
    rewrite read_num_be by (cbn; lia). cbn [bind].
    rewrite read_nN_app by reflexivity. cbn [bind].
    rewrite read_nN_app by apply pad8_blen_zeros. cbn [bind].
    unfold header. rewrite !blen_app, !blen_be, blen_zeros, N2Nat.id. f_equal. f_equal. f_equal. cbn. lia.
  - (* string *)
    rewrite read_num_be by (cbn; lia). cbn [bind].
    rewrite read_nN_app by reflexivity. cbn [bind].
    rewrite read_nN_app by apply pad8_blen_zeros. cbn [bind].
    unfold header. rewrite !blen_app, !blen_be, blen_zeros, N2Nat.id. f_equal. f_equal. f_equal. cbn. lia.
  - (* time *)
    rewrite expect_num_be by (cbn; lia). cbn [bind].
    rewrite read_n_app by apply be_length. cbn [bind].
    pose proof (to_u64_lt sec). rewrite unbe_be0 by (cbn; lia). rewrite of_to_u64 by assumption.
    unfold header. rewrite !blen_app, !blen_be. reflexivity.
  - (* duration *)
    destruct Hwf as [secs [Hs ->]].
    rewrite expect_num_be by (cbn; lia). cbn [bind].
    rewrite app_assoc. rewrite read_n_app by (rewrite app_length, be_length, zeros_length; reflexivity). cbn [bind].
    rewrite firstn_be4_zeros.
    assert (Hq: Z.quot (secs * nanos) nanos = secs) by (apply Z.quot_mul; unfold nanos; lia).
    rewrite Hq. pose proof (to_u32_lt secs). rewrite unbe_be0 by (cbn; lia).
    assert (Hu: Z.of_N (to_u32 secs) = secs).
    { unfold to_u32. rewrite Z.mod_small by lia. lia. }
    rewrite Hu. rewrite !blen_app, !blen_be, blen_zeros. reflexivity.
Qed.
