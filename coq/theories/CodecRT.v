(* CodecRT.v - round trip of the codec model (C01, C06): decoding what the encoder produced, from
   a stream with arbitrary bytes after it, yields the normalised value, consumes exactly the message
   and leaves the decoder without look-ahead. *)
From Coq Require Import String.
From Coq Require Import List NArith ZArith Bool Lia Strings.Byte ZifyN ZifyNat ZifyBool.
Require Import Bytes BytesProofs Schema Codec TTLV CodecProofs.
Import ListNotations.
Open Scope N_scope.

Arguments N.add : simpl never.
Arguments N.mul : simpl never.
Arguments N.pow : simpl never.
Arguments N.modulo : simpl never.
Arguments N.div : simpl never.
Arguments N.sub : simpl never.
Arguments N.min : simpl never.

(* ------------------------------------------------------------------ *)
(* exact reader lemmas                                                 *)
(* ------------------------------------------------------------------ *)
Lemma read_n_app n (b tl : bytes) l : length b = n ->
  read_n n {| rest := b ++ tl; last := l |} = Ok (b, {| rest := tl; last := l |}).
Proof.
  intros H. unfold read_n; cbn [rest last]. rewrite app_length.
  destruct (Nat.leb_spec n (length b + length tl)); [|lia].
  subst n. rewrite firstn_app_exact, skipn_app_exact. reflexivity.
Qed.

Lemma read_nN_app n (b tl : bytes) l : blen b = n ->
  read_nN n {| rest := b ++ tl; last := l |} = Ok (b, {| rest := tl; last := l |}).
Proof.
  intros H. unfold read_nN; cbn [rest]. rewrite blen_app.
  destruct (N.leb_spec n (blen b + blen tl)); [|lia].
  apply read_n_app. unfold blen in H. lia.
Qed.

Lemma copy_nN_app n (b tl : bytes) l : blen b = n ->
  copy_nN n {| rest := b ++ tl; last := l |} = Ok (b, {| rest := tl; last := l |}).
Proof.
  intros H. rewrite <- (read_nN_app n b tl l H). unfold copy_nN, read_nN; cbn [rest]. rewrite blen_app.
  destruct (N.leb_spec n (blen b + blen tl)); [reflexivity|lia].
Qed.

Lemma read_num_be k v tl l : v < 256 ^ N.of_nat k ->
  read_num k {| rest := be k v ++ tl; last := l |} = Ok (v, {| rest := tl; last := l |}).
Proof.
  intros H. unfold read_num. rewrite read_n_app by apply be_length. cbn [bind].
  rewrite unbe_be0 by assumption. reflexivity.
Qed.

Lemma expect_num_be k v tl l : v < 256 ^ N.of_nat k ->
  expect_num k v {| rest := be k v ++ tl; last := l |} = Ok {| rest := tl; last := l |}.
Proof. intros H. unfold expect_num. rewrite read_num_be by assumption. cbn [bind]. rewrite N.eqb_refl. reflexivity. Qed.

Definition tag_ok (t : N) : Prop := t <> 0 /\ t < 2 ^ 24 /\ t <> ANY_TAG.

(* decoder positioned at the start of an item with tag [tag] whose bytes are [b], followed by [tl]:
   either nothing has been read yet, or exactly the tag has been peeked *)
Definition at_item (tag : N) (b tl : bytes) (s : dstate) : Prop :=
  s = {| rest := b ++ tl; last := 0 |} \/
  (exists b', b = be 3 tag ++ b' /\ s = {| rest := b' ++ tl; last := tag |}).

Lemma expect_tag_item tag b' tl s : tag <> 0 -> tag < 2 ^ 24 ->
  at_item tag (be 3 tag ++ b') tl s -> expect_tag tag s = Ok {| rest := b' ++ tl; last := 0 |}.
Proof.
  intros Hz Hlt [->|[b'' [Heq ->]]].
  - unfold expect_tag, read_tag; cbn [last rest]. cbn [N.eqb negb]. unfold iread_tag.
    rewrite <- app_assoc. rewrite read_num_be by (cbn; lia). cbn [bind].
    rewrite N.eqb_refl. cbn [negb andb]. reflexivity.
  - apply app_inv_head in Heq. subst b''.
    unfold expect_tag, read_tag; cbn [last rest].
    destruct (N.eqb_spec tag 0); [contradiction|]. cbn [negb bind]. rewrite N.eqb_refl. reflexivity.
Qed.

(* decoder somewhere in a stream of items [bs]: nothing peeked, or the tag of the first item peeked *)
Definition at_stream (bs : bytes) (s : dstate) : Prop :=
  s = {| rest := bs; last := 0 |} \/
  (exists t bs', bs = be 3 t ++ bs' /\ t <> 0 /\ t < 2 ^ 24 /\ s = {| rest := bs'; last := t |}).

Lemma be3_inj t1 t2 a b : t1 < 2 ^ 24 -> t2 < 2 ^ 24 -> be 3 t1 ++ a = be 3 t2 ++ b -> t1 = t2 /\ a = b.
Proof.
  intros H1 H2 H.
  assert (E: firstn 3 (be 3 t1 ++ a) = firstn 3 (be 3 t2 ++ b)) by (rewrite H; reflexivity).
  pose proof (firstn_app_exact (be 3 t1) a) as F1. pose proof (firstn_app_exact (be 3 t2) b) as F2.
  rewrite be_length in F1, F2. rewrite F1, F2 in E.
  assert (t1 = t2).
  { apply (f_equal (fun l => unbe l 0)) in E. rewrite !unbe_be0 in E by (cbn; lia). exact E. }
  subst. split; [reflexivity|]. apply app_inv_head in H. exact H.
Qed.

Lemma peek_stream_nil s : at_stream [] s -> peek_tag s = ErrEOF /\ s = {| rest := []; last := 0 |}.
Proof.
  intros [->|[t [bs' [H _]]]].
  - split; reflexivity.
  - exfalso. apply (f_equal (@length byte)) in H. rewrite app_length, be_length in H. cbn in H. lia.
Qed.

Lemma peek_stream_cons t b' s : t <> 0 -> t < 2 ^ 24 -> at_stream (be 3 t ++ b') s ->
  exists s', peek_tag s = Ok (t, s') /\ at_item t (be 3 t ++ b') [] s' /\ at_stream (be 3 t ++ b') s'.
Proof.
  intros Hz Hlt [->|[t2 [bs2 [Heq [Hz2 [Hlt2 ->]]]]]].
  - eexists; split; [|split].
    + unfold peek_tag; cbn [last rest]. cbn [N.eqb negb]. unfold iread_tag.
      rewrite read_num_be by (cbn; lia). cbn [bind rest]. reflexivity.
    + right. exists b'. split; [reflexivity|]. rewrite app_nil_r. reflexivity.
    + right. exists t, b'. auto.
  - destruct (be3_inj _ _ _ _ Hlt Hlt2 Heq) as [<- <-].
    eexists; split; [|split].
    + unfold peek_tag; cbn [last]. destruct (N.eqb_spec t 0); [contradiction|]. reflexivity.
    + right. exists b'. split; [reflexivity|]. rewrite app_nil_r. reflexivity.
    + right. exists t, b'. auto.
Qed.

Lemma at_item_of_stream t b bs s : at_item t b [] s -> at_item t b bs {| rest := rest s ++ bs; last := last s |}.
Proof.
  intros [->|[b' [-> ->]]]; cbn [rest last].
  - left. rewrite app_nil_r. reflexivity.
  - right. exists b'. split; [reflexivity|]. rewrite app_nil_r. reflexivity.
Qed.

(* ------------------------------------------------------------------ *)
(* primitives                                                          *)
(* ------------------------------------------------------------------ *)
Definition wf_prim (k : kind) (v : val) : Prop :=
  match k, v with
  | KInt, VInt z => (- 2 ^ 31 <= z < 2 ^ 31)%Z
  | KLong, VLong z | KTime, VTime z => (- 2 ^ 63 <= z < 2 ^ 63)%Z
  | KEnum, VEnum n => n < 2 ^ 32
  | KBool, VBool _ => True
  | KBytes, VBytes b | KStr, VStr b => blen b < 2 ^ 32
  | KDur, VDur ns => exists secs, (0 <= secs < 2 ^ 32)%Z /\ ns = (secs * nanos)%Z     (* intervals of 0 .. 2^32-1 seconds *)
  | _, _ => False
  end.

Lemma of_to_u32 z : (- 2 ^ 31 <= z < 2 ^ 31)%Z -> of_u32 (to_u32 z) = z.
Proof.
  intros H. unfold of_u32, to_u32.
  destruct (Z.lt_ge_cases z 0) as [Hn|Hp].
  - assert (E: (z mod 2 ^ 32 = z + 2 ^ 32)%Z) by (symmetry; apply (Z.mod_unique _ _ (-1)); lia).
    rewrite E. destruct (N.ltb_spec (Z.to_N (z + 2 ^ 32)) (2 ^ 31)); lia.
  - rewrite Z.mod_small by lia. destruct (N.ltb_spec (Z.to_N z) (2 ^ 31)); lia.
Qed.

Lemma of_to_u64 z : (- 2 ^ 63 <= z < 2 ^ 63)%Z -> of_u64 (to_u64 z) = z.
Proof.
  intros H. unfold of_u64, to_u64.
  destruct (Z.lt_ge_cases z 0) as [Hn|Hp].
  - assert (E: (z mod 2 ^ 64 = z + 2 ^ 64)%Z) by (symmetry; apply (Z.mod_unique _ _ (-1)); lia).
    rewrite E. destruct (N.ltb_spec (Z.to_N (z + 2 ^ 64)) (2 ^ 63)); lia.
  - rewrite Z.mod_small by lia. destruct (N.ltb_spec (Z.to_N z) (2 ^ 63)); lia.
Qed.

Lemma to_u32_lt z : to_u32 z < 2 ^ 32.
Proof. unfold to_u32. pose proof (Z.mod_pos_bound z (2 ^ 32) ltac:(lia)). lia. Qed.
Lemma to_u64_lt z : to_u64 z < 2 ^ 64.
Proof. unfold to_u64. pose proof (Z.mod_pos_bound z (2 ^ 64) ltac:(lia)). lia. Qed.

Lemma all_zero_zeros n : all_zero (zeros n) = true.
Proof. unfold all_zero, zeros. induction n; cbn; auto. Qed.

Lemma firstn_be4_zeros x : firstn 4 (be 4 x ++ zeros 4) = be 4 x.
Proof. pose proof (firstn_app_exact (be 4 x) (zeros 4)) as H. rewrite be_length in H. exact H. Qed.

Lemma pad8_blen_zeros l : blen (zeros (N.to_nat (pad8 l))) = pad8 l.
Proof. rewrite blen_zeros, N2Nat.id. reflexivity. Qed.

Global Opaque be zeros.

Ltac hdr_step Htag Hz Hlt :=
  unfold header in *; rewrite <- ?app_assoc in *;
  erewrite expect_tag_item by eauto; cbn [bind]; rewrite <- ?app_assoc.

Lemma dec_prim_enc k tag v b tl st :
  tag <> 0 -> tag < 2 ^ 24 -> wf_prim k v -> enc_prim tag k v = Some b -> at_item tag b tl st ->
  dec_prim k tag st = Ok (v, blen b, {| rest := tl; last := 0 |}).
Proof.
  intros Hz Hlt Hwf Henc Hat. unfold dec_prim. unfold enc_prim in Henc. unfold wf_prim in Hwf.
  destruct k, v; cbv beta iota in Henc, Hwf; try discriminate; try contradiction;
    injection Henc as <-; unfold header in Hat; rewrite <- ?app_assoc in Hat;
    rewrite (expect_tag_item _ _ _ _ Hz Hlt Hat); cbn [bind]; unfold type_code; rewrite <- ?app_assoc;
    rewrite expect_num_be by (cbn; lia); cbn [bind].
  - (* int *)
    rewrite expect_num_be by (cbn; lia). cbn [bind].
    rewrite app_assoc. rewrite read_n_app by (rewrite app_length, be_length, zeros_length; reflexivity). cbn [bind].
    rewrite firstn_be4_zeros. pose proof (to_u32_lt z). rewrite unbe_be0 by (cbn; lia). rewrite of_to_u32 by assumption.
    unfold header. rewrite !blen_app, !blen_be, blen_zeros. reflexivity.
  - (* long *)
    rewrite expect_num_be by (cbn; lia). cbn [bind].
    rewrite read_n_app by apply be_length. cbn [bind].
    pose proof (to_u64_lt z). rewrite unbe_be0 by (cbn; lia). rewrite of_to_u64 by assumption.
    unfold header. rewrite !blen_app, !blen_be. reflexivity.
  - (* enum *)
    rewrite expect_num_be by (cbn; lia). cbn [bind].
    rewrite app_assoc. rewrite read_n_app by (rewrite app_length, be_length, zeros_length; reflexivity). cbn [bind].
    rewrite firstn_be4_zeros. rewrite unbe_be0 by (cbn; lia).
    unfold header. rewrite !blen_app, !blen_be, blen_zeros. reflexivity.
  - (* bool *)
    rewrite expect_num_be by (cbn; lia). cbn [bind].
    rewrite app_assoc. rewrite read_n_app by (rewrite app_length, zeros_length; cbn; reflexivity). cbn [bind].
    set (x := if b0 then x01 else x00).
    pose proof (firstn_app_exact (zeros 7) [x]) as F. pose proof (skipn_app_exact (zeros 7) [x]) as G.
    rewrite zeros_length in F, G. rewrite F, G, all_zero_zeros.
    unfold header. rewrite !blen_app, !blen_be, blen_zeros.
    unfold x. destruct b0; cbn [Byte.eqb]; reflexivity.
  - (* bytes *)
    rewrite read_num_be by (cbn; lia). cbn [bind].
    rewrite copy_nN_app by reflexivity. cbn [bind].
    rewrite read_nN_app by apply pad8_blen_zeros. cbn [bind].
    unfold header. rewrite !blen_app, !blen_be, blen_zeros, N2Nat.id. f_equal. f_equal. f_equal. cbn. lia.
  - (* string *)
    rewrite read_num_be by (cbn; lia). cbn [bind].
    rewrite copy_nN_app by reflexivity. cbn [bind].
    rewrite read_nN_app by apply pad8_blen_zeros. cbn [bind].
    unfold header. rewrite !blen_app, !blen_be, blen_zeros, N2Nat.id. f_equal. f_equal. f_equal. cbn. lia.
  - (* time *)
    rewrite expect_num_be by (cbn; lia). cbn [bind].
    rewrite read_n_app by apply be_length. cbn [bind].
    pose proof (to_u64_lt sec). rewrite unbe_be0 by (cbn; lia). rewrite of_to_u64 by assumption.
    unfold header. rewrite !blen_app, !blen_be. reflexivity.
  - (* duration *)
    destruct Hwf as [secs [Hs ->]].
    rewrite expect_num_be by (cbn; lia). cbn [bind].
    rewrite app_assoc. rewrite read_n_app by (rewrite app_length, be_length, zeros_length; reflexivity). cbn [bind].
    rewrite firstn_be4_zeros.
    assert (Hq: Z.quot (secs * nanos) nanos = secs) by (apply Z.quot_mul; unfold nanos; lia).
    rewrite Hq. pose proof (to_u32_lt secs). rewrite unbe_be0 by (cbn; lia).
    assert (Hu: Z.of_N (to_u32 secs) = secs).
    { unfold to_u32. rewrite Z.mod_small by lia. lia. }
    rewrite Hu. rewrite !blen_app, !blen_be, blen_zeros. reflexivity.
Qed.

(* ------------------------------------------------------------------ *)
(* schema conditions (computable on the instance) and well-formed values *)
(* ------------------------------------------------------------------ *)
Definition on_wire (a : fattr) : bool := negb ((fa_tag a =? ANY_TAG) || fa_skip a).

Fixpoint all_tags (fl : flist) : list N :=
  match fl with FNil => [] | FCons a _ r => fa_tag a :: all_tags r end.

Fixpoint fl_app (a b : flist) : flist :=
  match a with FNil => b | FCons x s r => FCons x s (fl_app r b) end.
Fixpoint vl_app (a b : vlist) : vlist :=
  match a with VNone => b | VCons x r => VCons x (vl_app r b) end.
Fixpoint fl_len (fl : flist) : nat := match fl with FNil => O | FCons _ _ r => S (fl_len r) end.

Fixpoint fl_nth (fl : flist) (i : nat) : option (fattr * sch) :=
  match fl, i with
  | FNil, _ => None
  | FCons a s _, O => Some (a, s)
  | FCons _ _ r, S j => fl_nth r j
  end.

Fixpoint lookup_case (cs : dcases) (key : val) : option sch :=
  match cs with
  | DNil => None
  | DCase k s r => if key_matches k key then Some s else lookup_case r key
  end.

(* a discriminating sibling: an Enumeration or Text String field that is always what was written *)
Definition key_field (x : option (fattr * sch)) : Prop :=
  match x with
  | Some (a, SPrim k) => (k = KEnum \/ k = KStr) /\ fa_slice a = false /\ on_wire a = true
  | _ => False
  end.


  (* per-field conditions: [pfl] = the fields declared before this one *)
  Fixpoint sch_ok (T : tyenv) (s : sch) : Prop :=
    match s with
    | SPrim _ => True
    | SStruct _ fl => fl_ok T FNil fl
    | SDyn _ _ cs => cases_ok T cs
    end
  with fl_ok (T : tyenv) (pfl fl : flist) : Prop :=
    match fl with
    | FNil => True
    | FCons a s r =>
        ((fa_tag a = ANY_TAG /\ fa_skip a = true /\ fa_req a = false /\ r = FNil) \/
         (tag_ok (fa_tag a) /\ ~ In (fa_tag a) (all_tags r) /\ (fa_skip a = true -> fa_req a = false))) /\
        (match s with
         | SDyn _ ki _ => fa_slice a = false /\ key_field (fl_nth pfl ki)
         | _ => True
         end) /\
        sch_ok T s /\ fl_ok T (fl_app pfl (FCons a s FNil)) r
    end
  with cases_ok (T : tyenv) (cs : dcases) : Prop :=
    match cs with
    | DNil => True
    | DCase _ s r =>
        match s with
        | SPrim _ => True
        | SStruct ty fl => (exists tag, T ty = Some (tag, fl)) /\ fl_ok T FNil fl
        | SDyn _ _ _ => False
        end /\ cases_ok T r
    end.

  Definition env_ok (T : tyenv) : Prop := forall ty tag fl, T ty = Some (tag, fl) -> fl_ok T FNil fl.

  Definition key_of (s : sch) (prev : vlist) : val :=
    match s with SDyn _ ki _ => vl_nth ki prev | _ => VNil end.

  (* an optional value that is omitted because it is zero: zero all the way down, with the schema's type names *)
  Fixpoint zero_like (s : sch) (v : val) {struct s} : Prop :=
    match s with
    | SPrim k => prim_is_zero k v = true
    | SStruct ty fl => match v with VStruct ty' vs => ty' = ty /\ zero_like_fields fl vs | _ => False end
    | SDyn _ _ _ => v = VNil
    end
  with zero_like_fields (fl : flist) (vs : vlist) {struct fl} : Prop :=
    match fl, vs with
    | FNil, VNone => True
    | FCons a s r, VCons v vr =>
        (if (fa_tag a =? ANY_TAG) || fa_skip a then True
         else if fa_slice a then v = VList VNone else zero_like s v) /\ zero_like_fields r vr
    | _, _ => False
    end.

  (* well-formed KMIP message values: typed per schema, dynamic payloads agreeing with the dispatch
     table applied to the discriminating sibling, required sequences non-empty, sizes below 2^32 *)
  Fixpoint wf (T : tyenv) (s : sch) (key : val) (v : val) {struct v} : Prop :=
    match s with
    | SPrim k => wf_prim k v
    | SStruct ty fl =>
        match v with
        | VStruct ty' vs =>
            ty' = ty /\ wf_fields T fl VNone vs /\
            exists body, enc_fields T fl vs = Some body /\ blen body < 2 ^ 32
        | _ => False
        end
    | SDyn _ _ cs =>
        match v with
        | VNil => True                     (* an absent optional payload *)
        | VStruct ty vs | VPtr (VStruct ty vs) =>
            exists tag fl, T ty = Some (tag, fl) /\ lookup_case cs key = Some (SStruct ty fl) /\
                           wf_fields T fl VNone vs /\
                           exists body, enc_fields T fl vs = Some body /\ blen body < 2 ^ 32
        | VInt _ => lookup_case cs key = Some (SPrim KInt) /\ wf_prim KInt v
        | VLong _ => lookup_case cs key = Some (SPrim KLong) /\ wf_prim KLong v
        | VEnum _ => lookup_case cs key = Some (SPrim KEnum) /\ wf_prim KEnum v
        | VBool _ => lookup_case cs key = Some (SPrim KBool) /\ wf_prim KBool v
        | VBytes _ => lookup_case cs key = Some (SPrim KBytes) /\ wf_prim KBytes v
        | VStr _ => lookup_case cs key = Some (SPrim KStr) /\ wf_prim KStr v
        | VTime _ => lookup_case cs key = Some (SPrim KTime) /\ wf_prim KTime v
        | VDur _ => lookup_case cs key = Some (SPrim KDur) /\ wf_prim KDur v
        | _ => False
        end
    end
  with wf_fields (T : tyenv) (fl : flist) (prev : vlist) (vs : vlist) {struct vs} : Prop :=
    match fl, vs with
    | FNil, VNone => True
    | FCons a s r, VCons v vr =>
        (if on_wire a then
           if fa_slice a then
             match v with
             | VList es => wf_elems T s es /\ (fa_req a = true -> es <> VNone)
             | _ => False
             end
           else if negb (fa_req a) && is_zero s v then zero_like s v    (* omitted *)
           else wf T s (key_of s prev) v
         else True) /\
        wf_fields T r (vl_snoc prev v) vr
    | _, _ => False
    end
  with wf_elems (T : tyenv) (s : sch) (es : vlist) {struct es} : Prop :=
    match es with
    | VNone => True
    | VCons e er => wf T s VNil e /\ wf_elems T s er
    end.

  (* Decode(Encode v): what the top-level hypothesis of C01 says about a message value *)
  Definition wf_top (T : tyenv) (ty : string) (v : val) : Prop :=
    exists tag fl, T ty = Some (tag, fl) /\ wf T (SStruct ty fl) VNil v.


(* ------------------------------------------------------------------ *)
(* shapes of encodings                                                 *)
(* ------------------------------------------------------------------ *)
Lemma header_blen tag typ len : blen (header tag typ len) = 8.
Proof. unfold header. rewrite !blen_app, !blen_be. reflexivity. Qed.

Lemma enc_prim_starts tag k v b : enc_prim tag k v = Some b -> exists b', b = be 3 tag ++ b' /\ 5 <= blen b'.
Proof.
  unfold enc_prim. destruct k, v; try discriminate; intros H; injection H as <-; unfold header;
    rewrite <- !app_assoc; eexists; (split; [reflexivity|]); rewrite !blen_app, !blen_be; lia.
Qed.

Lemma enc_dyn_prim_starts tag v b : enc_dyn_prim tag v = Some b -> exists b', b = be 3 tag ++ b' /\ 5 <= blen b'.
Proof. unfold enc_dyn_prim. destruct v; try discriminate; apply enc_prim_starts. Qed.

Lemma wrap_starts tag body : exists b', wrap tag body = be 3 tag ++ b' /\ 5 <= blen b'.
Proof. unfold wrap, header. rewrite <- !app_assoc. eexists; split; [reflexivity|]. rewrite !blen_app, !blen_be. lia. Qed.

Lemma enc_value_prim T k tag v : enc_value T (SPrim k) tag v = enc_prim tag k v.
Proof. destruct v; reflexivity. Qed.

Lemma enc_value_starts T s tag v b : enc_value T s tag v = Some b -> exists b', b = be 3 tag ++ b' /\ 5 <= blen b'.
Proof.
  destruct s as [k|ty fl|h ki cs].
  - rewrite enc_value_prim. apply enc_prim_starts.
  - destruct v; cbn [enc_value]; try discriminate. destruct (enc_fields T fl fs); cbn [obind]; [|discriminate].
    intros H; injection H as <-. apply wrap_starts.
  - destruct v; cbn [enc_value]; try discriminate; try apply enc_dyn_prim_starts.
    + destruct (T ty) as [d|]; cbn [obind]; [|discriminate]. destruct (enc_fields T (snd d) fs); cbn [obind]; [|discriminate].
      intros H; injection H as <-. apply wrap_starts.
    + destruct v; try discriminate; try apply enc_dyn_prim_starts.
      destruct (T ty) as [d|]; cbn [obind]; [|discriminate]. destruct (enc_fields T (snd d) fs); cbn [obind]; [|discriminate].
      intros H; injection H as <-. apply wrap_starts.
Qed.

Lemma enc_elems_starts T s tag es b : enc_elems T s tag es = Some b ->
  (es = VNone /\ b = []) \/ (es <> VNone /\ exists b', b = be 3 tag ++ b').
Proof.
  destruct es as [|e er]; cbn [enc_elems].
  - intros H; injection H as <-. left; auto.
  - destruct (enc_value T s tag e) as [b1|] eqn:E; cbn [obind]; [|discriminate].
    destruct (enc_elems T s tag er) as [b2|]; cbn [obind]; [|discriminate].
    intros H; injection H as <-. right. split; [discriminate|].
    destruct (enc_value_starts _ _ _ _ _ E) as [b' [-> _]]. rewrite <- app_assoc. eauto.
Qed.

(* the first item of an encoded field list carries the tag of one of the fields *)
Lemma enc_fields_first T : forall vs fl body, enc_fields T fl vs = Some body ->
  body = [] \/ exists t b', body = be 3 t ++ b' /\ In t (all_tags fl) /\ t <> ANY_TAG.
Proof.
  induction vs as [|v vr IH]; intros fl body H; destruct fl as [|a s r]; cbn [enc_fields] in H; try discriminate.
  - injection H as <-. left; reflexivity.
  - destruct ((fa_tag a =? ANY_TAG) || fa_skip a) eqn:Esk.
    { destruct (IH _ _ H) as [->|[t [b' [-> [Hin Hne]]]]]; [left; reflexivity|]. right. exists t, b'. cbn; auto. }
    assert (Hne: fa_tag a <> ANY_TAG).
    { apply orb_false_iff in Esk. destruct Esk as [E _]. apply N.eqb_neq in E. exact E. }
    destruct (fa_slice a).
    { destruct v; try discriminate.
      destruct (enc_elems T s (fa_tag a) vs) as [b1|] eqn:E1; cbn [obind] in H; [|discriminate].
      destruct (enc_fields T r vr) as [b2|] eqn:E2; cbn [obind] in H; [|discriminate]. injection H as <-.
      destruct (enc_elems_starts _ _ _ _ _ E1) as [[_ ->]|[_ [b' ->]]].
      - cbn [app]. destruct (IH _ _ E2) as [->|[t [b' [-> [Hin Hn]]]]]; [left; reflexivity|]. right. exists t, b'. cbn; auto.
      - right. exists (fa_tag a), (b' ++ b2). rewrite <- app_assoc. cbn; auto. }
    destruct (negb (fa_req a) && is_zero s v).
    { destruct (IH _ _ H) as [->|[t [b' [-> [Hin Hn]]]]]; [left; reflexivity|]. right. exists t, b'. cbn; auto. }
    destruct (enc_value T s (fa_tag a) v) as [b1|] eqn:E1; cbn [obind] in H; [|discriminate].
    destruct (enc_fields T r vr) as [b2|] eqn:E2; cbn [obind] in H; [|discriminate]. injection H as <-.
    destruct (enc_value_starts _ _ _ _ _ E1) as [b' [-> _]]. right. exists (fa_tag a), (b' ++ b2).
    rewrite <- app_assoc. cbn; auto.
Qed.

Lemma dec_cases_lookup cs key a st :
  dec_cases cs key a st = match lookup_case cs key with Some s => dec_value s a st VNone | None => Err end.
Proof. induction cs as [|k s r IH]; cbn [dec_cases lookup_case]; [reflexivity|]. destruct (key_matches k key); auto. Qed.

(* ------------------------------------------------------------------ *)
(* vlist / flist bookkeeping                                           *)
(* ------------------------------------------------------------------ *)
Lemma vl_set_app_len p x y q : vl_set (vl_length p) x (vl_app p (VCons y q)) = vl_app p (VCons x q).
Proof. induction p as [|z r IH]; cbn; [reflexivity|]. rewrite IH. reflexivity. Qed.

Lemma vl_set_app_len_eq i p x y q : i = vl_length p -> vl_set i x (vl_app p (VCons y q)) = vl_app p (VCons x q).
Proof. intros ->. apply vl_set_app_len. Qed.

Lemma vl_nth_app_lt p q i : (i < vl_length p)%nat -> vl_nth i (vl_app p q) = vl_nth i p.
Proof. revert i; induction p as [|z r IH]; intros i H; cbn in *; [lia|]. destruct i; [reflexivity|]. apply IH. lia. Qed.

Lemma vl_app_snoc p x q : vl_app (vl_snoc p x) q = vl_app p (VCons x q).
Proof. induction p as [|z r IH]; cbn; [reflexivity|]. rewrite IH. reflexivity. Qed.

Lemma vl_length_snoc p x : vl_length (vl_snoc p x) = S (vl_length p).
Proof. induction p as [|z r IH]; cbn; [reflexivity|]. rewrite IH. reflexivity. Qed.

Lemma fl_len_app a b : fl_len (fl_app a b) = (fl_len a + fl_len b)%nat.
Proof. induction a as [|x s r IH]; cbn; [reflexivity|]. rewrite IH. reflexivity. Qed.

Lemma vl_app_nil p : vl_app p VNone = p.
Proof. induction p as [|z r IH]; cbn; [reflexivity|]. rewrite IH. reflexivity. Qed.

(* ------------------------------------------------------------------ *)
(* normalisation facts                                                 *)
(* ------------------------------------------------------------------ *)
Lemma normalize_prim T k v : normalize T (SPrim k) v = v.
Proof. destruct v; reflexivity. Qed.

Lemma normalize_fields_length T : forall vs fl, vl_length (normalize_fields T fl vs) = vl_length vs.
Proof.
  induction vs as [|v vr IH]; intros fl; destruct fl as [|a s r]; cbn [normalize_fields vl_length]; try reflexivity.
  rewrite IH. reflexivity.
Qed.

Definition norm_field (T : tyenv) (a : fattr) (s : sch) (v : val) : val :=
  if (fa_tag a =? ANY_TAG) || fa_skip a then (if fa_slice a then VList VNone else zero_of s)
  else if fa_slice a then match v with VList es => VList (normalize_elems T s es) | _ => v end
  else normalize T s v.

Lemma normalize_fields_cons T a s r v vr :
  normalize_fields T (FCons a s r) (VCons v vr) = VCons (norm_field T a s v) (normalize_fields T r vr).
Proof. reflexivity. Qed.

Lemma normalize_fields_snoc T : forall prev pfl a s v,
  vl_length prev = fl_len pfl ->
  normalize_fields T (fl_app pfl (FCons a s FNil)) (vl_snoc prev v) = vl_snoc (normalize_fields T pfl prev) (norm_field T a s v).
Proof.
  induction prev as [|p pr IH]; intros pfl a s v Hl; destruct pfl as [|pa ps prl]; cbn in Hl; try discriminate.
  - reflexivity.
  - cbn [fl_app vl_snoc]. rewrite !normalize_fields_cons. cbn [vl_snoc]. rewrite IH by lia. reflexivity.
Qed.

(* a discriminating sibling keeps its value through normalisation, and the decoder sees it in the struct under construction *)
Lemma key_nth T : forall pfl prev ki q,
  vl_length prev = fl_len pfl -> key_field (fl_nth pfl ki) ->
  vl_nth ki (vl_app (normalize_fields T pfl prev) q) = vl_nth ki prev.
Proof.
  induction pfl as [|a s r IH]; intros prev ki q Hl Hk.
  - destruct ki; cbn in Hk; contradiction.
  - destruct prev as [|p pr]; cbn in Hl; [discriminate|].
    rewrite normalize_fields_cons. destruct ki as [|kj].
    + cbn [fl_nth] in Hk. destruct s as [k| |]; try contradiction. destruct Hk as [_ [Hsl How]].
      cbn [vl_app vl_nth]. unfold norm_field. unfold on_wire in How. apply negb_true_iff in How. rewrite How, Hsl.
      apply normalize_prim.
    + cbn [fl_nth] in Hk. cbn [vl_app vl_nth]. apply IH; [lia|exact Hk].
Qed.

Lemma zeros_of_cons a s r : zeros_of (FCons a s r) = VCons (if fa_slice a then VList VNone else zero_of s) (zeros_of r).
Proof. reflexivity. Qed.

Lemma prim_zero_value k v : prim_is_zero k v = true -> v = zero_prim k.
Proof.
  destruct k, v; cbn; try discriminate; intros H.
  - apply Z.eqb_eq in H. subst. reflexivity.
  - apply Z.eqb_eq in H. subst. reflexivity.
  - apply N.eqb_eq in H. subst. reflexivity.
  - destruct b; [discriminate|reflexivity].
  - destruct b; [reflexivity|discriminate].
  - destruct b; [reflexivity|discriminate].
  - apply Z.eqb_eq in H. subst. reflexivity.
  - apply Z.eqb_eq in H. subst. reflexivity.
Qed.

(* an optional field that is omitted because it is zero decodes (by not being there) to what it normalises to *)
Lemma is_zero_normalize T :
  (forall s v, zero_like s v -> normalize T s v = zero_of s) /\
  (forall fl vs, zero_like_fields fl vs -> normalize_fields T fl vs = zeros_of fl) /\
  (forall cs : dcases, True).
Proof.
  apply sch_mutind.
  - intros k v Hz. cbn [zero_like] in Hz. rewrite normalize_prim. apply prim_zero_value. exact Hz.
  - intros ty fl IH v Hz. destruct v; cbn [zero_like] in Hz; try contradiction.
    destruct Hz as [-> Hf]. cbn [normalize zero_of]. f_equal. apply IH. exact Hf.
  - intros h ki cs _ v Hz. cbn [zero_like] in Hz. subst. reflexivity.
  - intros vs Hz. destruct vs; cbn [zero_like_fields] in Hz; [reflexivity|contradiction].
  - intros a s IHs r IHr vs Hz. destruct vs as [|v vr]; cbn [zero_like_fields] in Hz; [contradiction|].
    destruct Hz as [Hv Hr]. rewrite normalize_fields_cons, zeros_of_cons. f_equal; [|apply IHr; exact Hr].
    unfold norm_field. destruct ((fa_tag a =? ANY_TAG) || fa_skip a); [reflexivity|].
    destruct (fa_slice a); [subst; reflexivity|apply IHs; exact Hv].
  - exact I.
  - intros; exact I.
Qed.

(* ------------------------------------------------------------------ *)
(* the round trip                                                      *)
(* ------------------------------------------------------------------ *)
Lemma at_item_split t b1 b2 s : at_item t (be 3 t ++ b1 ++ b2) [] s -> at_item t (be 3 t ++ b1) b2 s.
Proof.
  intros [->|[b' [Heq ->]]].
  - left. rewrite app_nil_r, <- !app_assoc. reflexivity.
  - right. apply app_inv_head in Heq. subst b'. exists b1. split; [reflexivity|]. rewrite app_nil_r. reflexivity.
Qed.

Lemma takeN_app (b tl : bytes) : takeN (blen b) (b ++ tl) = b.
Proof.
  unfold takeN. rewrite blen_app. replace (N.min (blen b) (blen b + blen tl)) with (blen b) by lia.
  unfold blen. rewrite Nat2N.id. apply firstn_app_exact.
Qed.

Lemma dropN_app (b tl : bytes) : dropN (blen b) (b ++ tl) = tl.
Proof.
  unfold dropN. rewrite blen_app. replace (N.min (blen b) (blen b + blen tl)) with (blen b) by lia.
  unfold blen. rewrite Nat2N.id. apply skipn_app_exact.
Qed.

Lemma wrap_blen tag body : blen (wrap tag body) = 8 + blen body.
Proof. unfold wrap. rewrite blen_app, header_blen. reflexivity. Qed.

(* a structure: header, then the fields inside the limited region *)
Lemma dec_struct_rt ty fl a body tl st vs' :
  tag_ok (fa_tag a) -> blen body < 2 ^ 32 ->
  at_item (fa_tag a) (wrap (fa_tag a) body) tl st ->
  (exists st', dec_fields fl 0 (blen body) {| rest := body; last := 0 |} 0 0 (zeros_of fl)
               = Ok (vs', blen body, 0 + blen body, st')) ->
  forall cur, dec_value (SStruct ty fl) a st cur
              = Ok (VStruct ty vs', blen (wrap (fa_tag a) body), {| rest := tl; last := 0 |}).
Proof.
  intros [Hz [Hlt _]] Hlen Hat [st' Hf] cur.
  unfold wrap, header in Hat. rewrite <- !app_assoc in Hat.
  cbn [dec_value].
  rewrite (expect_tag_item _ _ _ _ Hz Hlt Hat). cbn [bind]. rewrite <- !app_assoc.
  unfold tc_structure. rewrite expect_num_be by (cbn; lia). cbn [bind].
  rewrite read_num_be by (cbn; lia). cbn [bind rest last].
  rewrite takeN_app, dropN_app. rewrite Hf. cbn [bind]. rewrite N.eqb_refl.
  rewrite wrap_blen. rewrite N.add_0_l. reflexivity.
Qed.

Lemma enc_elems_len T s tag : forall es b, enc_elems T s tag es = Some b -> (8 * vl_length es <= length b)%nat.
Proof.
  induction es as [|e er IH]; intros b H; cbn [enc_elems] in H; [cbn; lia|].
  destruct (enc_value T s tag e) as [b1|] eqn:E1; cbn [obind] in H; [|discriminate].
  destruct (enc_elems T s tag er) as [b2|] eqn:E2; cbn [obind] in H; [|discriminate]. injection H as <-.
  destruct (enc_value_starts _ _ _ _ _ E1) as [b' [-> Hb']]. specialize (IH _ eq_refl).
  cbn [vl_length]. rewrite !app_length, be_length. unfold blen in Hb'. lia.
Qed.

Lemma at_item_rest_len t b tl s : at_item t b tl s -> (length b + length tl <= length (rest s) + 3)%nat.
Proof.
  intros [->|[b' [-> ->]]]; cbn [rest]; rewrite !app_length; [lia|]. rewrite be_length. lia.
Qed.

Section RT.
  Variable T : tyenv.
  Hypothesis Henv : env_ok T.

  Definition value_rt (v : val) : Prop :=
    forall s key a tl st cur b,
      sch_ok T s -> wf T s key v -> enc_value T s (fa_tag a) v = Some b ->
      tag_ok (fa_tag a) -> at_item (fa_tag a) b tl st ->
      (match s with SDyn _ ki _ => vl_nth ki cur = key | _ => True end) ->
      dec_value s a st cur = Ok (normalize T s v, blen b, {| rest := tl; last := 0 |}).

  Definition fields_rt (vs : vlist) : Prop :=
    forall fl pfl prev body st explen actual nsum,
      fl_ok T pfl fl -> wf_fields T fl prev vs -> enc_fields T fl vs = Some body ->
      vl_length prev = fl_len pfl ->
      at_stream body st -> actual + blen body = explen -> explen < 2 ^ 32 ->
      exists st', dec_fields fl (fl_len pfl) explen st actual nsum
                             (vl_app (normalize_fields T pfl prev) (zeros_of fl))
                  = Ok (vl_app (normalize_fields T pfl prev) (normalize_fields T fl vs), explen, nsum + blen body, st').

  Definition not_dyn (s : sch) : Prop := match s with SDyn _ _ _ => False | _ => True end.

  Definition elems_rt (es : vlist) : Prop :=
    forall s a rest_body b st explen actual nsum acc cur fuel,
      es <> VNone -> sch_ok T s -> not_dyn s -> wf_elems T s es -> enc_elems T s (fa_tag a) es = Some b ->
      tag_ok (fa_tag a) ->
      at_item (fa_tag a) (b ++ rest_body) [] st ->
      (rest_body = [] \/ exists t r, rest_body = be 3 t ++ r /\ t <> fa_tag a /\ t <> 0 /\ t < 2 ^ 24) ->
      actual + blen b + blen rest_body = explen -> explen < 2 ^ 32 ->
      (vl_length es <= fuel)%nat ->
      exists st', slice_loop fuel (fun st0 => dec_value s a st0 cur) (fa_tag a) false explen st actual nsum acc
                  = Ok (vl_app acc (normalize_elems T s es), actual + blen b, nsum + blen b, st')
                  /\ at_stream rest_body st'.

  (* a structure value, given the statement for its fields *)
  Lemma struct_value_rt ty fl vs a tl st cur :
    fields_rt vs -> fl_ok T FNil fl -> wf_fields T fl VNone vs ->
    (exists body, enc_fields T fl vs = Some body /\ blen body < 2 ^ 32) ->
    tag_ok (fa_tag a) ->
    forall body, enc_fields T fl vs = Some body ->
    at_item (fa_tag a) (wrap (fa_tag a) body) tl st ->
    dec_value (SStruct ty fl) a st cur
    = Ok (VStruct ty (normalize_fields T fl vs), blen (wrap (fa_tag a) body), {| rest := tl; last := 0 |}).
  Proof.
    intros Hf Hok Hwf [body0 [He0 Hlen]] Htag body He Hat. rewrite He in He0. injection He0 as <-.
    apply dec_struct_rt; auto.
    specialize (Hf fl FNil VNone body {| rest := body; last := 0 |} (blen body) 0 0 Hok Hwf He eq_refl).
    destruct Hf as [st' Hst']; [left; reflexivity|lia|assumption|].
    cbn [normalize_fields vl_app fl_len] in Hst'. eauto.
  Qed.

  (* dynamic positions: what the dispatch finds is what the encoder wrote *)
  Lemma dyn_prim_rt h ki cs key k v a tl st cur b :
    lookup_case cs key = Some (SPrim k) -> wf_prim k v -> enc_prim (fa_tag a) k v = Some b ->
    tag_ok (fa_tag a) -> at_item (fa_tag a) b tl st -> vl_nth ki cur = key ->
    dec_value (SDyn h ki cs) a st cur = Ok (v, blen b, {| rest := tl; last := 0 |}).
  Proof.
    intros Hl Hwf He [Hz [Hlt _]] Hat Hk. cbn [dec_value]. rewrite dec_cases_lookup, Hk, Hl. cbn [dec_value].
    eapply dec_prim_enc; eauto.
  Qed.

  Lemma fl_ok_tags : forall fl pfl t, fl_ok T pfl fl -> In t (all_tags fl) -> t <> ANY_TAG -> tag_ok t.
  Proof.
    induction fl as [|a s r IH]; intros pfl t Hok Hin Hne; cbn [all_tags] in Hin; [contradiction|].
    cbn [fl_ok] in Hok. destruct Hok as [Hc [_ [_ Hr]]]. destruct Hin as [<-|Hin].
    - destruct Hc as [[E _]|[Hok _]]; [contradiction|exact Hok].
    - eapply IH; eauto.
  Qed.

  (* an optional field that is not on the wire at this point is passed over, leaving the position in the stream *)
  Lemma absent_step a s r i explen st actual nsum cur body :
    at_stream body st -> fa_req a = false ->
    (body = [] \/ exists t b', body = be 3 t ++ b' /\ t <> fa_tag a /\ fa_tag a <> ANY_TAG /\ t <> 0 /\ t < 2 ^ 24) ->
    exists st', at_stream body st' /\
      dec_fields (FCons a s r) i explen st actual nsum cur = dec_fields r (S i) explen st' actual nsum cur.
  Proof.
    intros Hat Hreq [->|[t [b' [-> [Hne [Hany [Hz Hlt]]]]]]].
    - destruct (peek_stream_nil _ Hat) as [Hp ->]. exists {| rest := []; last := 0 |}. split; [left; reflexivity|].
      cbn [dec_fields]. rewrite Hp, Hreq. reflexivity.
    - destruct (peek_stream_cons _ _ _ Hz Hlt Hat) as [st' [Hp [_ Hst']]]. exists st'. split; [exact Hst'|].
      cbn [dec_fields]. rewrite Hp, Hreq. cbn [negb andb].
      destruct (N.eqb_spec t (fa_tag a)); [contradiction|]. destruct (N.eqb_spec (fa_tag a) ANY_TAG); [contradiction|].
      reflexivity.
  Qed.

  Lemma vl_app_snoc_nil acc x : vl_app acc (VCons x VNone) = vl_snoc acc x.
  Proof. induction acc as [|y r IH]; cbn; [reflexivity|]. rewrite IH. reflexivity. Qed.

  Lemma mod_small_sum a b e : a + b <= e -> e < 2 ^ 32 -> (a + b) mod 2 ^ 32 = a + b.
  Proof. intros. apply N.mod_small. lia. Qed.

  Lemma rt_mut :
    (forall v, value_rt v /\ (match v with VList es => elems_rt es | _ => True end)) /\
    (forall vs, fields_rt vs /\ elems_rt vs).
  Proof.
    apply val_mutind.
    - (* VInt *) intros z. split; [|exact I]. intros s key a tl st cur b Hs Hwf He Htag Hat Hk.
      destruct s as [k|ty fl|h ki cs].
      + rewrite enc_value_prim in He. rewrite normalize_prim. cbn [dec_value]. destruct Htag as [Hz [Hlt _]]. eapply dec_prim_enc; eauto.
      + cbn [enc_value] in He. discriminate.
      + cbn [wf] in Hwf. destruct Hwf as [Hl Hw]. cbn [enc_value enc_dyn_prim] in He. eapply dyn_prim_rt; eauto.
    - intros z. split; [|exact I]. intros s key a tl st cur b Hs Hwf He Htag Hat Hk.
      destruct s as [k|ty fl|h ki cs].
      + rewrite enc_value_prim in He. rewrite normalize_prim. cbn [dec_value]. destruct Htag as [Hz [Hlt _]]. eapply dec_prim_enc; eauto.
      + cbn [enc_value] in He. discriminate.
      + cbn [wf] in Hwf. destruct Hwf as [Hl Hw]. cbn [enc_value enc_dyn_prim] in He. eapply dyn_prim_rt; eauto.
    - intros z. split; [|exact I]. intros s key a tl st cur b Hs Hwf He Htag Hat Hk.
      destruct s as [k|ty fl|h ki cs].
      + rewrite enc_value_prim in He. rewrite normalize_prim. cbn [dec_value]. destruct Htag as [Hz [Hlt _]]. eapply dec_prim_enc; eauto.
      + cbn [enc_value] in He. discriminate.
      + cbn [wf] in Hwf. destruct Hwf as [Hl Hw]. cbn [enc_value enc_dyn_prim] in He. eapply dyn_prim_rt; eauto.
    - intros z. split; [|exact I]. intros s key a tl st cur b Hs Hwf He Htag Hat Hk.
      destruct s as [k|ty fl|h ki cs].
      + rewrite enc_value_prim in He. rewrite normalize_prim. cbn [dec_value]. destruct Htag as [Hz [Hlt _]]. eapply dec_prim_enc; eauto.
      + cbn [enc_value] in He. discriminate.
      + cbn [wf] in Hwf. destruct Hwf as [Hl Hw]. cbn [enc_value enc_dyn_prim] in He. eapply dyn_prim_rt; eauto.
    - intros z. split; [|exact I]. intros s key a tl st cur b Hs Hwf He Htag Hat Hk.
      destruct s as [k|ty fl|h ki cs].
      + rewrite enc_value_prim in He. rewrite normalize_prim. cbn [dec_value]. destruct Htag as [Hz [Hlt _]]. eapply dec_prim_enc; eauto.
      + cbn [enc_value] in He. discriminate.
      + cbn [wf] in Hwf. destruct Hwf as [Hl Hw]. cbn [enc_value enc_dyn_prim] in He. eapply dyn_prim_rt; eauto.
    - intros z. split; [|exact I]. intros s key a tl st cur b Hs Hwf He Htag Hat Hk.
      destruct s as [k|ty fl|h ki cs].
      + rewrite enc_value_prim in He. rewrite normalize_prim. cbn [dec_value]. destruct Htag as [Hz [Hlt _]]. eapply dec_prim_enc; eauto.
      + cbn [enc_value] in He. discriminate.
      + cbn [wf] in Hwf. destruct Hwf as [Hl Hw]. cbn [enc_value enc_dyn_prim] in He. eapply dyn_prim_rt; eauto.
    - intros z. split; [|exact I]. intros s key a tl st cur b Hs Hwf He Htag Hat Hk.
      destruct s as [k|ty fl|h ki cs].
      + rewrite enc_value_prim in He. rewrite normalize_prim. cbn [dec_value]. destruct Htag as [Hz [Hlt _]]. eapply dec_prim_enc; eauto.
      + cbn [enc_value] in He. discriminate.
      + cbn [wf] in Hwf. destruct Hwf as [Hl Hw]. cbn [enc_value enc_dyn_prim] in He. eapply dyn_prim_rt; eauto.
    - intros z. split; [|exact I]. intros s key a tl st cur b Hs Hwf He Htag Hat Hk.
      destruct s as [k|ty fl|h ki cs].
      + rewrite enc_value_prim in He. rewrite normalize_prim. cbn [dec_value]. destruct Htag as [Hz [Hlt _]]. eapply dec_prim_enc; eauto.
      + cbn [enc_value] in He. discriminate.
      + cbn [wf] in Hwf. destruct Hwf as [Hl Hw]. cbn [enc_value enc_dyn_prim] in He. eapply dyn_prim_rt; eauto.
    - (* VStruct *) intros ty fs [Hf _]. split; [|exact I]. intros s key a tl st cur b Hs Hwf He Htag Hat Hk.
      destruct s as [k|ty' fl|h ki cs].
      + rewrite enc_value_prim in He. destruct k; discriminate.
      + cbn [wf] in Hwf. destruct Hwf as [-> [Hwf [body [Eb Hlen]]]]. cbn [enc_value] in He.
        rewrite Eb in He. cbn [obind] in He. injection He as <-.
        cbn [normalize]. cbn [sch_ok] in Hs.
        exact (struct_value_rt ty' fl fs a tl st cur Hf Hs Hwf (ex_intro _ body (conj Eb Hlen)) Htag body Eb Hat).
      + cbn [wf] in Hwf. destruct Hwf as [tag0 [fl [HT [Hl [Hwf [body [Eb Hlen]]]]]]]. cbn [enc_value] in He. rewrite HT in He. cbn [obind snd] in He.
        rewrite Eb in He. cbn [obind] in He. injection He as <-.
        cbn [normalize]. rewrite HT. cbn [snd]. cbn [dec_value]. rewrite dec_cases_lookup, Hk, Hl.
        exact (struct_value_rt ty fl fs a tl st VNone Hf (Henv _ _ _ HT) Hwf (ex_intro _ body (conj Eb Hlen)) Htag body Eb Hat).
    - (* VList *) intros vs [_ He]. split; [|exact He]. intros s key a tl st cur b Hs Hwf Hen. 
      destruct s as [k| |]; [rewrite enc_value_prim in Hen; destruct k; discriminate|cbn [enc_value] in Hen; discriminate|cbn [enc_value] in Hen; discriminate].
    - (* VNil *) split; [|exact I]. intros s key a tl st cur b Hs Hwf Hen.
      destruct s as [k| |]; [rewrite enc_value_prim in Hen; destruct k; discriminate|cbn [enc_value] in Hen; discriminate|cbn [enc_value] in Hen; discriminate].
    - (* VPtr *) intros v [IH _]. split; [|exact I]. intros s key a tl st cur b Hs Hwf He Htag Hat Hk.
      destruct s as [k|ty' fl|h ki cs].
      + rewrite enc_value_prim in He. destruct k; discriminate.
      + cbn [enc_value] in He. discriminate.
      + destruct v; cbn [wf] in Hwf; try contradiction.
        (* pointer to a structure: encoded and normalised like the structure itself *)
        specialize (IH (SDyn h ki cs) key a tl st cur b Hs). cbn [wf enc_value normalize] in IH.
        cbn [enc_value] in He. cbn [normalize]. destruct Hwf as [tag0 [fl [HT Hrest]]].
        rewrite HT in *. apply IH; eauto.
    - (* VBad *) intros w. split; [|exact I]. intros s key a tl st cur b Hs Hwf Hen.
      destruct s as [k| |]; [rewrite enc_value_prim in Hen; destruct k; discriminate|cbn [enc_value] in Hen; discriminate|cbn [enc_value] in Hen; discriminate].
    - (* VNone *) split.
      + intros fl pfl prev body st explen actual nsum Hok Hwf He Hl Hat Hsum Hlt.
        destruct fl; cbn [wf_fields] in Hwf; [|contradiction]. cbn [enc_fields] in He. injection He as <-.
        exists st. cbn [dec_fields zeros_of normalize_fields]. cbn [blen length N.of_nat] in *.
        replace explen with actual by (unfold blen in Hsum; cbn in Hsum; lia).
        rewrite N.add_0_r. reflexivity.
      + intros s a rest_body b st explen actual nsum acc cur fuel Hne. contradiction.
    - (* VCons *) intros v [IHv IHl] vr [IHf IHe]. split.
      + (* fields *)
        intros fl pfl prev body st explen actual nsum Hok Hwf He Hl Hat Hsum Hlt.
        destruct fl as [|a s r]; [cbn [wf_fields] in Hwf; contradiction|].
        cbn [fl_ok] in Hok. destruct Hok as [Hc [Hdyn [Hs Hr]]].
        cbn [wf_fields] in Hwf. destruct Hwf as [Hwv Hwr].
        set (P := normalize_fields T pfl prev).
        assert (HPlen: vl_length P = fl_len pfl) by (unfold P; rewrite normalize_fields_length; exact Hl).
        rewrite normalize_fields_cons, zeros_of_cons.
        set (z0 := if fa_slice a then VList VNone else zero_of s).
        (* what remains to be done once this field is dealt with *)
        assert (Hcont: forall body_r st1 actual1 nsum1,
             enc_fields T r vr = Some body_r -> at_stream body_r st1 -> actual1 + blen body_r = explen ->
             exists st', dec_fields r (S (fl_len pfl)) explen st1 actual1 nsum1
                           (vl_app P (VCons (norm_field T a s v) (zeros_of r)))
               = Ok (vl_app P (VCons (norm_field T a s v) (normalize_fields T r vr)), explen, nsum1 + blen body_r, st')).
        { intros body_r st1 actual1 nsum1 Her Hst1 Hs1.
          assert (Hl': vl_length (vl_snoc prev v) = fl_len (fl_app pfl (FCons a s FNil)))
            by (rewrite vl_length_snoc, fl_len_app; cbn [fl_len]; lia).
          destruct (IHf r (fl_app pfl (FCons a s FNil)) (vl_snoc prev v) body_r st1 explen actual1 nsum1 Hr Hwr Her Hl' Hst1 Hs1 Hlt)
            as [st' Hst'].
          exists st'. rewrite normalize_fields_snoc in Hst' by assumption. fold P in Hst'.
          rewrite !vl_app_snoc in Hst'. rewrite fl_len_app in Hst'. cbn [fl_len] in Hst'. rewrite Nat.add_1_r in Hst'. exact Hst'. }
        (* the first item of what follows carries a later field's tag *)
        assert (Hfirst: forall body_r, enc_fields T r vr = Some body_r ->
                  body_r = [] \/ exists t b', body_r = be 3 t ++ b' /\ In t (all_tags r) /\ t <> 0 /\ t < 2 ^ 24).
        { intros body_r Her. destruct (enc_fields_first T _ _ _ Her) as [->|[t [b' [-> [Hin Hna]]]]]; [left; reflexivity|].
          right. exists t, b'. destruct (fl_ok_tags _ _ _ Hr Hin Hna) as [Hz [Hl2 _]]. auto. }
        cbn [enc_fields] in He. unfold on_wire in Hwv. unfold norm_field in *.
        destruct ((fa_tag a =? ANY_TAG) || fa_skip a) eqn:Esk; cbn [negb] in Hwv.
        { (* never on the wire *)
          fold z0. fold z0 in Hcont.
          assert (Hreq: fa_req a = false).
          { destruct Hc as [[_ [_ [Hq _]]]|[[_ [_ Hna]] [_ Hq]]]; [exact Hq|]. apply Hq.
            apply orb_true_iff in Esk. destruct Esk as [E|E]; [apply N.eqb_eq in E; contradiction|exact E]. }
          assert (Hab: body = [] \/ exists t b', body = be 3 t ++ b' /\ t <> fa_tag a /\ fa_tag a <> ANY_TAG /\ t <> 0 /\ t < 2 ^ 24).
          { destruct Hc as [[_ [_ [_ ->]]]|[[_ [_ Hna]] [Hnin _]]].
            - destruct vr; cbn [wf_fields] in Hwr; [|contradiction]. cbn [enc_fields] in He. injection He as <-. left; reflexivity.
            - destruct (Hfirst _ He) as [->|[t [b' [-> [Hin [Hz Hl2]]]]]]; [left; reflexivity|]. right. exists t, b'.
              repeat split; auto. intros ->. contradiction. }
          destruct (absent_step a s r (fl_len pfl) explen st actual nsum (vl_app P (VCons z0 (zeros_of r))) body Hat Hreq Hab)
            as [st1 [Hst1 Hstep]].
          rewrite Hstep. apply Hcont; auto. }
        (* on the wire: a proper tag that no later field uses *)
        destruct Hc as [[Ea _]|[[Htz [Htlt Htany]] [Hnin Hskq]]].
        { exfalso. apply orb_false_iff in Esk. destruct Esk as [E _]. apply N.eqb_neq in E. contradiction. }
        assert (Hskip: fa_skip a = false) by (apply orb_false_iff in Esk; tauto).
        destruct (fa_slice a) eqn:Esl.
        { (* a sequence *)
          destruct v; try contradiction. destruct Hwv as [Hwe Hreqne].
          destruct (enc_elems T s (fa_tag a) vs) as [bes|] eqn:Ees; cbn [obind] in He; [|discriminate].
          destruct (enc_fields T r vr) as [body_r|] eqn:Er; cbn [obind] in He; [|discriminate]. injection He as <-.
          destruct (enc_elems_starts _ _ _ _ _ Ees) as [[-> ->]|[Hne [b' Hb']]].
          - (* empty: nothing on the wire *)
            cbn [app] in *. cbn [normalize_elems]. fold z0. 
            assert (Hreq: fa_req a = false) by (destruct (fa_req a); [exfalso; apply Hreqne; reflexivity|reflexivity]).
            assert (Hab: body_r = [] \/ exists t b', body_r = be 3 t ++ b' /\ t <> fa_tag a /\ fa_tag a <> ANY_TAG /\ t <> 0 /\ t < 2 ^ 24).
            { destruct (Hfirst _ eq_refl) as [->|[t [b'' [-> [Hin [Hz Hl2]]]]]]; [left; reflexivity|]. right. exists t, b''.
              repeat split; auto. intros ->. contradiction. }
            destruct (absent_step a s r (fl_len pfl) explen st actual nsum (vl_app P (VCons z0 (zeros_of r))) body_r Hat Hreq Hab)
              as [st1 [Hst1 Hstep]].
            rewrite Hstep. unfold z0 in *. apply Hcont; auto.
          - (* at least one element *)
            subst bes. rewrite <- app_assoc in Hat.
            destruct (peek_stream_cons (fa_tag a) (b' ++ body_r) st Htz Htlt Hat) as [dd1 [Hp [Hit1 _]]].
            cbn [dec_fields]. rewrite Hp. rewrite N.eqb_refl. cbn [negb andb]. rewrite andb_false_r. cbn [andb].
            rewrite Esl. rewrite Hskip.
            assert (Hnd: not_dyn s) by (destruct s; cbn; auto; destruct Hdyn as [E _]; congruence).
            assert (Hrb: body_r = [] \/ exists t r0, body_r = be 3 t ++ r0 /\ t <> fa_tag a /\ t <> 0 /\ t < 2 ^ 24).
            { destruct (Hfirst _ eq_refl) as [->|[t [b'' [-> [Hin [Hz Hl2]]]]]]; [left; reflexivity|]. right. exists t, b''.
              repeat split; auto. intros ->. contradiction. }
            rewrite !blen_app in Hsum.
            assert (Hit2: at_item (fa_tag a) ((be 3 (fa_tag a) ++ b') ++ body_r) [] dd1) by (rewrite <- app_assoc; exact Hit1).
            assert (Hfuel: (vl_length vs <= S (length (rest dd1)))%nat).
            { pose proof (enc_elems_len _ _ _ _ _ Ees) as Hl8. pose proof (at_item_rest_len _ _ _ _ Hit2) as Hl3.
              rewrite !app_length in *. cbn [length] in Hl3. lia. }
            assert (Hsum2: actual + blen (be 3 (fa_tag a) ++ b') + blen body_r = explen) by (rewrite blen_app; lia).
            destruct (IHl s a body_r (be 3 (fa_tag a) ++ b') dd1 explen actual nsum VNone
                          (vl_app P (VCons z0 (zeros_of r))) (S (length (rest dd1))) Hne Hs Hnd Hwe Ees
                          (conj Htz (conj Htlt Htany)) Hit2 Hrb Hsum2 Hlt Hfuel) as [dd2 [Hloop Hdd2]].
            cbv beta iota. rewrite Hloop. cbn [bind vl_app].
            rewrite (vl_set_app_len_eq _ _ _ _ _ (eq_sym HPlen)).
            rewrite (blen_app (be 3 (fa_tag a) ++ b') body_r), N.add_assoc.
            apply (Hcont body_r dd2 _ _ eq_refl Hdd2). exact Hsum2. }
        (* a single value *)
        destruct (negb (fa_req a) && is_zero s v) eqn:Ez.
        { (* optional and zero: omitted *)
          cbv beta iota in Hwv.
          apply andb_true_iff in Ez. destruct Ez as [Hreq Hzero]. apply negb_true_iff in Hreq.
          pose proof (proj1 (is_zero_normalize T) s v Hwv) as Hn. rewrite Hn in *. unfold z0 in *.
          assert (Hab: body = [] \/ exists t b', body = be 3 t ++ b' /\ t <> fa_tag a /\ fa_tag a <> ANY_TAG /\ t <> 0 /\ t < 2 ^ 24).
          { destruct (Hfirst _ He) as [->|[t [b'' [-> [Hin [Hz Hl2]]]]]]; [left; reflexivity|]. right. exists t, b''.
            repeat split; auto. intros ->. contradiction. }
          destruct (absent_step a s r (fl_len pfl) explen st actual nsum (vl_app P (VCons (zero_of s) (zeros_of r))) body Hat Hreq Hab)
            as [st1 [Hst1 Hstep]].
          rewrite Hstep. apply Hcont; auto. }
        cbv beta iota in Hwv.
        destruct (enc_value T s (fa_tag a) v) as [bv|] eqn:Ev; cbn [obind] in He; [|discriminate].
        destruct (enc_fields T r vr) as [body_r|] eqn:Er; cbn [obind] in He; [|discriminate]. injection He as <-.
        destruct (enc_value_starts _ _ _ _ _ Ev) as [b' [Hbv _]].
        assert (Hat2: at_stream (be 3 (fa_tag a) ++ b' ++ body_r) st) by (subst bv; rewrite <- app_assoc in Hat; exact Hat).
        destruct (peek_stream_cons (fa_tag a) (b' ++ body_r) st Htz Htlt Hat2) as [dd1 [Hp [Hit1 _]]].
        assert (Hit2: at_item (fa_tag a) bv body_r dd1) by (subst bv; apply at_item_split; exact Hit1).
        cbn [dec_fields]. rewrite Hp. rewrite N.eqb_refl. cbn [negb andb]. rewrite andb_false_r. cbn [andb].
        rewrite Esl, Hskip. cbv beta iota.
        assert (Hkey: match s with SDyn _ ki _ => vl_nth ki (vl_app P (VCons z0 (zeros_of r))) = key_of s prev | _ => True end).
        { destruct s as [| |h ki cs]; try exact I. destruct Hdyn as [_ Hkf]. cbn [key_of]. unfold P. apply key_nth; assumption. }
        rewrite (IHv s (key_of s prev) a body_r dd1 (vl_app P (VCons z0 (zeros_of r))) bv Hs Hwv Ev (conj Htz (conj Htlt Htany)) Hit2 Hkey).
        cbn [wrapped bind].
        rewrite blen_app in Hsum.
        rewrite (mod_small_sum actual (blen bv) explen) by lia.
        rewrite (vl_set_app_len_eq _ _ _ _ _ (eq_sym HPlen)).
        rewrite (blen_app bv body_r), N.add_assoc.
        apply (Hcont body_r _ _ _ eq_refl (or_introl eq_refl)). lia.
      + (* elements of a slice *)
        intros s a rest_body b st explen actual nsum acc cur fuel _ Hs Hnd Hwf He Htag Hat Hrb Hsum Hlt Hfuel.
        cbn [wf_elems] in Hwf. destruct Hwf as [Hwe Hwr].
        cbn [enc_elems] in He. destruct (enc_value T s (fa_tag a) v) as [b1|] eqn:E1; cbn [obind] in He; [|discriminate].
        destruct (enc_elems T s (fa_tag a) vr) as [b2|] eqn:E2; cbn [obind] in He; [|discriminate]. injection He as <-.
        destruct fuel as [|f]; [cbn in Hfuel; lia|]. cbn [vl_length] in Hfuel.
        destruct (enc_value_starts _ _ _ _ _ E1) as [b1' [Hb1 Hb1len]].
        assert (Hit: at_item (fa_tag a) b1 (b2 ++ rest_body) st).
        { subst b1. rewrite <- !app_assoc in Hat. apply at_item_split. exact Hat. }
        assert (Hdv: dec_value s a st cur = Ok (normalize T s v, blen b1, {| rest := b2 ++ rest_body; last := 0 |})).
        { apply (IHv s VNil a (b2 ++ rest_body) st cur b1 Hs Hwe E1 Htag Hit). destruct s; try exact I. contradiction. }
        cbn [slice_loop]. rewrite Hdv. cbn [wrapped bind].
        rewrite !blen_app in Hsum.
        rewrite (mod_small_sum actual (blen b1) explen) by lia.
        cbn [normalize_elems].
        destruct (enc_elems_starts _ _ _ _ _ E2) as [[-> ->]|[Hne [b2' Hb2]]].
        * (* last element *)
          cbn [app blen length N.of_nat] in *. cbn [normalize_elems]. rewrite vl_app_snoc_nil.
          destruct Hrb as [->|[t [r [-> [Hnt [Htz Htlt]]]]]].
          -- cbn [blen length N.of_nat] in Hsum.
             destruct (N.leb_spec explen (actual + blen b1)); [|unfold blen in *; cbn in *; lia].
             eexists; split; [rewrite blen_app; cbn [blen length N.of_nat]; rewrite N.add_0_r; reflexivity|left; reflexivity].
          -- assert (0 < blen (be 3 t ++ r)) by (rewrite blen_app, blen_be; lia).
             destruct (N.leb_spec explen (actual + blen b1)); [unfold blen in *; cbn in *; lia|].
             destruct (peek_stream_cons t r {| rest := be 3 t ++ r; last := 0 |} Htz Htlt (or_introl eq_refl)) as [st2 [Hp [_ Hst2]]].
             rewrite Hp. cbn [bind]. destruct (N.eqb_spec t (fa_tag a)); [contradiction|].
             eexists; split; [rewrite blen_app; cbn [blen length N.of_nat]; rewrite N.add_0_r; reflexivity|exact Hst2].
        * (* more elements follow: the next tag is this field's tag again *)
          subst b2.
          assert (0 < blen (be 3 (fa_tag a) ++ b2')) by (rewrite blen_app, blen_be; lia).
          destruct (N.leb_spec explen (actual + blen b1)); [rewrite !blen_app in *; lia|].
          destruct Htag as [Htz [Htlt Htany]].
          destruct (peek_stream_cons (fa_tag a) (b2' ++ rest_body) {| rest := (be 3 (fa_tag a) ++ b2') ++ rest_body; last := 0 |} Htz Htlt)
            as [st2 [Hp [Hit2 _]]]; [left; rewrite <- app_assoc; reflexivity|].
          rewrite Hp. cbn [bind]. rewrite N.eqb_refl.
          assert (Hit3: at_item (fa_tag a) ((be 3 (fa_tag a) ++ b2') ++ rest_body) [] st2)
            by (rewrite <- app_assoc; exact Hit2).
          assert (Hsum3: actual + blen b1 + blen (be 3 (fa_tag a) ++ b2') + blen rest_body = explen) by lia.
          assert (Hf3: (vl_length vr <= f)%nat) by lia.
          destruct (IHe s a rest_body (be 3 (fa_tag a) ++ b2') st2 explen (actual + blen b1) (nsum + blen b1)
                        (vl_snoc acc (normalize T s v)) cur f Hne Hs Hnd Hwr E2 (conj Htz (conj Htlt Htany)) Hit3 Hrb Hsum3 Hlt Hf3)
            as [st' [Hloop Hst']].
          exists st'. split; [|exact Hst'].
          rewrite Hloop. rewrite vl_app_snoc. rewrite (blen_app b1). rewrite !N.add_assoc. reflexivity.
  Qed.
End RT.

(* ------------------------------------------------------------------ *)
(* message level                                                       *)
(* ------------------------------------------------------------------ *)
Section Top.
  Variable T : tyenv.
  Hypothesis Henv : env_ok T.

  (* Decode(Encode v) on a stream: the normalised value, exactly the message consumed, no look-ahead left,
     whatever bytes follow *)
  Theorem roundtrip_top ty tag fl vs b tl :
    T ty = Some (tag, fl) -> tag_ok tag -> wf T (SStruct ty fl) VNil (VStruct ty vs) ->
    enc_top T (VStruct ty vs) = Some b ->
    dec_top ty tag fl {| rest := b ++ tl; last := 0 |}
    = Ok (VStruct ty (normalize_fields T fl vs), blen b, {| rest := tl; last := 0 |}).
  Proof.
    intros HT Htag Hwf He. unfold dec_top.
    unfold enc_top in He. rewrite HT in He. cbn [obind snd fst] in He.
    destruct (enc_fields T fl vs) as [body|] eqn:Eb; cbn [obind] in He; [|discriminate]. injection He as <-.
    pose proof (proj1 (proj1 (rt_mut T Henv) (VStruct ty vs))) as Hv.
    specialize (Hv (SStruct ty fl) VNil (top_attr tag) tl {| rest := wrap tag body ++ tl; last := 0 |} VNone (wrap tag body)).
    cbn [normalize] in Hv. apply Hv; auto.
    - cbn [sch_ok]. eapply Henv; eauto.
    - cbn [enc_value]. rewrite Eb. reflexivity.
    - left. reflexivity.
  Qed.

  (* a pointer to the message is encoded like the message *)
  Lemma enc_top_ptr ty vs : enc_top T (VPtr (VStruct ty vs)) = enc_top T (VStruct ty vs).
  Proof. reflexivity. Qed.

  (* several messages back to back on one decoder: returned one by one, in order, normalised; then io.EOF *)
  Theorem stream_roundtrip ty tag fl : T ty = Some (tag, fl) -> tag_ok tag ->
    forall ms bs fuel,
      Forall2 (fun vs b => wf T (SStruct ty fl) VNil (VStruct ty vs) /\ enc_top T (VStruct ty vs) = Some b) ms bs ->
      (length ms < fuel)%nat ->
      dec_stream fuel ty tag fl {| rest := concat bs; last := 0 |}
      = (map (fun vs => VStruct ty (normalize_fields T fl vs)) ms, SEOF).
  Proof.
    intros HT Htag ms bs fuel H. revert fuel. induction H as [|vs b ms bs [Hwf He] _ IH]; intros fuel Hf.
    - destruct fuel; [lia|]. cbn [dec_stream concat map]. unfold dec_top. cbn [dec_value].
      destruct Htag as [Hz _]. unfold expect_tag, read_tag. cbn [last rest N.eqb negb]. reflexivity.
    - destruct fuel; [cbn in Hf; lia|]. cbn [dec_stream concat map].
      rewrite (roundtrip_top ty tag fl vs b (concat bs) HT Htag Hwf He).
      rewrite IH by (cbn in Hf; lia). reflexivity.
  Qed.
End Top.

(* ------------------------------------------------------------------ *)
(* re-encoding the decoded (normalised) value reproduces the bytes      *)
(* ------------------------------------------------------------------ *)
Lemma is_zero_norm_true T :
  (forall s v, is_zero s v = true -> is_zero s (normalize T s v) = true) /\
  (forall fl vs, fields_zero fl vs = true -> fields_zero fl (normalize_fields T fl vs) = true) /\
  (forall cs : dcases, True).
Proof.
  apply sch_mutind.
  - intros k v H. rewrite normalize_prim. exact H.
  - intros ty fl IH v H. destruct v; cbn [is_zero] in H; try discriminate. cbn [normalize is_zero]. apply IH. exact H.
  - intros h ki cs _ v H. destruct v; cbn [is_zero] in H; try discriminate. reflexivity.
  - intros vs _. reflexivity.
  - intros a s IHs r IHr vs H. destruct vs as [|v vr]; cbn [fields_zero] in H; [discriminate|].
    apply andb_true_iff in H. destruct H as [Hv Hr]. rewrite normalize_fields_cons. cbn [fields_zero].
    rewrite (IHr _ Hr), andb_true_r. unfold norm_field.
    destruct ((fa_tag a =? ANY_TAG) || fa_skip a); [reflexivity|].
    destruct (fa_slice a).
    + destruct v; try discriminate. destruct vs; [reflexivity|discriminate].
    + apply IHs. exact Hv.
  - exact I.
  - intros; exact I.
Qed.

Section ReEnc.
  Variable T : tyenv.

  Definition reenc_value (v : val) : Prop :=
    forall s tag b, enc_value T s tag v = Some b ->
      enc_value T s tag (normalize T s v) = Some b /\ (is_zero s v = false -> is_zero s (normalize T s v) = false).

  Definition reenc_fields (vs : vlist) : Prop :=
    forall fl b, enc_fields T fl vs = Some b ->
      enc_fields T fl (normalize_fields T fl vs) = Some b /\
      (fields_zero fl vs = false -> fields_zero fl (normalize_fields T fl vs) = false).

  Definition reenc_elems (es : vlist) : Prop :=
    forall s tag b, enc_elems T s tag es = Some b -> enc_elems T s tag (normalize_elems T s es) = Some b.

  Lemma reenc_prim_case v : (forall s, normalize T s v = v) -> reenc_value v.
  Proof. intros Hn s tag b H. rewrite Hn. split; [exact H|auto]. Qed.

  Lemma reenc_mut :
    (forall v, reenc_value v /\ (match v with VList es => reenc_elems es | _ => True end)) /\
    (forall vs, reenc_fields vs /\ reenc_elems vs).
  Proof.
    apply val_mutind.
    - intros z. split; [|exact I]. apply reenc_prim_case. intros s; destruct s; reflexivity.
    - intros z. split; [|exact I]. apply reenc_prim_case. intros s; destruct s; reflexivity.
    - intros z. split; [|exact I]. apply reenc_prim_case. intros s; destruct s; reflexivity.
    - intros z. split; [|exact I]. apply reenc_prim_case. intros s; destruct s; reflexivity.
    - intros z. split; [|exact I]. apply reenc_prim_case. intros s; destruct s; reflexivity.
    - intros z. split; [|exact I]. apply reenc_prim_case. intros s; destruct s; reflexivity.
    - intros z. split; [|exact I]. apply reenc_prim_case. intros s; destruct s; reflexivity.
    - intros z. split; [|exact I]. apply reenc_prim_case. intros s; destruct s; reflexivity.
    - (* VStruct *) intros ty fs [Hf _]. split; [|exact I]. intros s tag b H.
      destruct s as [k|ty' fl|h ki cs].
      + rewrite enc_value_prim in H. destruct k; discriminate.
      + cbn [enc_value] in H. destruct (enc_fields T fl fs) as [body|] eqn:E; cbn [obind] in H; [|discriminate].
        destruct (Hf fl body E) as [He Hz]. cbn [normalize enc_value]. rewrite He. cbn [obind]. split; [exact H|].
        cbn [is_zero]. exact Hz.
      + cbn [enc_value] in H. destruct (T ty) as [d|] eqn:HT; cbn [obind] in H; [|discriminate].
        destruct (enc_fields T (snd d) fs) as [body|] eqn:E; cbn [obind] in H; [|discriminate].
        destruct (Hf (snd d) body E) as [He _]. cbn [normalize]. rewrite HT. cbn [enc_value]. rewrite HT. cbn [obind].
        rewrite He. cbn [obind]. split; [exact H|]. intros _. reflexivity.
    - (* VList *) intros vs [_ He]. split; [|exact He]. intros s tag b H.
      destruct s as [k| |]; [rewrite enc_value_prim in H; destruct k; discriminate|cbn [enc_value] in H; discriminate|cbn [enc_value] in H; discriminate].
    - (* VNil *) split; [|exact I]. intros s tag b H.
      destruct s as [k| |]; [rewrite enc_value_prim in H; destruct k; discriminate|cbn [enc_value] in H; discriminate|cbn [enc_value] in H; discriminate].
    - (* VPtr *) intros v [IH _]. split; [|exact I]. intros s tag b H.
      destruct s as [k|ty' fl|h ki cs].
      + rewrite enc_value_prim in H. destruct k; discriminate.
      + cbn [enc_value] in H. discriminate.
      + destruct v; cbn [enc_value enc_dyn_prim] in H; try discriminate; cbn [normalize enc_value enc_dyn_prim];
          try (split; [exact H|intros _; reflexivity]).
        (* pointer to a structure *)
        destruct (T ty) as [d|] eqn:HT; cbn [obind] in H; [|discriminate].
        specialize (IH (SDyn h ki cs) tag b). cbn [enc_value normalize] in IH. rewrite HT in IH. cbn [obind] in IH.
        destruct (IH H) as [He _]. split; [exact He|intros _; reflexivity].
    - (* VBad *) intros w. split; [|exact I]. intros s tag b H.
      destruct s as [k| |]; [rewrite enc_value_prim in H; destruct k; discriminate|cbn [enc_value] in H; discriminate|cbn [enc_value] in H; discriminate].
    - (* VNone *) split.
      + intros fl b H. destruct fl; cbn [enc_fields] in H; [|discriminate]. split; [exact H|auto].
      + intros s tag b H. exact H.
    - (* VCons *) intros v [IHv IHl] vr [IHf IHe]. split.
      + intros fl b H. destruct fl as [|a s r]; [cbn [enc_fields] in H; discriminate|].
        rewrite normalize_fields_cons. cbn [enc_fields fields_zero] in *. unfold norm_field.
        destruct ((fa_tag a =? ANY_TAG) || fa_skip a) eqn:Esk.
        { destruct (IHf r b H) as [He Hz]. split; [exact He|]. cbn [andb]. exact Hz. }
        destruct (fa_slice a) eqn:Esl.
        { destruct v; try discriminate.
          destruct (enc_elems T s (fa_tag a) vs) as [b1|] eqn:E1; cbn [obind] in H; [|discriminate].
          destruct (enc_fields T r vr) as [b2|] eqn:E2; cbn [obind] in H; [|discriminate].
          cbn in IHl. rewrite (IHl s (fa_tag a) b1 E1). cbn [obind]. destruct (IHf r b2 E2) as [He Hz]. rewrite He. cbn [obind].
          split; [exact H|]. destruct vs; cbn [normalize_elems]; [|intros _; reflexivity]. cbn [andb]. exact Hz. }
        destruct (negb (fa_req a) && is_zero s v) eqn:Ez.
        { apply andb_true_iff in Ez. destruct Ez as [Hq Hzv].
          rewrite (proj1 (is_zero_norm_true T) s v Hzv). rewrite Hq. cbn [andb].
          destruct (IHf r b H) as [He Hz]. split; [exact He|]. rewrite Hzv. cbn [andb]. exact Hz. }
        destruct (enc_value T s (fa_tag a) v) as [b1|] eqn:E1; cbn [obind] in H; [|discriminate].
        destruct (enc_fields T r vr) as [b2|] eqn:E2; cbn [obind] in H; [|discriminate].
        destruct (IHv s (fa_tag a) b1 E1) as [Hev Hzv]. destruct (IHf r b2 E2) as [He Hz].
        assert (Hnz: negb (fa_req a) && is_zero s (normalize T s v) = false).
        { apply andb_false_iff in Ez. destruct Ez as [Hq|Hq]; [rewrite Hq; reflexivity|]. rewrite (Hzv Hq). apply andb_false_r. }
        rewrite Hnz, Hev. cbn [obind]. rewrite He. cbn [obind]. split; [exact H|].
        intros Hfz. apply andb_false_iff in Hfz. destruct Hfz as [Hfz|Hfz].
        * rewrite (Hzv Hfz). reflexivity.
        * rewrite (Hz Hfz). apply andb_false_r.
      + intros s tag b H. cbn [enc_elems normalize_elems] in *.
        destruct (enc_value T s tag v) as [b1|] eqn:E1; cbn [obind] in H; [|discriminate].
        destruct (enc_elems T s tag vr) as [b2|] eqn:E2; cbn [obind] in H; [|discriminate].
        destruct (IHv s tag b1 E1) as [Hev _]. rewrite Hev. cbn [obind]. rewrite (IHe s tag b2 E2). exact H.
  Qed.

  (* encoding the decoded value again reproduces the identical bytes *)
  Theorem reencode_top ty tag fl vs b :
    T ty = Some (tag, fl) -> enc_top T (VStruct ty vs) = Some b ->
    enc_top T (VStruct ty (normalize_fields T fl vs)) = Some b.
  Proof.
    intros HT H. unfold enc_top in *. rewrite HT in *. cbn [obind snd fst] in *.
    destruct (enc_fields T fl vs) as [body|] eqn:E; cbn [obind] in H; [|discriminate].
    destruct (proj1 (proj2 reenc_mut vs) fl body E) as [He _]. rewrite He. exact H.
  Qed.
End ReEnc.
