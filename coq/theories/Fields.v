(* Fields.v - model of fields.go (parseTag, guessType, getStructDesc) over the raw
   declarations the translator emits, and elaboration of the named schema into
   the tree schema. *)
From Coq Require Import List String Ascii NArith Bool.
Require Import Schema.
Import ListNotations.
Open Scope string_scope.
Open Scope N_scope.

Fixpoint assoc {A} (k : string) (l : list (string * A)) : option A :=
  match l with
  | [] => None
  | (k', v) :: r => if String.eqb k k' then Some v else assoc k r
  end.

(* strings.SplitN(tag, ",", 2) *)
Fixpoint parse_tag (s : string) : string * string :=
  match s with
  | EmptyString => ("", "")
  | String c r =>
      if Ascii.eqb c "," then ("", r)
      else let '(n, o) := parse_tag r in (String c n, o)
  end.

Fixpoint prefixb (p s : string) : bool :=
  match p, s with
  | EmptyString, _ => true
  | String a p', String b s' => Ascii.eqb a b && prefixb p' s'
  | _, _ => false
  end.

(* strings.Contains *)
Fixpoint contains (needle hay : string) : bool :=
  prefixb needle hay ||
  match hay with EmptyString => false | String _ r => contains needle r end.

Inductive res (A : Type) := ROk (a : A) | RErr (msg : string).
Arguments ROk {A}. Arguments RErr {A}.

Section Desc.
  Variable tagmap : list (string * N).
  Variable named : list (string * gty).
  Variable structs : list rawstruct.

  Fixpoint find_struct (n : string) (l : list rawstruct) : option rawstruct :=
    match l with
    | [] => None
    | s :: r => if String.eqb n (rs_name s) then Some s else find_struct n r
    end.

  (* guessType *)
  Definition guess_type (t : gty) : res ftyp :=
    match t with
    | TInt32 => ROk (FPrim KInt)
    | TInt64 => ROk (FPrim KLong)
    | TEnum => ROk (FPrim KEnum)
    | TBool => ROk (FPrim KBool)
    | TBytes => ROk (FPrim KBytes)
    | TString => ROk (FPrim KStr)
    | TTime => ROk (FPrim KTime)
    | TDuration => ROk (FPrim KDur)
    | TIface => ROk FDyn
    | TNamed n =>
        match find_struct n structs with
        | Some _ => ROk (FStruct n)
        | None => match assoc n named with
                  | Some TIface => ROk FDyn
                  | _ => RErr ("unsupported type " ++ n)
                  end
        end
    | _ => RErr "unsupported type"
    end.

  (* ft.Kind() == reflect.Slice && ft != typeOfBytes *)
  Definition slice_elem (t : gty) : option gty :=
    match t with
    | TSliceOf e => Some e
    | TNamed n => match assoc n named with
                  | Some (TSliceOf e) => Some e
                  | Some TBytes => Some (TOther "uint8")
                  | _ => None
                  end
    | _ => None
    end.

  Fixpoint desc_fields (fs : list rawfield) (tag : N) (acc : list fdesc) : res sdesc :=
    match fs with
    | [] => ROk {| sd_tag := tag; sd_fields := rev acc |}
    | f :: r =>
        let '(name, opt) := parse_tag (if rf_has_ann f then rf_ann f else "") in
        match rf_type f with
        | TTagTy =>
            match assoc name tagmap with
            | Some t => desc_fields r t acc
            | None => RErr ("unknown tag " ++ name ++ " for struct tag")
            end
        | ty =>
            if String.eqb name "" || negb (rf_exported f) then desc_fields r tag acc
            else match assoc name tagmap with
                 | None => RErr ("unknown tag " ++ name ++ " for field " ++ rf_name f)
                 | Some t =>
                     let req := contains "required" opt in
                     let skip := contains "skip" opt in
                     let '(sl, ety) := match slice_elem ty with Some e => (true, e) | None => (false, ty) end in
                     match guess_type ety with
                     | RErr m => RErr m
                     | ROk ft =>
                         desc_fields r tag
                           ({| fd_name := rf_name f; fd_tag := t; fd_typ := ft;
                               fd_req := req; fd_slice := sl; fd_skip := skip |} :: acc)
                     end
                 end
        end
    end.

  (* getStructDesc(rt) for a named struct type *)
  Definition get_struct_desc (ty : string) : res sdesc :=
    match find_struct ty structs with
    | Some s => desc_fields (rs_fields s) 0 []
    | None => RErr ("unsupported type " ++ ty ++ ", struct expected")
    end.
End Desc.

(* ---------- elaboration: named schema -> tree schema (fuel = nesting depth) ---------- *)
Section Elab.
  Variable desc : string -> res sdesc.                 (* get_struct_desc of the instance *)
  Variable dispatch : list rawdispatch.

  Fixpoint find_dispatch (ty : string) (l : list rawdispatch) : option rawdispatch :=
    match l with
    | [] => None
    | d :: r => if String.eqb ty (rd_type d) then Some d else find_dispatch ty r
    end.

  Fixpoint index_of (n : string) (l : list fdesc) (i : nat) : option nat :=
    match l with
    | [] => None
    | f :: r => if String.eqb n (fd_name f) then Some i else index_of n r (S i)
    end.

  Definition attr_of (f : fdesc) : fattr :=
    {| fa_name := fd_name f; fa_tag := fd_tag f; fa_req := fd_req f;
       fa_slice := fd_slice f; fa_skip := fd_skip f |}.

  Fixpoint elab_struct (fuel : nat) (ty : string) : option flist :=
    match fuel with
    | O => None
    | S fuel' =>
        match desc ty with
        | RErr _ => None
        | ROk sd =>
            let fix go (fs : list fdesc) : option flist :=
              match fs with
              | [] => Some FNil
              | f :: r =>
                  let os :=
                    match fd_typ f with
                    | FPrim k => Some (SPrim k)
                    | FStruct t => match elab_struct fuel' t with
                                   | Some fl => Some (SStruct t fl)
                                   | None => Some (SDyn t 0 DNil)
                                     (* a nested structure type without a descriptor (unknown tag name, unsupported field
                                        type): the library finds out only when a value reaches the field - getStructDesc
                                        fails in isZeroValue / encodeValue / decodeValue.  A dynamic position without cases
                                        behaves the same: any value fails to encode (its type has no entry in T), a field
                                        that is present fails to decode, an absent optional one is skipped. *)
                                   end
                    | FDyn =>
                        match find_dispatch ty dispatch with
                        | None => Some (SDyn ty 0 DNil)   (* no DynamicDispatch: every decode of the field fails *)
                        | Some d =>
                            match index_of (rd_keyfield d) (sd_fields sd) 0 with
                            | None => None
                            | Some ki =>
                                let fix cases (cs : list (list dkey * dtarget)) : option dcases :=
                                  match cs with
                                  | [] => Some DNil
                                  | (ks, tg) :: cr =>
                                      let ot := match tg with
                                                | DTPrim k => Some (SPrim k)
                                                | DTPtr t => match elab_struct fuel' t with
                                                             | Some fl => Some (SStruct t fl) | None => None end
                                                | _ => None
                                                end in
                                      match ot, cases cr with
                                      | Some s, Some rest =>
                                          Some (fold_right (fun k acc => DCase k s acc) rest ks)
                                      | _, _ => None
                                      end
                                  end in
                                match cases (rd_cases d) with
                                | Some cs => Some (SDyn ty ki cs) | None => None end
                            end
                        end
                    end in
                  match os, go r with
                  | Some s, Some fl => Some (FCons (attr_of f) s fl)
                  | _, _ => None
                  end
              end in
            go (sd_fields sd)
        end
    end.

  Definition elab (fuel : nat) (ty : string) : option sch :=
    match elab_struct fuel ty with Some fl => Some (SStruct ty fl) | None => None end.
End Elab.
