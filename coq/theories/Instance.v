(* Instance.v - the schema of the current /repo tree: Generated.v pushed through the
   model of fields.go and elaborated.  Everything here is recomputed on every run. *)
From Coq Require Import List String NArith Bool.
Require Import Schema Fields Generated.
Import ListNotations.
Open Scope string_scope.
Open Scope N_scope.

Definition const_value (n : string) : option N :=
  let fix go (l : list (string * string * N * N)) :=
    match l with
    | [] => None
    | (k, _, v, _) :: r => if String.eqb k n then Some v else go r
    end in go gen_consts.

(* tagMap with the identifiers on the right-hand side replaced by their values *)
Definition resolve_tagmap : option (list (string * N)) :=
  let fix go (l : list (string * string)) :=
    match l with
    | [] => Some []
    | (k, id) :: r =>
        match const_value id, go r with
        | Some v, Some r' => Some ((k, v) :: r')
        | _, _ => None
        end
    end in go gen_tagmap.

Definition the_tagmap : list (string * N) :=
  Eval vm_compute in match resolve_tagmap with Some m => m | None => [] end.

Definition the_desc (ty : string) : res sdesc := get_struct_desc the_tagmap gen_named gen_structs ty.

Definition elab_fuel : nat := 12.
Definition the_elab (ty : string) : option sch := elab the_desc gen_dispatch elab_fuel ty.

Definition all_type_names : list string := Eval vm_compute in map rs_name gen_structs.

(* every struct type, elaborated *)
Definition the_types : list (string * option sch) :=
  Eval vm_compute in map (fun n => (n, the_elab n)) all_type_names.

Definition request_sch : option sch := Eval vm_compute in the_elab "Request".
Definition response_sch : option sch := Eval vm_compute in the_elab "Response".
