(* Instance.v - the schema of the current /repo tree: Generated.v pushed through the
   model of fields.go and elaborated.  Everything here is recomputed on every run. *)
From Coq Require Import List String NArith Bool.
Require Import Schema Fields Generated.
Import ListNotations.
Open Scope string_scope.
Open Scope N_scope.

Definition const_value (n : string) : option N :=
  let fix go (l : list (string * string * N * N)) :=
    match l with
    | [] => None
    | (k, _, v, _) :: r => if String.eqb k n then Some v else go r
    end in go gen_consts.

(* tagMap with the identifiers on the right-hand side replaced by their values *)
Definition resolve_tagmap : option (list (string * N)) :=
  let fix go (l : list (string * string)) :=
    match l with
    | [] => Some []
    | (k, id) :: r =>
        match const_value id, go r with
        | Some v, Some r' => Some ((k, v) :: r')
        | _, _ => None
        end
    end in go gen_tagmap.

Definition the_tagmap : list (string * N) :=
  Eval vm_compute in match resolve_tagmap with Some m => m | None => [] end.

Definition the_desc (ty : string) : res sdesc := get_struct_desc the_tagmap gen_named gen_structs ty.

Definition elab_fuel : nat := 12.
Definition the_elab (ty : string) : option sch := elab the_desc gen_dispatch elab_fuel ty.

Definition all_type_names : list string := Eval vm_compute in map rs_name gen_structs.

(* every struct type, elaborated *)
Definition the_types : list (string * option sch) :=
  Eval vm_compute in map (fun n => (n, the_elab n)) all_type_names.

Definition request_sch : option sch := Eval vm_compute in the_elab "Request".
Definition response_sch : option sch := Eval vm_compute in the_elab "Response".

(* ---------- the type environment of the codec model: getStructDesc by type name ---------- *)
Require Import Codec Bytes.

Definition the_type_table : list (string * (N * flist)) :=
  Eval vm_compute in
    flat_map (fun n =>
      match the_desc n, the_elab n with
      | ROk sd, Some (SStruct _ fl) => [(n, (sd_tag sd, fl))]
      | _, _ => []
      end) all_type_names.

Definition inst_T : tyenv := fun ty => tassoc ty the_type_table.

Definition inst_enc_top (v : val) : option bytes := enc_top inst_T v.

Definition inst_dec_top (ty : string) (bs : bytes) : dres (val * N * dstate) :=
  match inst_T ty with
  | Some (tag, fl) => dec_top ty tag fl {| rest := bs; last := 0 |}
  | None => Err
  end.

(* the decoder on reader objects (Readers.v): mode 0 = the source is an io.ByteScanner, 1 = NewDecoder wraps it
   in its bufio.Reader, n > 1 = a caller-supplied bufio.Reader of size n *)
Require Import Readers.
Definition inst_mk_decoder (mode : N) (b : base) : cstate :=
  if mode =? 0 then new_decoder true b else if mode =? 1 then new_decoder false b else new_decoder_bufio mode b.
Definition inst_cdec (ty : string) (mode : N) (b : base) : dres (val * N) * cstate :=
  match inst_T ty with
  | Some (tag, fl) => c_dec_top ty tag fl (inst_mk_decoder mode b)
  | None => (Err, inst_mk_decoder mode b)
  end.
Definition inst_cstream (fuel : nat) (ty : string) (mode : N) (b : base) : list val * stream_end * cstate :=
  match inst_T ty with
  | Some (tag, fl) => c_dec_stream fuel ty tag fl (inst_mk_decoder mode b)
  | None => ([], SErr, inst_mk_decoder mode b)
  end.

(* the specification of Decode (Denote.v) on the same schema *)
Require Import Denote.
Definition inst_spec_decode (ty : string) (bs : bytes) : option (val * N) :=
  match inst_T ty with
  | Some (tag, fl) => spec_decode ty tag fl bs
  | None => None
  end.

Definition inst_normalize (v : val) : val :=
  match v with
  | VStruct ty vs | VPtr (VStruct ty vs) =>
      match inst_T ty with Some (_, fl) => VStruct ty (normalize_fields inst_T fl vs) | None => v end
  | _ => v
  end.

(* the item type codes the model uses are the ones consts.go declares *)
Definition type_codes_b : bool :=
  forallb (fun p => match const_value (fst p) with Some v => v =? snd p | None => false end)
    [("STRUCTURE", tc_structure); ("INTEGER", type_code KInt); ("LONG_INTEGER", type_code KLong);
     ("ENUMERATION", type_code KEnum); ("BOOLEAN", type_code KBool); ("TEXT_STRING", type_code KStr);
     ("BYTE_STRING", type_code KBytes); ("DATE_TIME", type_code KTime); ("INTERVAL", type_code KDur);
     ("ANY_TAG", ANY_TAG)].

(* ---------- the session model instantiated with the constants server.go uses ---------- *)
Require Import Session.

Definition cv (n : string) : N := match const_value n with Some v => v | None => 0 end.

Definition inst_K : sconsts :=
  Eval vm_compute in
  {| k_success := cv "RESULT_STATUS_SUCCESS"; k_failed := cv "RESULT_STATUS_OPERATION_FAILED";
     k_general_failure := cv "RESULT_REASON_GENERAL_FAILURE";
     k_not_supported := cv "RESULT_REASON_OPERATION_NOT_SUPPORTED";
     k_invalid_message := cv "RESULT_REASON_INVALID_MESSAGE";
     k_discover_versions := cv "OPERATION_DISCOVER_VERSIONS" |}.

Definition inst_session (c : cfg) (input : bytes) (script : list behaviour) : list event :=
  session inst_T inst_K c input script.

Definition default_versions : list (Z * Z) := gen_default_versions.

(* ---------- client and TLS instances ---------- *)
Require Import Client TLS.
Definition inst_send (c : ccfg) (op : N) (payload : val) (reply : bytes) := send inst_T inst_K c op payload reply.
Definition inst_discover_versions (c : ccfg) (offer : list (Z * Z)) (reply : bytes) :=
  discover_versions inst_T inst_K c offer reply.
Definition inst_server_tls : option tlscfg := apply_assignments gen_DefaultServerTLSConfig zero_server_cfg.
Definition inst_client_tls : option tlscfg := apply_assignments gen_DefaultClientTLSConfig zero_client_cfg.
Definition inst_server_tls_from (c0 : tlscfg) : option tlscfg := apply_assignments gen_DefaultServerTLSConfig c0.
Definition inst_client_tls_from (c0 : tlscfg) : option tlscfg := apply_assignments gen_DefaultClientTLSConfig c0.

(* ---------- fixed-length primitives: the model's layout table against what decode_core.go / encode_core.go say ---------- *)
Definition fixed_len (k : kind) : option N :=
  match k with
  | KInt | KEnum | KDur => Some 4
  | KLong | KBool | KTime => Some 8
  | KBytes | KStr => None
  end.

(* which read* / write* function handles which kind *)
Definition prim_functions : list (string * kind) :=
  [("readInteger", KInt); ("writeInteger", KInt); ("readLongInteger", KLong); ("writeLongInteger", KLong);
   ("readEnum", KEnum); ("writeEnum", KEnum); ("readBool", KBool); ("writeBool", KBool);
   ("readTime", KTime); ("writeTime", KTime); ("readDuration", KDur); ("writeDuration", KDur)].

Definition layout_row_ok (row : string * string * N) : bool :=
  let '(fn, ty, len) := row in
  match assoc fn prim_functions with
  | Some k => match const_value ty, fixed_len k with
              | Some code, Some l => (code =? type_code k) && (len =? l)
              | _, _ => false
              end
  | None => false
  end.

(* every row the translator found is one the model knows and agrees with, and every function of the table was found *)
Definition prim_layout_b : bool :=
  forallb layout_row_ok gen_prim_layout &&
  forallb (fun p => existsb (fun row => String.eqb (fst (fst row)) (fst p)) gen_prim_layout) prim_functions.
