(* ClientReaders.v - Client.Send with the reply read through the reader objects of Readers.v: the Client's Decoder sits
   on NewDecoder's bufio.Reader over the connection, which hands out the peer's reply in an arbitrary script of read
   sizes and then ends - with io.EOF (the peer closed) or with an I/O error (reset, deadline) at any offset.
   "For every possible reply from the peer - any bytes, cut off anywhere" (C14). *)
From Coq Require Import String.
From Coq Require Import List NArith ZArith Bool Strings.Byte.
Require Import Bytes Schema Codec CodecProofs Readers ReadersProofs Session Client.
Import ListNotations.
Open Scope list_scope.
Open Scope N_scope.

Section ClientOnReaders.
  Variable T : tyenv.
  Variable K : sconsts.

  Definition c_send (c : ccfg) (op : N) (payload : val) (conn : base) : list cevent * send_result :=
    if negb (cc_connected c) then ([], SError)
    else
      let armw := if cc_write_to c then [CArmWrite] else [] in
      match enc_top T (VPtr (build_request T c op payload)) with
      | None => (armw, SError)
      | Some b =>
          let armr := if cc_read_to c then [CArmRead] else [] in
          let evs := armw ++ [CSent b] ++ armr in
          match T "Response"%string with
          | None => (evs, SError)
          | Some (tag, fl) =>
              match c_dec_top "Response" tag fl (new_decoder false conn) with
              | (Ok (resp, _), _) => (evs, judge T K op resp)
              | _ => (evs, SError)
              end
          end
      end.

  (* the peer closes after its reply: however the reply is fragmented, Send returns what it returns on the bytes *)
  Theorem client_fragmentation_independent c op payload conn :
    transport_ok conn -> b_term conn = EOF ->
    c_send c op payload conn = send T K c op payload (b_data conn).
  Proof.
    intros Hok Ht. unfold c_send, send.
    destruct (negb (cc_connected c)); [reflexivity|].
    destruct (enc_top T (VPtr (build_request T c op payload))) as [b|]; [|reflexivity].
    destruct (T "Response"%string) as [[tag fl]|]; [|reflexivity].
    destruct (new_decoder_wf false conn Hok) as [Hw Hfl].
    destruct (c_dec_top "Response" tag fl (new_decoder false conn)) as [x st'] eqn:E.
    destruct (decode_on_readers _ _ _ _ _ _ Hw E) as [O F _ _]. rewrite Hfl in O, F.
    assert (Ht': b_term (bs (rd (new_decoder false conn))) = EOF) by exact Ht. specialize (F Ht').
    destruct x as [[resp n]| | |].
    - destruct (O _ eq_refl) as (st1 & Efr & _). rewrite Efr. reflexivity.
    - destruct (dec_top "Response" tag fl {| rest := b_data conn; last := 0 |}) as [[[? ?] ?]| | |]; cbn in F; try discriminate; reflexivity.
    - destruct (dec_top "Response" tag fl {| rest := b_data conn; last := 0 |}) as [[[? ?] ?]| | |]; cbn in F; try discriminate; reflexivity.
    - destruct (dec_top "Response" tag fl {| rest := b_data conn; last := 0 |}) as [[[? ?] ?]| | |]; cbn in F; try discriminate; reflexivity.
  Qed.

  (* the connection fails (any terminal, any offset): a payload or a server error is only ever returned if the bytes that
     did arrive are a complete reply saying so - a reply cut off by the failure never yields a payload *)
  Theorem client_io_error_safe c op payload conn evs r :
    transport_ok conn ->
    c_send c op payload conn = (evs, r) -> r <> SError ->
    send T K c op payload (b_data conn) = (evs, r).
  Proof.
    intros Hok H Hr. unfold c_send, send in *.
    destruct (negb (cc_connected c)); [injection H as <- <-; congruence|].
    destruct (enc_top T (VPtr (build_request T c op payload))) as [b|]; [|injection H as <- <-; congruence].
    destruct (T "Response"%string) as [[tag fl]|]; [|injection H as <- <-; congruence].
    destruct (new_decoder_wf false conn Hok) as [Hw Hfl].
    destruct (c_dec_top "Response" tag fl (new_decoder false conn)) as [x st'] eqn:E.
    destruct (decode_on_readers _ _ _ _ _ _ Hw E) as [O _ _ _]. rewrite Hfl in O.
    destruct x as [[resp n]| | |]; try (injection H as <- <-; congruence).
    destruct (O _ eq_refl) as (st1 & Efr & _). rewrite Efr. exact H.
  Qed.
End ClientOnReaders.
