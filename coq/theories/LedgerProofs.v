(* LedgerProofs.v - C05: the allocation ledger of the decoder on reader objects (Readers.v) is bounded
   by a linear function of the bytes the reader can really deliver - whatever lengths the input
   declares.  Potential argument: Phi = ledger + A * (bytes still available to this decoder);
   every operation's ledger entries are paid for by the bytes it consumes. *)
From Coq Require Import String.
From Coq Require Import List NArith ZArith Bool Lia Strings.Byte ZifyN ZifyNat ZifyBool.
Require Import Bytes BytesProofs Schema Codec CodecProofs Denote DenoteProofs Readers ReadersProofs.
Import ListNotations.
Open Scope N_scope.

Arguments N.add : simpl never.
Arguments N.mul : simpl never.
Arguments N.pow : simpl never.
Arguments N.modulo : simpl never.
Arguments N.div : simpl never.
Arguments N.sub : simpl never.
Arguments N.min : simpl never.
Arguments N.max : simpl never.
Arguments Z.add : simpl never.
Arguments Z.mul : simpl never.
Arguments Z.sub : simpl never.
Arguments Z.of_N : simpl never.

(* ---------------------------------------------------------------- *)
(* bytes.Buffer.ReadFrom: the backing arrays it allocates            *)
(* ---------------------------------------------------------------- *)
Lemma copy_loop_cost fuel : forall r left cap acc al x r' al',
  wf_reader r -> (rmeasure r + 1 < fuel)%nat ->
  copy_loop fuel r left cap acc al = (x, r', al') ->
  al <= 2 * cap -> cap <= 2 * blen acc + 1024 ->
  al' + 4 * blen (rden r') <= 4 * blen acc + 4 * blen (rden r) + 2048.
Proof.
  induction fuel as [|f IH]; intros r left cap acc al x r' al' Hw Hf H Ha Hc; [lia|].
  cbn [copy_loop] in H.
  set (len := blen acc) in *.
  destruct (if min_read <=? cap - len then (cap, al) else (N.max (len + min_read) (2 * cap), al + N.max (len + min_read) (2 * cap)))
    as [cap' al1] eqn:Eg.
  assert (Hinv: al1 <= 2 * cap' /\ cap' <= 2 * len + 1024 /\ min_read <= cap' - len).
  { unfold min_read in *. destruct (N.leb_spec 512 (cap - len)); injection Eg as <- <-; lia. }
  destruct Hinv as (Ha1 & Hc1 & Hcap).
  destruct (N.eqb_spec left 0) as [E0|N0].
  - injection H as <- <- <-. lia.
  - destruct (rd_read r (N.min (cap' - len) left)) as [[d e] r1] eqn:Er.
    assert (Hk: 0 < N.min (cap' - len) left) by (unfold min_read in Hcap; lia).
    pose proof (rd_read_spec _ _ _ _ _ Hk Hw Er) as P.
    pose proof (rd_post_measure _ _ _ _ _ P) as Hm.
    destruct P as [D L W E T S Z Kd By].
    assert (Hlen: blen (rden r) = blen d + blen (rden r1)) by (rewrite D, blen_app; reflexivity).
    destruct e as [y|].
    + assert (Hres: r' = r1 /\ al' = al1) by (destruct y; injection H as _ <- <-; auto).
      destruct Hres as [-> ->]. lia.
    + assert (Hf': (rmeasure r1 + 1 < f)%nat) by (specialize (Hm eq_refl); lia).
      assert (Hc': cap' <= 2 * blen (acc ++ d) + 1024) by (rewrite blen_app; fold len; lia).
      pose proof (IH _ _ _ _ _ _ _ _ W Hf' H Ha1 Hc') as R. rewrite blen_app in R. fold len in R. lia.
Qed.

Lemma copy_buf_cost l r x r' al : wf_reader r -> copy_buf l r = (x, r', al) ->
  al + 4 * blen (rden r') <= 4 * blen (rden r) + 2048.
Proof.
  intros Hw H. unfold copy_buf in H.
  apply copy_loop_cost in H; [|assumption|unfold rmeasure; lia|lia|rewrite blen_nil; lia].
  rewrite blen_nil in H. lia.
Qed.

(* ---------------------------------------------------------------- *)
(* the potential                                                     *)
(* ---------------------------------------------------------------- *)
Open Scope Z_scope.

Definition A : Z := 1536.         (* ledger bytes that one input byte pays for *)

Definition look (s : cstate) : Z := if (clast s =? 0)%N then 0 else 3.
Definition phi (s : cstate) : Z := Z.of_N (blen (rden (rd s))) + look s.
Definition Phi (s : cstate) : Z := Z.of_N (alloc s) + A * phi s.

Lemma phi_nonneg s : 0 <= phi s.
Proof. unfold phi, look. destruct (clast s =? 0)%N; lia. Qed.

Definition is_ok {X} (x : dres X) : bool := match x with Ok _ => true | _ => false end.

Record amort_post {X} (s : cstate) (x : dres X) (s' : cstate) (aok aerr : Z) : Prop := {
  am_shape : cshape s s';
  am_ok : is_ok x = true -> wf_c s' /\ Phi s' <= Phi s + aok;
  am_err : is_ok x = false -> Phi s' <= Phi s + aerr }.

Definition amort {X} (m : M X) (aok aerr : Z) : Prop :=
  forall s x s', wf_c s -> m s = (x, s') -> amort_post s x s' aok aerr.

Lemma amort_weaken {X} (m : M X) a b a' b' : a <= a' -> b <= b' -> amort m a b -> amort m a' b'.
Proof.
  intros Ha Hb H s x s' Hw Hm. destruct (H _ _ _ Hw Hm) as [S O E]. split; [exact S| |].
  - intros Hx. destruct (O Hx). split; [assumption|lia].
  - intros Hx. specialize (E Hx). lia.
Qed.

Lemma amort_ret {X} (a : X) : amort (mret a) 0 0.
Proof.
  intros s x s' Hw H. unfold mret in H. injection H as <- <-. split; [apply cshape_refl| |discriminate].
  intros _. split; [assumption|lia].
Qed.

Lemma amort_fail {X} (e : dres X) : is_ok e = false -> amort (mfail e) 0 0.
Proof.
  intros He s x s' Hw H. unfold mfail in H. injection H as <- <-. split; [apply cshape_refl| |intros _; lia].
  rewrite He. discriminate.
Qed.

Lemma amort_charge n : amort (charge n) (Z.of_N n) 0.
Proof.
  intros s x s' Hw H. unfold charge in H. injection H as <- <-. split; [apply same_shape_refl| |discriminate].
  intros _. split; [exact Hw|]. unfold Phi, phi, look. cbn [rd clast alloc]. lia.
Qed.

Lemma amort_bind {X Y} (m1 : M X) (m2 : X -> M Y) a1 e1 a2 e2 :
  amort m1 a1 e1 -> (forall v, amort (m2 v) a2 e2) ->
  amort (mbind m1 m2) (a1 + a2) (Z.max e1 (a1 + e2)).
Proof.
  intros H1 H2 s x s' Hw H. unfold mbind in H. destruct (m1 s) as [x1 s1] eqn:E1.
  destruct (H1 _ _ _ Hw E1) as [S1 O1 R1].
  destruct x1 as [v| | |].
  - destruct (O1 eq_refl) as [Hw1 P1]. destruct (H2 v _ _ _ Hw1 H) as [S2 O2 R2].
    split; [eapply cshape_trans; eassumption| |].
    + intros Hx. destruct (O2 Hx). split; [assumption|lia].
    + intros Hx. specialize (R2 Hx). lia.
  - injection H as <- <-. split; [assumption|discriminate|]. intros _. specialize (R1 eq_refl). lia.
  - injection H as <- <-. split; [assumption|discriminate|]. intros _. specialize (R1 eq_refl). lia.
  - injection H as <- <-. split; [assumption|discriminate|]. intros _. specialize (R1 eq_refl). lia.
Qed.

Lemma amort_fail_any {X} (e : dres X) a : is_ok e = false -> amort (mfail e) a 0.
Proof.
  intros He s x s' Hw H. unfold mfail in H. injection H as <- <-. split; [apply cshape_refl| |intros _; lia].
  rewrite He. discriminate.
Qed.

Lemma amort_charge_fail {X} n a : amort (let^ _ := charge n in @mfail X Err) a (Z.of_N n).
Proof.
  intros s x s' Hw H. unfold mbind, charge, mfail in H. injection H as <- <-.
  split; [apply same_shape_refl|discriminate|]. intros _. unfold Phi, phi, look. cbn [rd clast alloc]. lia.
Qed.

Lemma amort_charge_then {X} n (m : M X) a e : amort m a e -> amort (let^ _ := charge n in m) (Z.of_N n + a) (Z.max 0 (Z.of_N n + e)).
Proof.
  intros H. eapply amort_weaken; [| |apply (amort_bind (charge n) (fun _ => m) _ _ _ _ (amort_charge n) (fun _ => H))]; lia.
Qed.

(* ---------------- reads ---------------- *)
Definition K_ARRz : Z := 16.
Definition K_BOXz : Z := 48.
Definition K_ERRz : Z := 768.
Definition K_DECz : Z := 4352.
Definition K_FIELDz : Z := 160.
Definition K_STRUCTz : Z := 256.

Lemma Kz : Z.of_N K_ARR = K_ARRz /\ Z.of_N K_BOX = K_BOXz /\ Z.of_N K_ERR = K_ERRz /\ Z.of_N K_DEC = K_DECz /\
           Z.of_N K_FIELD = K_FIELDz /\ Z.of_N K_STRUCT = K_STRUCTz.
Proof. repeat split; reflexivity. Qed.

Lemma dropN_blenZ n (l : bytes) : (n <= blen l)%N -> Z.of_N (blen (dropN n l)) = Z.of_N (blen l) - Z.of_N n.
Proof. intros H. rewrite dropN_blen. lia. Qed.

Lemma amort_read_n n : amort (c_read_n n) (16 - A * Z.of_N n) 16.
Proof.
  intros s x s' Hw H. unfold c_read_n in H. destruct (readfull n (rd s)) as [x0 r'] eqn:Er. injection H as <- <-.
  destruct Hw as [Hwr Hsc]. destruct (readfull_spec _ _ _ _ Hwr Er) as (W & Sh & Hok & Hshort).
  split; [exact Sh| |]; unfold Phi, phi, look; cbn [rd clast alloc].
  - intros Hx. destruct (N.le_gt_cases n (blen (rden (rd s)))) as [Hle|Hgt].
    + destruct (Hok Hle) as [_ Hd]. split; [apply wf_c_step; [split|..]; assumption|].
      rewrite Hd, dropN_blenZ by assumption. unfold A, K_ARR. lia.
    + destruct (Hshort Hgt) as [Hc _]. destruct Hc as ([-> | ->] & _); discriminate.
  - intros Hx. destruct (N.le_gt_cases n (blen (rden (rd s)))) as [Hle|Hgt].
    + destruct (Hok Hle) as [-> _]. discriminate.
    + destruct (Hshort Hgt) as [_ Hn]. rewrite Hn, blen_nil. unfold A, K_ARR. destruct (clast s =? 0)%N; lia.
Qed.

Lemma amort_read_byte : amort c_read_byte (- A) 0.
Proof.
  intros s x s' Hw H. unfold c_read_byte in H. destruct (readbyte (rd s)) as [x0 r'] eqn:Er. injection H as <- <-.
  destruct Hw as [Hwr Hsc]. destruct (readbyte_any_spec _ _ _ Hwr Hsc Er) as [W Sh Hres].
  split; [exact Sh| |]; unfold Phi, phi, look, with_rd; cbn [rd clast alloc].
  - intros Hx. destruct (rden (rd s)) as [|y q] eqn:Ed.
    + destruct Hres as [Hc _]. destruct Hc as ([-> | ->] & _); discriminate.
    + destruct Hres as [_ Hd]. split; [apply wf_c_step; [split|..]; assumption|].
      rewrite Hd, blen_cons. unfold A. lia.
  - intros Hx. destruct (rden (rd s)) as [|y q] eqn:Ed.
    + destruct Hres as [_ Hn]. rewrite Hn, blen_nil. lia.
    + destruct Hres as [-> _]. discriminate.
Qed.

Lemma amort_copy l : amort (c_copy l) (2048 + (4 - A) * Z.of_N l) 2048.
Proof.
  intros s x s' Hw H. unfold c_copy in H. destruct (copy_buf l (rd s)) as [[x0 r'] al] eqn:Er. injection H as <- <-.
  destruct Hw as [Hwr Hsc]. destruct (copy_buf_spec _ _ _ _ _ Hwr Er) as (W & Sh & Hok & Hshort).
  pose proof (copy_buf_cost _ _ _ _ _ Hwr Er) as Hc.
  split; [exact Sh| |]; unfold Phi, phi, look; cbn [rd clast alloc].
  - intros Hx. destruct (N.le_gt_cases l (blen (rden (rd s)))) as [Hle|Hgt].
    + destruct (Hok Hle) as [_ Hd]. split; [apply wf_c_step; [split|..]; assumption|].
      rewrite Hd in *. rewrite dropN_blen in Hc. rewrite dropN_blenZ by assumption. unfold A. lia.
    + destruct (Hshort Hgt) as [Hcl _]. destruct Hcl as ([-> | ->] & _); discriminate.
  - intros Hx. destruct (N.le_gt_cases l (blen (rden (rd s)))) as [Hle|Hgt].
    + destruct (Hok Hle) as [-> _]. discriminate.
    + destruct (Hshort Hgt) as [_ Hn]. rewrite Hn in *. rewrite blen_nil in *. unfold A. destruct (clast s =? 0)%N; lia.
Qed.

Lemma amort_discard p : amort (c_discard p) (- A * Z.of_N p) 0.
Proof.
  intros s x s' Hw H. unfold c_discard in H. destruct (discard p (rd s)) as [x0 r'] eqn:Er. injection H as <- <-.
  destruct Hw as [Hwr Hsc]. destruct (discard_spec _ _ _ _ Hwr Er) as (W & Sh & Hok & Hshort).
  split; [exact Sh| |]; unfold Phi, phi, look, with_rd; cbn [rd clast alloc].
  - intros Hx. destruct (N.le_gt_cases p (blen (rden (rd s)))) as [Hle|Hgt].
    + destruct (Hok Hle) as [_ Hd]. split; [apply wf_c_step; [split|..]; assumption|].
      rewrite Hd, dropN_blenZ by assumption. unfold A. lia.
    + destruct (Hshort Hgt) as [Hcl _]. destruct Hcl as ([-> | ->] & _); discriminate.
  - intros Hx. destruct (N.le_gt_cases p (blen (rden (rd s)))) as [Hle|Hgt].
    + destruct (Hok Hle) as [-> _]. discriminate.
    + destruct (Hshort Hgt) as [_ Hn]. rewrite Hn, blen_nil. unfold A. destruct (clast s =? 0)%N; lia.
Qed.

Lemma amort_read_num k : amort (c_read_num k) (16 - A * Z.of_N k) 16.
Proof.
  unfold c_read_num. eapply amort_weaken; [| |apply (amort_bind _ _ _ _ _ _ (amort_read_n k) (fun b => amort_ret (unbe b 0)))]; unfold A; lia.
Qed.

Lemma amort_read_type : amort c_read_type (- A) 0.
Proof.
  unfold c_read_type. eapply amort_weaken; [| |apply (amort_bind _ _ _ _ _ _ amort_read_byte (fun x => amort_ret (b2n x)))]; unfold A; lia.
Qed.

Lemma amort_read_tag : amort c_read_tag (16 - 3 * A) 16.
Proof.
  intros s x s' Hw H. unfold c_read_tag in H. destruct (negb (clast s =? 0)%N) eqn:En.
  - injection H as <- <-. split; [apply same_shape_refl| |discriminate].
    intros _. split; [exact Hw|]. unfold Phi, phi, look. cbn [rd clast alloc].
    destruct (clast s =? 0)%N; [discriminate|]. cbn. unfold A. lia.
  - exact (amort_read_num 3 _ _ _ Hw H).
Qed.

Lemma amort_peek_tag : amort c_peek_tag 16 16.
Proof.
  intros s x s' Hw H. unfold c_peek_tag in H. destruct (negb (clast s =? 0)%N) eqn:En.
  - injection H as <- <-. split; [apply cshape_refl| |discriminate]. intros _. split; [exact Hw|lia].
  - assert (Hs: forall t, amort (c_set_last t) (3 * A) 0).
    { intros t s0 x0 s0' Hw0 H0. unfold c_set_last in H0. injection H0 as <- <-.
      split; [apply same_shape_refl| |discriminate]. intros _. split; [exact Hw0|].
      unfold Phi, phi, look. cbn [rd clast alloc]. unfold A. destruct (t =? 0)%N, (clast s0 =? 0)%N; lia. }
    assert (Hm: amort (let^ t := c_iread_tag in let^ _ := c_set_last t in mret t) 16 16).
    { eapply amort_weaken; [| |apply (amort_bind _ _ _ _ _ _ (amort_read_num 3)
         (fun t => amort_bind _ _ _ _ _ _ (Hs t) (fun _ => amort_ret t)))]; unfold A; lia. }
    exact (Hm _ _ _ Hw H).
Qed.

Lemma amort_expect_tag t : amort (c_expect_tag t) (16 - 3 * A) (16 + K_ERRz).
Proof.
  unfold c_expect_tag.
  eapply amort_weaken; [| |apply (amort_bind _ _ _ _ 0 K_ERRz amort_read_tag)].
  - lia.
  - unfold A, K_ERRz. lia.
  - intros t'. destruct (negb (t =? t')%N && negb (t =? ANY_TAG)%N).
    + apply amort_charge_fail.
    + eapply amort_weaken; [| |apply amort_ret]; unfold K_ERRz; lia.
Qed.

Lemma amort_expect_numlike (m : M N) v a e : amort m a e ->
  amort (let^ x := m in if (x =? v)%N then mret tt else (let^ _ := charge K_ERR in mfail Err)) a (Z.max e (a + K_ERRz)).
Proof.
  intros Hm. eapply amort_weaken; [| |apply (amort_bind _ _ _ _ 0 K_ERRz Hm)]; try lia.
  intros x. destruct (x =? v)%N.
  - eapply amort_weaken; [| |apply amort_ret]; unfold K_ERRz; lia.
  - apply amort_charge_fail.
Qed.

Lemma amort_expect_type v : amort (c_expect_type v) (- A) K_ERRz.
Proof. eapply amort_weaken; [| |apply (amort_expect_numlike _ v _ _ amort_read_type)]; unfold A, K_ERRz; lia. Qed.

Lemma amort_expect_len v : amort (c_expect_len v) (16 - 4 * A) (16 + K_ERRz).
Proof. eapply amort_weaken; [| |apply (amort_expect_numlike _ v _ _ (amort_read_num 4))]; unfold A, K_ERRz; lia. Qed.

(* ---------------- items ---------------- *)
Definition SL : Z := 256.      (* what every accepted item leaves over after paying for itself *)
Definition EB : Z := 8192.     (* what a failing operation may add on top of the potential *)

Ltac amort_step := first [ apply amort_expect_tag | apply amort_expect_type | apply amort_expect_len
                         | apply amort_read_n | apply amort_read_num | apply amort_copy | apply amort_discard
                         | apply amort_read_type | apply amort_ret ].

Lemma amort_fixed (v : bytes -> val * N) l :
  amort (let^ _ := c_expect_len l in let^ b := c_read_n 8 in let^ _ := charge K_BOX in mret (v b))
        (80 - 12 * A) (16 + K_ERRz).
Proof.
  eapply amort_weaken; [| |apply (amort_bind _ _ _ _ _ _ (amort_expect_len l)
     (fun _ => amort_bind _ _ _ _ _ _ (amort_read_n 8) (fun b => amort_charge_then K_BOX _ _ _ (amort_ret (v b)))))];
    unfold A, K_ERRz, K_BOX; lia.
Qed.

Definition bool_tail (b : bytes) : M (val * N) :=
  if all_zero (firstn 7 b) then
    match skipn 7 b with
    | [x] => if Byte.eqb x x01 then mret (VBool true, 16%N)
             else if Byte.eqb x x00 then mret (VBool false, 16%N)
             else (let^ _ := charge K_ERR in mfail Err)
    | _ => (let^ _ := charge K_ERR in mfail Err)
    end
  else (let^ _ := charge K_ERR in mfail Err).

Lemma amort_bool_tail b : amort (bool_tail b) 0 K_ERRz.
Proof.
  unfold bool_tail. destruct (all_zero (firstn 7 b)); [|apply amort_charge_fail].
  destruct (skipn 7 b) as [|y [|? ?]]; try apply amort_charge_fail.
  destruct (Byte.eqb y x01); [eapply amort_weaken; [| |apply amort_ret]; unfold K_ERRz; lia|].
  destruct (Byte.eqb y x00); [eapply amort_weaken; [| |apply amort_ret]; unfold K_ERRz; lia|apply amort_charge_fail].
Qed.

Lemma amort_pad l : amort (if (pad8 l =? 0)%N then mret [] else c_read_n (pad8 l)) 16 16.
Proof.
  destruct (pad8 l =? 0)%N; [eapply amort_weaken; [| |apply amort_ret]; lia|].
  eapply amort_weaken; [| |apply amort_read_n]; unfold A; lia.
Qed.

Definition str_tail (k : kind) (l : N) : M (val * N) :=
  let^ b := c_copy l in
  let^ _ := (if (pad8 l =? 0)%N then mret [] else c_read_n (pad8 l)) in
  let^ _ := charge (K_BOX + match k with KStr => l | _ => 0 end) in
  mret (match k with KBytes => VBytes b | _ => VStr b end, (8 + l + pad8 l)%N).

Lemma amort_str_tail k l : amort (str_tail k l) (2048 + 16 + 48 + 8 * Z.of_N l - A * Z.of_N l) 4096.
Proof.
  unfold str_tail.
  eapply amort_weaken; [| |apply (amort_bind _ _ _ _ _ _ (amort_copy l)
     (fun b => amort_bind _ _ _ _ _ _ (amort_pad l)
        (fun _ => amort_charge_then (K_BOX + match k with KStr => l | _ => 0 end) _ _ _
                    (amort_ret (match k with KBytes => VBytes b | _ => VStr b end, (8 + l + pad8 l)%N)))))].
  - unfold A, K_BOX. destruct k; lia.
  - unfold A, K_BOX. destruct k; lia.
Qed.

Lemma amort_dec_prim k tag : amort (c_dec_prim k tag) (- SL) EB.
Proof.
  unfold c_dec_prim.
  assert (Hhead: forall (m : M (val * N)) a e, amort m a e ->
            amort (let^ _ := c_expect_tag tag in let^ _ := c_expect_type (type_code k) in m)
                  (16 - 4 * A + a) (Z.max (16 + K_ERRz) (Z.max (16 - 3 * A + K_ERRz) (16 - 4 * A + e)))).
  { intros m a e Hm.
    eapply amort_weaken; [| |apply (amort_bind _ _ _ _ _ _ (amort_expect_tag tag)
       (fun _ => amort_bind _ _ _ _ _ _ (amort_expect_type (type_code k)) (fun _ => Hm)))]; unfold A, K_ERRz; lia. }
  destruct k.
  - eapply amort_weaken; [| |apply Hhead; apply amort_fixed]; unfold A, SL, EB, K_ERRz; lia.
  - eapply amort_weaken; [| |apply Hhead; apply amort_fixed]; unfold A, SL, EB, K_ERRz; lia.
  - eapply amort_weaken; [| |apply Hhead; apply amort_fixed]; unfold A, SL, EB, K_ERRz; lia.
  - (* bool *)
    eapply amort_weaken; [| |apply Hhead;
      apply (amort_bind _ _ _ _ _ _ (amort_expect_len 8) (fun _ => amort_bind _ _ _ _ _ _ (amort_read_n 8) amort_bool_tail))];
      unfold A, SL, EB, K_ERRz; lia.
  - (* bytes *)
    eapply amort_weaken; [| |apply Hhead;
      apply (amort_bind _ _ _ _ (2048 + 16 + 48) 4096 (amort_read_num 4))].
    + unfold A, SL. lia.
    + unfold A, EB, K_ERRz. lia.
    + intros l. eapply amort_weaken; [| |apply (amort_str_tail KBytes l)]; unfold A; lia.
  - (* string *)
    eapply amort_weaken; [| |apply Hhead;
      apply (amort_bind _ _ _ _ (2048 + 16 + 48) 4096 (amort_read_num 4))].
    + unfold A, SL. lia.
    + unfold A, EB, K_ERRz. lia.
    + intros l. eapply amort_weaken; [| |apply (amort_str_tail KStr l)]; unfold A; lia.
  - eapply amort_weaken; [| |apply Hhead; apply amort_fixed]; unfold A, SL, EB, K_ERRz; lia.
  - eapply amort_weaken; [| |apply Hhead; apply amort_fixed]; unfold A, SL, EB, K_ERRz; lia.
Qed.

Lemma amort_skip_tail l : amort (let^ _ := c_discard (padded l) in mret (8 + padded l)%N) 0 0.
Proof.
  eapply amort_weaken; [| |apply (amort_bind _ _ _ _ _ _ (amort_discard (padded l)) (fun _ => amort_ret (8 + padded l)%N))]; unfold A; lia.
Qed.

Lemma amort_dec_skip tag : amort (c_dec_skip tag) (- SL) EB.
Proof.
  unfold c_dec_skip.
  eapply amort_weaken; [| |apply (amort_bind _ _ _ _ _ _ (amort_expect_tag tag)
     (fun _ => amort_bind _ _ _ _ _ _ amort_read_type
        (fun _ => amort_bind _ _ _ _ _ _ (amort_read_num 4) amort_skip_tail)))].
  - unfold A, SL. lia.
  - unfold A, EB, K_ERRz. lia.
Qed.

Lemma amort_wrapped {X} (m : M X) a e : amort m a e -> amort (c_wrapped m) a (e + K_ERRz).
Proof.
  intros Hm s x s' Hw H. unfold c_wrapped in H. destruct (m s) as [x0 s0] eqn:E.
  destruct (Hm _ _ _ Hw E) as [S O R].
  destruct x0 as [v| | |]; injection H as <- <-.
  - split; [exact S|exact O|discriminate].
  - split; [exact S|discriminate|]. intros _. specialize (R eq_refl).
    unfold Phi, phi, look in *. cbn [rd clast alloc]. unfold K_ERRz, K_ERR. lia.
  - split; [exact S|discriminate|]. intros _. specialize (R eq_refl).
    unfold Phi, phi, look in *. cbn [rd clast alloc]. unfold K_ERRz, K_ERR. lia.
  - split; [exact S|discriminate|]. intros _. specialize (R eq_refl). unfold K_ERRz. lia.
Qed.

Lemma amort_slice_loop (step : M (val * N)) tag skip explen : amort step (- SL) EB ->
  forall fuel actual nsum acc, amort (c_slice_loop fuel step tag skip explen actual nsum acc) (-80) (EB + K_ERRz).
Proof.
  intros Hs. induction fuel as [|f IH]; intros actual nsum acc; cbn [c_slice_loop].
  - eapply amort_weaken; [| |apply (amort_fail_any OutOfFuel (-80) eq_refl)]; unfold EB, K_ERRz; lia.
  - eapply amort_weaken; [| |apply (amort_bind _ _ _ _ (K_FIELDz + 16) (K_FIELDz + 16 + EB + K_ERRz) (amort_wrapped _ _ _ Hs))].
    + unfold SL, K_FIELDz. lia.
    + unfold SL, EB, K_ERRz, K_FIELDz. lia.
    + intros [v nn].
      eapply amort_weaken; [| |apply (amort_charge_then (if skip then 0%N else K_FIELD) _ 16 (16 + EB + K_ERRz))].
      * unfold K_FIELDz, K_FIELD. destruct skip; lia.
      * unfold K_FIELDz, K_FIELD, EB, K_ERRz. destruct skip; lia.
      * destruct (explen <=? (actual + nn) mod 2 ^ 32)%N.
        -- eapply amort_weaken; [| |apply amort_ret]; unfold EB, K_ERRz; lia.
        -- eapply amort_weaken; [| |apply (amort_bind _ _ _ _ 0 (EB + K_ERRz) amort_peek_tag)].
           ++ lia.
           ++ unfold EB, K_ERRz. lia.
           ++ intros t. destruct (t =? tag)%N.
              ** eapply amort_weaken; [| |apply IH]; lia.
              ** eapply amort_weaken; [| |apply amort_ret]; unfold EB, K_ERRz; lia.
Qed.

(* ---------------- fields and structures ---------------- *)
Definition NMAX : N := 30.     (* the constants below pay for structures of up to NMAX fields *)

Fixpoint small_sch (s : sch) : bool :=
  match s with
  | SPrim _ => true
  | SStruct _ fl => (flist_len fl <=? NMAX)%N && small_fl fl
  | SDyn _ _ cs => small_cs cs
  end
with small_fl (fl : flist) : bool :=
  match fl with FNil => true | FCons _ s r => small_sch s && small_fl r end
with small_cs (cs : dcases) : bool :=
  match cs with DNil => true | DCase _ s r => small_sch s && small_cs r end.

Definition FB (fl : flist) : Z := 16 * Z.of_N (flist_len fl).
Definition FE (fl : flist) : Z := FB fl + EB + 2 * K_ERRz.

Definition L_sch (s : sch) : Prop := small_sch s = true -> forall a cur, amort (c_dec_value s a cur) (- SL) EB.
Definition L_fl (fl : flist) : Prop := small_fl fl = true ->
  forall i explen actual nsum cur, amort (c_dec_fields fl i explen actual nsum cur) (FB fl) (FE fl).
Definition L_cs (cs : dcases) : Prop := small_cs cs = true -> forall key a, amort (c_dec_cases cs key a) (- SL) EB.

Lemma amort_post_from {X} s s1 (x : dres X) s' a e d :
  cshape s s1 -> Phi s1 <= Phi s + d -> amort_post s1 x s' a e -> amort_post s x s' (d + a) (d + e).
Proof.
  intros Sh Hp [S O R]. split; [eapply cshape_trans; eassumption| |].
  - intros Hx. destruct (O Hx). split; [assumption|lia].
  - intros Hx. specialize (R Hx). lia.
Qed.

Lemma amort_fields_cons a s r :
  (forall a0 cur, amort (c_dec_value s a0 cur) (- SL) EB) ->
  (forall i explen actual nsum cur, amort (c_dec_fields r i explen actual nsum cur) (FB r) (FE r)) ->
  forall i explen actual nsum cur, amort (c_dec_fields (FCons a s r) i explen actual nsum cur) (FB (FCons a s r)) (FE (FCons a s r)).
Proof.
  intros Hs Hr i explen actual nsum cur dd x dd' Hw H.
  assert (HFB: FB (FCons a s r) = 16 + FB r) by (unfold FB; cbn [flist_len]; lia).
  assert (HFE: FE (FCons a s r) = 16 + FE r) by (unfold FE; rewrite HFB; lia).
  rewrite HFB, HFE.
  cbn [c_dec_fields] in H.
  set (item := if fa_skip a then (let^ n := c_dec_skip (fa_tag a) in mret (VNil, n)) else c_dec_value s a cur) in H.
  assert (Hitem: amort item (- SL) EB).
  { unfold item. destruct (fa_skip a); [|apply Hs].
    eapply amort_weaken; [| |apply (amort_bind _ _ _ _ _ _ (amort_dec_skip (fa_tag a)) (fun n => amort_ret (VNil, n)))]; unfold SL, EB; lia. }
  destruct (c_peek_tag dd) as [xp dd1] eqn:Ep.
  destruct (amort_peek_tag _ _ _ Hw Ep) as [S1 O1 R1].
  destruct xp as [t| | |].
  - destruct (O1 eq_refl) as [Hw1 P1].
    destruct (negb (fa_req a) && negb (t =? fa_tag a)%N && negb (fa_tag a =? ANY_TAG)%N).
    + apply (amort_post_from _ dd1); [exact S1|exact P1|]. apply (Hr _ _ _ _ _ _ _ _ Hw1 H).
    + destruct (fa_slice a).
      * apply (amort_post_from _ dd1); [exact S1|exact P1|].
        assert (Sm: amort (let^ (es, actual', nsum') :=
                             c_slice_loop (S (length (rden (rd dd1)))) item (fa_tag a) (fa_skip a) explen actual nsum VNone in
                           c_dec_fields r (S i) explen actual' nsum' (vl_set i (VList es) cur)) (FB r) (FE r)).
        { eapply amort_weaken; [| |apply (amort_bind _ _ _ _ (FB r) (FE r)
             (amort_slice_loop item (fa_tag a) (fa_skip a) explen Hitem _ actual nsum VNone))].
          - lia.
          - unfold FE, FB, EB, K_ERRz. lia.
          - intros [[es a'] n']. apply Hr. }
        exact (Sm _ _ _ Hw1 H).
      * apply (amort_post_from _ dd1); [exact S1|exact P1|].
        assert (Sm: amort (let^ (v, nn) := c_wrapped item in
                           c_dec_fields r (S i) explen ((actual + nn) mod 2 ^ 32) (nsum + nn) (if fa_skip a then cur else vl_set i v cur))
                          (FB r) (FE r)).
        { eapply amort_weaken; [| |apply (amort_bind _ _ _ _ (FB r) (FE r) (amort_wrapped _ _ _ Hitem))].
          - unfold SL. lia.
          - unfold FE, FB, SL, EB, K_ERRz. lia.
          - intros [v nn]. apply Hr. }
        exact (Sm _ _ _ Hw1 H).
  - (* io.EOF while peeking *)
    specialize (R1 eq_refl).
    destruct (fa_req a).
    + injection H as <- <-. split; [exact S1|discriminate|]. intros _.
      unfold Phi, phi, look in *. cbn [rd clast alloc]. unfold FE, FB, EB, K_ERRz, K_ERR. lia.
    + destruct (peek_eof_state _ _ Hw Ep) as (Hd & Hd1 & Hw1 & Sh1).
      set (d1 := {| rd := rd dd1; clast := 0; alloc := alloc dd1 |}) in H.
      assert (Hwd1: wf_c d1) by exact Hw1.
      assert (Hp: Phi d1 <= Phi dd + 16).
      { unfold Phi, phi, look, d1 in *. cbn [rd clast alloc]. cbn [N.eqb]. unfold A in *. destruct (clast dd1 =? 0)%N; lia. }
      apply (amort_post_from _ d1); [exact Sh1|exact Hp|]. apply (Hr _ _ _ _ _ _ _ _ Hwd1 H).
  - specialize (R1 eq_refl). injection H as <- <-. split; [exact S1|discriminate|]. intros _.
    unfold Phi, phi, look in *. cbn [rd clast alloc]. unfold FE, FB, EB, K_ERRz, K_ERR. lia.
  - specialize (R1 eq_refl). injection H as <- <-. split; [exact S1|discriminate|]. intros _.
    unfold FE, FB, EB, K_ERRz. lia.
Qed.

Lemma takeN_blenZ n (l : bytes) : Z.of_N (blen (takeN n l)) = Z.min (Z.of_N n) (Z.of_N (blen l)).
Proof. rewrite takeN_blen. lia. Qed.

Lemma amort_struct_body ty fl len :
  (forall i explen actual nsum cur, amort (c_dec_fields fl i explen actual nsum cur) (FB fl) (FE fl)) ->
  amort (fun s3 : cstate =>
           match c_dec_fields fl O len 0 0 (zeros_of fl) (push_nested len s3) with
           | (Ok (vs, actual, nsum), dd) =>
               let s4 := pop_nested (clast s3) dd in
               if (actual =? len)%N then (Ok (VStruct ty vs, (8 + nsum)%N), s4)
               else (Err, {| rd := rd s4; clast := clast s4; alloc := alloc s4 + K_ERR |})
           | (ErrEOF, dd) => (ErrEOF, pop_nested (clast s3) dd)
           | (Err, dd) => (Err, pop_nested (clast s3) dd)
           | (OutOfFuel, dd) => (OutOfFuel, pop_nested (clast s3) dd)
           end)
        (K_DECz + FB fl) (K_DECz + FE fl + K_ERRz).
Proof.
  intros IH s3 x s' Hw H.
  set (n0 := push_nested len s3) in *.
  assert (Hw0: wf_c n0).
  { destruct Hw as [[Hwl Hsf] Hsc]. unfold n0, push_nested, wf_c, wf_reader, scannable. cbn [rd ls bs wf_layers].
    split; [split; [|exact Hsf]|exact I]. split; [lia|]. split; [intros e He; discriminate|exact Hwl]. }
  destruct (c_dec_fields fl O len 0 0 (zeros_of fl) n0) as [xf dd] eqn:Ef.
  destruct (IH O len 0%N 0%N (zeros_of fl) _ _ _ Hw0 Ef) as [Shd Od Rd].
  unfold cshape, n0, push_nested in Shd. cbn [rd] in Shd.
  destruct (nested_shape_inv _ _ _ _ Shd) as (sz & buf & err & n' & l'' & El & Sh3 & Hdrop).
  (* the outer decoder after the nested one is discarded *)
  set (s4 := pop_nested (clast s3) dd) in *.
  assert (Hls4: ls (rd s4) = l'') by (unfold s4, pop_nested; cbn [rd ls]; rewrite El; reflexivity).
  assert (Hsh4: cshape s3 s4).
  { unfold cshape, s4, pop_nested. cbn [rd ls]. rewrite El. cbn [tl]. destruct (rd s3). exact Sh3. }
  (* potential: what the nested decoder left unread is still there for the outer one, and nothing else was touched *)
  assert (Hphi: Phi s4 <= Phi dd - A * Z.min (Z.of_N len) (Z.of_N (blen (rden (rd s3)))) + A * phi s3).
  { unfold Phi, phi, look. unfold s4 at 1 2 3, pop_nested. cbn [rd clast alloc]. unfold rden at 1. cbn [ls bs]. rewrite El. cbn [tl].
    assert (Hd: Z.of_N (blen (den l'' (bs (rd dd)))) - Z.min (Z.of_N n') (Z.of_N (blen (den l'' (bs (rd dd)))))
                = Z.of_N (blen (rden (rd s3))) - Z.min (Z.of_N len) (Z.of_N (blen (rden (rd s3))))).
    { apply (f_equal blen) in Hdrop. rewrite !dropN_blen in Hdrop. unfold rden. lia. }
    assert (Hr: Z.of_N (blen (rden (rd dd))) = Z.of_N (blen buf) + Z.min (Z.of_N n') (Z.of_N (blen (den l'' (bs (rd dd)))))).
    { unfold rden. rewrite El. cbn [den]. rewrite blen_app, takeN_blen. lia. }
    unfold A in *. destruct (clast dd =? 0)%N, (clast s3 =? 0)%N; lia. }
  assert (Hphi0: Phi n0 = Z.of_N (alloc s3) + K_DECz + A * Z.min (Z.of_N len) (Z.of_N (blen (rden (rd s3))))).
  { unfold Phi, phi, look, n0, push_nested. cbn [rd clast alloc]. unfold rden at 1. cbn [ls bs den app].
    rewrite takeN_blenZ. cbn [N.eqb]. unfold K_DECz, K_DEC, rden. lia. }
  assert (Hwf4: is_ok xf = true -> wf_c s4).
  { intros Hx. destruct (Od Hx) as [[[Hwl Hsf] _] _]. rewrite El in Hwl. cbn [wf_layers] in Hwl.
    split; [split|].
    - rewrite Hls4. unfold s4, pop_nested. cbn [rd bs]. apply Hwl.
    - exact Hsf.
    - destruct Hw as [_ Hsc]. eapply shape_scannable; [exact Hsh4|exact Hsc]. }
  destruct xf as [[[vs actual] nsum]| | |].
  - destruct (Od eq_refl) as [_ Pd].
    destruct (actual =? len)%N; injection H as <- <-.
    + split; [exact Hsh4| |discriminate]. intros _. split; [apply Hwf4; reflexivity|].
      assert (Hp3: Phi s3 = Z.of_N (alloc s3) + A * phi s3) by reflexivity. lia.
    + split; [exact Hsh4|discriminate|]. intros _.
      assert (Hk: Phi {| rd := rd s4; clast := clast s4; alloc := alloc s4 + K_ERR |} = Phi s4 + K_ERRz).
      { unfold Phi, phi, look. cbn [rd clast alloc]. unfold K_ERRz, K_ERR. lia. }
      change (Phi {| rd := rd s4; clast := clast s4; alloc := alloc s4 + K_ERR |} <= Phi s3 + (K_DECz + FE fl + K_ERRz)).
      rewrite Hk. assert (Hp3: Phi s3 = Z.of_N (alloc s3) + A * phi s3) by reflexivity. unfold FE, EB, K_ERRz. lia.
  - specialize (Rd eq_refl). injection H as <- <-. split; [exact Hsh4|discriminate|]. intros _.
    assert (Hp3: Phi s3 = Z.of_N (alloc s3) + A * phi s3) by reflexivity. unfold K_ERRz. fold s4. lia.
  - specialize (Rd eq_refl). injection H as <- <-. split; [exact Hsh4|discriminate|]. intros _.
    assert (Hp3: Phi s3 = Z.of_N (alloc s3) + A * phi s3) by reflexivity. unfold K_ERRz. fold s4. lia.
  - specialize (Rd eq_refl). injection H as <- <-. split; [exact Hsh4|discriminate|]. intros _.
    assert (Hp3: Phi s3 = Z.of_N (alloc s3) + A * phi s3) by reflexivity. unfold K_ERRz. fold s4. lia.
Qed.

Theorem ledger_amortized : (forall s, L_sch s) /\ (forall fl, L_fl fl) /\ (forall cs, L_cs cs).
Proof.
  apply sch_mutind.
  - (* SPrim *) intros k _ a cur. cbn [c_dec_value]. apply amort_dec_prim.
  - (* SStruct *) intros ty fl IH Hsm a cur. cbn [small_sch] in Hsm. apply andb_prop in Hsm. destruct Hsm as [Hn Hfl].
    assert (Hn': (flist_len fl <= NMAX)%N) by (destruct (N.leb_spec (flist_len fl) NMAX); [assumption|discriminate]).
    cbn [c_dec_value].
    pose proof (amort_struct_body ty fl) as Hbody.
    eapply amort_weaken; [| |apply (amort_charge_then (K_STRUCT + K_FIELD * flist_len fl) _ _ _
       (amort_bind _ _ _ _ _ _ (amort_expect_tag (fa_tag a))
          (fun _ => amort_bind _ _ _ _ _ _ (amort_expect_type tc_structure)
             (fun _ => amort_bind _ _ _ _ _ _ (amort_read_num 4) (fun len => Hbody len (IH Hfl))))))].
    + unfold FB, A, SL, K_DECz, K_STRUCT, K_FIELD, NMAX in *. lia.
    + unfold FE, FB, A, SL, EB, K_ERRz, K_DECz, K_STRUCT, K_FIELD, NMAX in *. lia.
  - (* SDyn *) intros holder ki cs IH Hsm a cur. cbn [c_dec_value]. apply IH. exact Hsm.
  - (* FNil *) intros _ i explen actual nsum cur. cbn [c_dec_fields].
    eapply amort_weaken; [| |apply amort_ret]; unfold FE, FB, EB, K_ERRz; cbn [flist_len]; lia.
  - (* FCons *) intros a s IHs r IHr Hsm. cbn [small_fl] in Hsm. apply andb_prop in Hsm. destruct Hsm as [Hs Hr].
    apply amort_fields_cons; [apply IHs; exact Hs|apply IHr; exact Hr].
  - (* DNil *) intros _ key a. cbn [c_dec_cases].
    eapply amort_weaken; [| |apply (amort_charge_fail K_ERR (- SL))]; unfold EB, K_ERR; lia.
  - (* DCase *) intros k s IHs r IHr Hsm key a. cbn [small_cs] in Hsm. apply andb_prop in Hsm. destruct Hsm as [Hs Hr].
    cbn [c_dec_cases]. destruct (key_matches k key); [apply IHs; exact Hs|apply IHr; exact Hr].
Qed.

(* ================================================================ *)
(* C05: one Decode call                                              *)
(* ================================================================ *)
Theorem decode_alloc_linear ty tag fl s x s' :
  (flist_len fl <=? NMAX)%N && small_fl fl = true -> wf_c s -> c_dec_top ty tag fl s = (x, s') ->
  Z.of_N (alloc s') <= Z.of_N (alloc s) + A * phi s + EB.
Proof.
  intros Hsm Hw H.
  destruct (proj1 ledger_amortized (SStruct ty fl) Hsm (top_attr tag) VNone _ _ _ Hw H) as [_ O R].
  pose proof (phi_nonneg s'). unfold Phi in *. destruct x as [v| | |].
  - destruct (O eq_refl) as [_ P]. unfold A, SL, EB in *. lia.
  - specialize (R eq_refl). unfold A in *. lia.
  - specialize (R eq_refl). unfold A in *. lia.
  - specialize (R eq_refl). unfold A in *. lia.
Qed.

(* ================================================================ *)
(* C03: no over-read from an unbuffered source, on every outcome      *)
(* ================================================================ *)
(* how many bytes an operation takes from its reader, at most - whatever the outcome *)
Definition cons {X} (m : M X) (k : N) : Prop :=
  forall s x s', wf_c s -> m s = (x, s') ->
    cshape s s' /\ (blen (rden (rd s)) <= blen (rden (rd s')) + k)%N /\ (is_ok x = true -> wf_c s').

Lemma cons_bind {X Y} (m1 : M X) (m2 : X -> M Y) k1 k2 :
  cons m1 k1 -> (forall v, cons (m2 v) k2) -> cons (mbind m1 m2) (k1 + k2).
Proof.
  intros H1 H2 s x s' Hw H. unfold mbind in H. destruct (m1 s) as [x1 s1] eqn:E1.
  destruct (H1 _ _ _ Hw E1) as (S1 & C1 & W1).
  destruct x1 as [v| | |]; try (injection H as <- <-; split; [exact S1|]; split; [lia|discriminate]).
  destruct (H2 v _ _ _ (W1 eq_refl) H) as (S2 & C2 & W2).
  split; [eapply cshape_trans; eassumption|]. split; [lia|exact W2].
Qed.

Lemma cons_weaken {X} (m : M X) k k' : (k <= k')%N -> cons m k -> cons m k'.
Proof. intros Hk H s x s' Hw Hm. destruct (H _ _ _ Hw Hm) as (S & C & W). split; [exact S|]. split; [lia|exact W]. Qed.

Lemma cons_ret {X} (a : X) : cons (mret a) 0.
Proof. intros s x s' Hw H. unfold mret in H. injection H as <- <-. split; [apply cshape_refl|]. split; [lia|auto]. Qed.

Lemma cons_charge n : cons (charge n) 0.
Proof. intros s x s' Hw H. unfold charge in H. injection H as <- <-. split; [apply same_shape_refl|]. cbn [rd]. split; [lia|intros _; exact Hw]. Qed.

Lemma cons_charge_fail {X} n : cons (let^ _ := charge n in @mfail X Err) 0.
Proof.
  intros s x s' Hw H. unfold mbind, charge, mfail in H. injection H as <- <-.
  split; [apply same_shape_refl|]. cbn [rd]. split; [lia|discriminate].
Qed.

Lemma cons_read_n n : cons (c_read_n n) n.
Proof.
  intros s x s' Hw H. unfold c_read_n in H. destruct (readfull n (rd s)) as [x0 r'] eqn:Er. injection H as <- <-.
  destruct Hw as [Hwr Hsc]. destruct (readfull_spec _ _ _ _ Hwr Er) as (W & Sh & Hok & Hshort).
  split; [exact Sh|]. cbn [rd]. split.
  - destruct (N.le_gt_cases n (blen (rden (rd s)))) as [Hle|Hgt].
    + destruct (Hok Hle) as [_ Hd]. rewrite Hd, dropN_blen. lia.
    + lia.
  - intros _. apply wf_c_step; [split|..]; assumption.
Qed.

Lemma cons_read_byte : cons c_read_byte 1.
Proof.
  intros s x s' Hw H. unfold c_read_byte in H. destruct (readbyte (rd s)) as [x0 r'] eqn:Er. injection H as <- <-.
  destruct Hw as [Hwr Hsc]. destruct (readbyte_any_spec _ _ _ Hwr Hsc Er) as [W Sh Hres].
  split; [exact Sh|]. unfold with_rd. cbn [rd]. split.
  - destruct (rden (rd s)) as [|y q]; [rewrite blen_nil; lia|]. destruct Hres as [_ Hd]. rewrite Hd, blen_cons. lia.
  - intros _. apply wf_c_step; [split|..]; assumption.
Qed.

Lemma cons_read_num k : cons (c_read_num k) k.
Proof. unfold c_read_num. eapply cons_weaken; [|apply (cons_bind _ _ _ _ (cons_read_n k) (fun b => cons_ret (unbe b 0)))]. lia. Qed.

Lemma cons_read_tag : cons c_read_tag 3.
Proof.
  intros s x s' Hw H. unfold c_read_tag in H. destruct (negb (clast s =? 0)%N).
  - injection H as <- <-. split; [apply same_shape_refl|]. cbn [rd]. split; [lia|intros _; exact Hw].
  - exact (cons_read_num 3 _ _ _ Hw H).
Qed.

Lemma cons_expect_tag t : cons (c_expect_tag t) 3.
Proof.
  unfold c_expect_tag. eapply cons_weaken; [|apply (cons_bind _ _ _ 0 cons_read_tag)]; [lia|].
  intros t'. destruct (negb (t =? t')%N && negb (t =? ANY_TAG)%N); [apply cons_charge_fail|apply cons_ret].
Qed.

Lemma cons_expect_type v : cons (c_expect_type v) 1.
Proof.
  unfold c_expect_type, c_read_type.
  eapply cons_weaken; [|apply (cons_bind _ _ _ 0 (cons_bind _ _ _ _ cons_read_byte (fun x => cons_ret (b2n x))))]; [lia|].
  intros x. destruct (x =? v)%N; [apply cons_ret|apply cons_charge_fail].
Qed.

(* the body of a structure takes at most its declared length from the enclosing reader, on every outcome *)
Lemma cons_struct_body ty fl len : small_fl fl = true ->
  cons (fun s3 : cstate =>
          match c_dec_fields fl O len 0 0 (zeros_of fl) (push_nested len s3) with
          | (Ok (vs, actual, nsum), dd) =>
              let s4 := pop_nested (clast s3) dd in
              if (actual =? len)%N then (Ok (VStruct ty vs, (8 + nsum)%N), s4)
              else (Err, {| rd := rd s4; clast := clast s4; alloc := alloc s4 + K_ERR |})
          | (ErrEOF, dd) => (ErrEOF, pop_nested (clast s3) dd)
          | (Err, dd) => (Err, pop_nested (clast s3) dd)
          | (OutOfFuel, dd) => (OutOfFuel, pop_nested (clast s3) dd)
          end) len.
Proof.
  intros Hsm s3 x s' Hw H.
  destruct (amort_struct_body ty fl len (proj1 (proj2 ledger_amortized) fl Hsm) _ _ _ Hw H) as [Sh HOk _].
  split; [exact Sh|]. split; [|intros Hx; exact (proj1 (HOk Hx))].
  (* what lies beyond the nested LimitedReader is untouched *)
  set (n0 := push_nested len s3) in *.
  assert (Hw0: wf_c n0).
  { destruct Hw as [[Hwl Hsf] Hsc]. unfold n0, push_nested, wf_c, wf_reader, scannable. cbn [rd ls bs wf_layers].
    split; [split; [|exact Hsf]|exact I]. split; [lia|]. split; [intros e He; discriminate|exact Hwl]. }
  destruct (c_dec_fields fl O len 0 0 (zeros_of fl) n0) as [xf dd] eqn:Ef.
  destruct (proj1 (proj2 ledger_amortized) fl Hsm 0%nat len 0%N 0%N (zeros_of fl) _ _ _ Hw0 Ef) as [Shd _ _].
  unfold cshape, n0, push_nested in Shd. cbn [rd] in Shd.
  destruct (nested_shape_inv _ _ _ _ Shd) as (sz & buf & err & n' & l'' & El & _ & Hdrop).
  assert (Hs': rden (rd s') = den l'' (bs (rd dd))).
  { destruct xf as [[[vs actual] nsum]| | |]; [destruct (actual =? len)%N|..]; injection H as _ <-;
      unfold rden, pop_nested; cbn [rd ls bs]; rewrite El; reflexivity. }
  rewrite Hs'. apply (f_equal blen) in Hdrop. rewrite !dropN_blen in Hdrop. unfold rden. lia.
Qed.

Theorem struct_no_overread ty fl a cur : (flist_len fl <=? NMAX)%N && small_fl fl = true ->
  forall s x s', wf_c s -> c_dec_value (SStruct ty fl) a cur s = (x, s') ->
    cshape s s' /\
    exists len, (blen (rden (rd s)) <= blen (rden (rd s')) + 8 + len)%N /\
                (8 <= blen (rden (rd s)) -> clast s = 0%N -> blen (rden (rd s)) <= blen (rden (rd s')) + 8 + unbe (firstn 4 (skipn 4 (rden (rd s)))) 0)%N.
Proof.
  intros Hsm s x s' Hw H. apply andb_prop in Hsm. destruct Hsm as [_ Hfl].
  cbn [c_dec_value] in H.
  (* run the header by hand: charge, tag, type, length *)
  unfold mbind at 1 in H. unfold charge at 1 in H.
  set (s1 := {| rd := rd s; clast := clast s; alloc := alloc s + (K_STRUCT + K_FIELD * flist_len fl) |}) in H.
  assert (Hw1: wf_c s1) by exact Hw.
  unfold mbind at 1 in H. destruct (c_expect_tag (fa_tag a) s1) as [x2 s2] eqn:E2.
  destruct (cons_expect_tag _ _ _ _ Hw1 E2) as (S2 & C2 & W2). cbn [rd s1] in C2.
  destruct x2 as [[]| | |]; try (injection H as <- <-; split; [exact S2|]; exists 0%N; split; [lia|intros; lia]).
  unfold mbind at 1 in H. destruct (c_expect_type tc_structure s2) as [x3 s3] eqn:E3.
  destruct (cons_expect_type _ _ _ _ (W2 eq_refl) E3) as (S3 & C3 & W3).
  destruct x3 as [[]| | |]; try (injection H as <- <-; split; [exact (cshape_trans _ _ _ S2 S3)|]; exists 0%N; split; [lia|intros; lia]).
  unfold mbind at 1 in H. destruct (c_read_num 4 s3) as [x4 s4] eqn:E4.
  destruct (cons_read_num 4 _ _ _ (W3 eq_refl) E4) as (S4 & C4 & W4).
  destruct x4 as [len| | |]; try (injection H as <- <-; split; [exact (cshape_trans _ _ _ S2 (cshape_trans _ _ _ S3 S4))|]; exists 0%N; split; [lia|intros; lia]).
  destruct (cons_struct_body ty fl len Hfl _ _ _ (W4 eq_refl) H) as (S5 & C5 & _).
  split; [exact (cshape_trans _ _ _ S2 (cshape_trans _ _ _ S3 (cshape_trans _ _ _ S4 S5)))|].
  exists len. split; [lia|].
  intros H8 Hl0.
  (* the length that was read is the one at offset 4 of the input *)
  assert (Hlen: len = unbe (firstn 4 (skipn 4 (rden (rd s)))) 0).
  { (* tag: 3 bytes *)
    unfold c_expect_tag, mbind in E2. destruct (c_read_tag s1) as [xt st] eqn:Et.
    assert (Hrt: exists t, xt = Ok t /\ rden (rd st) = skipn 3 (rden (rd s)) /\ wf_c st).
    { unfold c_read_tag in Et. replace (clast s1) with 0%N in Et by (symmetry; exact Hl0). cbn [N.eqb negb] in Et.
      unfold c_iread_tag, c_read_num, mbind in Et. destruct (c_read_n 3 s1) as [xb sb] eqn:Eb.
      unfold c_read_n in Eb. destruct (readfull 3 (rd s1)) as [xr r'] eqn:Er. injection Eb as <- <-.
      destruct Hw1 as [Hwr Hsc]. destruct (readfull_spec _ _ _ _ Hwr Er) as (W & Sh & Hok & _).
      destruct (Hok ltac:(cbn [rd s1]; lia)) as [-> Hd]. unfold mret in Et. injection Et as <- <-.
      eexists. split; [reflexivity|]. cbn [rd]. split; [rewrite Hd, dropN_skipn; reflexivity|].
      apply wf_c_step; [split|..]; assumption. }
    destruct Hrt as (t & -> & Hdt & Hwt).
    assert (Hst2: s2 = st).
    { destruct (negb (fa_tag a =? t)%N && negb (fa_tag a =? ANY_TAG)%N).
      - unfold charge, mfail in E2. discriminate.
      - unfold mret in E2. injection E2 as <-. reflexivity. }
    subst st.
    (* type: 1 byte *)
    unfold c_expect_type, c_read_type, mbind in E3. destruct (c_read_byte s2) as [xb sb] eqn:Eb.
    unfold c_read_byte in Eb. destruct (readbyte (rd s2)) as [xr r'] eqn:Er. injection Eb as <- <-.
    destruct Hwt as [Hwr Hsc]. destruct (readbyte_any_spec _ _ _ Hwr Hsc Er) as [W Sh Hres].
    assert (Hlen2: (5 <= blen (rden (rd s2)))%N) by (rewrite Hdt; unfold blen in *; rewrite skipn_length; lia).
    destruct (rden (rd s2)) as [|y q] eqn:Ed2; [rewrite blen_nil in Hlen2; lia|].
    destruct Hres as [-> Hd3]. unfold mret in E3.
    assert (Hs3: rd s3 = r').
    { destruct (b2n y =? tc_structure)%N.
      - injection E3 as <-. reflexivity.
      - unfold charge, mfail in E3. discriminate. }
    (* length: 4 bytes *)
    unfold c_read_num, mbind in E4. destruct (c_read_n 4 s3) as [xl sl] eqn:El4.
    unfold c_read_n in El4. destruct (readfull 4 (rd s3)) as [xr4 r4] eqn:Er4. injection El4 as <- <-.
    destruct (W3 eq_refl) as [Hwr3 Hsc3]. destruct (readfull_spec _ _ _ _ Hwr3 Er4) as (_ & _ & Hok4 & _).
    assert (Hq: rden (rd s3) = skipn 4 (rden (rd s))).
    { rewrite Hs3, Hd3. assert (E: y :: q = skipn 3 (rden (rd s))) by congruence.
      replace 4%nat with (1 + 3)%nat by reflexivity. rewrite <- skipn_skipn. rewrite <- E. reflexivity. }
    destruct (Hok4 ltac:(rewrite Hq; unfold blen in *; rewrite skipn_length; lia)) as [-> _].
    unfold mret in E4. injection E4 as <- _. rewrite Hq, takeN_firstn. reflexivity. }
  rewrite <- Hlen. lia.
Qed.
