(* TablesProofs.v - C18 / C19: complete enumeration of the regenerated finite tables by
   vm_compute, lifted to universally quantified statements with forallb_forall. *)
From Coq Require Import List String NArith Bool.
Require Import Schema Fields Generated Instance Registry SpecSchema Tables.
Import ListNotations.
Open Scope string_scope.
Open Scope N_scope.

Lemma c18_constants_true : c18_constants_b = true. Proof. vm_compute. reflexivity. Qed.
Lemma c18_code_true : c18_code_b = true. Proof. vm_compute. reflexivity. Qed.
Lemma c18_tagmap_true : c18_tagmap_b = true. Proof. vm_compute. reflexivity. Qed.
Lemma c18_lookup_true : c18_lookup_b = true. Proof. vm_compute. reflexivity. Qed.
Lemma c18_injective_true : c18_injective_b = true. Proof. vm_compute. reflexivity. Qed.
Lemma c18_any_tag_true : c18_any_tag_b = true. Proof. vm_compute. reflexivity. Qed.
Lemma c18_no_unevaluated : gen_unevaluated_consts = []. Proof. reflexivity. Qed.

Lemma c18_constants :
  forall goty sec n v, In (goty, sec) registry_sections -> In (n, v) sec ->
    gen_const n = Some (goty, v).
Proof.
  intros goty sec n v Hs He.
  pose proof (forallb2_forall (fun sec e => reg_entry_ok (fst sec) e) registry_sections snd c18_constants_true
                (goty, sec) (n, v) Hs He) as H.
  unfold reg_entry_ok in H; cbn [fst snd] in H.
  destruct (gen_const n) as [[ty v']|]; [|discriminate].
  apply andb_true_iff in H; destruct H as [H1 H2].
  apply String.eqb_eq in H1; apply N.eqb_eq in H2; subst; reflexivity.
Qed.

Lemma c18_code :
  forall n ty v b rv, In (n, ty, v, b) gen_consts -> assoc n all_registry = Some rv -> v = rv.
Proof.
  intros n ty v b rv Hin Hr.
  pose proof c18_code_true as H. unfold c18_code_b in H. rewrite forallb_forall in H.
  specialize (H _ Hin). unfold code_entry_ok in H. rewrite Hr in H. apply N.eqb_eq in H; exact H.
Qed.

Lemma c18_lookup : forall n v, In (n, v) reg_tags -> assoc n the_tagmap = Some v.
Proof.
  intros n v Hin. pose proof c18_lookup_true as H. unfold c18_lookup_b in H.
  rewrite forallb_forall in H. specialize (H _ Hin). unfold annotation_resolves in H; cbn [fst snd] in H.
  destruct (assoc n the_tagmap); [|discriminate]. apply N.eqb_eq in H; subst; reflexivity.
Qed.

Lemma c18_tagmap_keys :
  forall k id, In (k, id) gen_tagmap ->
    (k = id \/ (k = "-" /\ id = "ANY_TAG")) /\ exists v, gen_const id = Some ("Tag", v).
Proof.
  intros k id Hin. pose proof c18_tagmap_true as H. unfold c18_tagmap_b in H.
  apply andb_true_iff in H; destruct H as [H _]. apply andb_true_iff in H; destruct H as [_ H].
  rewrite forallb_forall in H. specialize (H _ Hin). unfold tagmap_entry_ok in H.
  apply andb_true_iff in H; destruct H as [H1 H2]. split.
  - apply orb_true_iff in H1; destruct H1 as [H1|H1].
    + left; apply String.eqb_eq; exact H1.
    + right. apply andb_true_iff in H1; destruct H1 as [Ha Hb].
      split; apply String.eqb_eq; assumption.
  - destruct (gen_const id) as [[ty v]|]; [|discriminate]. apply String.eqb_eq in H2; subst. eauto.
Qed.

Lemma c18_injective :
  forall n1 v1 n2 v2, In (n1, v1) gen_tag_consts -> In (n2, v2) gen_tag_consts ->
    v1 = v2 -> n1 = n2 \/ (In n1 batch_aliases /\ In n2 batch_aliases).
Proof.
  intros n1 v1 n2 v2 H1 H2 Hv.
  pose proof (forallb2_forall tag_pair_ok gen_tag_consts (fun _ => gen_tag_consts) c18_injective_true
                (n1, v1) (n2, v2) H1 H2) as H.
  unfold tag_pair_ok in H; cbn [fst snd] in H.
  apply orb_true_iff in H; destruct H as [H|H].
  - apply orb_true_iff in H; destruct H as [H|H].
    + left; apply String.eqb_eq; exact H.
    + subst. rewrite N.eqb_refl in H; discriminate.
  - right. apply andb_true_iff in H; destruct H as [Ha Hb]. unfold is_alias in *.
    apply existsb_exists in Ha; destruct Ha as [x [Hx Ex]]. apply existsb_exists in Hb; destruct Hb as [y [Hy Ey]].
    apply String.eqb_eq in Ex; apply String.eqb_eq in Ey; subst; auto.
Qed.

(* ---------------- C19 ---------------- *)
Lemma c19_fields_true : c19_fields_b = true. Proof. vm_compute. reflexivity. Qed.
Lemma c19_wire_true : c19_wire_b = true. Proof. vm_compute. reflexivity. Qed.
Lemma c19_deviations_real_true : c19_deviations_real_b = true. Proof. vm_compute. reflexivity. Qed.

Lemma c19_fields :
  forall s f, In s kmip_structs -> In f (rs_fields s) ->
    is_deviation (rs_name s) (rf_name f) = false -> field_conforms (rs_name s) f = true.
Proof.
  intros s f Hs Hf Hd. pose proof c19_fields_true as H. unfold c19_fields_b in H.
  rewrite forallb_forall in H. specialize (H _ Hs). unfold struct_conforms in H.
  apply andb_true_iff in H; destruct H as [_ H]. rewrite forallb_forall in H. specialize (H _ Hf).
  rewrite Hd in H. exact H.
Qed.

Lemma c19_wire :
  forall s, In s kmip_structs ->
    exists o sd, find_obj (rs_name s) spec_schema = Some o /\ the_desc (rs_name s) = ROk sd /\
      forall fd, In fd (sd_fields sd) -> desc_field_ok (rs_name s) o fd = true.
Proof.
  intros s Hs. pose proof c19_wire_true as H. unfold c19_wire_b in H.
  rewrite forallb_forall in H. specialize (H _ Hs). unfold desc_conforms in H.
  destruct (find_obj (rs_name s) spec_schema) as [o|]; [|discriminate].
  destruct (the_desc (rs_name s)) as [sd|]; [|discriminate].
  apply andb_true_iff in H; destruct H as [_ H]. rewrite forallb_forall in H.
  exists o, sd. auto.
Qed.
