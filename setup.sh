#!/bin/sh
# Run once after a fresh restore, offline: builds translator, Coq development (full .vo build),
# extracted OCaml model and the Go harness from files on disk only.
set -e
cd "$(dirname "$0")"
export GOFLAGS=-mod=mod GOPROXY=off GOSUMDB=off GOTOOLCHAIN=local
mkdir -p work evidence replays
(cd translator && go build -o translator .)
./translator/translator /repo coq/theories/Generated.v harness/gen_consts.go
(cd coq && coq_makefile -f _CoqProject -o Makefile >/dev/null && timeout 3000 make -j16)
if [ -f ocaml/build.sh ]; then (cd ocaml && sh build.sh); fi
cp /repo/go.sum harness/go.sum
(cd harness && go build -tags verif -o harness .)
echo setup ok
