"""Per-property check procedures. Each takes a core.Ctx and returns the exit status."""
import json, os, re
import core
from core import prepare, run_harness, coq_query, tail, known_findings


def theorem_broken(ctx, facts, what):
    """common handling when Properties/<id>.vo could not be produced"""
    return {
        "what": what,
        "failed_coq_files": facts.get("coq_failed"),
        "coq_log_tail": tail(facts.get("prop_log", "") or facts.get("coq_log", ""), 30),
    }


def parse_pairs(out):
    """parse a Coq list of string pairs printed by our own one-per-line printer"""
    return re.findall(r'@@ (.*?) \|\| (.*?) @@', out)


# --------------------------------------------------------------------------------------
# C18 / C19: table properties
# --------------------------------------------------------------------------------------
PRINT_PAIRS = '''
From Coq Require Import List String.
Require Import KMIP.Schema KMIP.Fields KMIP.Generated KMIP.Instance KMIP.Tables.
Open Scope string_scope.
Fixpoint show (l : list (string * string)) : string :=
  match l with nil => "" | cons (a, b) r => "@@ " ++ a ++ " || " ++ b ++ " @@ " ++ show r end.
Definition out := Eval vm_compute in show (%s).
Print out.
'''


def tables_tie(ctx, facts):
    """cross-check of the translator against the compiler / reflect (suite `tables`)"""
    if not facts.get("harness_ok"):
        ctx.violation("harness-build", {"what": "harness does not build against the current tree",
                                        "log": tail(facts.get("harness_log", ""))}, found_input=False)
        return None
    rc, rep, out, err = run_harness(["tables"])
    if rep is None:
        ctx.violation("tables-crash", {"what": "tables suite crashed", "stdout": tail(out), "stderr": tail(err)},
                      found_input=False)
        return None
    ctx.cov["evaluations"] = rep["evaluations"]
    ctx.cov["distinct_nontrivial"] = rep["distinct_nontrivial"]
    ctx.cov["traces_validated_against_impl"] = rep["evaluations"]
    ctx.cov["rule"] = rep["rule"]
    ctx.cov["distribution"] = rep.get("distribution")
    ctx.cov["samples"] += rep.get("samples", [])
    return rep


def check_C18(ctx):
    facts = prepare(ctx)
    rep = tables_tie(ctx, facts)
    ctx.cov["exhaustive"] = True
    ctx.assumptions += [
        "Registry.v is a faithful transcription of the KMIP 1.0-1.4 registry (bootstrapped from the pinned consts.go, reviewed; see DESIGN.md)",
        "translator transcribes constant and tagMap declarations faithfully (cross-checked against the compiler's values and the real encoder by the `tables` suite on this run)",
    ]
    # a structure's own Tag annotation resolves to the tag of that name also for user-defined types that embed other
    # annotated structures, and for types first used under another holder's tag (impl-only oracle of the history suite)
    if facts.get("harness_ok"):
        rc, hrep, out, err = run_harness(["history", "-seed", str(ctx.seed), "-n", "6"])
        if hrep is not None:
            ctx.cov["struct_tag_annotation_probes"] = hrep.get("distribution", {}).get("user-type:embedded", 0)
            ctx.cov["tag_value_probes"] = hrep.get("distribution", {}).get("tag-values-ignored", 0) + hrep.get("distribution", {}).get("transplant:wildcard", 0)
            # (user-type: values of several structure types in one []interface{} field / adjacent interface fields - each goes out
            #  under the tags its own annotations name)
            for v in [x for x in hrep["violations"] if x.get("kind") in ("user-type-tag", "user-type") or (x.get("kind") == "transplant" and "wildcard" in x.get("what", ""))][:4]:
                ctx.violation("struct-tag", v)
    # a structure's / field's kmip:"NAME" annotation resolves to the tag of that name for user-defined types too, whatever the
    # field that carries it looks like (exported or not): descriptors of random reflect.StructOf types, real (hook) vs Fields.v
    if facts.get("harness_ok") and facts.get("ocaml_ok"):
        urep, urows = run_suite_with_model(ctx, facts, "codec", ["-n", "100" if ctx.tier == "quick" else "1000"])
        if urep is not None:
            drows = [r for r in urows if r[0].endswith("u-desc")]
            ctx.cov["user_type_descriptors_compared"] = len(drows)
            bad = 0
            for g, cmd, impl, model in drows:
                if impl != model:
                    bad += 1
                    if bad <= 3:
                        ctx.violation("struct-tag", {"what": "the descriptor the library derives from a user-defined structure type (tag numbers the annotations resolve to) differs from the model of fields.go",
                                                     "case": short(cmd, 3000), "implementation": short(impl, 1500), "model": short(model, 1500)})
    if rep and rep["disagreements"]:
        # the translator and the compiled package disagree: the theorems speak about something else than the code
        d = [x for x in rep["disagreements"] if x["kind"] in ("constant", "tagMap")]
        if d:
            ctx.violation("tie", {"what": "translator output differs from the compiled package", "disagreements": d[:20]},
                          found_input=False)
    if not facts["prop_ok"]:
        rc, out = coq_query(PRINT_PAIRS % "c18_failures")
        fails = parse_pairs(out)
        if fails:
            for kind, name in fails[:10]:
                ctx.violation("table", {"what": kind, "name": name,
                                        "how_to_see": "compare consts.go / tagMap entry for this name with coq/theories/Registry.v"})
        else:
            ctx.violation("theorem", theorem_broken(ctx, facts, "Properties/C18.v no longer checks and no failing table entry was computed"),
                          found_input=False)
    else:
        ctx.cov["samples"].append({"theorem": "C18_constants", "instance": "forall (n,v) in Registry: gen_const n = Some (type, v)",
                                   "entries": "294 tags + 10 types + 43 operations + 4 statuses + 25 reasons + 3 credential types"})
    return ctx.finish()


def tag_skeleton(hexs):
    """nested list of the tags of a TTLV byte string (structures recursed into)"""
    try:
        b = bytes.fromhex(hexs) if hexs != "_" else b""
    except ValueError:
        return None
    def walk(b):
        out, off = [], 0
        while off + 8 <= len(b):
            tag = b[off:off + 3].hex()
            typ = b[off + 3]
            l = int.from_bytes(b[off + 4:off + 8], "big")
            pl = l + (-l % 8)
            if off + 8 + pl > len(b):
                return out + ["<overrun>"]
            out.append([tag, walk(b[off + 8:off + 8 + l])] if typ == 1 else tag)
            off += 8 + pl
        return out
    return walk(b)


def wire_tags_tie(ctx, facts):
    """C19, dynamic half: the tags the real encoder puts on the wire for values of every structure type -
    fresh and after other encodes (the codec suite interleaves all types in one process) - against the model,
    whose tags come from the regenerated annotations proved against SpecSchema.v"""
    if not (facts.get("harness_ok") and facts.get("ocaml_ok")):
        return
    rep, rows = run_codec(ctx, facts, 120 if ctx.tier == "quick" else 2000)
    rows = [r for r in rows if r[0] in ("enc-wf", "rt")]
    ctx.cov["wire_tag_cases"] = len(rows)
    bad = 0
    for g, cmd, impl, model in rows:
        pi, pm = impl.split(" "), model.split(" ")
        if pi[0] != "ok" or pm[0] != "ok" or len(pi) < 2 or len(pm) < 2:
            continue
        si, sm = tag_skeleton(pi[1]), tag_skeleton(pm[1])
        if si != sm:
            bad += 1
            if bad <= 3:
                ctx.violation("wire-tags", {"what": "a value of this structure type went on the wire under other tags / nesting than the annotations (proved against the KMIP 1.4 table) assign",
                                            "value": short(cmd.split(" ", 1)[1], 3000), "wire_tags": json.dumps(si)[:1500], "expected_tags": json.dumps(sm)[:1500]})


def check_C19(ctx):
    facts = prepare(ctx, need_ocaml=True)
    rep = tables_tie(ctx, facts)
    wire_tags_tie(ctx, facts)
    # decoded structures moved into a field with another tag go out under that field's tag (impl-only oracle)
    if facts.get("harness_ok"):
        rc, hrep, out, err = run_harness(["history", "-seed", str(ctx.seed), "-n", "4"])
        if hrep is not None:
            ctx.cov["transplant_cases"] = hrep.get("distribution", {}).get("transplant", 0)
            for v in hrep["violations"][:4]:
                if v.get("kind") in ("transplant", "user-type-tag"):
                    ctx.violation(v["kind"], v)
    ctx.cov["exhaustive"] = True
    ctx.assumptions += [
        "SpecSchema.v is a faithful transcription of KMIP 1.4 sections 2, 3, 4, 6, 7 for the modelled structures (see DESIGN.md)",
        "Registry.v as for C18",
        "translator transcribes struct declarations faithfully (cross-checked against reflect by the `tables` suite on this run)",
    ]
    if rep and rep["disagreements"]:
        d = [x for x in rep["disagreements"] if x["kind"] == "annotation"]
        if d:
            ctx.violation("tie", {"what": "translator output differs from what reflect sees", "disagreements": d[:20]},
                          found_input=False)
    # known findings: deviations recorded in SpecSchema.known_deviations and known_findings.json
    kf = [k for k in known_findings() if k["property"] == "C19" and k["status"] == "open"]
    rc, out = coq_query(PRINT_PAIRS.replace("KMIP.Tables.", "KMIP.Tables KMIP.SpecSchema.") % "filter deviation_real known_deviations")
    real = set(parse_pairs(out))
    for k in kf:
        if (k["match"]["type"], k["match"]["field"]) in real:
            ctx.known.append(k["what"])
    if not facts["prop_ok"]:
        rc, out = coq_query(PRINT_PAIRS % "c19_failures")
        fails = parse_pairs(out)
        listed = {(k["match"]["type"], k["match"]["field"]) for k in kf}
        fails = [f for f in fails if f not in listed]
        if fails:
            for ty, fld in fails[:10]:
                ctx.violation("field", {"what": "field is not put on the wire under the tag / nesting SpecSchema.v (KMIP 1.4) assigns",
                                        "type": ty, "field": fld,
                                        "how_to_see": "annotation of %s.%s in /repo vs row of %s in coq/theories/SpecSchema.v" % (ty, fld, ty)})
        else:
            ctx.violation("theorem", theorem_broken(ctx, facts, "Properties/C19.v no longer checks and no failing field was computed"),
                          found_input=False)
    else:
        ctx.cov["samples"].append({"theorem": "C19_fields", "instance": "all annotated fields of all 58 KMIP struct types vs SpecSchema.v"})
    return ctx.finish()



# --------------------------------------------------------------------------------------
# codec properties: C01 C02 C03 C04 C06 C13 share one correspondence run
# --------------------------------------------------------------------------------------
import subprocess, time


def run_model(cases_path, out_path, timeout=3000):
    drv = os.path.join(core.VERIF, "ocaml", "driver")
    with open(cases_path, "rb") as fin, open(out_path, "wb") as fout:
        p = subprocess.run(["timeout", str(timeout), drv], stdin=fin, stdout=fout, stderr=subprocess.PIPE)
    return p.returncode, p.stderr.decode(errors="replace")


def run_codec(ctx, facts, n):
    """returns (report, rows) with rows = list of (group, command, impl, model)"""
    d = os.path.join(core.WORK, "codec-%s-%d" % (ctx.pid, os.getpid()))
    os.makedirs(d, exist_ok=True)
    corpus = os.path.join(core.VERIF, "corpus", "codec.txt")
    ro = getattr(ctx, "replay_obj", None)
    if ro:
        # the replayed case goes first, through the corpus mechanism (enc / dec / rt / stream commands)
        case = next((v for k, v in ro.items() if k.startswith("case") and isinstance(v, str)), None)
        if case and case.split(" ", 1)[0] in ("enc", "dec", "rt", "stream") and "...(" not in case:
            corpus = os.path.join(d, "replay-corpus.txt")
            with open(corpus, "w") as f:
                f.write(case + "\n")
                if os.path.exists(os.path.join(core.VERIF, "corpus", "codec.txt")):
                    f.write(open(os.path.join(core.VERIF, "corpus", "codec.txt")).read())
    rc, rep, out, err = run_harness(["codec", "-seed", str(ctx.seed), "-n", str(n), "-dir", d,
                                     "-corpus", corpus], timeout=3000)
    if rep is None:
        ctx.violation("harness-crash", {"what": "codec suite crashed (a crash of the harness process is a crash of the library code it runs)",
                                        "stdout": tail(out, 15), "stderr": tail(err, 40)}, found_input=False)
        return None, []
    rows = []
    if facts.get("ocaml_ok"):
        rc2, err2 = run_model(os.path.join(d, "cases.txt"), os.path.join(d, "model.txt"))
        rd = lambda f: open(os.path.join(d, f), errors="replace").read().split("\n")
        cases, impl, model, meta = rd("cases.txt"), rd("impl.txt"), rd("model.txt"), rd("meta.txt")
        for i in range(len(cases) - 1):
            rows.append((meta[i], cases[i], impl[i], model[i] if i < len(model) else "model-missing"))
    import shutil
    shutil.rmtree(d, ignore_errors=True)
    return rep, rows


def short(s, n=400):
    return s if len(s) <= n else s[:n] + "...(%d chars)" % len(s)


def codec_common(ctx, groups, n_quick, n_thorough, need=("CodecProofs",)):
    facts = prepare(ctx)
    n = n_quick if ctx.tier == "quick" else n_thorough
    broken = None
    if not facts["prop_ok"]:
        broken = theorem_broken(ctx, facts, "Properties/%s.v no longer checks" % ctx.pid)
    if not facts.get("harness_ok"):
        ctx.violation("harness-build", {"what": "harness does not build against the current tree", "log": tail(facts.get("harness_log", ""))}, found_input=False)
        return facts, None, [], broken
    if not facts.get("ocaml_ok"):
        broken = broken or {"what": "extracted model does not build", "log": tail(facts.get("ocaml_log", ""))}
    rep, rows = run_codec(ctx, facts, n)
    rows = [r for r in rows if r[0].split(":")[-1] in groups or r[0] in groups]
    if rep:
        ctx.cov["evaluations"] = len(rows) if rows else rep["evaluations"]
        ctx.cov["distinct_nontrivial"] = len({r[1] for r in rows if len(r[1]) > 30}) if rows else rep["distinct_nontrivial"]
        ctx.cov["traces_validated_against_impl"] = len(rows)
        ctx.cov["rule"] = rep["rule"] + "; this property's projection uses groups " + ", ".join(sorted(groups))
        ctx.cov["distribution"] = {k: v for k, v in rep.get("distribution", {}).items()}
        for r in rows[:: max(1, len(rows) // 3)][:3]:
            ctx.cov["samples"].append({"group": r[0], "case": short(r[1], 300), "impl": short(r[2], 200), "model": short(r[3], 200)})
    return facts, rep, rows, broken


CODEC_ASSUME = [
    "Codec.v is a hand-written model of encode.go/decode.go/fields.go; it is tied to /repo by running the implementation and the extracted model on the same cases on every run (this run's counts are in coverage)",
    "reflect, bufio, io.LimitReader/ReadFull/CopyN, bytes.Buffer, encoding/binary are modelled, not verified",
    "extraction: ExtrOcamlBasic + ExtrOcamlString (byte -> char, string -> char list), no Extract Constant; ocaml/driver.ml parsing/printing glue",
]


USER_ASSUME = ["user-defined structure types: random types built with reflect.StructOf; their declarations are handed to the extracted models (UserTypes.v: Fields.v's descriptor builder, elaboration, the schema-generic encoder / decoder of Codec.v) - groups u-desc (descriptor, through the VerifStructDesc hook), u-enc, u-dec; descriptor errors occur in the top structure (rejected up front) and in nested structure types (found lazily, when a value reaches the field: the elaboration marks such a position as one no value can occupy)"]


def first_word(s):
    return s.split(" ", 1)[0]


def check_C02(ctx):
    facts, rep, rows, broken = codec_common(ctx, {"enc-wf", "rt", "u-enc"}, 600, 4000)
    ctx.assumptions += CODEC_ASSUME + USER_ASSUME + ["concurrent encodes are covered by the generated fact gen_pkg_var_writes = [] (no package state is written) and by the history/parallel suite, not by a model of the Go memory model"]
    bad = 0
    for g, cmd, impl, model in rows:
        if g.endswith("rt"):
            impl, model = " ".join(impl.split(" ")[:2]), " ".join(model.split(" ")[:2])
        if impl != model:
            bad += 1
            if bad <= 5:
                # model = ser . to_tree by theorem C02_enc_canonical, so different bytes are non-canonical bytes
                ctx.violation("bytes", {"what": "Encode output differs from the canonical TTLV serialisation (ser . to_tree)",
                                        "value": cmd.split(" ", 1)[1], "implementation": short(impl, 2000), "canonical": short(model, 2000)},
                              found_input=first_word(impl) in ("ok", "err", "panic", "err-wrote"))
    if rep is not None:
        for v in [x for x in rep["violations"] if x.get("kind") == "encode-mutates-input"][:3]:
            ctx.violation("mutates-input", v)
    # history and concurrency independence (impl-only oracle)
    if rep is not None:
        rc, hrep, out, err = run_harness(["history", "-seed", str(ctx.seed), "-n", "40" if ctx.tier == "quick" else "400"])
        if hrep is None:
            ctx.violation("history-crash", {"what": "history suite crashed", "stderr": tail(err)}, found_input=False)
        else:
            ctx.cov["history_evaluations"] = hrep["evaluations"]
            ctx.cov["evaluations"] += hrep["evaluations"]
            for v in hrep["violations"][:5]:
                ctx.violation("history", v)
    if broken and not ctx.violations:
        ctx.violation("theorem", broken, found_input=False)
    return ctx.finish()


def check_C13(ctx):
    facts, rep, rows, broken = codec_common(ctx, {"enc-any", "enc-shape", "enc-wf", "dec-target", "u-enc", "u-dec", "u-desc"}, 600, 4000)
    ctx.assumptions += CODEC_ASSUME + USER_ASSUME
    bad = 0
    for g, cmd, impl, model in rows:
        w = first_word(impl)
        if w in ("panic", "err-wrote", "hang"):
            bad += 1
            if bad <= 8:
                ctx.violation("panic" if w == "panic" else "wrote", {
                    "what": "Encode/Decode panicked on the value given" if w != "err-wrote" else "a failed Encode wrote bytes to the destination",
                    "case": short(cmd, 3000), "implementation": impl, "model": short(model, 300)})
        elif g.endswith("u-desc") and impl != model:
            bad += 1
            if bad <= 8:
                ctx.violation("descriptor", {"what": "the descriptor the library derives from a user-defined structure type (which fields, tags, item types, options; or the error for an unknown tag name / unsupported field type) differs from the model of fields.go",
                                             "case": short(cmd, 3000), "implementation": short(impl, 1500), "model": short(model, 1500)})
        elif g.endswith(("u-enc", "u-dec")) and first_word(impl) != first_word(model):
            bad += 1
            if bad <= 8:
                ctx.violation("user-type", {"what": "Encode / Decode on a user-defined structure type: error where the model succeeds or the reverse",
                                            "case": short(cmd, 3000), "implementation": short(impl, 1500), "model": short(model, 1500)})
    if rep:
        for v in rep["violations"]:
            if v["kind"].startswith("target-") or v["kind"] == "enc-after-failure" or v["kind"] == "user-schema":
                ctx.violation("target", v)
        # one Encoder reused across failing and succeeding values; user-defined types with mixed dynamic values (impl-only oracles)
        rc, hrep, out, err = run_harness(["history", "-seed", str(ctx.seed), "-n", "10" if ctx.tier == "quick" else "200"])
        if hrep is None:
            ctx.violation("history-crash", {"what": "history suite crashed", "stderr": tail(err)}, found_input=False)
        else:
            ctx.cov["evaluations"] += hrep["evaluations"]
            ctx.cov["encoder_sessions_and_user_types"] = {k: v for k, v in hrep.get("distribution", {}).items()}
            for v in [x for x in hrep["violations"] if x.get("kind") in ("encoder-session", "user-type", "user-type-tag", "user-schema", "user-schema-bytes")][:5]:
                ctx.violation(v["kind"], v)
    if broken and not ctx.violations:
        ctx.violation("theorem", broken, found_input=False)
    return ctx.finish()


def check_C01(ctx):
    facts, rep, rows, broken = codec_common(ctx, {"rt"}, 600, 4000)
    ctx.assumptions += CODEC_ASSUME
    bad = 0
    # how many of the generated values satisfy the (computable) hypothesis of theorem C01_roundtrip?
    if rows and facts.get("ocaml_ok"):
        cmds = "\n".join("wf " + r[1].split(" ", 1)[1] for r in rows) + "\n"
        p = subprocess.run([os.path.join(core.VERIF, "ocaml", "driver")], input=cmds.encode(), stdout=subprocess.PIPE)
        outs = p.stdout.decode().split("\n")
        ctx.cov["values_satisfying_theorem_hypothesis_wf_b"] = sum(1 for o in outs if o == "wf")
        ctx.cov["values_outside_hypothesis"] = sum(1 for o in outs if o == "not-wf")
        ctx.cov["hypothesis_note"] = "values outside the hypothesis are structure types without a tag of their own (operation payloads, batch items), which occur on the wire only nested; every generated Request and Response satisfies it"
    for g, cmd, impl, model in rows:
        if model.startswith("theorem-contradicted"):
            ctx.violation("model", {"what": "the extracted model does not round-trip a value that satisfies wf_b: contradicts theorem C01_roundtrip (a bug in the extraction or driver glue)", "value": cmd}, found_input=False)
            continue
        if impl == model:
            continue
        pi, pm = impl.split(" "), model.split(" ")
        # rt lines: ok <bytes> <decoded value ...> <re-encoded identical 0|1>; the model's line is what a correct implementation prints
        if pi[0] == "ok" and pm[0] == "ok" and pi[2:] == pm[2:]:
            continue     # only the bytes differ, the round trip itself holds: that is C02's finding
        bad += 1
        if bad <= 5:
            what = "decoding the bytes Encode produced does not give back the (normalised) value, or re-encoding the decoded value gives other bytes"
            if pi[-1] == "0":
                what = "re-encoding the decoded value does not reproduce the identical bytes (or Decode left / took extra bytes)"
            ctx.violation("roundtrip", {"what": what, "value": cmd.split(" ", 1)[1],
                                        "implementation (ok <bytes> <decoded> <re-encode identical>)": short(impl, 3000),
                                        "expected": short(model, 3000)})
    if broken and not ctx.violations:
        ctx.violation("theorem", broken, found_input=False)
    return ctx.finish()


def check_C04(ctx):
    facts, rep, rows, broken = codec_common(ctx, {"dec-valid", "dec-mut", "dec-random", "dec-trunc", "dec-noncanon", "u-dec"}, 600, 5000)
    ctx.assumptions += CODEC_ASSUME + USER_ASSUME
    bad = 0
    for g, cmd, impl, model in rows:
        if impl == model:
            continue
        wi, wm = first_word(impl), first_word(model)
        if wi in ("panic", "hang"):
            continue      # C03's finding
        if {wi, wm} <= {"eof", "err"}:
            continue      # both reject; which error is not part of this property
        bad += 1
        if bad <= 5:
            if wi == "ok" and wm != "ok":
                what = "Decode accepted bytes that are not a well-formed encoding (the specification decoder rejects them)"
            elif wi != "ok" and wm == "ok":
                what = "Decode rejected a valid encoding"
            else:
                what = "Decode accepted the bytes but reports another value than they denote (or consumed a different number of bytes)"
            ctx.violation("decode", {"what": what, "case": short(cmd, 4000), "implementation": short(impl, 1500), "specification": short(model, 1500)})
    # the independent oracle: Denote.v's splitter + schema matcher (spec_decode), extracted, on the same inputs
    if rows and facts.get("ocaml_ok"):
        d = os.path.join(core.WORK, "spec-%d" % os.getpid())
        os.makedirs(d, exist_ok=True)
        decs = [r for r in rows if r[1].startswith("dec ")]
        with open(os.path.join(d, "spec.txt"), "w") as f:
            for r in decs:
                f.write("spec " + r[1][4:] + "\n")
        run_model(os.path.join(d, "spec.txt"), os.path.join(d, "spec.out"))
        outs = open(os.path.join(d, "spec.out"), errors="replace").read().split("\n")
        import shutil
        shutil.rmtree(d, ignore_errors=True)
        acc = rej = sbad = mbad = 0
        for i, (g, cmd, impl, model) in enumerate(decs):
            spec = outs[i] if i < len(outs) else "spec-missing"
            wi = first_word(impl)
            if spec.startswith("ok"):
                acc += 1
            else:
                rej += 1
            # theorem C04_decoder_is_spec says model = spec; a difference here contradicts it (driver glue or a stale build)
            if (model if first_word(model) == "ok" else "rej") != spec:
                mbad += 1
                if mbad <= 2:
                    ctx.violation("theorem-contradicted", {"what": "the extracted decoder model and the extracted specification differ on an input although C04_decoder_is_spec is proved: glue or build problem",
                                                           "case": short(cmd, 3000), "model": short(model, 800), "specification": short(spec, 800)}, found_input=False)
            if wi in ("panic", "hang"):
                continue
            if (impl if wi == "ok" else "rej") != spec:
                sbad += 1
                if sbad <= 5 and not bad:
                    what = ("Decode accepted bytes the specification rejects" if wi == "ok" and spec == "rej" else
                            "Decode rejected bytes that are a valid encoding according to the specification" if wi != "ok" else
                            "Decode accepted the bytes but reports another value than they denote (or consumed a different number of bytes)")
                    ctx.violation("spec", {"what": what, "case": short(cmd, 4000), "implementation": short(impl, 1500), "specification": short(spec, 1500)})
        ctx.cov["spec_oracle"] = {"inputs": len(decs), "accepted_by_spec": acc, "rejected_by_spec": rej, "impl_vs_spec_differences": sbad, "model_vs_spec_differences": mbad}
    if rep:
        for v in rep["violations"]:
            if v["kind"] == "truncation-accepted":
                ctx.violation("truncation", v)
    if broken and not ctx.violations:
        ctx.violation("theorem", broken, found_input=False)
    return ctx.finish()


def check_C06(ctx):
    facts, rep, rows, broken = codec_common(ctx, {"stream", "cstream", "cdec"}, 600, 3000)
    ctx.assumptions += CODEC_ASSUME + ["fragmentation: theorem C06_chunking covers every script of read sizes on the reader-object model (Readers.v), which is tied to the real bufio / LimitReader / ReadFull / CopyN by running both on the same scripts (groups cstream, cdec); in addition every two-way split, one-byte, random chunks, data with EOF, empty reads and a 16-byte bufio are applied on the implementation and compared with the in-memory result"]
    scripted_rows(ctx, rows, {"cstream", "cdec"}, "successive Decode calls on one Decoder over a scripted transport differ from the reader-object model (which by theorem C06_chunking returns the messages one by one, then io.EOF, and from an io.ByteScanner consumes exactly each message)")
    rows = [r for r in rows if r[0].split(":")[-1] not in ("cdec", "cstream")]
    bad = 0
    for g, cmd, impl, model in rows:
        if impl != model:
            bad += 1
            if bad <= 4:
                ctx.violation("stream", {"what": "successive Decode calls on one Decoder do not return the messages of the stream one by one followed by the expected end",
                                         "case": short(cmd, 4000), "implementation": short(impl, 2000), "model": short(model, 2000)})
    if rep:
        for v in rep["violations"]:
            if v["kind"].startswith("stream-"):
                ctx.violation(v["kind"], v)
    if broken and not ctx.violations:
        ctx.violation("theorem", broken, found_input=False)
    return ctx.finish()


def check_C05(ctx):
    facts = prepare(ctx)
    broken = None
    if not facts["prop_ok"]:
        broken = theorem_broken(ctx, facts, "Properties/C05.v no longer checks")
    if not facts.get("harness_ok"):
        ctx.violation("harness-build", {"what": "harness does not build against the current tree", "log": tail(facts.get("harness_log", ""))}, found_input=False)
        return ctx.finish()
    # run in a child with an address-space limit so that a regression cannot take the sandbox down
    import resource
    d = os.path.join(core.WORK, "alloc-%d" % os.getpid())
    os.makedirs(d, exist_ok=True)
    rc, rep, out, err = run_harness(["alloc", "-seed", str(ctx.seed), "-n", "40" if ctx.tier == "quick" else "600", "-dir", d], timeout=900)
    # the ledger of the reader-object decoder (theorem C05_alloc_linear bounds it) against the measured allocation
    if rep is not None and facts.get("ocaml_ok") and os.path.exists(os.path.join(d, "cases.txt")):
        run_model(os.path.join(d, "cases.txt"), os.path.join(d, "model.txt"))
        rd = lambda f: open(os.path.join(d, f), errors="replace").read().split("\n")
        cases, impl, model = rd("cases.txt"), rd("impl.txt"), rd("model.txt")
        n = over = cls = 0
        worst = 0.0
        for i in range(len(cases) - 1):
            mi = re.search(r"^(\w+) alloc=(\d+)$", impl[i])
            mm = re.search(r"^(\w+).* alloc=(\d+)$", model[i] if i < len(model) else "")
            if not mi or not mm:
                continue
            n += 1
            real, ledger = int(mi.group(2)), int(mm.group(2))
            worst = max(worst, real / max(1, ledger))
            data_len = len(cases[i].split(" ")[-1].replace("_", "")) // 2
            if ledger > 1536 * data_len + 8192 + 4288:
                ctx.violation("theorem-contradicted", {"what": "the extracted ledger exceeds the bound of theorem C05_decode_bound: glue or build problem", "case": short(cases[i], 2000), "ledger": ledger}, found_input=False)
            if (mi.group(1) == "ok") != (mm.group(1) == "ok"):
                cls += 1
            if real > 1.25 * ledger + 24576:
                over += 1
                if over <= 3:
                    ctx.violation("ledger", {"what": "Decode allocated more than the allocation ledger of the reader-object model accounts for (real > 1.25 x ledger + 24 KiB): the implementation allocates where the model - and theorem C05_alloc_linear about it - does not",
                                             "case": short(cases[i], 3000), "allocated": real, "ledger": ledger, "input_len": data_len})
        ctx.cov["ledger_cases"] = n
        ctx.cov["ledger_worst_real_over_ledger"] = round(worst, 3)
        ctx.cov["ledger_outcome_class_differences"] = cls
    import shutil
    shutil.rmtree(d, ignore_errors=True)
    if rep is None:
        ctx.violation("alloc-crash", {"what": "alloc suite crashed (out of memory is itself the violation: a Decode call exhausted memory or the time limit)",
                                      "replay": "harness/harness alloc -seed %d" % ctx.seed, "stderr": tail(err, 30)})
    else:
        ctx.cov["evaluations"] = rep["evaluations"]
        ctx.cov["distinct_nontrivial"] = rep["distinct_nontrivial"]
        ctx.cov["traces_validated_against_impl"] = rep["evaluations"]
        ctx.cov["rule"] = rep["rule"]
        ctx.cov["distribution"] = rep.get("distribution")
        ctx.cov["samples"] += rep.get("samples", [])
        for v in rep["violations"][:5]:
            ctx.violation("alloc", v)
    # the model side of the tie: same outcome projection as C04 on the same kind of inputs
    ctx.assumptions += CODEC_ASSUME + [
        "partial: the Go heap, GC, size classes and reflect's internal allocations are not modelled; the theorem (C05_alloc_linear / C05_decode_bound: ledger <= 1536 x bytes available + 12 KiB for every input, script and outcome) is about an allocation LEDGER charged by the reader-object decoder model for every make/new/append/boxing/error value of the Go code; the ledger is tied to the real heap by comparing it with runtime.MemStats.TotalAlloc on every case of this run (real <= 1.25 x ledger + 24 KiB; worst ratio in coverage), and the implementation is independently held to 700 bytes per input byte + 64 KiB, GC off, one goroutine",
    ]
    if broken and not ctx.violations:
        ctx.violation("theorem", broken, found_input=False)
    return ctx.finish()


def project_scripted(cmd, model):
    """model line of a cdec/cstream case: '<result> | left=a buffered=b alloc=c' -> what the implementation can show:
    the result, and for an io.ByteScanner source (mode 0) the bytes left in it"""
    parts = model.split(" | ")
    if not parts[-1].startswith("left="):
        return model
    mode = cmd.split(" ")[2] if len(cmd.split(" ")) > 2 else "1"
    res = " | ".join(parts[:-1])
    if mode == "0":
        return res + " | " + parts[-1].split(" ")[0]
    return res


def scripted_rows(ctx, rows, groups, what):
    """compare the implementation on a scripted transport with the extracted reader-object decoder (Readers.v)"""
    bad = n = 0
    for g, cmd, impl, model in rows:
        if g.split(":")[-1] not in groups:
            continue
        n += 1
        if first_word(model) == "fuel" or " | fuel" in model:
            ctx.violation("model-fuel", {"what": "the reader-object model ran out of fuel or its bufio gave up (contradicts C03_io_error_safe / the script generator's < 50 empty reads)", "case": short(cmd, 3000)}, found_input=False)
            continue
        if impl != project_scripted(cmd, model):
            bad += 1
            if bad <= 4:
                ctx.violation("delivery", {"what": what, "case (cdec <type> <mode 0=ByteScanner 1=NewDecoder's bufio n=bufio of size n> <read sizes> <last data with error> <terminal error> <bytes>)": short(cmd, 4000),
                                           "implementation": short(impl, 1500), "model": short(project_scripted(cmd, model), 1500)})
    ctx.cov["scripted_transport_cases"] = n
    return n


def check_C03(ctx):
    facts, rep, rows, broken = codec_common(ctx, {"dec-valid", "dec-mut", "dec-random", "dec-trunc", "dec-noncanon", "stream", "cdec", "cstream", "u-dec"}, 300, 5000)
    ctx.assumptions += CODEC_ASSUME + ["delivery: Readers.v models bufio.Reader (Read, ReadByte/fill, deferred error, large-read bypass), io.LimitedReader, io.ReadFull, io.CopyN into bytes.Buffer / Discard over a scripted transport; theorem C03_delivery_independent covers every script; the models are tied to the real objects by driving both with the same scripts (groups cdec, cstream); additionally five fixed deliveries of every mutated input are compared on the implementation alone"]
    scripted_rows(ctx, rows, {"cdec", "cstream"}, "Decode on a scripted transport (read sizes, empty reads, data delivered with the terminal error, I/O error) differs from the reader-object model, which by theorem C03_delivery_independent equals decoding the bytes in memory")
    rows = [r for r in rows if r[0].split(":")[-1] not in ("cdec", "cstream")]
    bad = 0
    for g, cmd, impl, model in rows:
        w = first_word(impl)
        if w in ("panic", "hang") or "panic" in impl.split(" | ")[-1:][0][:5]:
            bad += 1
            if bad <= 8:
                ctx.violation("panic", {"what": "Decode panicked / did not return", "case": short(cmd, 3000), "implementation": short(impl, 300)})
        elif first_word(model) == "fuel":
            ctx.violation("model-fuel", {"what": "model ran out of fuel (contradicts theorem C03_total)", "case": short(cmd, 3000)}, found_input=False)
    if rep:
        for v in rep["violations"]:
            if v["kind"] in ("over-read", "delivery-dependent", "ioerr-accepted") or v["kind"].startswith("decode-"):
                ctx.violation(v["kind"], v)
    if broken and not ctx.violations:
        ctx.violation("theorem", broken, found_input=False)
    return ctx.finish()



# --------------------------------------------------------------------------------------
# session properties: C07 C08 C09 C10 C15 share the session correspondence run
# --------------------------------------------------------------------------------------
def run_suite_with_model(ctx, facts, suite, args, timeout=3000):
    d = os.path.join(core.WORK, "%s-%s-%d" % (suite, ctx.pid, os.getpid()))
    os.makedirs(d, exist_ok=True)
    rc, rep, out, err = run_harness([suite, "-seed", str(ctx.seed), "-dir", d] + args, timeout=timeout)
    rows = []
    if rep is None:
        ctx.violation("harness-crash", {"what": "%s suite crashed: the process running the library died (a handler result, callback or input must never do that)" % suite,
                                        "replay": "harness/harness %s -seed %d %s  (same seed reproduces; the goroutine trace below names the path)" % (suite, ctx.seed, " ".join(args)),
                                        "stdout": tail(out, 10), "stderr": tail(err, 60)}, found_input=True)
    elif facts.get("ocaml_ok"):
        run_model(os.path.join(d, "cases.txt"), os.path.join(d, "model.txt"))
        rd = lambda f: open(os.path.join(d, f), errors="replace").read().split("\n")
        cases, impl, model, meta = rd("cases.txt"), rd("impl.txt"), rd("model.txt"), rd("meta.txt")
        for i in range(len(cases) - 1):
            rows.append((meta[i], cases[i], impl[i], model[i] if i < len(model) else "model-missing"))
    import shutil
    shutil.rmtree(d, ignore_errors=True)
    return rep, rows


def strip_call(e):
    # call:sid:sa:ra:op:payload -> call:op:payload
    p = e.split(":", 5)
    return "call:%s:%s" % (p[4], p[5]) if len(p) == 6 else e


SESSION_PROJ = {
    "C07": lambda e: e if e.startswith(("wrote", "close")) else None,
    "C08": lambda e: strip_call(e) if e.startswith("call") else (e if e.startswith("wrote") else None),
    "C09": lambda e: e if e.startswith(("sa:", "ra:", "call")) else ("wrote" if e.startswith("wrote") else ("close" if e == "close" else None)),
    "C10": lambda e: strip_call(e) if e.startswith("call") else ("wrote" if e.startswith("wrote") else ("close" if e == "close" else None)),
    "C15": lambda e: e if e in ("armr", "armw", "close") else ("wrote" if e.startswith("wrote") else None),
}
SESSION_KINDS = {
    "C07": ("stuck", "unanswered-open", "timestamp"),
    "C08": ("serve-error", "serve-stuck"),
    "C09": ("session-id", "auth-gate"),
    "C10": ("not-closed", "goroutine-leak", "stuck", "serve-stuck"),
    "C15": ("deadline",),
}
SESSION_WHAT = {
    "C07": "responses written / connection closing differ from the model: a request was not answered exactly once, in order, by a response that answers it",
    "C08": "handler invocations or per-item results differ from the model",
    "C09": "authentication gating or the context seen by handlers differs from the model",
    "C10": "reaction to the byte stream (handler calls, responses, close) differs from the model",
    "C15": "deadline arming relative to reads/writes differs from the model",
}


def session_common(ctx, n_quick, n_thorough):
    facts = prepare(ctx)
    broken = None
    if not facts["prop_ok"]:
        broken = theorem_broken(ctx, facts, "Properties/%s.v no longer checks" % ctx.pid)
    if not facts.get("harness_ok"):
        ctx.violation("harness-build", {"what": "harness does not build against the current tree", "log": tail(facts.get("harness_log", ""))}, found_input=False)
        return facts, None, [], broken
    if not facts.get("ocaml_ok"):
        broken = broken or {"what": "extracted model does not build", "log": tail(facts.get("ocaml_log", ""))}
    n = n_quick if ctx.tier == "quick" else n_thorough
    rep, rows = run_suite_with_model(ctx, facts, "session", ["-n", str(n)])
    proj = SESSION_PROJ[ctx.pid]
    bad = 0
    for g, cmd, impl, model in rows:
        pi = [x for x in (proj(e) for e in impl.split(" ; ")) if x is not None]
        pm = [x for x in (proj(e) for e in model.split(" ; ")) if x is not None]
        if pi != pm:
            bad += 1
            if bad <= 4:
                k = next((i for i in range(min(len(pi), len(pm))) if pi[i] != pm[i]), min(len(pi), len(pm)))
                ctx.violation("trace", {"what": SESSION_WHAT[ctx.pid], "case": cmd,
                                        "first_difference_at_event": k,
                                        "implementation": short(pi[k], 1500) if k < len(pi) else "<end of trace>",
                                        "model": short(pm[k], 1500) if k < len(pm) else "<end of trace>",
                                        "implementation_trace": short(impl, 3000), "model_trace": short(model, 3000)})
    if rep:
        ctx.cov["evaluations"] = len(rows)
        ctx.cov["distinct_nontrivial"] = rep["distinct_nontrivial"]
        ctx.cov["traces_validated_against_impl"] = len(rows)
        ctx.cov["rule"] = rep["rule"]
        ctx.cov["distribution"] = rep.get("distribution")
        ctx.cov["samples"] += rep.get("samples", [])
        for v in rep["violations"]:
            if v["kind"] in SESSION_KINDS[ctx.pid]:
                ctx.violation(v["kind"], v)
    return facts, rep, rows, broken


SESSION_ASSUME = [
    "Session.v is a hand-written model of Server.serve/handleBatch/handleWrapped/handleDiscoverVersions; it is tied to /repo by running the real Server.Serve on in-memory connections with scripted handlers and the extracted model on the same configuration, script and bytes (counts in coverage)",
    "goroutines, net.Conn, recover, time.Now are modelled, not verified; sessions of one server are modelled as independent (isolation between concurrent connections is observed by the concurrent cases of the harness)",
    "callbacks and handlers do not mutate the *SessionContext / *RequestContext they are handed (user code)",
] + CODEC_ASSUME


def make_session_check(pid, nq, nt, extra=None):
    def chk(ctx):
        facts, rep, rows, broken = session_common(ctx, nq, nt)
        ctx.assumptions += SESSION_ASSUME
        if extra and rep is not None:
            extra(ctx, facts)
        if broken and not ctx.violations:
            ctx.violation("theorem", broken, found_input=False)
        return ctx.finish()
    return chk


def client_sent_only(line):
    if " => " not in line:
        return line
    evs, res = line.split(" => ", 1)
    return ",".join(e for e in evs.split(",") if e.startswith("sent")) + " => " + res


def client_timing_extra(ctx, facts):
    rc, rep, out, err = run_harness(["client", "-seed", str(ctx.seed), "-n", "3", "-dir", os.path.join(core.WORK, "client-timing-%d" % os.getpid())], timeout=600)
    import shutil
    shutil.rmtree(os.path.join(core.WORK, "client-timing-%d" % os.getpid()), ignore_errors=True)
    if rep is None:
        ctx.violation("client-timing-crash", {"what": "client suite crashed", "stderr": tail(err)}, found_input=False)
        return
    ctx.cov["client_timing_scenarios"] = rep.get("distribution", {}).get("client-timing", 0)
    for v in rep["violations"]:
        if v.get("kind") == "client-deadline":
            ctx.violation("client-timing", v)


def timing_extra(ctx, facts, kind="deadline", with_client=True):
    if with_client:
        client_timing_extra(ctx, facts)
        tlsarms_extra(ctx, facts)
    rc, rep, out, err = run_harness(["timing", "-seed", str(ctx.seed)] + (["-long"] if ctx.tier == "thorough" else []), timeout=600)
    if rep is None:
        ctx.violation("timing-crash", {"what": "timing suite crashed", "stderr": tail(err)}, found_input=False)
        return
    ctx.cov["timing_scenarios"] = rep["evaluations"]
    ctx.cov["evaluations"] += rep["evaluations"]
    ctx.cov["samples"] += rep.get("samples", [])[:2]
    found = [x for x in rep["violations"] if x.get("kind") == kind]
    if found:
        # real-time scenarios: a finding must persist with every timeout four times larger (a heavily loaded machine can make a
        # "timely" request late at T = 200 ms; that is the machine, not the server)
        rc2, rep2, out2, err2 = run_harness(["timing", "-seed", str(ctx.seed), "-scale", "4"], timeout=900)
        ctx.cov["timing_confirmation_run"] = True
        if rep2 is not None:
            found = [dict(x, confirmed="persisted with every timeout four times larger") for x in rep2["violations"] if x.get("kind") == kind]
    for v in found[:4]:
        ctx.violation("timing", v)


def tlsarms_extra(ctx, facts):
    """deadlines set on the connection under the TLS layer vs the model's arms (C15, TLS handshake included)"""
    rep, rows = run_suite_with_model(ctx, facts, "tlsarms", [])
    if rep is None:
        return
    ctx.cov["tls_arm_cases"] = len(rows)
    ctx.cov["evaluations"] = ctx.cov.get("evaluations", 0) + len(rows)
    ctx.cov["samples"] += rep.get("samples", [])[:1]
    bad = 0
    for g, cmd, impl, model in rows:
        mev = model.split(" ; ")
        marms = [e for e in mev if e in ("armr", "armw")]
        mresp = sum(1 for e in mev if e.startswith("wrote"))
        try:
            iarms = [x for x in impl.split(" ")[0].split("=", 1)[1].split(",") if x]
            iresp = int(impl.split("responses=")[1])
        except Exception:
            iarms, iresp = ["?"], -1
        if "hs:ok" in mev and iarms[-2:] == ["armw", "armw"]:
            iarms = iarms[:-2]      # crypto/tls's own write deadline around the close-notify alert
        if iarms != marms or iresp != mresp:
            bad += 1
            if bad <= 3:
                ctx.violation("tls-arms", {"what": "deadlines set on a TLS connection (SetDeadline counts as read+write) differ from the model: a deadline is armed although its timeout is zero, or not re-armed per message",
                                           "case": short(cmd, 600), "implementation_deadline_calls": iarms, "model_arms": marms,
                                           "responses_received": iresp, "responses_expected": mresp})


def accept_ids_extra(ctx, facts):
    """C09: the session ids connections get from the accept loop (theorem C09_session_ids_distinct) vs the ids the real handlers see"""
    rep, rows = run_suite_with_model(ctx, facts, "accept", ["-len", "4" if ctx.tier == "quick" else "5", "-cap=false"])
    if rep is None:
        return
    ids = lambda line: [t for t in line.split("|")[0].split(",") if t.startswith("serve:")]
    ctx.cov["accept_sequences_for_session_ids"] = len(rows)
    ctx.cov["evaluations"] = ctx.cov.get("evaluations", 0) + len(rows)
    bad = 0
    for g, cmd, impl, model in rows:
        if ids(impl) != ids(model):
            bad += 1
            if bad <= 3:
                ctx.violation("session-id", {"what": "the session ids the handlers of the served connections see differ from the accept-loop model (1, 2, 3, ... in accept order, untouched by temporary errors)",
                                             "case": cmd, "implementation": impl, "model": model})


def stall_extra(ctx, facts):
    timing_extra(ctx, facts, kind="stall-held", with_client=False)



def make_simple_check(pid, suite, args_quick, args_thorough, what, assume, exhaustive=False, project=None, kinds=None, extra=None):
    def chk(ctx):
        facts = prepare(ctx)
        broken = None
        if not facts["prop_ok"]:
            broken = theorem_broken(ctx, facts, "Properties/%s.v no longer checks" % ctx.pid)
        if not facts.get("harness_ok"):
            ctx.violation("harness-build", {"what": "harness does not build against the current tree", "log": tail(facts.get("harness_log", ""))}, found_input=False)
            return ctx.finish()
        if not facts.get("ocaml_ok"):
            broken = broken or {"what": "extracted model does not build", "log": tail(facts.get("ocaml_log", ""))}
        rep, rows = run_suite_with_model(ctx, facts, suite, args_quick if ctx.tier == "quick" else args_thorough)
        bad = 0
        for g, cmd, impl, model in rows:
            if project:
                model = project(model)
            if impl != model:
                bad += 1
                if bad <= 4:
                    ctx.violation("case", {"what": what, "case": short(cmd, 4000), "implementation": short(impl, 2000), "model": short(model, 2000)})
        if rep:
            ctx.cov["evaluations"] = len(rows)
            ctx.cov["distinct_nontrivial"] = rep["distinct_nontrivial"]
            ctx.cov["traces_validated_against_impl"] = len(rows)
            ctx.cov["rule"] = rep["rule"]
            ctx.cov["distribution"] = rep.get("distribution")
            ctx.cov["samples"] += rep.get("samples", [])
            ctx.cov["exhaustive"] = exhaustive
            for v in rep["violations"][:4]:
                if kinds is None or v.get("kind") in kinds:
                    ctx.violation(v.get("kind", "oracle"), v)
            if extra:
                extra(ctx, facts)
        ctx.assumptions += assume
        if broken and not ctx.violations:
            ctx.violation("theorem", broken, found_input=False)
        return ctx.finish()
    return chk


def check_C16(ctx):
    facts = prepare(ctx)
    broken = None
    if not facts["prop_ok"]:
        broken = theorem_broken(ctx, facts, "Properties/C16.v no longer checks: the assignments of DefaultServerTLSConfig / DefaultClientTLSConfig are not the unconditional hardening the theorem is about")
    if not facts.get("harness_ok"):
        ctx.violation("harness-build", {"what": "harness does not build against the current tree", "log": tail(facts.get("harness_log", ""))}, found_input=False)
        return ctx.finish()
    rep, rows = run_suite_with_model(ctx, facts, "tls", [])
    # where the model could not interpret the configuration, judge the implementation by the configuration the property demands
    need = [r for r in rows if r[3] == "config-not-understood"]
    intended = {}
    if need and facts.get("ocaml_ok"):
        cmds = []
        for g, cmd, impl, model in need:
            parts = cmd.split(" ")
            parts[1] = "intended-server" if parts[1].startswith("server") else "intended-client"
            cmds.append(" ".join(parts))
        p = subprocess.run([os.path.join(core.VERIF, "ocaml", "driver")], input=("\n".join(cmds) + "\n").encode(), stdout=subprocess.PIPE)
        outs = p.stdout.decode().split("\n")
        for (g, cmd, impl, model), o in zip(need, outs):
            intended[cmd] = o
    bad = 0
    for g, cmd, impl, model in rows:
        expect = intended.get(cmd, model)
        if impl != expect:
            bad += 1
            if bad <= 4:
                ctx.violation("peer", {"what": "this peer was %s although the property (TLS >= 1.2, verified certificate) says it must be %s" % (impl, expect),
                                       "case": cmd, "format": "tls <role> <max TLS version hex> <certificate> <plaintext>; role *-weak = the tls.Config held MinVersion TLS 1.0 / ClientAuth VerifyClientCertIfGiven before the Default*TLSConfig call",
                                       "implementation": impl, "specification": expect, "model_of_current_assignments": model})
    if rep:
        ctx.cov["evaluations"] = len(rows)
        ctx.cov["distinct_nontrivial"] = rep["distinct_nontrivial"]
        ctx.cov["traces_validated_against_impl"] = len(rows)
        ctx.cov["rule"] = rep["rule"]
        ctx.cov["distribution"] = rep.get("distribution")
        ctx.cov["samples"] += rep.get("samples", [])
        ctx.cov["exhaustive"] = True
        for v in rep["violations"][:4]:
            ctx.violation(v.get("kind", "tls"), v)
    ctx.assumptions += [
        "TLS.v specifies what crypto/tls does with MinVersion / ClientAuth / InsecureSkipVerify (15 lines); crypto/tls and crypto/x509 are NOT verified: the specification is validated on every run against the real library over the entire peer space of the property on loopback, for a fresh configuration and for one that held weaker settings before the call",
        "translator transcribes the assignments of DefaultServerTLSConfig / DefaultClientTLSConfig; any statement it does not understand makes the configuration 'not understood' and the theorem fail",
    ]
    if broken and not ctx.violations:
        ctx.violation("theorem", broken, found_input=False)
    return ctx.finish()


def shutdown_compare(impl, model):
    """model fields may be sets a/b (select may take either ready branch); impl must be a member"""
    def parse(l):
        return dict(kv.split("=", 1) for kv in l.split(" ") if "=" in kv)
    try:
        pi, pm = parse(impl), parse(model)
    except Exception:
        return False
    for k in ("sh", "serve", "conns"):
        if pi.get(k, "") not in pm.get(k, "").split("/"):
            return False
    return True


def check_C11(ctx):
    facts = prepare(ctx)
    broken = None
    if not facts["prop_ok"]:
        broken = theorem_broken(ctx, facts, "Properties/C11.v no longer checks")
    if not facts.get("harness_ok"):
        ctx.violation("harness-build", {"what": "harness does not build against the current tree", "log": tail(facts.get("harness_log", ""))}, found_input=False)
        return ctx.finish()
    rep, rows = run_suite_with_model(ctx, facts, "shutdown", ["-len", "6" if ctx.tier == "quick" else "8"])
    # schedules are forced through gates, but "everything that can run has run" is decided by polling: on a loaded
    # machine a schedule can be observed too early.  Every disagreeing schedule is therefore run again, alone and with
    # stretched polling, and only what persists is reported.
    suspects = [cmd.split(" ", 1)[1] for g, cmd, impl, model in rows if not shutdown_compare(impl, model)]
    if rep:
        suspects += [v.get("schedule") for v in rep["violations"] if v.get("schedule")]
    suspects = sorted(set(suspects))[:40]
    if suspects and rep:
        rep2, rows2 = run_suite_with_model(ctx, facts, "shutdown", ["-only", ",".join(suspects), "-slow", "8"])
        if rep2 is not None:
            redo = {cmd: (impl, model) for g, cmd, impl, model in rows2}
            rows = [(g, cmd) + redo.get(cmd, (impl, model)) for g, cmd, impl, model in rows]
            rep["violations"] = [v for v in rep["violations"] if v.get("schedule") not in suspects] + rep2["violations"]
            ctx.cov["schedules_rerun_for_confirmation"] = len(suspects)
    bad = 0
    for g, cmd, impl, model in rows:
        if not shutdown_compare(impl, model):
            bad += 1
            if bad <= 4:
                ctx.violation("schedule", {"what": "outcome of this forced schedule on the real server is not one the interleaving model allows",
                                           "schedule": cmd, "tokens": "c connect, r release accepted connection, 0/1 peer of session goes away, a/b that session's conn.Close is let through, S Shutdown up to the listener close, k let the close through, x context ends",
                                           "implementation": impl, "model": model})
    if rep:
        ctx.cov["evaluations"] = len(rows)
        ctx.cov["distinct_nontrivial"] = rep["distinct_nontrivial"]
        ctx.cov["traces_validated_against_impl"] = len(rows)
        ctx.cov["rule"] = rep["rule"]
        ctx.cov["distribution"] = rep.get("distribution")
        ctx.cov["samples"] += rep.get("samples", [])
        ctx.cov["exhaustive"] = True
        for v in rep["violations"][:4]:
            ctx.violation("property", v)
    ctx.assumptions += [
        "Shutdown.v is a hand-written interleaving semantics of Serve / Shutdown / waiter / sessions: each synchronisation-relevant statement is one atomic step, critical sections of the mutex are single steps; Go's channel close / select / WaitGroup / Mutex semantics are modelled, not verified",
        "tie: forced schedules - the listener holds every dequeued connection at a gate and its Close at another, sessions are ended and the context cancelled by the harness; every well-formed schedule up to the length bound runs against the real server (no source hooks needed) and the outcome must be one the extracted model allows; while Shutdown is closing the listener it holds the mutex, which the driver glue accounts for by registering a released connection after the close",
    ]
    if broken and not ctx.violations:
        ctx.violation("theorem", broken, found_input=False)
    return ctx.finish()


def check_C12(ctx):
    facts = prepare(ctx, race=True)
    broken12 = None
    if not facts["prop_ok"]:
        # which pairs of accesses break the discipline?
        rc, out = coq_query(PRINT_PAIRS.replace("KMIP.Tables.", "KMIP.Tables KMIP.Races.") % "races gen_accesses")
        pairs = sorted(set(parse_pairs(out)))
        if pairs:
            for fn, fld in pairs[:5]:
                ctx.violation("discipline", {"what": "two accesses to the same Server field that may overlap in time, one a write, without the mutex on both sides and without a happens-before edge",
                                             "functions": fn, "field": fld,
                                             "how_to_see": "rows of gen_accesses (coq/theories/Generated.v) for this field; classes and edges in coq/theories/Races.v"})
        else:
            # e.g. C12_caller_objects_not_written: which assignments go through a pointer held in a field of Server / Client?
            broken12 = theorem_broken(ctx, facts, "Properties/C12.v no longer checks")
            try:
                g = open(os.path.join(core.COQ, "theories", "Generated.v")).read()
                m = re.search(r"Definition gen_deep_writes[^\n]*:= \[(.*)\]\.", g)
                if m and m.group(1).strip():
                    broken12["assignments_through_pointer_fields (function, receiver, field, target)"] = m.group(1)
            except Exception:
                pass
    if not facts.get("harness_race_ok"):
        ctx.violation("harness-build", {"what": "race-enabled harness does not build", "log": tail(facts.get("harness_race_log", ""))}, found_input=False)
        return ctx.finish()
    n = "6" if ctx.tier == "quick" else "120"
    rc, rep, out, err = run_harness(["race", "-seed", str(ctx.seed), "-n", n], race=True, timeout=3000,
                                    env={"GORACE": "halt_on_error=0 history_size=3"})
    races = err.count("WARNING: DATA RACE")
    if races or "race:" in err and "fatal" in err:
        first = err[err.find("WARNING: DATA RACE"):][:6000] if races else tail(err, 60)
        ctx.violation("race", {"what": "the Go race detector reported a data race / misuse of a synchronisation primitive inside the library under documented concurrent use",
                               "reports": races, "first_report": first})
    elif rep is None:
        ctx.violation("race-crash", {"what": "race suite crashed", "stderr": tail(err, 60)}, found_input=False)
    if rep:
        ctx.cov["evaluations"] = rep["evaluations"]
        ctx.cov["distinct_nontrivial"] = rep["distinct_nontrivial"]
        ctx.cov["rule"] = rep["rule"]
        ctx.cov["samples"] += rep.get("samples", [])
        ctx.cov["traces_validated_against_impl"] = rep["evaluations"]
        for v in rep["violations"][:3]:
            ctx.violation(v.get("kind", "race"), v)
    if broken12 and not ctx.violations:
        ctx.violation("theorem", broken12, found_input=False)
    ctx.assumptions += [
        "partial: the theorem covers a lockset / happens-before discipline over SYNTACTIC accesses to Server fields (regenerated table) with hand-fixed thread classes and edges (Races.v), the WaitGroup protocol of the interleaving model (Shutdown.v) and 'no package state is written'; the Go memory model, aliasing through values reachable from handler arguments, and interleavings are not modelled",
        "the race detector only sees the interleavings that happened in this run",
    ]
    return ctx.finish()


CHECKS = {"C18": check_C18, "C19": check_C19, "C02": check_C02, "C03": check_C03, "C13": check_C13,
          "C07": make_session_check("C07", 400, 3000), "C08": make_session_check("C08", 400, 3000),
          "C09": make_session_check("C09", 400, 3000, accept_ids_extra), "C10": make_session_check("C10", 400, 3000, stall_extra),
          "C15": make_session_check("C15", 100, 1500, timing_extra),
          "C17": make_simple_check("C17", "accept", ["-len", "4"], ["-len", "6"],
                                   "behaviour of Serve on this sequence of Accept results differs from the model of the accept loop (sleeps, served connections, result)",
                                   ["Accept.v is a hand-written model of the accept loop of Server.Serve, tied to /repo by running every sequence over {T,C,P,S} up to the length bound against the real Serve (fault-injecting listener)",
                                    "time.Sleep, the Temporary() classification of net.Error and the select on the done channel are modelled; sleeps are observed through Server.Log and bracketed by the wall clock"], exhaustive=True),
          "C01": check_C01, "C04": check_C04, "C05": check_C05, "C06": check_C06,
          "C11": check_C11, "C12": check_C12,
          "C14": make_simple_check("C14", "client", ["-n", "150"], ["-n", "3000"],
                                   "result of Client.Send / DiscoverVersions (or the request bytes the peer received) differs from the model",
                                   ["Client.v is a hand-written model of Client.Send / DiscoverVersions, tied to /repo by running the real Client over loopback TLS against a scripted peer (certificates generated in-process) and the extracted model on the same payload and reply bytes",
                                    "crypto/tls transport, Connect's dialling are exercised, not modelled; deadlines set on the tls.Conn are not observable: the model's arm events are projected away and the three real-time client scenarios stand in"] + CODEC_ASSUME,
                                   project=client_sent_only, kinds=("client-panic", "client-deadline")),
          "C16": check_C16,
          "C20": make_simple_check("C20", "discover", ["-sup", "2", "-offer", "3"], ["-sup", "3", "-offer", "4"],
                                   "reply of the built-in Discover Versions handler (or its aliasing with the configuration) differs from the model",
                                   ["Discover.v is a hand-written model of handleDiscoverVersions / Serve's defaulting with Go slices made explicit; tied to /repo by calling the real handler (through the verif build-tag hook) on every (supported, offer) pair up to the length bounds and inspecting the reply for shared memory",
                                    "the Go runtime's append (in place iff capacity allows, fresh array otherwise) is modelled; the growth policy is abstracted"], exhaustive=True)}

