"""Per-property check procedures. Each takes a core.Ctx and returns the exit status."""
import json, os, re
import core
from core import prepare, run_harness, coq_query, tail, known_findings


def theorem_broken(ctx, facts, what):
    """common handling when Properties/<id>.vo could not be produced"""
    return {
        "what": what,
        "failed_coq_files": facts.get("coq_failed"),
        "coq_log_tail": tail(facts.get("prop_log", "") or facts.get("coq_log", ""), 30),
    }


def parse_pairs(out):
    """parse a Coq list of string pairs printed by our own one-per-line printer"""
    return re.findall(r'@@ (.*?) \|\| (.*?) @@', out)


# --------------------------------------------------------------------------------------
# C18 / C19: table properties
# --------------------------------------------------------------------------------------
PRINT_PAIRS = '''
From Coq Require Import List String.
Require Import KMIP.Schema KMIP.Fields KMIP.Generated KMIP.Instance KMIP.Tables.
Open Scope string_scope.
Fixpoint show (l : list (string * string)) : string :=
  match l with nil => "" | cons (a, b) r => "@@ " ++ a ++ " || " ++ b ++ " @@ " ++ show r end.
Definition out := Eval vm_compute in show (%s).
Print out.
'''


def tables_tie(ctx, facts):
    """cross-check of the translator against the compiler / reflect (suite `tables`)"""
    if not facts.get("harness_ok"):
        ctx.violation("harness-build", {"what": "harness does not build against the current tree",
                                        "log": tail(facts.get("harness_log", ""))}, found_input=False)
        return None
    rc, rep, out, err = run_harness(["tables"])
    if rep is None:
        ctx.violation("tables-crash", {"what": "tables suite crashed", "stdout": tail(out), "stderr": tail(err)},
                      found_input=False)
        return None
    ctx.cov["evaluations"] = rep["evaluations"]
    ctx.cov["distinct_nontrivial"] = rep["distinct_nontrivial"]
    ctx.cov["traces_validated_against_impl"] = rep["evaluations"]
    ctx.cov["rule"] = rep["rule"]
    ctx.cov["distribution"] = rep.get("distribution")
    ctx.cov["samples"] += rep.get("samples", [])
    return rep


def check_C18(ctx):
    facts = prepare(ctx, need_ocaml=False)
    rep = tables_tie(ctx, facts)
    ctx.cov["exhaustive"] = True
    ctx.assumptions += [
        "Registry.v is a faithful transcription of the KMIP 1.0-1.4 registry (bootstrapped from the pinned consts.go, reviewed; see DESIGN.md)",
        "translator transcribes constant and tagMap declarations faithfully (cross-checked against the compiler's values and the real encoder by the `tables` suite on this run)",
    ]
    if rep and rep["disagreements"]:
        # the translator and the compiled package disagree: the theorems speak about something else than the code
        d = [x for x in rep["disagreements"] if x["kind"] in ("constant", "tagMap")]
        if d:
            ctx.violation("tie", {"what": "translator output differs from the compiled package", "disagreements": d[:20]},
                          found_input=False)
    if not facts["prop_ok"]:
        rc, out = coq_query(PRINT_PAIRS % "c18_failures")
        fails = parse_pairs(out)
        if fails:
            for kind, name in fails[:10]:
                ctx.violation("table", {"what": kind, "name": name,
                                        "how_to_see": "compare consts.go / tagMap entry for this name with coq/theories/Registry.v"})
        else:
            ctx.violation("theorem", theorem_broken(ctx, facts, "Properties/C18.v no longer checks and no failing table entry was computed"),
                          found_input=False)
    else:
        ctx.cov["samples"].append({"theorem": "C18_constants", "instance": "forall (n,v) in Registry: gen_const n = Some (type, v)",
                                   "entries": "294 tags + 10 types + 43 operations + 4 statuses + 25 reasons + 3 credential types"})
    return ctx.finish()


def check_C19(ctx):
    facts = prepare(ctx, need_ocaml=False)
    rep = tables_tie(ctx, facts)
    ctx.cov["exhaustive"] = True
    ctx.assumptions += [
        "SpecSchema.v is a faithful transcription of KMIP 1.4 sections 2, 3, 4, 6, 7 for the modelled structures (see DESIGN.md)",
        "Registry.v as for C18",
        "translator transcribes struct declarations faithfully (cross-checked against reflect by the `tables` suite on this run)",
    ]
    if rep and rep["disagreements"]:
        d = [x for x in rep["disagreements"] if x["kind"] == "annotation"]
        if d:
            ctx.violation("tie", {"what": "translator output differs from what reflect sees", "disagreements": d[:20]},
                          found_input=False)
    # known findings: deviations recorded in SpecSchema.known_deviations and known_findings.json
    kf = [k for k in known_findings() if k["property"] == "C19" and k["status"] == "open"]
    rc, out = coq_query(PRINT_PAIRS.replace("KMIP.Tables.", "KMIP.Tables KMIP.SpecSchema.") % "filter deviation_real known_deviations")
    real = set(parse_pairs(out))
    for k in kf:
        if (k["match"]["type"], k["match"]["field"]) in real:
            ctx.known.append(k["what"])
    if not facts["prop_ok"]:
        rc, out = coq_query(PRINT_PAIRS % "c19_failures")
        fails = parse_pairs(out)
        listed = {(k["match"]["type"], k["match"]["field"]) for k in kf}
        fails = [f for f in fails if f not in listed]
        if fails:
            for ty, fld in fails[:10]:
                ctx.violation("field", {"what": "field is not put on the wire under the tag / nesting SpecSchema.v (KMIP 1.4) assigns",
                                        "type": ty, "field": fld,
                                        "how_to_see": "annotation of %s.%s in /repo vs row of %s in coq/theories/SpecSchema.v" % (ty, fld, ty)})
        else:
            ctx.violation("theorem", theorem_broken(ctx, facts, "Properties/C19.v no longer checks and no failing field was computed"),
                          found_input=False)
    else:
        ctx.cov["samples"].append({"theorem": "C19_fields", "instance": "all annotated fields of all 58 KMIP struct types vs SpecSchema.v"})
    return ctx.finish()


CHECKS = {"C18": check_C18, "C19": check_C19}
