"""./check <property-id> [--tier quick|thorough] [--replay FILE]

Decides one property of /verif/properties.jsonl for /repo's *current working tree*:
  1. translator: /repo/*.go -> coq/theories/Generated.v (+ harness/gen_consts.go)
  2. full `make` of the Coq development (the theorems; never -vos), then the property's
     own Properties/<id>.v is recompiled so that its Print Assumptions output is captured
  3. the correspondence suites of the property: the Go harness (built from /repo with
     -tags verif) runs the implementation, the extracted OCaml model runs the same cases
  4. evidence/<id>.json is rewritten; on a broken theorem or correspondence a concrete
     failing input is searched for and a replay written; exit 1 + VIOLATION line.
See DESIGN.md sections 1 and 5.
"""
import sys, os, json, subprocess, time, hashlib, re, fcntl, shutil, glob

VERIF = os.path.dirname(os.path.dirname(os.path.abspath(__file__)))
REPO = os.environ.get("VERIF_REPO", "/repo")
COQ = os.path.join(VERIF, "coq")
WORK = os.path.join(VERIF, "work")
GOENV = dict(os.environ, GOFLAGS="-mod=mod", GOPROXY="off", GOSUMDB="off", GOTOOLCHAIN="local",
             GOCACHE=os.environ.get("GOCACHE", os.path.expanduser("~/.cache/go-build")))



def sh(cmd, cwd=None, env=None, timeout=3600, inp=None):
    t0 = time.time()
    p = subprocess.run(cmd, cwd=cwd, env=env, shell=isinstance(cmd, str), stdout=subprocess.PIPE,
                       stderr=subprocess.STDOUT, timeout=timeout, input=inp)
    return p.returncode, p.stdout.decode(errors="replace"), time.time() - t0


class Lock:
    def __enter__(self):
        os.makedirs(WORK, exist_ok=True)
        self.f = open(os.path.join(WORK, ".lock"), "w")
        fcntl.flock(self.f, fcntl.LOCK_EX)
        return self

    def __exit__(self, *a):
        fcntl.flock(self.f, fcntl.LOCK_UN)
        self.f.close()


def repo_state():
    h = hashlib.sha256()
    for f in sorted(glob.glob(os.path.join(REPO, "*.go")) + [os.path.join(REPO, "go.mod")]):
        h.update(f.encode())
        h.update(open(f, "rb").read())
    return h.hexdigest()[:16]


def build_translator():
    exe = os.path.join(VERIF, "translator", "translator")
    src = os.path.join(VERIF, "translator", "main.go")
    if not os.path.exists(exe) or os.path.getmtime(exe) < os.path.getmtime(src):
        rc, out, _ = sh(["go", "build", "-o", "translator", "."], cwd=os.path.join(VERIF, "translator"), env=GOENV)
        if rc != 0:
            raise SystemExit("cannot build translator:\n" + out)
    return exe


def run_translator():
    exe = build_translator()
    rc, out, _ = sh([exe, REPO, os.path.join(COQ, "theories", "Generated.v"),
                     os.path.join(VERIF, "harness", "gen_consts.go")])
    return rc, out


def coq_makefile():
    mk = os.path.join(COQ, "Makefile")
    cp = os.path.join(COQ, "_CoqProject")
    if not os.path.exists(mk) or os.path.getmtime(mk) < os.path.getmtime(cp):
        rc, out, _ = sh("coq_makefile -f _CoqProject -o Makefile", cwd=COQ)
        if rc != 0:
            raise SystemExit("coq_makefile failed:\n" + out)


def coq_build(targets=None, keep_going=True, timeout=3000):
    coq_makefile()
    cmd = ["make", "-j16"] + (["-k"] if keep_going else []) + (targets or [])
    rc, out, dt = sh(["timeout", str(timeout)] + cmd, cwd=COQ, timeout=timeout + 60)
    return rc, out, dt


def coq_failed_files(log):
    return sorted(set(re.findall(r'File "\./(theories/[^"]+)", line', log)))


def compile_property(pid):
    """force-recompile Properties/<pid>.v, return (ok, log, assumptions per theorem)"""
    vo = os.path.join(COQ, "theories", "Properties", pid + ".vo")
    for ext in (".vo", ".glob", ".vok", ".vos"):
        try:
            os.remove(vo[:-3] + ext)
        except FileNotFoundError:
            pass
    rc, out, dt = coq_build(["theories/Properties/%s.vo" % pid], keep_going=False, timeout=1500)
    src = open(os.path.join(COQ, "theories", "Properties", pid + ".v")).read()
    theorems = re.findall(r"^Theorem\s+(\w+)", src, re.M)
    assumptions = []
    if rc == 0:
        # output of the Print Assumptions commands, in order
        blocks = re.split(r"(?m)^(?=Closed under the global context|Axioms:)", out)
        blocks = [b.strip() for b in blocks if b.startswith("Closed under") or b.startswith("Axioms:")]
        for i, t in enumerate(theorems):
            a = blocks[i] if i < len(blocks) else "?"
            a = re.sub(r"\s+", " ", a.split("\nmake")[0]).strip()
            assumptions.append("%s: %s" % (t, a))
    return rc == 0, out, theorems, assumptions, dt


def coq_query(body, timeout=600):
    """evaluate a scratch .v file against the built development; returns stdout"""
    os.makedirs(WORK, exist_ok=True)
    path = os.path.join(WORK, "query_%d.v" % os.getpid())
    open(path, "w").write(body)
    rc, out, _ = sh(["timeout", str(timeout), "coqc", "-R", os.path.join(COQ, "theories"), "KMIP", path], cwd=WORK,
                    timeout=timeout + 30)
    for ext in (".v", ".vo", ".glob", ".vok", ".vos"):
        try:
            os.remove(path[:-2] + ext)
        except FileNotFoundError:
            pass
    try:
        os.remove(os.path.join(WORK, ".query_%d.aux" % os.getpid()))
    except FileNotFoundError:
        pass
    return rc, out


def build_ocaml():
    d = os.path.join(VERIF, "ocaml")
    if not os.path.exists(os.path.join(d, "build.sh")):
        return True, ""
    rc, out, _ = sh(["sh", "build.sh"], cwd=d, timeout=1200)
    return rc == 0, out


def build_harness(race=False):
    d = os.path.join(VERIF, "harness")
    shutil.copy(os.path.join(REPO, "go.sum"), os.path.join(d, "go.sum"))
    exe = "harness.race" if race else "harness"
    cmd = ["go", "build", "-tags", "verif", "-o", exe] + (["-race"] if race else []) + ["."]
    rc, out, _ = sh(cmd, cwd=d, env=GOENV, timeout=1200)
    return rc == 0, out


def run_harness(args, timeout=1800, race=False, env=None):
    exe = os.path.join(VERIF, "harness", "harness.race" if race else "harness")
    e = dict(GOENV)
    if env:
        e.update(env)
    p = subprocess.run(["timeout", str(timeout), exe] + args, cwd=VERIF, env=e, stdout=subprocess.PIPE,
                       stderr=subprocess.PIPE, timeout=timeout + 60)
    out = p.stdout.decode(errors="replace")
    rep = None
    for line in reversed(out.strip().splitlines()):
        line = line.strip()
        if line.startswith("{"):
            try:
                rep = json.loads(line)
                break
            except Exception:
                pass
    return p.returncode, rep, out, p.stderr.decode(errors="replace")


def known_findings():
    try:
        return json.load(open(os.path.join(VERIF, "known_findings.json")))["findings"]
    except FileNotFoundError:
        return []


class Ctx:
    def __init__(self, pid, tier, seed):
        self.pid, self.tier, self.seed = pid, tier, seed
        self.t0 = time.time()
        self.violations = []      # (replay_path, no_input_found: bool)
        self.known = []
        self.cov = {"samples": [], "trusted_base": []}
        self.assumptions = []
        self.notes = []

    def replay(self, name, obj):
        os.makedirs(os.path.join(VERIF, "replays"), exist_ok=True)
        h = hashlib.sha256(json.dumps(obj, sort_keys=True, default=str).encode()).hexdigest()[:10]
        path = os.path.join(VERIF, "replays", "%s-%s-%s.json" % (self.pid, name, h))
        obj = dict(obj, property=self.pid, seed=self.seed, tier=self.tier,
                   replay_cmd="./check %s --replay %s" % (self.pid, path))
        json.dump(obj, open(path, "w"), indent=1, default=str)
        return path

    def violation(self, name, obj, found_input=True):
        if len(self.violations) >= 6:      # a handful of replays is enough to act on
            self.suppressed = getattr(self, "suppressed", 0) + 1
            return
        path = self.replay(name, obj)
        if path not in [p for p, _ in self.violations]:
            self.violations.append((path, found_input))

    def finish(self, level="proof"):
        ev = {
            "property_id": self.pid, "tier": self.tier, "seed": self.seed, "level": level,
            "coverage": self.cov, "assumptions": self.assumptions, "wall_s": round(time.time() - self.t0, 2),
            "violations": len(self.violations),
        }
        if self.notes:
            ev["coverage"]["notes"] = self.notes
        os.makedirs(os.path.join(VERIF, "evidence"), exist_ok=True)
        json.dump(ev, open(os.path.join(VERIF, "evidence", self.pid + ".json"), "w"), indent=1, default=str)
        for k in self.known:
            print("KNOWN-FINDING: property=%s %s" % (self.pid, k))
        for path, found in self.violations:
            print("VIOLATION property=%s replay=%s%s" % (self.pid, path, "" if found else " no-failing-input-found"))
        sys.stdout.flush()
        return 1 if self.violations else 0


FORBIDDEN = re.compile(r"\b(Admitted|admit|Axiom|Axioms|Parameter|Parameters|Conjecture|Admit\s+Obligations|bypass_check|Unset\s+Guard\s+Checking|Unset\s+Positivity\s+Checking|Unset\s+Universe\s+Checking|type-in-type|impredicative-set)\b")


def development_gate():
    """no Axiom/Parameter/Admitted/admit, no switched-off kernel checks, Variable/Hypothesis only inside sections"""
    problems = []
    files = glob.glob(os.path.join(COQ, "theories", "*.v")) + glob.glob(os.path.join(COQ, "theories", "Properties", "*.v"))
    for f in sorted(files):
        if os.path.basename(f) == "Generated.v":
            continue
        depth = 0
        text = open(f).read()
        # drop comments (no nesting tricks are used in this development)
        text = re.sub(r"\(\*.*?\*\)", lambda m: "\n" * m.group(0).count("\n"), text, flags=re.S)
        for i, line in enumerate(text.split("\n"), 1):
            if re.match(r"\s*Section\s+\w+", line):
                depth += 1
            if re.match(r"\s*End\s+\w+\s*\.", line) and depth > 0:
                depth -= 1
            if FORBIDDEN.search(line):
                problems.append("%s:%d: %s" % (os.path.relpath(f, VERIF), i, line.strip()[:120]))
            if depth == 0 and re.match(r"\s*(Variable|Variables|Hypothesis|Hypotheses|Context)\b", line):
                problems.append("%s:%d: outside a section: %s" % (os.path.relpath(f, VERIF), i, line.strip()[:120]))
    for f in [os.path.join(COQ, "_CoqProject")]:
        if re.search(r"type-in-type|impredicative-set|-vos|-vok", open(f).read()):
            problems.append("_CoqProject passes a forbidden flag")
    return problems


def prepare(ctx, need_harness=True, need_ocaml=True, race=False):
    """translator + full Coq build (+ OCaml model, Go harness). Returns dict of build facts."""
    facts = {}
    with Lock():
        rc, out = run_translator()
        facts["translator_ok"] = rc == 0
        facts["translator_log"] = out
        rc, log, dt = coq_build()
        facts["coq_ok"] = rc == 0
        facts["coq_log"] = log
        facts["coq_failed"] = coq_failed_files(log)
        facts["coq_s"] = dt
        if need_ocaml:
            ok, out = build_ocaml()
            facts["ocaml_ok"], facts["ocaml_log"] = ok, out
        if need_harness:
            ok, out = build_harness(False)
            facts["harness_ok"], facts["harness_log"] = ok, out
            if race:
                ok, out = build_harness(True)
                facts["harness_race_ok"], facts["harness_race_log"] = ok, out
        ok, plog, theorems, assumptions, dt2 = compile_property(ctx.pid)
        facts["prop_ok"], facts["prop_log"], facts["theorems"] = ok, plog, theorems
    if ok:
        ctx.cov["obligations"] = len(theorems)
        ctx.cov["discharged"] = len(theorems)
    else:  # theorem file did not check: no proof-level coverage is claimed by this run
        ctx.cov["obligations_not_discharged"] = len(theorems)
    ctx.cov["checker_cmd"] = ("translator /repo -> coq/theories/Generated.v; make -j16 -k (coq_makefile, coqc 8.16.1, full .vo build) "
                              "in /verif/coq; rm+make theories/Properties/%s.vo" % ctx.pid)
    ctx.cov["theorems"] = theorems
    ctx.cov["trusted_base"] += ["Coq 8.16.1 kernel incl. vm_compute (no native_compute)"] + assumptions
    ctx.cov["coq_build_s"] = round(dt + dt2, 1)
    ctx.cov["repo_state"] = repo_state()
    if ctx.tier == "thorough" and ok:
        # independent re-check of the compiled property file and everything it depends on
        rc3, out3, dt3 = sh(["timeout", "2400", "coqchk", "-silent", "-o", "-R", "theories", "KMIP", "KMIP.Properties.%s" % ctx.pid], cwd=COQ, timeout=2500)
        ctx.cov["coqchk"] = {"cmd": "coqchk -silent -o -R theories KMIP KMIP.Properties.%s" % ctx.pid, "exit": rc3, "seconds": round(dt3, 1),
                             "report": [l.strip() for l in out3.strip().splitlines()[-12:] if l.strip()]}
        ctx.cov["trusted_base"].append("coqchk (independent checker) exit %d; axioms reported: %s" % (
            rc3, "; ".join(l.strip() for l in out3.splitlines() if "Axioms" in l) or "?"))
        if rc3 != 0:
            ctx.violation("coqchk", {"what": "coqchk does not accept the compiled development", "log": tail(out3, 30)}, found_input=False)
    gate = development_gate()
    ctx.cov["development_gate"] = "clean: no Axiom/Parameter/Conjecture/Admitted/admit, no disabled kernel checks, Variable/Hypothesis only inside sections" if not gate else gate
    if gate:
        ctx.violation("development-gate", {"what": "the Coq development violates its own rules", "problems": gate}, found_input=False)
    return facts


def tail(s, n=40):
    return "\n".join(s.strip().splitlines()[-n:])


def load_checks():
    import checks
    return checks.CHECKS


def main():
    if len(sys.argv) < 2:
        print(__doc__)
        return 2
    pid = sys.argv[1]
    tier = os.environ.get("VERIF_TIER", "quick")
    replay = None
    a = sys.argv[2:]
    while a:
        if a[0] == "--tier":
            tier = a[1]; a = a[2:]
        elif a[0] == "--replay":
            replay = a[1]; a = a[2:]
        else:
            raise SystemExit("unknown argument " + a[0])
    seed = int(os.environ.get("VERIF_SEED", "1"))
    replay_obj = None
    if replay:
        # a replay re-creates the run that found the violation: same seed and tier, so that the same generated stream
        # (which contains the failing case) is produced again; a codec case is additionally run first, on its own
        try:
            replay_obj = json.load(open(replay))
            seed = int(replay_obj.get("seed", seed))
            tier = replay_obj.get("tier", tier)
        except Exception as e:
            raise SystemExit("cannot read replay file %s: %s" % (replay, e))
    checks = load_checks()
    if pid not in checks:
        raise SystemExit("no check for " + pid)
    ctx = Ctx(pid, tier, seed)
    ctx.replay_file = replay
    ctx.replay_obj = replay_obj
    rc = checks[pid](ctx)
    return rc


if __name__ == "__main__":
    sys.exit(main())
