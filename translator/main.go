// translator: /repo/*.go -> coq/theories/Generated.v (+ harness/gen_consts.go)
//
// Stdlib only (go/parser, go/ast, go/constant, go/token). It transcribes
// *declarations*: constants, the tagMap literal, struct types with their
// `kmip:"..."` annotations, the BuildFieldValue dispatch switches,
// DefaultSupportedVersions, the assignments of the Default*TLSConfig
// functions, package-level variables with the functions that assign them and
// the table of Server/Client field accesses with the lock state.  It makes no
// judgement: classification (fields.go's guessType etc.) is done in Coq.
package main

import (
	"fmt"
	"go/ast"
	"go/constant"
	"go/parser"
	"go/token"
	"os"
	"path/filepath"
	"sort"
	"strconv"
	"strings"
)

var fset = token.NewFileSet()

type constDecl struct {
	Name  string
	Type  string // Tag / Type / Enum / "" (untyped)
	IsStr bool
	Num   string // decimal
	Str   string
	File  string
	Block int
}

var consts []constDecl
var constByName = map[string]*constDecl{}

func coqStr(s string) string {
	return `"` + strings.ReplaceAll(s, `"`, `""`) + `"`
}

func evalConst(e ast.Expr) (constant.Value, bool) {
	switch x := e.(type) {
	case *ast.BasicLit:
		v := constant.MakeFromLiteral(x.Value, x.Kind, 0)
		if v.Kind() == constant.Unknown {
			return nil, false
		}
		return v, true
	case *ast.ParenExpr:
		return evalConst(x.X)
	case *ast.Ident:
		if c, ok := constByName[x.Name]; ok {
			if c.IsStr {
				return constant.MakeString(c.Str), true
			}
			v := constant.MakeFromLiteral(c.Num, token.INT, 0)
			return v, true
		}
		return nil, false
	case *ast.UnaryExpr:
		v, ok := evalConst(x.X)
		if !ok {
			return nil, false
		}
		return constant.UnaryOp(x.Op, v, 0), true
	case *ast.BinaryExpr:
		a, ok1 := evalConst(x.X)
		b, ok2 := evalConst(x.Y)
		if !ok1 || !ok2 {
			return nil, false
		}
		if x.Op == token.SHL || x.Op == token.SHR {
			n, ok := constant.Uint64Val(b)
			if !ok {
				return nil, false
			}
			return constant.Shift(a, x.Op, uint(n)), true
		}
		return constant.BinaryOp(a, x.Op, b), true
	case *ast.CallExpr: // conversion T(x)
		if len(x.Args) == 1 {
			if _, ok := x.Fun.(*ast.Ident); ok {
				return evalConst(x.Args[0])
			}
		}
		return nil, false
	}
	return nil, false
}

func exprString(e ast.Expr) string {
	switch x := e.(type) {
	case *ast.Ident:
		return x.Name
	case *ast.SelectorExpr:
		return exprString(x.X) + "." + x.Sel.Name
	case *ast.StarExpr:
		return "*" + exprString(x.X)
	case *ast.ArrayType:
		if x.Len == nil {
			return "[]" + exprString(x.Elt)
		}
		return "[" + exprString(x.Len) + "]" + exprString(x.Elt)
	case *ast.InterfaceType:
		if x.Methods == nil || len(x.Methods.List) == 0 {
			return "interface{}"
		}
		return "interface{...}"
	case *ast.MapType:
		return "map[" + exprString(x.Key) + "]" + exprString(x.Value)
	case *ast.BasicLit:
		return x.Value
	case *ast.FuncType:
		return "func"
	case *ast.ChanType:
		return "chan " + exprString(x.Value)
	case *ast.StructType:
		return "struct{...}"
	case *ast.CompositeLit:
		return exprString(x.Type) + "{}"
	case *ast.UnaryExpr:
		return x.Op.String() + exprString(x.X)
	case *ast.CallExpr:
		s := exprString(x.Fun) + "("
		for i, a := range x.Args {
			if i > 0 {
				s += ","
			}
			s += exprString(a)
		}
		return s + ")"
	case *ast.ParenExpr:
		return "(" + exprString(x.X) + ")"
	case *ast.BinaryExpr:
		return exprString(x.X) + x.Op.String() + exprString(x.Y)
	case *ast.IndexExpr:
		return exprString(x.X) + "[" + exprString(x.Index) + "]"
	}
	return fmt.Sprintf("<%T>", e)
}

// Go type expression -> Coq term of type gty (Schema.v)
func gty(e ast.Expr) string {
	switch x := e.(type) {
	case *ast.Ident:
		switch x.Name {
		case "int32":
			return "TInt32"
		case "int64":
			return "TInt64"
		case "bool":
			return "TBool"
		case "string":
			return "TString"
		case "Enum":
			return "TEnum"
		case "Tag":
			return "TTagTy"
		case "int", "int8", "int16", "uint", "uint8", "uint16", "uint32", "uint64", "byte", "float32", "float64", "uintptr", "rune", "error", "complex64", "complex128", "any":
			if x.Name == "any" {
				return "TIface"
			}
			return "(TOther " + coqStr(x.Name) + ")"
		}
		return "(TNamed " + coqStr(x.Name) + ")"
	case *ast.SelectorExpr:
		s := exprString(x)
		switch s {
		case "time.Time":
			return "TTime"
		case "time.Duration":
			return "TDuration"
		}
		return "(TOther " + coqStr(s) + ")"
	case *ast.ArrayType:
		if x.Len == nil {
			if id, ok := x.Elt.(*ast.Ident); ok && (id.Name == "byte" || id.Name == "uint8") {
				return "TBytes"
			}
			return "(TSliceOf " + gty(x.Elt) + ")"
		}
		return "(TOther " + coqStr(exprString(x)) + ")"
	case *ast.InterfaceType:
		return "TIface"
	case *ast.ParenExpr:
		return gty(x.X)
	}
	return "(TOther " + coqStr(exprString(e)) + ")"
}

type rawField struct {
	Name     string
	Exported bool
	Type     string // Coq gty
	HasAnn   bool
	Ann      string
}

type rawStruct struct {
	Name   string
	File   string
	Fields []rawField
}

type dispCase struct {
	Keys   []string // Coq dkey terms
	Target string   // Coq dtarget term
}

type dispatch struct {
	Type     string
	KeyField string
	Cases    []dispCase
	Shape    string // "ok" or description of what was not understood
}

func structTagGet(tag, key string) (string, bool) {
	// reflect.StructTag.Lookup
	v, ok := reflectLookup(tag, key)
	return v, ok
}

func reflectLookup(tag, key string) (string, bool) {
	for tag != "" {
		i := 0
		for i < len(tag) && tag[i] == ' ' {
			i++
		}
		tag = tag[i:]
		if tag == "" {
			break
		}
		i = 0
		for i < len(tag) && tag[i] > ' ' && tag[i] != ':' && tag[i] != '"' && tag[i] != 0x7f {
			i++
		}
		if i == 0 || i+1 >= len(tag) || tag[i] != ':' || tag[i+1] != '"' {
			break
		}
		name := tag[:i]
		tag = tag[i+1:]
		i = 1
		for i < len(tag) && tag[i] != '"' {
			if tag[i] == '\\' {
				i++
			}
			i++
		}
		if i >= len(tag) {
			break
		}
		qvalue := tag[:i+1]
		tag = tag[i+1:]
		if key == name {
			value, err := strconv.Unquote(qvalue)
			if err != nil {
				break
			}
			return value, true
		}
	}
	return "", false
}

func main() {
	if len(os.Args) < 4 {
		fmt.Fprintln(os.Stderr, "usage: translator <repo> <Generated.v> <gen_consts.go>")
		os.Exit(2)
	}
	repo, outV, outGo := os.Args[1], os.Args[2], os.Args[3]

	matches, _ := filepath.Glob(filepath.Join(repo, "*.go"))
	sort.Strings(matches)
	var files []*ast.File
	var names []string
	for _, m := range matches {
		if strings.HasSuffix(m, "_test.go") {
			continue
		}
		f, err := parser.ParseFile(fset, m, nil, parser.ParseComments)
		if err != nil {
			fmt.Fprintln(os.Stderr, "parse error:", err)
			os.Exit(1)
		}
		// honour build constraints very simply: skip files guarded by a positive "verif" tag
		skip := false
		for _, cg := range f.Comments {
			if cg.Pos() < f.Package {
				for _, c := range cg.List {
					if strings.HasPrefix(c.Text, "//go:build") && strings.Contains(c.Text, "verif") && !strings.Contains(c.Text, "!verif") {
						skip = true
					}
				}
			}
		}
		if skip {
			continue
		}
		files = append(files, f)
		names = append(names, filepath.Base(m))
	}

	var structs []rawStruct
	var named [][2]string // non-struct named types: name, gty
	var dispatches []dispatch
	var tagMap [][2]string // key, ident
	tagMapFound := false
	var unevaluated []string
	var defaultVersions [][2]string
	defaultVersionsFound := false
	tlsAssign := map[string][][2]string{}
	var pkgVars []pkgVar
	block := 0

	for pass := 0; pass < 2; pass++ {
		for fi, f := range files {
			fname := names[fi]
			for _, d := range f.Decls {
				if gdd, ok := d.(*ast.GenDecl); (ok && gdd.Tok == token.CONST) != (pass == 0) {
					continue
				}
				switch gd := d.(type) {
				case *ast.GenDecl:
					switch gd.Tok {
					case token.CONST:
						block++
						var lastType string
						var lastVals []ast.Expr
						for iota_, sp := range gd.Specs {
							vs := sp.(*ast.ValueSpec)
							typ := ""
							if vs.Type != nil {
								typ = exprString(vs.Type)
							}
							vals := vs.Values
							if len(vals) == 0 { // implicit repetition
								vals = lastVals
								if vs.Type == nil {
									typ = lastType
								}
							} else {
								lastVals = vals
								lastType = typ
							}
							for i, n := range vs.Names {
								if n.Name == "_" {
									continue
								}
								cd := constDecl{Name: n.Name, Type: typ, File: fname, Block: block}
								ok := false
								if i < len(vals) {
									constByName["iota"] = &constDecl{Name: "iota", Num: strconv.Itoa(iota_)}
									v, ok2 := evalConst(vals[i])
									delete(constByName, "iota")
									if ok2 {
										switch v.Kind() {
										case constant.String:
											cd.IsStr = true
											cd.Str = constant.StringVal(v)
											ok = true
										case constant.Int:
											cd.Num = v.ExactString()
											ok = true
										}
									}
								}
								if !ok {
									unevaluated = append(unevaluated, n.Name)
									continue
								}
								consts = append(consts, cd)
								constByName[n.Name] = &consts[len(consts)-1]
							}
						}
						// pointers into consts may have moved: rebuild the map
						for i := range consts {
							constByName[consts[i].Name] = &consts[i]
						}
					case token.TYPE:
						for _, sp := range gd.Specs {
							ts := sp.(*ast.TypeSpec)
							st, ok := ts.Type.(*ast.StructType)
							if !ok {
								named = append(named, [2]string{ts.Name.Name, gty(ts.Type)})
								if _, isIface := ts.Type.(*ast.InterfaceType); isIface {
									named[len(named)-1][1] = "TIface"
								}
								if _, isFunc := ts.Type.(*ast.FuncType); isFunc {
									named[len(named)-1][1] = "(TOther \"func\")"
								}
								continue
							}
							rs := rawStruct{Name: ts.Name.Name, File: fname}
							for _, fl := range st.Fields.List {
								tag := ""
								if fl.Tag != nil {
									tag, _ = strconv.Unquote(fl.Tag.Value)
								}
								ann, has := structTagGet(tag, "kmip")
								t := gty(fl.Type)
								if len(fl.Names) == 0 { // embedded
									nm := exprString(fl.Type)
									nm = strings.TrimPrefix(nm, "*")
									if i := strings.LastIndex(nm, "."); i >= 0 {
										nm = nm[i+1:]
									}
									rs.Fields = append(rs.Fields, rawField{Name: nm, Exported: ast.IsExported(nm), Type: t, HasAnn: has, Ann: ann})
									continue
								}
								for _, n := range fl.Names {
									rs.Fields = append(rs.Fields, rawField{Name: n.Name, Exported: ast.IsExported(n.Name), Type: t, HasAnn: has, Ann: ann})
								}
							}
							structs = append(structs, rs)
						}
					case token.VAR:
						for _, sp := range gd.Specs {
							vs := sp.(*ast.ValueSpec)
							for i, n := range vs.Names {
								pkgVars = append(pkgVars, pkgVar{n.Name, fname})
								if i >= len(vs.Values) {
									continue
								}
								cl, ok := vs.Values[i].(*ast.CompositeLit)
								if !ok {
									continue
								}
								if n.Name == "tagMap" {
									tagMapFound = true
									for _, el := range cl.Elts {
										kv, ok := el.(*ast.KeyValueExpr)
										if !ok {
											tagMap = append(tagMap, [2]string{"?", exprString(el)})
											continue
										}
										k := exprString(kv.Key)
										if bl, ok := kv.Key.(*ast.BasicLit); ok && bl.Kind == token.STRING {
											k, _ = strconv.Unquote(bl.Value)
										}
										tagMap = append(tagMap, [2]string{k, exprString(kv.Value)})
									}
								}
								if n.Name == "DefaultSupportedVersions" {
									defaultVersionsFound = true
									for _, el := range cl.Elts {
										ecl, ok := el.(*ast.CompositeLit)
										maj, min := "?", "?"
										if ok {
											for _, e2 := range ecl.Elts {
												if kv, ok := e2.(*ast.KeyValueExpr); ok {
													v, okv := evalConst(kv.Value)
													s := "?"
													if okv && v.Kind() == constant.Int {
														s = v.ExactString()
													}
													switch exprString(kv.Key) {
													case "Major":
														maj = s
													case "Minor":
														min = s
													}
												}
											}
										}
										defaultVersions = append(defaultVersions, [2]string{maj, min})
									}
								}
							}
						}
					}
				case *ast.FuncDecl:
					// dispatch switches
					if gd.Name.Name == "BuildFieldValue" && gd.Recv != nil && len(gd.Recv.List) == 1 {
						recvT := strings.TrimPrefix(exprString(gd.Recv.List[0].Type), "*")
						recvN := ""
						if len(gd.Recv.List[0].Names) > 0 {
							recvN = gd.Recv.List[0].Names[0].Name
						}
						dp := dispatch{Type: recvT, Shape: "ok"}
						if !strings.HasPrefix(exprString(gd.Recv.List[0].Type), "*") {
							dp.Shape = "value receiver"
						}
						var sw *ast.SwitchStmt
						nstmts := 0
						for _, st := range gd.Body.List {
							switch s := st.(type) {
							case *ast.SwitchStmt:
								sw = s
								nstmts++
							case *ast.ReturnStmt:
							default:
								dp.Shape = "unexpected statement " + fmt.Sprintf("%T", st)
							}
						}
						if sw == nil || nstmts != 1 || sw.Init != nil {
							dp.Shape = "no single switch"
						} else {
							if se, ok := sw.Tag.(*ast.SelectorExpr); ok && exprString(se.X) == recvN {
								dp.KeyField = se.Sel.Name
							} else {
								dp.Shape = "switch tag is not a receiver field"
							}
							for _, cc := range sw.Body.List {
								c := cc.(*ast.CaseClause)
								if c.List == nil { // default
									// must only assign err
									for _, st := range c.Body {
										as, ok := st.(*ast.AssignStmt)
										if !ok || len(as.Lhs) != 1 || exprString(as.Lhs[0]) != "err" {
											dp.Shape = "default case does more than set err"
										}
									}
									continue
								}
								dc := dispCase{}
								for _, k := range c.List {
									v, ok := evalConst(k)
									if !ok {
										dc.Keys = append(dc.Keys, "(DKUnknown "+coqStr(exprString(k))+")")
										continue
									}
									if v.Kind() == constant.String {
										dc.Keys = append(dc.Keys, "(DKStr "+coqStr(constant.StringVal(v))+")")
									} else {
										dc.Keys = append(dc.Keys, "(DKEnum "+v.ExactString()+")")
									}
								}
								dc.Target = "(DTOther \"no single assignment to v\")"
								if len(c.Body) == 1 {
									if as, ok := c.Body[0].(*ast.AssignStmt); ok && len(as.Lhs) == 1 && len(as.Rhs) == 1 && exprString(as.Lhs[0]) == "v" {
										dc.Target = target(as.Rhs[0])
									}
								}
								dp.Cases = append(dp.Cases, dc)
							}
						}
						dispatches = append(dispatches, dp)
					}
					if gd.Recv == nil && (gd.Name.Name == "DefaultServerTLSConfig" || gd.Name.Name == "DefaultClientTLSConfig") {
						param := ""
						if len(gd.Type.Params.List) == 1 && len(gd.Type.Params.List[0].Names) == 1 {
							param = gd.Type.Params.List[0].Names[0].Name
						}
						var as [][2]string
						for _, st := range gd.Body.List {
							a, ok := st.(*ast.AssignStmt)
							if ok && len(a.Lhs) == 1 && len(a.Rhs) == 1 && a.Tok == token.ASSIGN {
								if se, ok := a.Lhs[0].(*ast.SelectorExpr); ok && exprString(se.X) == param {
									as = append(as, [2]string{se.Sel.Name, exprString(a.Rhs[0])})
									continue
								}
							}
							as = append(as, [2]string{"?", fmt.Sprintf("%T", st)})
						}
						tlsAssign[gd.Name.Name] = as
					}
				}
			}
		}
	}

	// which functions assign package-level variables (codec statelessness, C02/C12)
	pv := map[string]bool{}
	for _, v := range pkgVars {
		pv[v.Name] = true
	}
	type pvWrite struct{ Var, Func, File string }
	var pvWrites []pvWrite
	for fi, f := range files {
		for _, d := range f.Decls {
			fd, ok := d.(*ast.FuncDecl)
			if !ok || fd.Body == nil {
				continue
			}
			fn := fd.Name.Name
			if fd.Recv != nil && len(fd.Recv.List) == 1 {
				fn = strings.TrimPrefix(exprString(fd.Recv.List[0].Type), "*") + "." + fn
			}
			locals := map[string]bool{}
			collectLocals(fd, locals)
			ast.Inspect(fd.Body, func(n ast.Node) bool {
				root := func(e ast.Expr) string {
					for {
						switch x := e.(type) {
						case *ast.IndexExpr:
							e = x.X
						case *ast.SelectorExpr:
							e = x.X
						case *ast.StarExpr:
							e = x.X
						case *ast.ParenExpr:
							e = x.X
						case *ast.Ident:
							return x.Name
						default:
							return ""
						}
					}
				}
				switch s := n.(type) {
				case *ast.AssignStmt:
					for _, l := range s.Lhs {
						r := root(l)
						if pv[r] && !locals[r] {
							pvWrites = append(pvWrites, pvWrite{r, fn, names[fi]})
						}
					}
				case *ast.IncDecStmt:
					r := root(s.X)
					if pv[r] && !locals[r] {
						pvWrites = append(pvWrites, pvWrite{r, fn, names[fi]})
					}
				case *ast.CallExpr:
					// delete(m, k) / append through pointer receivers are not tracked; delete is
					if id, ok := s.Fun.(*ast.Ident); ok && id.Name == "delete" && len(s.Args) > 0 {
						r := root(s.Args[0])
						if pv[r] && !locals[r] {
							pvWrites = append(pvWrites, pvWrite{r, fn, names[fi]})
						}
					}
				}
				return true
			})
		}
	}

	accesses := collectAccesses(files, names)
	deepWrites := collectDeepWrites(files)
	backoff := collectBackoff(files)
	layout := collectPrimLayout(files)

	// ---------------- emit Generated.v ----------------
	var b strings.Builder
	w := func(format string, a ...interface{}) { fmt.Fprintf(&b, format, a...) }
	w("(* GENERATED by /verif/translator from %s on every run - do not edit *)\n", repo)
	w("From Coq Require Import List String NArith ZArith.\nRequire Import Schema.\nImport ListNotations.\nOpen Scope string_scope.\nOpen Scope N_scope.\n\n")
	w("Definition gen_source_files : list string := [%s].\n\n", joinMap(names, coqStr, "; "))
	w("Definition gen_unevaluated_consts : list string := [%s].\n\n", joinMap(unevaluated, coqStr, "; "))
	w("(* numeric constants: name, declared Go type, value, const block number *)\n")
	w("Definition gen_consts : list (string * string * N * N) := [\n")
	first := true
	for _, c := range consts {
		if c.IsStr {
			continue
		}
		if strings.HasPrefix(c.Num, "-") {
			unevaluated = append(unevaluated, c.Name)
			continue
		}
		if !first {
			w(";\n")
		}
		first = false
		w("  (%s, %s, %s, %d)", coqStr(c.Name), coqStr(c.Type), c.Num, c.Block)
	}
	w("\n].\n\n")
	w("Definition gen_strconsts : list (string * string) := [\n")
	first = true
	for _, c := range consts {
		if !c.IsStr {
			continue
		}
		if !first {
			w(";\n")
		}
		first = false
		w("  (%s, %s)", coqStr(c.Name), coqStr(c.Str))
	}
	w("\n].\n\n")
	w("Definition gen_tagmap_found : bool := %v.\n", tagMapFound)
	w("(* tagMap literal: key string, identifier on the right-hand side *)\n")
	w("Definition gen_tagmap : list (string * string) := [\n")
	for i, kv := range tagMap {
		if i > 0 {
			w(";\n")
		}
		w("  (%s, %s)", coqStr(kv[0]), coqStr(kv[1]))
	}
	w("\n].\n\n")
	w("Definition gen_named : list (string * gty) := [\n")
	for i, n := range named {
		if i > 0 {
			w(";\n")
		}
		w("  (%s, %s)", coqStr(n[0]), n[1])
	}
	w("\n].\n\n")
	w("Definition gen_structs : list rawstruct := [\n")
	for i, s := range structs {
		if i > 0 {
			w(";\n")
		}
		w("  {| rs_name := %s; rs_file := %s; rs_fields := [\n", coqStr(s.Name), coqStr(s.File))
		for j, f := range s.Fields {
			if j > 0 {
				w(";\n")
			}
			w("      {| rf_name := %s; rf_exported := %v; rf_type := %s; rf_has_ann := %v; rf_ann := %s |}", coqStr(f.Name), f.Exported, f.Type, f.HasAnn, coqStr(f.Ann))
		}
		w("] |}")
	}
	w("\n].\n\n")
	w("Definition gen_dispatch : list rawdispatch := [\n")
	for i, d := range dispatches {
		if i > 0 {
			w(";\n")
		}
		w("  {| rd_type := %s; rd_keyfield := %s; rd_shape := %s; rd_cases := [\n", coqStr(d.Type), coqStr(d.KeyField), coqStr(d.Shape))
		for j, c := range d.Cases {
			if j > 0 {
				w(";\n")
			}
			w("      ([%s], %s)", strings.Join(c.Keys, "; "), c.Target)
		}
		w("] |}")
	}
	w("\n].\n\n")
	w("Definition gen_default_versions_found : bool := %v.\n", defaultVersionsFound)
	{
		var o []string
		for _, x := range defaultVersions {
			a, b := x[0], x[1]
			if a == "?" {
				a = "-1"
			}
			if b == "?" {
				b = "-1"
			}
			o = append(o, "(("+a+")%Z, ("+b+")%Z)")
		}
		w("Definition gen_default_versions : list (Z * Z) := [%s].\n\n", strings.Join(o, "; "))
	}
	for _, fn := range []string{"DefaultServerTLSConfig", "DefaultClientTLSConfig"} {
		as, ok := tlsAssign[fn]
		w("Definition gen_%s_found : bool := %v.\n", fn, ok)
		w("Definition gen_%s : list (string * string) := [%s].\n\n", fn, joinMap2(as, "; "))
	}
	w("(* package-level variables and the functions that assign to them *)\n")
	w("Definition gen_pkg_vars : list (string * string) := [%s].\n", joinMapPV(pkgVars))
	w("Definition gen_pkg_var_writes : list (string * string * string) := [")
	for i, x := range pvWrites {
		if i > 0 {
			w("; ")
		}
		w("(%s, %s, %s)", coqStr(x.Var), coqStr(x.Func), coqStr(x.File))
	}
	w("].\n\n")
	w("(* accesses to Server / Client fields: function, receiver type, field, write?, mutex held?, inside go-closure? *)\n")
	w("Definition gen_accesses : list access := [\n")
	for i, a := range accesses {
		if i > 0 {
			w(";\n")
		}
		w("  {| ac_func := %s; ac_recv := %s; ac_field := %s; ac_write := %v; ac_locked := %v; ac_in_go := %v; ac_in_loop := %v; ac_kind := %s |}", coqStr(a.Func), coqStr(a.Recv), coqStr(a.Field), a.Write, a.Locked, a.InGo, a.InLoop, coqStr(a.Kind))
	}
	w("\n].\n\n")
	w("(* fixed-length primitives as the code reads / writes them: function, item type constant, length (decode_core.go: expectType + expectLength; encode_core.go: writeTagTypeLength) *)\n")
	w("Definition gen_prim_layout : list (string * string * N) := [")
	for i, l := range layout {
		if i > 0 {
			w("; ")
		}
		w("(%s, %s, %s)", coqStr(l[0]), coqStr(l[1]), l[2])
	}
	w("].\n\n")
	w("(* the constants of Serve's back-off on temporary Accept errors, in milliseconds: first delay, factor, cap (None: not recognised) *)\n")
	w("Definition gen_backoff : option (N * N * N) := %s.\n\n", backoff)
	w("(* assignments in methods of Server / Client that go THROUGH a pointer held in one of the receiver's fields (or a local copy of\n   that pointer): function, receiver type, field, assigned path - memory the caller supplied (TLSConfig, Log) *)\n")
	w("Definition gen_deep_writes : list (string * string * string * string) := [")
	for i, d := range deepWrites {
		if i > 0 {
			w("; ")
		}
		w("(%s, %s, %s, %s)", coqStr(d[0]), coqStr(d[1]), coqStr(d[2]), coqStr(d[3]))
	}
	w("].\n")
	if err := writeIfChanged(outV, b.String()); err != nil {
		fmt.Fprintln(os.Stderr, err)
		os.Exit(1)
	}

	// ---------------- emit gen_consts.go for the harness (cross-check of this translator) ----------------
	var g strings.Builder
	g.WriteString("// Code generated by /verif/translator; DO NOT EDIT.\n\npackage main\n\nimport (\n\t\"reflect\"\n\n\tkmip \"github.com/smira/go-kmip\"\n)\n\n")
	g.WriteString("// the compiler's value of every exported numeric constant the translator saw\nvar genNumConsts = []struct {\n\tName string\n\tVal  uint64\n}{\n")
	for _, c := range consts {
		if c.IsStr || !ast.IsExported(c.Name) || strings.HasPrefix(c.Num, "-") {
			continue
		}
		fmt.Fprintf(&g, "\t{%q, uint64(kmip.%s)},\n", c.Name, c.Name)
	}
	g.WriteString("}\n\nvar genStrConsts = []struct{ Name, Val string }{\n")
	for _, c := range consts {
		if !c.IsStr || !ast.IsExported(c.Name) {
			continue
		}
		fmt.Fprintf(&g, "\t{%q, kmip.%s},\n", c.Name, c.Name)
	}
	g.WriteString("}\n\n// translator's own evaluation, for comparison\nvar genNumConstsTranslator = map[string]string{\n")
	for _, c := range consts {
		if c.IsStr || !ast.IsExported(c.Name) || strings.HasPrefix(c.Num, "-") {
			continue
		}
		fmt.Fprintf(&g, "\t%q: %q,\n", c.Name, c.Num)
	}
	g.WriteString("}\n\nvar genTagMapKeys = []string{\n")
	for _, kv := range tagMap {
		fmt.Fprintf(&g, "\t%q,\n", kv[0])
	}
	g.WriteString("}\n\n// every struct type with at least one kmip annotation\nvar genTypes = map[string]reflect.Type{\n")
	for _, st := range structs {
		has := false
		for _, f := range st.Fields {
			has = has || f.HasAnn
		}
		if has && ast.IsExported(st.Name) {
			fmt.Fprintf(&g, "\t%q: reflect.TypeOf(kmip.%s{}),\n", st.Name, st.Name)
		}
	}
	g.WriteString("}\n\n// translator's view of the annotated fields: Type.Field -> annotation\nvar genFieldAnn = map[string]string{\n")
	for _, st := range structs {
		for _, f := range st.Fields {
			if f.HasAnn {
				fmt.Fprintf(&g, "\t%q: %q,\n", st.Name+"."+f.Name, f.Ann)
			}
		}
	}
	g.WriteString("}\n\nvar genTagMapIdents = map[string]string{\n")
	for _, kv := range tagMap {
		fmt.Fprintf(&g, "\t%q: %q,\n", kv[0], kv[1])
	}
	g.WriteString("}\n")
	if outGo != "-" {
		if err := writeIfChanged(outGo, g.String()); err != nil {
			fmt.Fprintln(os.Stderr, err)
			os.Exit(1)
		}
	}
}

func target(e ast.Expr) string {
	switch x := e.(type) {
	case *ast.UnaryExpr:
		if x.Op == token.AND {
			if cl, ok := x.X.(*ast.CompositeLit); ok && len(cl.Elts) == 0 {
				if id, ok := cl.Type.(*ast.Ident); ok {
					return "(DTPtr " + coqStr(id.Name) + ")"
				}
			}
		}
	case *ast.CallExpr:
		if id, ok := x.Fun.(*ast.Ident); ok && len(x.Args) == 1 {
			if v, okv := evalConst(x.Args[0]); okv && v.Kind() == constant.Int && v.ExactString() == "0" {
				switch id.Name {
				case "Enum":
					return "(DTPrim KEnum)"
				case "int32":
					return "(DTPrim KInt)"
				case "int64":
					return "(DTPrim KLong)"
				}
			}
		}
	case *ast.BasicLit:
		if x.Kind == token.STRING && (x.Value == `""` || x.Value == "``") {
			return "(DTPrim KStr)"
		}
	case *ast.Ident:
		if x.Name == "false" {
			return "(DTPrim KBool)"
		}
	case *ast.CompositeLit:
		if len(x.Elts) == 0 {
			s := exprString(x.Type)
			if s == "time.Time" {
				return "(DTPrim KTime)"
			}
			if s == "[]byte" {
				return "(DTPrim KBytes)"
			}
			return "(DTValStruct " + coqStr(s) + ")"
		}
	}
	return "(DTOther " + coqStr(exprString(e)) + ")"
}

func collectLocals(fd *ast.FuncDecl, locals map[string]bool) {
	add := func(fl *ast.FieldList) {
		if fl == nil {
			return
		}
		for _, f := range fl.List {
			for _, n := range f.Names {
				locals[n.Name] = true
			}
		}
	}
	add(fd.Recv)
	add(fd.Type.Params)
	add(fd.Type.Results)
	ast.Inspect(fd.Body, func(n ast.Node) bool {
		switch s := n.(type) {
		case *ast.AssignStmt:
			if s.Tok == token.DEFINE {
				for _, l := range s.Lhs {
					if id, ok := l.(*ast.Ident); ok {
						locals[id.Name] = true
					}
				}
			}
		case *ast.ValueSpec:
			for _, n := range s.Names {
				locals[n.Name] = true
			}
		case *ast.RangeStmt:
			if s.Tok == token.DEFINE {
				if id, ok := s.Key.(*ast.Ident); ok {
					locals[id.Name] = true
				}
				if id, ok := s.Value.(*ast.Ident); ok {
					locals[id.Name] = true
				}
			}
		}
		return true
	})
}

// collectPrimLayout: for every method read* of Decoder the item type and length it insists on (first d.expectType(X) and
// d.expectLength(<int>)), for every method write* of Encoder the header it writes (e.writeTagTypeLength(t, X, <int>)).
func collectPrimLayout(files []*ast.File) [][3]string {
	var out [][3]string
	for _, f := range files {
		for _, d := range f.Decls {
			fd, ok := d.(*ast.FuncDecl)
			if !ok || fd.Body == nil || fd.Recv == nil || len(fd.Recv.List) != 1 {
				continue
			}
			recvT := strings.TrimPrefix(exprString(fd.Recv.List[0].Type), "*")
			isRead := recvT == "Decoder" && strings.HasPrefix(fd.Name.Name, "read")
			isWrite := recvT == "Encoder" && strings.HasPrefix(fd.Name.Name, "write")
			if !isRead && !isWrite {
				continue
			}
			typ, length := "", ""
			ast.Inspect(fd.Body, func(n ast.Node) bool {
				call, ok := n.(*ast.CallExpr)
				if !ok {
					return true
				}
				se, ok := call.Fun.(*ast.SelectorExpr)
				if !ok {
					return true
				}
				switch {
				case isRead && se.Sel.Name == "expectType" && len(call.Args) == 1 && typ == "":
					if id, ok := call.Args[0].(*ast.Ident); ok {
						typ = id.Name
					}
				case isRead && se.Sel.Name == "expectLength" && len(call.Args) == 1 && length == "":
					if lit, ok := call.Args[0].(*ast.BasicLit); ok && lit.Kind == token.INT {
						length = lit.Value
					}
				case isWrite && se.Sel.Name == "writeTagTypeLength" && len(call.Args) == 3 && typ == "":
					id, ok1 := call.Args[1].(*ast.Ident)
					lit, ok2 := call.Args[2].(*ast.BasicLit)
					if ok1 && ok2 && lit.Kind == token.INT {
						typ, length = id.Name, lit.Value
					}
				}
				return true
			})
			if typ != "" && length != "" {
				out = append(out, [3]string{fd.Name.Name, typ, length})
			}
		}
	}
	sort.Slice(out, func(i, j int) bool { return out[i][0] < out[j][0] })
	return out
}

// collectBackoff reads the three constants of the accept loop's back-off out of Server.Serve:
//   tempDelay = <a> * time.<Unit>        (the only plain assignment of a product to tempDelay)
//   tempDelay *= <f>
//   if max := <c> * time.<Unit>; tempDelay > max { ... }
// and prints them as a Coq option value in milliseconds.
func collectBackoff(files []*ast.File) string {
	ms := func(e ast.Expr) (int64, bool) {
		be, ok := e.(*ast.BinaryExpr)
		if !ok || be.Op != token.MUL {
			return 0, false
		}
		lit, ok := be.X.(*ast.BasicLit)
		sel, ok2 := be.Y.(*ast.SelectorExpr)
		if !ok || !ok2 || lit.Kind != token.INT || exprString(sel.X) != "time" {
			return 0, false
		}
		n, err := strconv.ParseInt(lit.Value, 0, 64)
		if err != nil {
			return 0, false
		}
		switch sel.Sel.Name {
		case "Millisecond":
			return n, true
		case "Second":
			return n * 1000, true
		case "Minute":
			return n * 60000, true
		}
		return 0, false
	}
	var first, factor, cap []int64
	for _, f := range files {
		for _, d := range f.Decls {
			fd, ok := d.(*ast.FuncDecl)
			if !ok || fd.Body == nil || fd.Name.Name != "Serve" || fd.Recv == nil {
				continue
			}
			ast.Inspect(fd.Body, func(n ast.Node) bool {
				switch x := n.(type) {
				case *ast.AssignStmt:
					if len(x.Lhs) == 1 && len(x.Rhs) == 1 && exprString(x.Lhs[0]) == "tempDelay" {
						switch x.Tok {
						case token.ASSIGN:
							if v, ok := ms(x.Rhs[0]); ok {
								first = append(first, v)
							}
						case token.MUL_ASSIGN:
							if lit, ok := x.Rhs[0].(*ast.BasicLit); ok && lit.Kind == token.INT {
								if v, err := strconv.ParseInt(lit.Value, 0, 64); err == nil {
									factor = append(factor, v)
								}
							} else {
								factor = append(factor, -1)
							}
						default:
							factor = append(factor, -1) // some other compound assignment: not understood
						}
					}
				case *ast.IfStmt:
					if as, ok := x.Init.(*ast.AssignStmt); ok && len(as.Lhs) == 1 && len(as.Rhs) == 1 {
						if be, ok := x.Cond.(*ast.BinaryExpr); ok && be.Op == token.GTR && exprString(be.X) == "tempDelay" && exprString(be.Y) == exprString(as.Lhs[0]) {
							if v, ok := ms(as.Rhs[0]); ok {
								cap = append(cap, v)
							}
						}
					}
				}
				return true
			})
		}
	}
	if len(first) != 1 || len(factor) != 1 || len(cap) != 1 || factor[0] < 0 {
		return "None"
	}
	return fmt.Sprintf("Some (%d, %d, %d)", first[0], factor[0], cap[0])
}

// collectDeepWrites: for every method of Server and Client, the assignments (=, op=, ++/--) whose target is reached through a
// pointer-typed field of the receiver - recv.F.g = .., recv.F.g[i] = .., *recv.F = .. - or through a local variable that
// was assigned that pointer (x := recv.F; x.g = ..).  A local that MAY hold the field's pointer counts (no flow sensitivity).
func collectDeepWrites(files []*ast.File) [][4]string {
	ptrFields := map[string]map[string]bool{}
	for _, f := range files {
		for _, d := range f.Decls {
			gd, ok := d.(*ast.GenDecl)
			if !ok {
				continue
			}
			for _, sp := range gd.Specs {
				ts, ok := sp.(*ast.TypeSpec)
				if !ok || (ts.Name.Name != "Server" && ts.Name.Name != "Client") {
					continue
				}
				st, ok := ts.Type.(*ast.StructType)
				if !ok {
					continue
				}
				m := map[string]bool{}
				for _, fl := range st.Fields.List {
					if _, isPtr := fl.Type.(*ast.StarExpr); isPtr {
						for _, n := range fl.Names {
							m[n.Name] = true
						}
					}
				}
				ptrFields[ts.Name.Name] = m
			}
		}
	}
	var out [][4]string
	for _, f := range files {
		for _, d := range f.Decls {
			fd, ok := d.(*ast.FuncDecl)
			if !ok || fd.Body == nil || fd.Recv == nil || len(fd.Recv.List) != 1 || len(fd.Recv.List[0].Names) != 1 {
				continue
			}
			recvT := strings.TrimPrefix(exprString(fd.Recv.List[0].Type), "*")
			pf := ptrFields[recvT]
			if pf == nil {
				continue
			}
			recvN := fd.Recv.List[0].Names[0].Name
			aliases := map[string]string{}
			unparen := func(e ast.Expr) ast.Expr {
				for {
					p, ok := e.(*ast.ParenExpr)
					if !ok {
						return e
					}
					e = p.X
				}
			}
			// the pointer field an expression denotes: recv.F itself or a local alias of it
			ptrOf := func(e ast.Expr) (string, bool) {
				e = unparen(e)
				if se, ok := e.(*ast.SelectorExpr); ok {
					if id, ok := se.X.(*ast.Ident); ok && id.Name == recvN && pf[se.Sel.Name] {
						return se.Sel.Name, true
					}
				}
				if id, ok := e.(*ast.Ident); ok {
					if fld, ok := aliases[id.Name]; ok {
						return fld, true
					}
				}
				return "", false
			}
			// is the assignment target reached through such a pointer?
			var through func(e ast.Expr) (string, bool)
			through = func(e ast.Expr) (string, bool) {
				switch x := unparen(e).(type) {
				case *ast.SelectorExpr:
					if fld, ok := ptrOf(x.X); ok {
						return fld, true
					}
					return through(x.X)
				case *ast.IndexExpr:
					return through(x.X)
				case *ast.StarExpr:
					if fld, ok := ptrOf(x.X); ok {
						return fld, true
					}
					return through(x.X)
				}
				return "", false
			}
			ast.Inspect(fd.Body, func(n ast.Node) bool {
				switch x := n.(type) {
				case *ast.AssignStmt:
					if len(x.Lhs) == len(x.Rhs) {
						for i, l := range x.Lhs {
							if id, ok := l.(*ast.Ident); ok {
								if fld, ok := ptrOf(x.Rhs[i]); ok {
									aliases[id.Name] = fld
								}
							}
						}
					}
					for _, l := range x.Lhs {
						if fld, ok := through(l); ok {
							out = append(out, [4]string{fd.Name.Name, recvT, fld, exprString(l)})
						}
					}
				case *ast.IncDecStmt:
					if fld, ok := through(x.X); ok {
						out = append(out, [4]string{fd.Name.Name, recvT, fld, exprString(x.X)})
					}
				case *ast.ValueSpec:
					for i, id := range x.Names {
						if i < len(x.Values) {
							if fld, ok := ptrOf(x.Values[i]); ok {
								aliases[id.Name] = fld
							}
						}
					}
				}
				return true
			})
		}
	}
	return out
}

type access struct {
	Func, Recv, Field, Kind       string
	Write, Locked, InGo, InLoop bool
}

// collectAccesses walks every method of Server and Client and records each
// syntactic access recv.field with: is it assigned / passed by address or
// method-called (Kind), is recv.mu held at that point (Lock()..Unlock() in
// straight-line order, `defer recv.mu.Unlock()` holds to the end), is it
// inside a `go func(){...}` literal.
func collectAccesses(files []*ast.File, names []string) []access {
	var out []access
	for _, f := range files {
		for _, d := range f.Decls {
			fd, ok := d.(*ast.FuncDecl)
			if !ok || fd.Body == nil || fd.Recv == nil || len(fd.Recv.List) != 1 || len(fd.Recv.List[0].Names) != 1 {
				continue
			}
			recvT := strings.TrimPrefix(exprString(fd.Recv.List[0].Type), "*")
			if recvT != "Server" && recvT != "Client" {
				continue
			}
			recvN := fd.Recv.List[0].Names[0].Name
			locked := false
			inLoop := false
			var walk func(n ast.Node, inGo bool)
			isMu := func(call *ast.CallExpr, meth string) bool {
				se, ok := call.Fun.(*ast.SelectorExpr)
				if !ok || se.Sel.Name != meth {
					return false
				}
				return exprString(se.X) == recvN+".mu"
			}
			record := func(se *ast.SelectorExpr, write bool, kind string, inGo bool) {
				out = append(out, access{Func: fd.Name.Name, Recv: recvT, Field: se.Sel.Name, Write: write, Locked: locked, InGo: inGo, InLoop: inLoop, Kind: kind})
			}
			var visitExpr func(e ast.Node, inGo bool)
			visitExpr = func(e ast.Node, inGo bool) {
				ast.Inspect(e, func(n ast.Node) bool {
					switch x := n.(type) {
					case *ast.FuncLit:
						walk(x.Body, inGo)
						return false
					case *ast.CallExpr:
						// method call on a field: recv.f.M(...)
						if se, ok := x.Fun.(*ast.SelectorExpr); ok {
							if inner, ok := se.X.(*ast.SelectorExpr); ok && exprString(inner.X) == recvN {
								if inner.Sel.Name != "mu" {
									record(inner, false, "call:"+se.Sel.Name, inGo)
								}
								for _, a := range x.Args {
									visitExpr(a, inGo)
								}
								return false
							}
						}
					case *ast.SelectorExpr:
						if exprString(x.X) == recvN {
							if x.Sel.Name != "mu" {
								record(x, false, "read", inGo)
							}
							return false
						}
					}
					return true
				})
			}
			walk = func(n ast.Node, inGo bool) {
				switch s := n.(type) {
				case nil:
				case *ast.BlockStmt:
					for _, st := range s.List {
						walk(st, inGo)
					}
				case *ast.ExprStmt:
					if call, ok := s.X.(*ast.CallExpr); ok {
						if isMu(call, "Lock") {
							locked = true
							return
						}
						if isMu(call, "Unlock") {
							locked = false
							return
						}
					}
					visitExpr(s.X, inGo)
				case *ast.DeferStmt:
					if isMu(s.Call, "Unlock") {
						return // held to the end of the function
					}
					if fl, ok := s.Call.Fun.(*ast.FuncLit); ok {
						// deferred closure runs at function exit: lock state unknown -> treat as not locked
						saved := locked
						locked = false
						walk(fl.Body, inGo)
						locked = saved
						return
					}
					visitExpr(s.Call, inGo)
				case *ast.GoStmt:
					if fl, ok := s.Call.Fun.(*ast.FuncLit); ok {
						saved := locked
						locked = false
						walk(fl.Body, true)
						locked = saved
						return
					}
					visitExpr(s.Call, inGo)
				case *ast.AssignStmt:
					for _, l := range s.Lhs {
						if se, ok := l.(*ast.SelectorExpr); ok && exprString(se.X) == recvN {
							record(se, true, "assign", inGo)
						} else if ix, ok := l.(*ast.IndexExpr); ok {
							if se, ok := ix.X.(*ast.SelectorExpr); ok && exprString(se.X) == recvN {
								record(se, true, "index-assign", inGo)
							} else {
								visitExpr(ix.X, inGo)
							}
							visitExpr(ix.Index, inGo)
						} else {
							visitExpr(l, inGo)
						}
					}
					for _, r := range s.Rhs {
						visitExpr(r, inGo)
					}
				case *ast.IfStmt:
					walk(s.Init, inGo)
					visitExpr(s.Cond, inGo)
					saved := locked
					walk(s.Body, inGo)
					locked = saved
					walk(s.Else, inGo)
					locked = saved
				case *ast.ForStmt:
					walk(s.Init, inGo)
					if s.Cond != nil {
						visitExpr(s.Cond, inGo)
					}
					walk(s.Post, inGo)
					savedLoop := inLoop
					inLoop = true
					walk(s.Body, inGo)
					inLoop = savedLoop
				case *ast.RangeStmt:
					visitExpr(s.X, inGo)
					savedLoop := inLoop
					inLoop = true
					walk(s.Body, inGo)
					inLoop = savedLoop
				case *ast.SwitchStmt:
					walk(s.Init, inGo)
					if s.Tag != nil {
						visitExpr(s.Tag, inGo)
					}
					walk(s.Body, inGo)
				case *ast.TypeSwitchStmt:
					walk(s.Init, inGo)
					walk(s.Assign, inGo)
					walk(s.Body, inGo)
				case *ast.SelectStmt:
					walk(s.Body, inGo)
				case *ast.CaseClause:
					for _, e := range s.List {
						visitExpr(e, inGo)
					}
					for _, st := range s.Body {
						walk(st, inGo)
					}
				case *ast.CommClause:
					walk(s.Comm, inGo)
					for _, st := range s.Body {
						walk(st, inGo)
					}
				case *ast.ReturnStmt:
					for _, r := range s.Results {
						visitExpr(r, inGo)
					}
				case *ast.DeclStmt:
					visitExpr(s, inGo)
				case *ast.IncDecStmt:
					if se, ok := s.X.(*ast.SelectorExpr); ok && exprString(se.X) == recvN {
						record(se, true, "incdec", inGo)
					} else {
						visitExpr(s.X, inGo)
					}
				case *ast.SendStmt:
					visitExpr(s.Chan, inGo)
					visitExpr(s.Value, inGo)
				case *ast.LabeledStmt:
					walk(s.Stmt, inGo)
				case *ast.BranchStmt, *ast.EmptyStmt:
				default:
					visitExpr(n, inGo)
				}
			}
			walk(fd.Body, false)
		}
	}
	return out
}

func joinMap(xs []string, f func(string) string, sep string) string {
	var o []string
	for _, x := range xs {
		o = append(o, f(x))
	}
	return strings.Join(o, sep)
}

func joinMap2(xs [][2]string, sep string) string {
	var o []string
	for _, x := range xs {
		o = append(o, "("+coqStr(x[0])+", "+coqStr(x[1])+")")
	}
	return strings.Join(o, sep)
}

type pkgVar struct{ Name, File string }

func joinMapPV(xs []pkgVar) string {
	var o []string
	for _, x := range xs {
		o = append(o, "("+coqStr(x.Name)+", "+coqStr(x.File)+")")
	}
	return strings.Join(o, "; ")
}

func writeIfChanged(path, content string) error {
	old, err := os.ReadFile(path)
	if err == nil && string(old) == content {
		return nil
	}
	return os.WriteFile(path, []byte(content), 0o644)
}
