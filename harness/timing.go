package main

// timing suite (C15): real-time scenarios with wide margins, and the values of the deadlines.

import (
	"crypto/tls"
	"flag"
	"io"
	"log"
	"net"
	"time"

	kmip "github.com/smira/go-kmip"
)

func init() { suites["timing"] = suiteTiming }

func dvRequest() []byte {
	req := kmip.Request{Header: kmip.RequestHeader{Version: kmip.ProtocolVersion{Major: 1, Minor: 4}, BatchCount: 1},
		BatchItems: []kmip.RequestBatchItem{{Operation: kmip.OPERATION_DISCOVER_VERSIONS, RequestPayload: kmip.DiscoverVersionsRequest{}}}}
	_, b := implEncode(&req)
	return b
}

type timingServer struct {
	srv    *kmip.Server
	lis    *memListener
	served chan error
}

func newTimingServer(rt, wt time.Duration) *timingServer {
	s := &kmip.Server{ReadTimeout: rt, WriteTimeout: wt, Log: log.New(io.Discard, "", 0)}
	ts := &timingServer{srv: s, lis: newMemListener(), served: make(chan error, 1)}
	init := make(chan struct{})
	go func() { ts.served <- s.Serve(ts.lis, init) }()
	<-init
	return ts
}

func (ts *timingServer) stop() {
	ctx, cancel := contextWithTimeout(2 * time.Second)
	defer cancel()
	ts.srv.Shutdown(ctx)
}

func countResponses(mc *memConn) int {
	mc.mu.Lock()
	defer mc.mu.Unlock()
	return len(splitMessages(mc.out))
}

func suiteTiming(args []string) {
	fs := flag.NewFlagSet("timing", flag.ExitOnError)
	seed := fs.Int64("seed", 1, "")
	long := fs.Bool("long", false, "")
	scale := fs.Int("scale", 1, "multiplier of every timeout (confirmation runs on a loaded machine)")
	fs.String("dir", "", "")
	fs.Parse(args)
	rep := &Report{Suite: "timing", Seed: *seed, Distribution: map[string]int{}}
	rep.Rule = "each evaluation is one real-time scenario on an in-memory connection with working deadlines; all are distinct"
	viol := func(kind string, m map[string]interface{}) {
		m["kind"] = kind
		rep.Violations = append(rep.Violations, m)
	}
	T := time.Duration(*scale) * 200 * time.Millisecond
	req := dvRequest()
	nTimely := 8
	if *long {
		nTimely = 40
	}

	// (a) a connection that keeps completing requests in time is never cut off because of its age
	func() {
		ts := newTimingServer(T, T)
		defer ts.stop()
		mc := newMemConn("a")
		ts.lis.ch <- acceptResult{conn: mc}
		start := time.Now()
		for i := 0; i < nTimely; i++ {
			time.Sleep(T / 3)
			mc.peerSend(req)
			if !mc.waitUntil(2*time.Second, func() bool { return len(splitMessages(mc.out)) >= i+1 || mc.localClosed }) || mc.localClosed {
				viol("deadline", map[string]interface{}{"scenario": "timely requests", "what": "connection cut off although every request arrived within ReadTimeout of the previous response", "request_index": i, "age_ms": time.Since(start).Milliseconds(), "read_timeout_ms": T.Milliseconds()})
				break
			}
		}
		rep.Evaluations++
		rep.Samples = append(rep.Samples, map[string]interface{}{"scenario": "timely requests", "requests": nTimely, "total_ms": time.Since(start).Milliseconds(), "timeout_ms": T.Milliseconds()})
		// deadline values: each arm is now + T
		for _, e := range mc.snapshot() {
			if e.kind == "armr" || e.kind == "armw" {
				d := e.dl.Sub(e.at)
				if d < T-50*time.Millisecond || d > T+50*time.Millisecond {
					viol("deadline", map[string]interface{}{"scenario": "deadline value", "what": "deadline is not now + timeout", "event": e.kind, "delta_ms": d.Milliseconds(), "timeout_ms": T.Milliseconds()})
					break
				}
			}
		}
		mc.peerClose()
	}()

	// (a1) the read deadline is per MESSAGE: a peer that starts a request and then lets one byte trickle in every T/4 is
	// disconnected about T after the server began waiting for that request - it cannot keep the connection for ever
	func() {
		ts := newTimingServer(T, T)
		defer ts.stop()
		mc := newMemConn("trickle")
		ts.lis.ch <- acceptResult{conn: mc}
		start := time.Now()
		cut := time.Duration(0)
		for i := 0; i < 40 && i < len(req)-1; i++ { // 40 x T/4 = 10 T, never a complete request
			mc.peerSend(req[i : i+1])
			if mc.waitUntil(T/4, func() bool { return mc.localClosed }) {
				cut = time.Since(start)
				break
			}
		}
		rep.Evaluations++
		if cut == 0 || cut > 7*T {
			viol("deadline", map[string]interface{}{"scenario": "trickling request", "what": "a peer sending one byte of a request every ReadTimeout/4 was not disconnected: the read deadline is re-armed per read instead of per message",
				"read_timeout_ms": T.Milliseconds(), "disconnected_after_ms": cut.Milliseconds()})
		}
		mc.peerClose()
	}()

	// (a2) hostile peers only cost their own connections: after 80 connections whose TLS handshake fails (plain text instead of
	// a ClientHello, peers that hang up at once) a well-behaved client is still served promptly
	func() {
		p := getPKI()
		scfg := &tls.Config{Certificates: []tls.Certificate{p.server["valid"]}, ClientCAs: p.pool}
		kmip.DefaultServerTLSConfig(scfg)
		srv := &kmip.Server{TLSConfig: scfg, Log: log.New(io.Discard, "", 0), ReadTimeout: 2 * time.Second, WriteTimeout: 2 * time.Second}
		l, err := tlsListen(scfg)
		if err != nil {
			return
		}
		init := make(chan struct{})
		served := make(chan error, 1)
		go func() { served <- srv.Serve(l, init) }()
		<-init
		for i := 0; i < 80; i++ {
			raw, err := net.DialTimeout("tcp", l.Addr().String(), time.Second)
			if err != nil {
				continue
			}
			if i%2 == 0 {
				raw.Write([]byte("GET / HTTP/1.0\r\n\r\n"))
				raw.SetReadDeadline(time.Now().Add(500 * time.Millisecond))
				io.Copy(io.Discard, raw)
			}
			raw.Close()
		}
		ccfg := clientTLS()
		ccfg.Certificates = append(ccfg.Certificates, p.client["valid"])
		c := &kmip.Client{Endpoint: l.Addr().String(), TLSConfig: ccfg, ReadTimeout: 3 * time.Second, WriteTimeout: 3 * time.Second}
		ok := false
		if err := c.Connect(); err == nil {
			if _, err := c.DiscoverVersions(nil); err == nil {
				ok = true
			}
			c.Close()
		}
		rep.Evaluations++
		if !ok {
			viol("stall", map[string]interface{}{"scenario": "80 failed handshakes, then a well-behaved client", "what": "after 80 connections whose TLS handshake failed a client with a valid certificate is no longer served: hostile peers cost more than their own connections"})
		}
		ctx, cancel := contextWithTimeout(2 * time.Second)
		srv.Shutdown(ctx)
		cancel()
		select {
		case <-served:
		case <-time.After(2 * time.Second):
		}
	}()

	// (b) a peer that stalls before a request, inside its header or inside its body is disconnected, and
	// what it sends afterwards is not served (C15: the deadline; C10: a silent peer only costs its own connection)
	for _, off := range []int{0, 1, 3, 7, 8, 20, len(req) / 2, len(req) - 1} {
		func() {
			ts := newTimingServer(T, 0)
			defer ts.stop()
			mc := newMemConn("b")
			ts.lis.ch <- acceptResult{conn: mc}
			mc.peerSend(req)
			mc.waitUntil(2*time.Second, func() bool { return len(splitMessages(mc.out)) >= 1 })
			if off > 0 {
				mc.peerSend(req[:off])
			}
			t0 := time.Now()
			closed := mc.waitUntil(4*T, func() bool { return mc.localClosed })
			rep.Evaluations++
			if !closed {
				viol("deadline", map[string]interface{}{"scenario": "stall", "stall_at_offset": off, "what": "stalling peer not disconnected after 4x ReadTimeout"})
				viol("stall-held", map[string]interface{}{"scenario": "partial message then silence", "bytes_sent": hexBytes(req[:off]), "what": "connection (and its goroutine) still held 4x ReadTimeout after the peer went silent"})
				// does the server go on to serve whatever arrives next on this stale stream?
				mc.peerSend(req[off:])
				mc.peerSend(req)
				if mc.waitUntil(T, func() bool { return len(splitMessages(mc.out)) >= 2 }) {
					viol("stall-held", map[string]interface{}{"scenario": "partial message, silence past the read deadline, then more bytes", "stall_at_offset": off, "what": "the server answered on a connection that should have been closed at the read deadline"})
				}
			} else if el := time.Since(t0); el < T/2 {
				viol("deadline", map[string]interface{}{"scenario": "stall", "stall_at_offset": off, "what": "disconnected long before the read deadline", "after_ms": el.Milliseconds()})
			}
			mc.peerClose()
		}()
	}

	// (d) zero timeouts: no deadline is ever set, a long stall is harmless
	func() {
		ts := newTimingServer(0, 0)
		defer ts.stop()
		mc := newMemConn("d")
		ts.lis.ch <- acceptResult{conn: mc}
		time.Sleep(2 * T)
		mc.peerSend(req)
		ok := mc.waitUntil(2*time.Second, func() bool { return len(splitMessages(mc.out)) >= 1 })
		rep.Evaluations++
		if !ok {
			viol("deadline", map[string]interface{}{"scenario": "zero timeouts", "what": "request after a stall not answered"})
		}
		for _, e := range mc.snapshot() {
			if e.kind == "armr" || e.kind == "armw" || e.kind == "disarmr" || e.kind == "disarmw" {
				viol("deadline", map[string]interface{}{"scenario": "zero timeouts", "what": "a deadline was set although the timeout is zero", "event": e.kind})
				break
			}
		}
		mc.peerClose()
	}()

	// (e) a peer that does not read the response is disconnected by the write deadline
	func() {
		ts := newTimingServer(0, T)
		defer ts.stop()
		mc := newMemConn("e")
		mc.blockWrites = true
		ts.lis.ch <- acceptResult{conn: mc}
		mc.peerSend(req)
		closed := mc.waitUntil(5*T, func() bool { return mc.localClosed })
		rep.Evaluations++
		if !closed {
			viol("deadline", map[string]interface{}{"scenario": "peer not reading", "what": "connection not closed after 5x WriteTimeout"})
		}
		mc.mu.Lock()
		mc.blockWrites = false
		mc.cond.Broadcast()
		mc.mu.Unlock()
		mc.peerClose()
	}()
	// (f) a slow operation handler: the write deadline is armed when the response is about to be written,
	// not when the request arrived - the response is delivered although the handler took longer than WriteTimeout
	for _, slow := range []time.Duration{T / 2, 3 * T / 2} {
		func() {
			s := &kmip.Server{ReadTimeout: T, WriteTimeout: T, Log: log.New(io.Discard, "", 0)}
			s.Handle(kmip.OPERATION_GET, func(req *kmip.RequestContext, item *kmip.RequestBatchItem) (interface{}, error) {
				time.Sleep(slow)
				return kmip.GetResponse{UniqueIdentifier: "slow"}, nil
			})
			ts := &timingServer{srv: s, lis: newMemListener(), served: make(chan error, 1)}
			init := make(chan struct{})
			go func() { ts.served <- s.Serve(ts.lis, init) }()
			<-init
			defer ts.stop()
			mc := newMemConn("f")
			ts.lis.ch <- acceptResult{conn: mc}
			greq := kmip.Request{Header: kmip.RequestHeader{Version: kmip.ProtocolVersion{Major: 1, Minor: 4}, BatchCount: 1},
				BatchItems: []kmip.RequestBatchItem{{Operation: kmip.OPERATION_GET, RequestPayload: kmip.GetRequest{UniqueIdentifier: "k"}}}}
			_, gb := implEncode(&greq)
			mc.peerSend(gb)
			ok := mc.waitUntil(slow+2*time.Second, func() bool { return len(splitMessages(mc.out)) >= 1 || mc.localClosed })
			rep.Evaluations++
			if !ok || len(splitMessages(mc.out)) < 1 {
				viol("deadline", map[string]interface{}{"scenario": "slow handler", "handler_ms": slow.Milliseconds(), "write_timeout_ms": T.Milliseconds(),
					"what": "the response of a handler that took a while was not delivered although the peer was reading: the write deadline was not armed afresh before the response"})
			}
			for _, e := range mc.snapshot() {
				if e.kind == "armw" {
					d := e.dl.Sub(e.at)
					if d < T-50*time.Millisecond || d > T+50*time.Millisecond {
						viol("deadline", map[string]interface{}{"scenario": "slow handler", "what": "write deadline is not (time of arming) + WriteTimeout", "handler_ms": slow.Milliseconds(), "delta_ms": d.Milliseconds(), "timeout_ms": T.Milliseconds()})
						break
					}
				}
			}
			mc.peerClose()
		}()
	}
	rep.Nontrivial = rep.Evaluations
	rep.emit()
}
