package main

// User-defined structure types against the Coq models (UserTypes.v): the harness builds random structure types with
// reflect.StructOf, hands their DECLARATIONS to the extracted model (fields.go's descriptor builder: Fields.v, then the
// schema-generic encoder / decoder of Codec.v) and compares
//   udesc <decls> | <Top>         the descriptor getStructDesc computes (through the VerifStructDesc hook)
//   uenc  <decls> | <value>       Encode
//   udec  <decls> | <Top> <hex>   Decode of valid, truncated and mutated encodings
// Unsupported field types, unknown tag names and other descriptor errors are placed in the TOP structure only: the
// library discovers a bad nested structure type lazily (when a value reaches it), the elaborated schema of the model is
// eager - an approximation that is harmless for the library's own types and is kept out of the generated cases.

import (
	"fmt"
	"math/rand"
	"reflect"
	"strings"

	kmip "github.com/smira/go-kmip"
)

var anonNames = map[reflect.Type]string{} // names the model knows reflect.StructOf types by

func typeDisplayName(t reflect.Type) string {
	if n, ok := anonNames[t]; ok {
		return n
	}
	return t.Name()
}

type umGen struct {
	r      *rand.Rand
	decls  []string
	nextID *int
	nested []reflect.Type // well-formed user structure types built so far (for this top type)
}

var umLibStructs = []reflect.Type{reflect.TypeOf(kmip.Name{}), reflect.TypeOf(kmip.ProtocolVersion{}), reflect.TypeOf(kmip.Digest{}), reflect.TypeOf(kmip.CryptoParams{})}

var umDefined = map[reflect.Type]string{reflect.TypeOf(hInt32(0)): "#hInt32=?int32", reflect.TypeOf(hInt64(0)): "#hInt64=?int64", reflect.TypeOf(hUint32(0)): "#hUint32=?uint32",
	reflect.TypeOf(hBool(false)): "#hBool=?bool", reflect.TypeOf(hString("")): "#hString=?string", reflect.TypeOf(hBytes(nil)): "#hBytes=bytes", reflect.TypeOf(hFloat(0)): "#hFloat=?float64",
	reflect.TypeOf(hMap(nil)): "#hMap=?map"}

// gtyText: the type expression the model's parser reads
func (g *umGen) gtyText(t reflect.Type, defs map[string]bool) string {
	switch {
	case t == tInt32:
		return "int32"
	case t == tInt64:
		return "int64"
	case t == tEnum:
		return "enum"
	case t == tBool:
		return "bool"
	case t == tBytes:
		return "bytes"
	case t == tString:
		return "string"
	case t == tTime:
		return "time"
	case t == tDuration:
		return "duration"
	case t == tTag:
		return "tag"
	}
	if d, ok := umDefined[t]; ok {
		defs[d] = true
		return "@" + t.Name()
	}
	switch t.Kind() {
	case reflect.Interface:
		return "iface"
	case reflect.Slice:
		return "[]" + g.gtyText(t.Elem(), defs)
	case reflect.Struct:
		return "@" + typeDisplayName(t)
	}
	return "?" + t.Kind().String()
}

// structType builds one structure type and records its declaration; bad = descriptor errors allowed (top level only)
func (g *umGen) structType(depth int, bad bool, defs map[string]bool) reflect.Type {
	var fields []reflect.StructField
	var ftext []string
	used := map[string]bool{}
	sg := &userSchemaGen{r: g.r}
	if g.r.Intn(3) != 0 {
		name := sg.tagName(map[string]bool{})
		if bad && g.r.Intn(12) == 0 {
			name = "NO_SUCH_TAG"
		}
		// the structure's own Tag field: exported, or (every fifth) unexported - its annotation names the tag either way
		if g.r.Intn(5) == 0 {
			fields = append(fields, reflect.StructField{Name: "t", PkgPath: "main", Type: tTag, Tag: reflect.StructTag(fmt.Sprintf(`kmip:"%s"`, name))})
			ftext = append(ftext, ".t=tag="+name)
		} else {
			fields = append(fields, reflect.StructField{Name: "T", Type: tTag, Tag: reflect.StructTag(fmt.Sprintf(`kmip:"%s"`, name))})
			ftext = append(ftext, "T=tag="+name)
		}
	}
	n := 1 + g.r.Intn(5)
	for i := 0; i < n; i++ {
		var ft reflect.Type
		nestedBad := false
		switch k := g.r.Intn(20); {
		case bad && k == 0:
			ft = userNamedLeafTypes[g.r.Intn(len(userNamedLeafTypes))]
			if g.r.Intn(2) == 0 {
				ft = reflect.SliceOf(ft)
			}
		case bad && (k == 1 || k == 2):
			ft = []reflect.Type{reflect.TypeOf((*int32)(nil)), reflect.TypeOf([][]int32(nil)), reflect.TypeOf([3]byte{}), reflect.TypeOf([16]byte{}), reflect.TypeOf([4]int32{}),
				reflect.TypeOf((*kmip.Name)(nil)), reflect.TypeOf(func() {}), reflect.TypeOf([3]byte{})}[g.r.Intn(8)]
		case k < 10 || depth >= 2:
			ft = userLeafTypes[g.r.Intn(len(userLeafTypes))]
		case k < 12:
			ft = umLibStructs[g.r.Intn(len(umLibStructs))]
		case k < 15:
			nestedBad = bad && g.r.Intn(3) == 0
			ft = g.structType(depth+1, nestedBad, defs) // a nested type with a descriptor error: found only when a value reaches it
		case k < 17:
			ft = reflect.SliceOf(userLeafTypes[g.r.Intn(len(userLeafTypes))])
		case k < 18:
			ft = reflect.SliceOf(umLibStructs[g.r.Intn(len(umLibStructs))])
		default:
			nestedBad = bad && g.r.Intn(3) == 0
			ft = reflect.SliceOf(g.structType(depth+1, nestedBad, defs))
		}
		ann := "~"
		if g.r.Intn(8) != 0 {
			ann = sg.tagName(used)
			if bad && g.r.Intn(25) == 0 {
				ann = "NOT_A_TAG"
			}
			switch g.r.Intn(8) {
			case 0, 1:
				ann += ",required"
			case 2:
				ann += ",skip"
			case 3:
				if i == n-1 {
					ann = "-,skip"
				}
			}
		} else if g.r.Intn(3) == 0 {
			ann = ",required" // no tag name: the field is ignored
		}
		if nestedBad && strings.Contains(ann, "skip") {
			// a never-decoded field stays at its zero value, which the model cannot spell for a type without a descriptor
			// (it shows the position as nil): such a field is not generated
			ann = sg.tagName(used)
		}
		sf := reflect.StructField{Name: fmt.Sprintf("F%d", i), Type: ft}
		fname := sf.Name
		if g.r.Intn(12) == 0 { // an unexported field, annotated or not, is ignored by the library
			sf.Name, sf.PkgPath = fmt.Sprintf("f%d", i), "main"
			fname = "." + sf.Name
		}
		if ann != "~" {
			sf.Tag = reflect.StructTag(fmt.Sprintf(`kmip:"%s"`, ann))
		}
		fields = append(fields, sf)
		ftext = append(ftext, fmt.Sprintf("%s=%s=%s", fname, g.gtyText(ft, defs), ann))
	}
	t := reflect.StructOf(fields)
	if _, known := anonNames[t]; !known {
		*g.nextID++
		anonNames[t] = fmt.Sprintf("U%d", *g.nextID)
		localTypes[anonNames[t]] = t
	}
	decl := anonNames[t] + "{" + strings.Join(ftext, ";") + "}"
	dup := false
	for _, d := range g.decls {
		if d == decl {
			dup = true
		}
	}
	if !dup {
		g.decls = append(g.decls, decl)
	}
	if !bad {
		g.nested = append(g.nested, t)
	}
	return t
}

// userModelCases: count top-level types, a few values each
func userModelCases(cw *caseWriter, rep *Report, r *rand.Rand, count int, viol func(string, map[string]interface{})) {
	nextID := 0
	for i := 0; i < count; i++ {
		g := &umGen{r: r, nextID: &nextID}
		defs := map[string]bool{}
		top := g.structType(0, i%3 == 0, defs)
		var dl []string
		for _, d := range sortedKeys(defs) {
			dl = append(dl, d)
		}
		decls := strings.Join(append(dl, g.decls...), " ")
		topName := anonNames[top]
		// the descriptor
		dtxt, derr := kmip.VerifStructDesc(top)
		if derr != nil {
			dtxt = "err"
		}
		cw.add("u-desc", "udesc "+decls+" | "+topName, dtxt)
		rep.Distribution["u-desc:"+map[bool]string{true: "ok", false: "err"}[derr == nil]]++
		vg := &userSchemaGen{r: r, built: g.nested, named: true}
		for k := 0; k < 3; k++ {
			v := vg.value(top, 0)
			var iv interface{} = v.Interface()
			if k == 1 {
				p := reflect.New(top)
				p.Elem().Set(v)
				iv = p.Interface()
			}
			txt := showVal(reflect.ValueOf(iv))
			obs, out := implEncode(iv)
			cw.add("u-enc", "uenc "+decls+" | "+txt, obs)
			rep.Distribution["u-enc:"+strings.SplitN(obs, " ", 2)[0]]++
			if strings.HasPrefix(obs, "panic") || strings.HasPrefix(obs, "err-wrote") {
				viol("user-schema", map[string]interface{}{"what": "Encode of a value of a user-defined structure type: " + obs, "declarations": decls, "value": firstN(txt, 800)})
			}
			if out == nil {
				continue
			}
			inputs := [][]byte{out}
			if len(out) > 8 {
				inputs = append(inputs, out[:r.Intn(len(out))])
				_, m := mutate(r, out, out)
				inputs = append(inputs, m)
			}
			for _, in := range inputs {
				if len(in) > 4000 {
					continue
				}
				res := implDecode(topName, in)
				cw.add("u-dec", "udec "+decls+" | "+topName+" "+hexBytes(in), decObs(res, len(in)))
				rep.Distribution["u-dec:"+strings.SplitN(res.obs, " ", 2)[0]]++
				if strings.HasPrefix(res.obs, "panic") || res.obs == "hang" {
					viol("user-schema", map[string]interface{}{"what": "Decode into a user-defined structure type: " + res.obs, "declarations": decls, "bytes": hexBytes(in)})
				}
			}
		}
	}
}

func sortedKeys(m map[string]bool) []string {
	var ks []string
	for k := range m {
		ks = append(ks, k)
	}
	for i := 1; i < len(ks); i++ {
		for j := i; j > 0 && ks[j] < ks[j-1]; j-- {
			ks[j], ks[j-1] = ks[j-1], ks[j]
		}
	}
	return ks
}
