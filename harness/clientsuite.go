package main

// client suite (C14, client half of C15): the real Client against a scripted loopback TLS peer.
// tls suite (C16): the default TLS configurations against every peer configuration.

import (
	"bytes"
	"crypto/tls"
	"encoding/binary"
	"flag"
	"fmt"
	"io"
	"log"
	"math/rand"
	"net"
	"reflect"
	"strings"
	"sync"
	"sync/atomic"
	"time"

	kmip "github.com/smira/go-kmip"
)

func init() {
	suites["client"] = suiteClient
	suites["tls"] = suiteTLS
}

// scriptedPeer: a TLS server that reads one TTLV message per exchange and answers with scripted bytes
type scriptedPeer struct {
	lis      net.Listener
	mu       sync.Mutex
	received []byte
	replies  [][]byte
	delays   []time.Duration
	done     chan struct{}
}

func newScriptedPeer(replies [][]byte, delays []time.Duration) *scriptedPeer {
	p := getPKI()
	cfg := &tls.Config{Certificates: []tls.Certificate{p.server["valid"]}, MinVersion: tls.VersionTLS12}
	l, err := tls.Listen("tcp", "127.0.0.1:0", cfg)
	if err != nil {
		panic(err)
	}
	sp := &scriptedPeer{lis: l, replies: replies, delays: delays, done: make(chan struct{})}
	go func() {
		defer close(sp.done)
		conn, err := l.Accept()
		if err != nil {
			return
		}
		defer conn.Close()
		for i, reply := range sp.replies {
			// read one complete TTLV message (or give up)
			hdr := make([]byte, 8)
			conn.SetReadDeadline(time.Now().Add(300 * time.Millisecond))
			if _, err := io.ReadFull(conn, hdr); err != nil {
				return
			}
			body := make([]byte, binary.BigEndian.Uint32(hdr[4:]))
			conn.SetReadDeadline(time.Now().Add(2 * time.Second))
			if _, err := io.ReadFull(conn, body); err != nil {
				return
			}
			sp.mu.Lock()
			sp.received = append(append(sp.received, hdr...), body...)
			sp.mu.Unlock()
			if i < len(sp.delays) {
				time.Sleep(sp.delays[i])
			}
			if len(reply) > 0 {
				conn.Write(reply)
			}
		}
		// end of script: close, so that a client still waiting sees EOF
	}()
	return sp
}

func (sp *scriptedPeer) addr() string { return sp.lis.Addr().String() }
func (sp *scriptedPeer) stop() {
	sp.lis.Close()
	select {
	case <-sp.done:
	case <-time.After(3 * time.Second):
	}
}
func (sp *scriptedPeer) got() []byte {
	sp.mu.Lock()
	defer sp.mu.Unlock()
	return append([]byte(nil), sp.received...)
}

func clientTLS() *tls.Config {
	cfg := &tls.Config{RootCAs: getPKI().pool, ServerName: "localhost"}
	kmip.DefaultClientTLSConfig(cfg)
	return cfg
}

func showSendResult(resp interface{}, err error) string {
	if err == nil {
		return "payload " + showVal(reflect.ValueOf(&resp).Elem())
	}
	if pe, ok := err.(kmip.Error); ok {
		return fmt.Sprintf("srverr %x %s", uint32(pe.ResultReason()), hexBytes([]byte(err.Error())))
	}
	return "err"
}

// replyShape: the combination of batch count, item count, operation, status and payload presence of a reply
type replyShape struct {
	count, items int
	otherOp      bool
	status       int
	payload      bool
	damage       bool
}

// every combination of batch count {0,1,2,3}, item count {1,2,3}, operation {same, other}, status {0..3}, payload {present, absent}
func allReplyShapes() []replyShape {
	var out []replyShape
	for _, count := range []int{1, 0, 2, 3} {
		for _, items := range []int{1, 2, 3} {
			for _, other := range []bool{false, true} {
				for status := 0; status < 4; status++ {
					for _, pl := range []bool{true, false} {
						out = append(out, replyShape{count: count, items: items, otherOp: other, status: status, payload: pl})
					}
				}
			}
		}
	}
	return out
}

func randomReplyShape(r *rand.Rand) replyShape {
	nitems := []int{1, 1, 1, 1, 1, 1, 1, 1, 2, 3}[r.Intn(10)]
	return replyShape{count: []int{1, 1, 1, 1, 1, 1, 1, 1, 0, 2, nitems, nitems}[r.Intn(12)], items: nitems, otherOp: r.Intn(10) == 0,
		status: []int{0, 0, 0, 0, 0, 1, 1, 2, 3}[r.Intn(9)], payload: r.Intn(6) != 0, damage: true}
}

// genReply builds a reply: a response message with the given shape, possibly damaged
func genReply(r *rand.Rand, g *gen, op kmip.Enum, sh replyShape) []byte {
	resp := kmip.Response{}
	resp.Header.Version = kmip.ProtocolVersion{Major: 1, Minor: 4}
	resp.Header.TimeStamp = time.Unix(1000, 0)
	nitems := sh.items
	resp.Header.BatchCount = int32(sh.count)
	for i := 0; i < nitems; i++ {
		it := kmip.ResponseBatchItem{Operation: op}
		if sh.otherOp {
			it.Operation = respOps[r.Intn(len(respOps))]
		}
		it.ResultStatus = kmip.Enum(sh.status)
		if it.ResultStatus != 0 || r.Intn(6) == 0 {
			it.ResultReason = kmip.Enum(1 + r.Intn(24))
			it.ResultMessage = "failed: " + g.msgv()
		}
		if sh.payload {
			if tn, ok := specResponsePayload[it.Operation]; ok {
				it.ResponsePayload = g.maybePtr(g.structOf(tn))
			}
		}
		if r.Intn(3) == 0 {
			it.UniqueID = []byte("id")
		}
		resp.BatchItems = append(resp.BatchItems, it)
	}
	_, b := implEncode(&resp)
	if b == nil {
		return randomBytes(r)
	}
	if !sh.damage {
		return b
	}
	switch r.Intn(24) {
	case 0:
		return b[:r.Intn(len(b))]
	case 1:
		_, m := mutate(r, b, b)
		return m
	case 2:
		return randomBytes(r)
	case 3: // a request where a response is expected
		_, rb := implEncode((&gen{r: r, wf: true}).genTop("Request"))
		if rb != nil {
			return rb
		}
	case 4:
		return nil // no reply at all: the peer closes
	}
	return b
}

func suiteClient(args []string) {
	fs := flag.NewFlagSet("client", flag.ExitOnError)
	seed := fs.Int64("seed", 1, "")
	n := fs.Int("n", 150, "")
	dir := fs.String("dir", "work/client", "")
	fs.Parse(args)
	r := rand.New(rand.NewSource(*seed))
	cw := newCaseWriter(*dir)
	rep := &Report{Suite: "client", Seed: *seed, Distribution: map[string]int{}}
	rep.Rule = "a case is one Client.Send / DiscoverVersions call with a payload and the scripted reply bytes of the TLS peer; distinct = distinct case text; non-trivial = the reply is at least one TTLV header long"
	viol := func(kind string, m map[string]interface{}) {
		m["kind"] = kind
		if len(rep.Violations) < 30 {
			rep.Violations = append(rep.Violations, m)
		}
	}
	g := &gen{r: r, wf: true}
	shapes := allReplyShapes()
	// every cut in the tail of a reply whose LAST field is a text string with a length that is a multiple of 8 (no padding after it):
	// the peer sends the prefix and closes cleanly - a reply cut off anywhere is an error, never a (shortened) payload
	type forcedCase struct {
		op      kmip.Enum
		payload interface{}
		reply   []byte
	}
	var forced []forcedCase
	for _, idLen := range []int{8, 16, 40} {
		resp := kmip.Response{Header: kmip.ResponseHeader{Version: kmip.ProtocolVersion{Major: 1, Minor: 4}, TimeStamp: time.Unix(1000, 0), BatchCount: 1},
			BatchItems: []kmip.ResponseBatchItem{{Operation: kmip.OPERATION_ACTIVATE, ResultStatus: kmip.RESULT_STATUS_SUCCESS,
				ResponsePayload: kmip.ActivateResponse{UniqueIdentifier: strings.Repeat("k", idLen)}}}}
		_, full := implEncode(&resp)
		if full == nil {
			continue
		}
		from := len(full) - idLen - 12
		for cut := from; cut <= len(full); cut++ {
			if cut < len(full)-20 && cut%3 != 0 && idLen > 8 {
				continue
			}
			forced = append(forced, forcedCase{kmip.OPERATION_ACTIVATE, kmip.ActivateRequest{UniqueIdentifier: "x"}, append([]byte(nil), full[:cut]...)})
		}
	}
	// a well-formed Success reply with ONE tag replaced by the internal wildcard value FF FF FF (it matches any tag inside the
	// library's descriptors, never on the wire): every such reply is an error
	{
		resp := kmip.Response{Header: kmip.ResponseHeader{Version: kmip.ProtocolVersion{Major: 1, Minor: 4}, TimeStamp: time.Unix(1000, 0), BatchCount: 1},
			BatchItems: []kmip.ResponseBatchItem{{Operation: kmip.OPERATION_ACTIVATE, ResultStatus: kmip.RESULT_STATUS_SUCCESS, ResponsePayload: kmip.ActivateResponse{UniqueIdentifier: "k1"}}}}
		if _, full := implEncode(&resp); full != nil {
			var all []*item
			walkItems(full, 0, 0, &all)
			for _, it := range all {
				m := append([]byte(nil), full...)
				m[it.off], m[it.off+1], m[it.off+2] = 0xff, 0xff, 0xff
				forced = append(forced, forcedCase{kmip.OPERATION_ACTIVATE, kmip.ActivateRequest{UniqueIdentifier: "x"}, m})
			}
		}
	}
	// replies whose payload holds several short byte strings side by side (one-block ciphertext, IV, authentication tag): each
	// field comes back as it was sent
	for k := 0; k < 6; k++ {
		bs := func(n int, c byte) []byte { return bytes.Repeat([]byte{c}, n) }
		resp := kmip.Response{Header: kmip.ResponseHeader{Version: kmip.ProtocolVersion{Major: 1, Minor: 4}, TimeStamp: time.Unix(1000, 0), BatchCount: 1},
			BatchItems: []kmip.ResponseBatchItem{{Operation: kmip.OPERATION_ENCRYPT, ResultStatus: kmip.RESULT_STATUS_SUCCESS,
				ResponsePayload: kmip.EncryptResponse{UniqueIdentifier: "k", Data: bs(16+k, 0xd0), IVCounterNonce: bs(12, 0x1f), CorrelationValue: bs(4+k, 0xc0), AuthTag: bs(16, 0xa0)}}}}
		if _, full := implEncode(&resp); full != nil {
			forced = append(forced, forcedCase{kmip.OPERATION_ENCRYPT, kmip.EncryptRequest{UniqueIdentifier: "k", Data: bs(8, 1)}, full})
		}
	}
	total := *n + len(shapes) + len(forced)
	for i := 0; i < total; i++ {
		op := reqOps[r.Intn(len(reqOps))]
		if _, ok := specResponsePayload[op]; !ok {
			op = kmip.OPERATION_GET
		}
		var payload interface{}
		dv := i%4 == 0
		var offer []kmip.ProtocolVersion
		switch {
		case dv:
			op = kmip.OPERATION_DISCOVER_VERSIONS
			offer = genVersions(r, r.Intn(3))
		case i%9 == 1: // payloads Encode must reject without panicking, and nothing may be sent
			payload = []interface{}{nil, (*kmip.GetRequest)(nil), 5, map[string]int{}, BadTag{A: 1}}[r.Intn(5)]
		default:
			payload = g.maybePtr(g.structOf(specRequestPayload[op]))
		}
		var reply []byte
		if i < len(shapes) {
			reply = genReply(r, g, op, shapes[i])
		} else {
			reply = genReply(r, g, op, randomReplyShape(r))
		}
		connected := i%17 != 5
		if k := i - (*n + len(shapes)); k >= 0 {
			dv, connected = false, true
			op, payload, reply = forced[k].op, forced[k].payload, forced[k].reply
			rep.Distribution["reply-cut-in-final-string"]++
		}
		ver := kmip.ProtocolVersion{Major: 1, Minor: int32(r.Intn(5))}
		if i%5 == 0 {
			ver = kmip.ProtocolVersion{} // defaults to 1.4 in Connect
		}
		sp := newScriptedPeer([][]byte{reply}, nil)
		c := &kmip.Client{Endpoint: sp.addr(), TLSConfig: clientTLS(), Version: ver}
		rt, wt := r.Intn(2) == 0, r.Intn(2) == 0
		if rt {
			c.ReadTimeout = 5 * time.Second
		}
		if wt {
			c.WriteTimeout = 5 * time.Second
		}
		obs := ""
		func() {
			defer func() {
				if p := recover(); p != nil {
					obs = "panic " + firstLine(fmt.Sprint(p))
				}
			}()
			if connected {
				if err := c.Connect(); err != nil {
					obs = "connect-failed " + err.Error()
					return
				}
				defer c.Close()
			}
			if dv {
				vs, err := c.DiscoverVersions(offer)
				if err == nil {
					obs = "versions " + pvText(vs)
				} else {
					obs = showSendResult(nil, err)
				}
			} else {
				resp, err := c.Send(op, payload)
				obs = showSendResult(resp, err)
			}
		}()
		sp.stop()
		effVer := ver
		if (effVer == kmip.ProtocolVersion{}) {
			effVer = kmip.ProtocolVersion{Major: 1, Minor: 4}
		}
		b2 := func(b bool) string {
			if b {
				return "1"
			}
			return "0"
		}
		cfgText := fmt.Sprintf("conn=%s rt=%s wt=%s ver=%d.%d op=%x", b2(connected), b2(rt), b2(wt), effVer.Major, effVer.Minor, uint32(op))
		sent := ""
		if got := sp.got(); len(got) > 0 {
			sent = "sent:" + hexBytes(got)
		}
		var cmd string
		if dv {
			cmd = "clientdv " + cfgText + " | " + pvText(offer) + " | " + hexBytes(reply)
		} else {
			cmd = "client " + cfgText + " | " + showVal(reflect.ValueOf(&payload).Elem()) + " | " + hexBytes(reply)
		}
		cw.add("client", cmd, sent+" => "+obs)
		rep.Distribution[strings.SplitN(obs, " ", 2)[0]]++
		if len(reply) >= 8 {
			rep.Nontrivial++
		}
		if strings.HasPrefix(obs, "panic") {
			viol("client-panic", map[string]interface{}{"case": cmd, "observed": obs})
		}
		if len(rep.Samples) < 2 && strings.HasPrefix(obs, "payload") {
			rep.Samples = append(rep.Samples, map[string]interface{}{"case": firstN(cmd, 300), "observed": firstN(obs, 200)})
		}
	}
	// life cycle: every sequence of Connect (to peers that accept / fail at different stages), Send and Close
	clientLifecycle(cw, rep, viol, *n)
	// client half of C15: deadlines around every exchange
	clientTiming(rep, viol)
	cw.close()
	rep.Evaluations = cw.n
	rep.emit()
}

// lifePeers: a TLS peer answering every request with a valid Discover Versions reply, a plain TCP peer (no TLS),
// a TLS peer whose certificate is signed by an unknown CA, and an address nobody listens on
type lifePeers struct {
	good, plain, untrusted net.Listener
	refused                string
}

func newLifePeers() *lifePeers {
	p := getPKI()
	ok := okReply()
	serve := func(l net.Listener, tlsPeer bool) {
		for {
			conn, err := l.Accept()
			if err != nil {
				return
			}
			go func(conn net.Conn) {
				defer conn.Close()
				if !tlsPeer {
					conn.SetDeadline(time.Now().Add(2 * time.Second))
					conn.Write([]byte("HTTP/1.1 400 Bad Request\r\n\r\n"))
					return
				}
				for {
					hdr := make([]byte, 8)
					conn.SetReadDeadline(time.Now().Add(5 * time.Second))
					if _, err := io.ReadFull(conn, hdr); err != nil {
						return
					}
					body := make([]byte, binary.BigEndian.Uint32(hdr[4:]))
					if _, err := io.ReadFull(conn, body); err != nil {
						return
					}
					conn.Write(ok)
				}
			}(conn)
		}
	}
	lp := &lifePeers{}
	var err error
	if lp.good, err = tls.Listen("tcp", "127.0.0.1:0", &tls.Config{Certificates: []tls.Certificate{p.server["valid"]}, MinVersion: tls.VersionTLS12}); err != nil {
		panic(err)
	}
	if lp.untrusted, err = tls.Listen("tcp", "127.0.0.1:0", &tls.Config{Certificates: []tls.Certificate{p.server["otherca"]}, MinVersion: tls.VersionTLS12}); err != nil {
		panic(err)
	}
	if lp.plain, err = net.Listen("tcp", "127.0.0.1:0"); err != nil {
		panic(err)
	}
	dead, err := net.Listen("tcp", "127.0.0.1:0")
	if err != nil {
		panic(err)
	}
	lp.refused = dead.Addr().String()
	dead.Close()
	go serve(lp.good, true)
	go serve(lp.untrusted, true)
	go serve(lp.plain, false)
	return lp
}

func (lp *lifePeers) stop() { lp.good.Close(); lp.untrusted.Close(); lp.plain.Close() }

// clientLifecycle runs every sequence of {connect good, connect plain, connect untrusted, connect refused, send, close}
// up to a length bound on one Client value; a panic anywhere is a violation of C14 by itself
func clientLifecycle(cw *caseWriter, rep *Report, viol func(string, map[string]interface{}), n int) {
	maxLen := 3
	if n >= 1000 {
		maxLen = 4
	}
	lp := newLifePeers()
	defer lp.stop()
	toks := []string{"cG", "cP", "cU", "cD", "s", "x"}
	var seqs [][]string
	var build func(prefix []string)
	build = func(prefix []string) {
		if len(prefix) > 0 {
			seqs = append(seqs, append([]string(nil), prefix...))
		}
		if len(prefix) == maxLen {
			return
		}
		for _, t := range toks {
			build(append(prefix, t))
		}
	}
	build(nil)
	for _, seq := range seqs {
		c := &kmip.Client{TLSConfig: clientTLS(), ReadTimeout: 3 * time.Second, WriteTimeout: 3 * time.Second}
		var outs []string
		func() {
			cur := ""
			defer func() {
				if p := recover(); p != nil {
					outs = append(outs, "panic")
					viol("client-panic", map[string]interface{}{"case": "clientlife " + strings.Join(seq, " "), "at": cur, "observed": "panic " + firstLine(fmt.Sprint(p)),
						"what": "Client panicked in a Connect/Send/Close history"})
				}
			}()
			for _, t := range seq {
				cur = t
				switch t {
				case "cG", "cP", "cU", "cD":
					c.Endpoint = map[string]string{"cG": lp.good.Addr().String(), "cP": lp.plain.Addr().String(), "cU": lp.untrusted.Addr().String(), "cD": lp.refused}[t]
					if err := c.Connect(); err != nil {
						outs = append(outs, "err")
					} else {
						outs = append(outs, "ok")
					}
				case "x":
					c.Close()
					outs = append(outs, "ok")
				case "s":
					vs, err := c.DiscoverVersions(nil)
					switch {
					case err == nil && vs == nil:
						outs = append(outs, "exchange")
					case err == nil:
						outs = append(outs, "exchange-other-reply")
					case strings.Contains(err.Error(), "not connected"):
						outs = append(outs, "err")
					default:
						outs = append(outs, "exchange-failed")
					}
				}
			}
		}()
		c.Close()
		cw.add("clientlife", "clientlife "+strings.Join(seq, " "), strings.Join(outs, " "))
		rep.Nontrivial++
		rep.Distribution[fmt.Sprintf("clientlife:len=%d", len(seq))]++
	}
}

func okReply() []byte {
	resp := kmip.Response{Header: kmip.ResponseHeader{Version: kmip.ProtocolVersion{Major: 1, Minor: 4}, TimeStamp: time.Unix(1000, 0), BatchCount: 1},
		BatchItems: []kmip.ResponseBatchItem{{Operation: kmip.OPERATION_DISCOVER_VERSIONS, ResponsePayload: kmip.DiscoverVersionsResponse{}}}}
	_, b := implEncode(&resp)
	return b
}

// clientTiming: real-time scenarios.  A finding must persist when the scenario is repeated with a four times larger timeout
// (on a heavily loaded machine a reply "within T/2" can take longer than T = 250 ms: that is the machine, not the Client).
func clientTiming(rep *Report, viol func(string, map[string]interface{})) {
	var first []map[string]interface{}
	clientTimingAt(250*time.Millisecond, rep, func(kind string, m map[string]interface{}) { first = append(first, m) })
	if len(first) == 0 {
		return
	}
	rep.Distribution["client-timing-confirmation-runs"]++
	clientTimingAt(time.Second, rep, func(kind string, m map[string]interface{}) {
		m["confirmed"] = "persisted with the timeout raised from 250 ms to 1 s"
		viol(kind, m)
	})
}

func clientTimingAt(T time.Duration, rep *Report, viol func(string, map[string]interface{})) {
	ok := okReply()
	// (a) five exchanges, each answered after T/2: the connection outlives T
	func() {
		sp := newScriptedPeer([][]byte{ok, ok, ok, ok, ok}, []time.Duration{T / 2, T / 2, T / 2, T / 2, T / 2})
		defer sp.stop()
		c := &kmip.Client{Endpoint: sp.addr(), TLSConfig: clientTLS(), ReadTimeout: T, WriteTimeout: T}
		if err := c.Connect(); err != nil {
			viol("client-deadline", map[string]interface{}{"what": "cannot connect", "error": err.Error()})
			return
		}
		defer c.Close()
		for i := 0; i < 5; i++ {
			if _, err := c.DiscoverVersions(nil); err != nil {
				viol("client-deadline", map[string]interface{}{"scenario": "timely replies", "what": "Send failed although every reply came within ReadTimeout of its request", "exchange": i, "error": err.Error()})
				return
			}
		}
		rep.Distribution["client-timing"]++
	}()
	// (b) a stalling server is given up after about T
	func() {
		sp := newScriptedPeer([][]byte{ok}, []time.Duration{4 * T})
		defer sp.stop()
		c := &kmip.Client{Endpoint: sp.addr(), TLSConfig: clientTLS(), ReadTimeout: T}
		if err := c.Connect(); err != nil {
			return
		}
		defer c.Close()
		t0 := time.Now()
		_, err := c.DiscoverVersions(nil)
		el := time.Since(t0)
		if err == nil || el > 3*T {
			viol("client-deadline", map[string]interface{}{"scenario": "stalling server", "what": "Send did not time out after ReadTimeout", "elapsed_ms": el.Milliseconds(), "timeout_ms": T.Milliseconds()})
		}
		rep.Distribution["client-timing"]++
	}()
	// (c) zero timeouts: a slow reply is waited for
	func() {
		sp := newScriptedPeer([][]byte{ok}, []time.Duration{2 * T})
		defer sp.stop()
		c := &kmip.Client{Endpoint: sp.addr(), TLSConfig: clientTLS()}
		if err := c.Connect(); err != nil {
			return
		}
		defer c.Close()
		if _, err := c.DiscoverVersions(nil); err != nil {
			viol("client-deadline", map[string]interface{}{"scenario": "zero timeouts", "what": "Send failed on a slow reply although no timeout is configured", "error": err.Error()})
		}
		rep.Distribution["client-timing"]++
	}()
}

// ---------------- C16 ----------------

// cutConn lets the first [allowed] writes of the peer through and closes the connection at the next one
type cutConn struct {
	net.Conn
	allowed int
	writes  int
}

func (c *cutConn) Write(b []byte) (int, error) {
	c.writes++
	if c.writes > c.allowed {
		c.Conn.Close()
		return 0, io.ErrClosedPipe
	}
	return c.Conn.Write(b)
}

func suiteTLS(args []string) {
	fs := flag.NewFlagSet("tls", flag.ExitOnError)
	seed := fs.Int64("seed", 1, "")
	dir := fs.String("dir", "work/tls", "")
	fs.Parse(args)
	cw := newCaseWriter(*dir)
	rep := &Report{Suite: "tls", Seed: *seed, Distribution: map[string]int{}}
	rep.Rule = "the complete peer space: certificate in {none, valid, self-signed, other CA, expired, wrong host} x max TLS version in {1.0,1.1,1.2,1.3} x role, plus plaintext; all distinct and non-trivial"
	p := getPKI()
	req := dvRequest()
	viol := func(kind string, m map[string]interface{}) {
		m["kind"] = kind
		rep.Violations = append(rep.Violations, m)
	}

	// ---- role 1: peers attacking a Server prepared with DefaultServerTLSConfig ----
	// (fresh configuration, then one that held weaker settings before the call)
	for _, variant := range []string{"", "weak", "shared"} {
		weak := variant != ""
		roleName := "server"
		var sessAuthCalls, handlerCalls int32
		scfg := &tls.Config{Certificates: []tls.Certificate{p.server["valid"]}, ClientCAs: p.pool}
		if variant == "weak" {
			roleName = "server-weak"
			scfg.MinVersion = tls.VersionTLS10
			scfg.ClientAuth = tls.VerifyClientCertIfGiven
		}
		kmip.DefaultServerTLSConfig(scfg)
		if variant == "shared" {
			// one *tls.Config prepared for both roles (a process that is a KMIP server and a client of another one):
			// the client helper must leave what the server helper established
			roleName = "server-shared"
			scfg.RootCAs = p.pool
			kmip.DefaultClientTLSConfig(scfg)
		}
		srv := &kmip.Server{TLSConfig: scfg, Log: log.New(io.Discard, "", 0), ReadTimeout: 2 * time.Second, WriteTimeout: 2 * time.Second}
		srv.SessionAuthHandler = func(conn net.Conn) (interface{}, error) { atomic.AddInt32(&sessAuthCalls, 1); return nil, nil }
		srv.Handle(kmip.OPERATION_GET, func(ctx *kmip.RequestContext, item *kmip.RequestBatchItem) (interface{}, error) {
			atomic.AddInt32(&handlerCalls, 1)
			return kmip.GetResponse{}, nil
		})
		tcp, err := net.Listen("tcp", "127.0.0.1:0")
		if err != nil {
			panic(err)
		}
		served := make(chan error, 1)
		init := make(chan struct{})
		go func() { served <- srv.Serve(tls.NewListener(tcp, scfg), init) }()
		<-init
		getReq := func() []byte {
			rq := kmip.Request{Header: kmip.RequestHeader{Version: kmip.ProtocolVersion{Major: 1, Minor: 4}, BatchCount: 1},
				BatchItems: []kmip.RequestBatchItem{{Operation: kmip.OPERATION_GET, RequestPayload: kmip.GetRequest{UniqueIdentifier: "x"}}}}
			_, b := implEncode(&rq)
			return b
		}()
		tryServer := func(certKind string, maxv uint16, plaintext bool) string {
			sa0, h0 := atomic.LoadInt32(&sessAuthCalls), atomic.LoadInt32(&handlerCalls)
			gotResponse := false
			func() {
				var conn net.Conn
				raw, err := net.DialTimeout("tcp", tcp.Addr().String(), time.Second)
				if err != nil {
					return
				}
				defer raw.Close()
				conn = raw
				if !plaintext {
					ccfg := &tls.Config{RootCAs: p.pool, ServerName: "localhost", MinVersion: tls.VersionTLS10, MaxVersion: maxv}
					if certKind != "none" {
						ccfg.Certificates = []tls.Certificate{p.client[certKind]}
					}
					tc := tls.Client(raw, ccfg)
					tc.SetDeadline(time.Now().Add(2 * time.Second))
					if err := tc.Handshake(); err != nil {
						return
					}
					conn = tc
				}
				conn.SetDeadline(time.Now().Add(1500 * time.Millisecond))
				if _, err := conn.Write(getReq); err != nil {
					return
				}
				hdr := make([]byte, 8)
				if _, err := io.ReadFull(conn, hdr); err != nil {
					return
				}
				if hdr[0] == 0x42 && hdr[2] == 0x7b {
					gotResponse = true
				}
			}()
			time.Sleep(20 * time.Millisecond)
			sa1, h1 := atomic.LoadInt32(&sessAuthCalls), atomic.LoadInt32(&handlerCalls)
			ran := sa1 > sa0 || h1 > h0
			if gotResponse != ran {
				// a response without callbacks or callbacks without a response are both wrong in their own right
				if ran && !gotResponse {
					return "callbacks-ran-no-response"
				}
			}
			if gotResponse || ran {
				return "admitted"
			}
			return "refused"
		}
		for _, ck := range []string{"none", "valid", "selfsigned", "otherca", "expired", "wronghost"} {
			for _, tv := range tlsVersions {
				obs := tryServer(ck, tv.v, false)
				if weak && !(ck == "none" || ck == "valid" || ck == "selfsigned") {
					continue
				}
				cw.add("tls-server", fmt.Sprintf("tls %s %x %s 0", roleName, tv.v, ck), obs)
				rep.Distribution[roleName+":"+obs]++
			}
		}
		obs := tryServer("none", tls.VersionTLS13, true)
		cw.add("tls-server", fmt.Sprintf("tls %s %x none 1", roleName, tls.VersionTLS13), obs)
		rep.Distribution[roleName+":"+obs]++
		// peers that hang up in the middle of the handshake (the handshake ends in io.EOF / a reset, not in an alert):
		// right after connecting, and after their ClientHello (when they would have to send their certificate)
		for _, cut := range []int{0, 1} {
			for _, tv := range []uint16{tls.VersionTLS12, tls.VersionTLS13} {
				for _, ck := range []string{"none", "valid"} {
					sa0, h0 := atomic.LoadInt32(&sessAuthCalls), atomic.LoadInt32(&handlerCalls)
					func() {
						raw, err := net.DialTimeout("tcp", tcp.Addr().String(), time.Second)
						if err != nil {
							return
						}
						defer raw.Close()
						if cut == 0 {
							return
						}
						ccfg := &tls.Config{RootCAs: p.pool, ServerName: "localhost", MinVersion: tls.VersionTLS10, MaxVersion: tv}
						if ck != "none" {
							ccfg.Certificates = []tls.Certificate{p.client[ck]}
						}
						tc := tls.Client(&cutConn{Conn: raw, allowed: cut}, ccfg)
						tc.SetDeadline(time.Now().Add(2 * time.Second))
						tc.Handshake()
					}()
					time.Sleep(30 * time.Millisecond)
					rep.Evaluations++
					rep.Distribution[roleName+":hangup"]++
					if atomic.LoadInt32(&sessAuthCalls) > sa0 || atomic.LoadInt32(&handlerCalls) > h0 {
						viol("tls-hangup", map[string]interface{}{"role": roleName, "what": "a callback ran for a peer that hung up before the TLS handshake was completed",
							"peer": fmt.Sprintf("max version %x, certificate %s, connection closed after %d handshake flight(s) of the peer", tv, ck, cut)})
					}
				}
			}
		}
		ctx, cancel := contextWithTimeout(3 * time.Second)
		srv.Shutdown(ctx)
		cancel()
		<-served
	}

	// ---- role 2: a Client prepared with DefaultClientTLSConfig against impersonating servers ----
	for _, weak := range []bool{false, true} {
		roleName := "client"
		mkClientTLS := clientTLS
		if weak {
			roleName = "client-weak"
			mkClientTLS = func() *tls.Config {
				cfg := &tls.Config{RootCAs: getPKI().pool, ServerName: "localhost", MinVersion: tls.VersionTLS10}
				kmip.DefaultClientTLSConfig(cfg)
				return cfg
			}
		}
		for _, ck := range []string{"valid", "selfsigned", "otherca", "expired", "wronghost"} {
			if weak && ck != "valid" && ck != "selfsigned" {
				continue
			}
			for _, tv := range tlsVersions {
				var appData int32
				rcfg := &tls.Config{Certificates: []tls.Certificate{p.server[ck]}, MinVersion: tls.VersionTLS10, MaxVersion: tv.v}
				l, err := tls.Listen("tcp", "127.0.0.1:0", rcfg)
				if err != nil {
					panic(err)
				}
				done := make(chan struct{})
				go func() {
					defer close(done)
					conn, err := l.Accept()
					if err != nil {
						return
					}
					defer conn.Close()
					conn.SetDeadline(time.Now().Add(time.Second))
					buf := make([]byte, 4096)
					n, _ := conn.Read(buf)
					if n > 0 {
						atomic.AddInt32(&appData, int32(n))
						conn.Write(okReply())
					}
				}()
				c := &kmip.Client{Endpoint: l.Addr().String(), TLSConfig: mkClientTLS(), ReadTimeout: time.Second, WriteTimeout: time.Second}
				obs := "refused"
				if err := c.Connect(); err == nil {
					c.DiscoverVersions(nil)
					c.Close()
				}
				l.Close()
				<-done
				if atomic.LoadInt32(&appData) > 0 {
					obs = "admitted" // a request reached the server
				}
				cw.add("tls-client", fmt.Sprintf("tls %s %x %s 0", roleName, tv.v, ck), obs)
				rep.Distribution[roleName+":"+obs]++
			}
		}
	}
	// plaintext "server": the client must not send a request
	func() {
		l, err := net.Listen("tcp", "127.0.0.1:0")
		if err != nil {
			panic(err)
		}
		var appKMIP int32
		done := make(chan struct{})
		go func() {
			defer close(done)
			conn, err := l.Accept()
			if err != nil {
				return
			}
			defer conn.Close()
			conn.SetDeadline(time.Now().Add(500 * time.Millisecond))
			buf := make([]byte, 4096)
			n, _ := conn.Read(buf) // the TLS ClientHello arrives; a KMIP request must not
			if n > 0 && bytes.Contains(buf[:n], req[:4]) {
				atomic.AddInt32(&appKMIP, 1)
			}
			conn.Write(okReply())
		}()
		c := &kmip.Client{Endpoint: l.Addr().String(), TLSConfig: clientTLS(), ReadTimeout: time.Second, WriteTimeout: time.Second}
		obs := "refused"
		if err := c.Connect(); err == nil {
			c.DiscoverVersions(nil)
			c.Close()
		}
		l.Close()
		<-done
		if atomic.LoadInt32(&appKMIP) > 0 {
			obs = "admitted"
		}
		cw.add("tls-client", fmt.Sprintf("tls client %x valid 1", tls.VersionTLS13), obs)
		rep.Distribution["client:"+obs]++
	}()
	// host name: a Client whose tls.Config names no server (so the name comes from Endpoint, as tls.Dial derives it) against a
	// server whose certificate is valid for the name "localhost" only - reached by name, by IP address, and with ONE Client
	// reused for one after the other (whatever was verified for the first endpoint says nothing about the second)
	func() {
		rcfg := &tls.Config{Certificates: []tls.Certificate{p.server["dnsonly"]}, MinVersion: tls.VersionTLS12}
		l, err := tls.Listen("tcp", "127.0.0.1:0", rcfg)
		if err != nil {
			panic(err)
		}
		defer l.Close()
		var requests int32
		go func() {
			for {
				conn, err := l.Accept()
				if err != nil {
					return
				}
				go func(conn net.Conn) {
					defer conn.Close()
					conn.SetDeadline(time.Now().Add(time.Second))
					buf := make([]byte, 4096)
					if n, _ := conn.Read(buf); n > 0 {
						atomic.AddInt32(&requests, 1)
						conn.Write(okReply())
					}
				}(conn)
			}
		}()
		_, port, _ := net.SplitHostPort(l.Addr().String())
		byName, byIP := "localhost:"+port, "127.0.0.1:"+port
		mk := func() *kmip.Client {
			cfg := &tls.Config{RootCAs: p.pool}
			kmip.DefaultClientTLSConfig(cfg)
			return &kmip.Client{TLSConfig: cfg, ReadTimeout: time.Second, WriteTimeout: time.Second}
		}
		try := func(c *kmip.Client, endpoint string) bool { // did a request reach the server?
			before := atomic.LoadInt32(&requests)
			c.Endpoint = endpoint
			if err := c.Connect(); err == nil {
				c.DiscoverVersions(nil)
				c.Close()
			}
			time.Sleep(20 * time.Millisecond)
			return atomic.LoadInt32(&requests) > before
		}
		expect := func(scenario string, got, want bool) {
			rep.Evaluations++
			rep.Distribution["client-hostname"]++
			if got != want {
				what := "a request was sent to a server whose certificate does not verify against the host name the Client was pointed at"
				if want {
					what = "the Client refused a server whose certificate verifies against its root pool and host name"
				}
				viol("tls-hostname", map[string]interface{}{"scenario": scenario, "what": what, "certificate": "valid for DNS name localhost only (no IP SAN)"})
			}
		}
		expect("fresh Client, Endpoint by name", try(mk(), byName), true)
		expect("fresh Client, Endpoint by IP address", try(mk(), byIP), false)
		c := mk()
		expect("reused Client: first by name", try(c, byName), true)
		expect("reused Client: then by IP address", try(c, byIP), false)
		expect("reused Client: by name again", try(c, byName), true)
		c2 := mk()
		expect("reused Client: first by IP address", try(c2, byIP), false)
		expect("reused Client: then by name", try(c2, byName), true)
	}()
	// Shutdown while a handshake is PENDING (the peer sits in its certificate callback and then presents no certificate / a
	// self-signed one): whatever Shutdown does about such a connection, the peer was never authenticated - no session-auth
	// callback, no handler, no response
	for _, ck := range []string{"none", "selfsigned"} {
		func() {
			scfg := &tls.Config{Certificates: []tls.Certificate{p.server["valid"]}, ClientCAs: p.pool}
			kmip.DefaultServerTLSConfig(scfg)
			var sessAuthCalls, handlerCalls int32
			srv := &kmip.Server{TLSConfig: scfg, Log: log.New(io.Discard, "", 0), ReadTimeout: 2 * time.Second, WriteTimeout: 2 * time.Second}
			srv.SessionAuthHandler = func(conn net.Conn) (interface{}, error) { atomic.AddInt32(&sessAuthCalls, 1); return nil, nil }
			srv.Handle(kmip.OPERATION_DISCOVER_VERSIONS, func(ctx *kmip.RequestContext, item *kmip.RequestBatchItem) (interface{}, error) {
				atomic.AddInt32(&handlerCalls, 1)
				return kmip.DiscoverVersionsResponse{}, nil
			})
			l, err := tlsListen(scfg)
			if err != nil {
				return
			}
			init := make(chan struct{})
			served := make(chan error, 1)
			go func() { served <- srv.Serve(l, init) }()
			<-init
			inCallback, release := make(chan struct{}), make(chan struct{})
			var once sync.Once
			ccfg := &tls.Config{RootCAs: p.pool, ServerName: "localhost", GetClientCertificate: func(*tls.CertificateRequestInfo) (*tls.Certificate, error) {
				once.Do(func() { close(inCallback) })
				<-release
				if ck == "none" {
					return &tls.Certificate{}, nil
				}
				c := p.client["selfsigned"]
				return &c, nil
			}}
			gotResponse := make(chan bool, 1)
			go func() {
				conn, err := tls.Dial("tcp", l.Addr().String(), ccfg)
				if err != nil {
					gotResponse <- false
					return
				}
				defer conn.Close()
				conn.SetDeadline(time.Now().Add(2 * time.Second))
				conn.Write(req)
				hdr := make([]byte, 8)
				_, err = io.ReadFull(conn, hdr)
				gotResponse <- err == nil && hdr[0] == 0x42 && hdr[2] == 0x7b
			}()
			select {
			case <-inCallback:
			case <-time.After(3 * time.Second):
			}
			shDone := make(chan struct{})
			go func() {
				ctx, cancel := contextWithTimeout(3 * time.Second)
				srv.Shutdown(ctx)
				cancel()
				close(shDone)
			}()
			time.Sleep(150 * time.Millisecond)
			close(release)
			resp := false
			select {
			case resp = <-gotResponse:
			case <-time.After(4 * time.Second):
			}
			<-shDone
			select {
			case <-served:
			case <-time.After(2 * time.Second):
			}
			rep.Evaluations++
			rep.Distribution["shutdown-during-handshake"]++
			if sa, h := atomic.LoadInt32(&sessAuthCalls), atomic.LoadInt32(&handlerCalls); sa > 0 || h > 0 || resp {
				viol("tls-admitted", map[string]interface{}{"what": "Shutdown while the handshake of a peer without a valid certificate was pending: the session-authentication callback or a handler ran, or a response was sent, for a peer that was never authenticated",
					"peer_certificate": ck, "session_auth_calls": sa, "handler_calls": h, "response_received": resp})
			}
		}()
	}
	cw.close()
	rep.Evaluations += cw.n
	rep.Nontrivial = cw.n
	rep.Samples = append(rep.Samples, map[string]interface{}{"peer": "client certificate signed by another CA, TLS 1.3", "observed": "refused"})
	rep.emit()
}
