package main

// Canonical text form of Go values, shared with the OCaml driver of the extracted model:
//
//	N | (i H) (l H) (e H) (b 0|1) (y HEX|_) (s HEX|_) (t H) (d H) | (S Type v...) | (L v...) | (P v) | (X what)
//
// H is a signed hexadecimal number.  nil and empty slices / byte strings are identified,
// as the properties' documented normalisations do.

import (
	"encoding/hex"
	"fmt"
	"math/big"
	"reflect"
	"strings"
	"time"

	kmip "github.com/smira/go-kmip"
)

var (
	tTag      = reflect.TypeOf(kmip.Tag(0))
	tEnum     = reflect.TypeOf(kmip.Enum(0))
	tInt32    = reflect.TypeOf(int32(0))
	tInt64    = reflect.TypeOf(int64(0))
	tBool     = reflect.TypeOf(false)
	tBytes    = reflect.TypeOf([]byte(nil))
	tString   = reflect.TypeOf("")
	tTime     = reflect.TypeOf(time.Time{})
	tDuration = reflect.TypeOf(time.Duration(0))
)

// types local to the harness that the library must reject without panicking
type BadTag struct {
	A int32 `kmip:"NO_SUCH_TAG"`
}
type BadType struct {
	A int `kmip:"OPERATION"`
}
type BadStructTag struct {
	kmip.Tag `kmip:"NO_SUCH_TAG"`
	A        int32 `kmip:"OPERATION"`
}

var localTypes = map[string]reflect.Type{
	"BadTag":       reflect.TypeOf(BadTag{}),
	"BadType":      reflect.TypeOf(BadType{}),
	"BadStructTag": reflect.TypeOf(BadStructTag{}),
}

func typeByName(n string) (reflect.Type, bool) {
	if t, ok := genTypes[n]; ok {
		return t, true
	}
	t, ok := localTypes[n]
	return t, ok
}

// kmipFields mirrors which fields getStructDesc looks at: annotated, exported, not of type Tag
func kmipFields(t reflect.Type) []int {
	var idx []int
	for i := 0; i < t.NumField(); i++ {
		f := t.Field(i)
		name := strings.SplitN(f.Tag.Get("kmip"), ",", 2)[0]
		if f.Type == tTag || name == "" || f.PkgPath != "" {
			continue
		}
		idx = append(idx, i)
	}
	return idx
}

func hexBytes(b []byte) string {
	if len(b) == 0 {
		return "_"
	}
	return hex.EncodeToString(b)
}

func hexInt(x int64) string   { return big.NewInt(x).Text(16) }
func hexUint(x uint64) string { return new(big.Int).SetUint64(x).Text(16) }

func showVal(v reflect.Value) string {
	var b strings.Builder
	writeVal(&b, v)
	return b.String()
}

func writeVal(b *strings.Builder, v reflect.Value) {
	if !v.IsValid() {
		b.WriteString("N")
		return
	}
	t := v.Type()
	switch {
	case t == tDuration:
		fmt.Fprintf(b, "(d %s)", hexInt(v.Int()))
	case t == tInt32:
		fmt.Fprintf(b, "(i %s)", hexInt(v.Int()))
	case t == tInt64:
		fmt.Fprintf(b, "(l %s)", hexInt(v.Int()))
	case t == tEnum:
		fmt.Fprintf(b, "(e %s)", hexUint(v.Uint()))
	case t == tBool:
		if v.Bool() {
			b.WriteString("(b 1)")
		} else {
			b.WriteString("(b 0)")
		}
	case t == tBytes:
		fmt.Fprintf(b, "(y %s)", hexBytes(v.Bytes()))
	case t == tString:
		fmt.Fprintf(b, "(s %s)", hexBytes([]byte(v.String())))
	case t == tTime:
		fmt.Fprintf(b, "(t %s)", hexInt(v.Interface().(time.Time).Unix()))
	case t.Kind() == reflect.Struct:
		b.WriteString("(S ")
		b.WriteString(typeDisplayName(t))
		for _, i := range kmipFields(t) {
			b.WriteByte(' ')
			writeVal(b, v.Field(i))
		}
		// the embedded Tag marker field carries the type's annotation only: the codec never stores anything in it, so a
		// value that comes back from Decode with one set is not the value that was encoded
		for i := 0; i < t.NumField(); i++ {
			if t.Field(i).Type == reflect.TypeOf(kmip.Tag(0)) && v.Field(i).Uint() != 0 {
				fmt.Fprintf(b, " (TAG %x)", v.Field(i).Uint())
			}
		}
		b.WriteByte(')')
	case t.Kind() == reflect.Slice:
		b.WriteString("(L")
		for i := 0; i < v.Len(); i++ {
			b.WriteByte(' ')
			writeVal(b, v.Index(i))
		}
		b.WriteByte(')')
	case t.Kind() == reflect.Interface:
		if v.IsNil() {
			b.WriteString("N")
		} else {
			writeVal(b, v.Elem())
		}
	case t.Kind() == reflect.Ptr:
		if v.IsNil() {
			b.WriteString("(X typednil)")
		} else {
			b.WriteString("(P ")
			writeVal(b, v.Elem())
			b.WriteByte(')')
		}
	default:
		fmt.Fprintf(b, "(X %s)", t.Kind().String())
	}
}

// ---------------- parsing ----------------

type parser struct {
	toks []string
	pos  int
}

func tokenize(s string) []string {
	var toks []string
	i := 0
	for i < len(s) {
		switch s[i] {
		case '(', ')':
			toks = append(toks, s[i:i+1])
			i++
		case ' ', '\t', '\r', '\n':
			i++
		default:
			j := i
			for j < len(s) && s[j] != '(' && s[j] != ')' && s[j] != ' ' {
				j++
			}
			toks = append(toks, s[i:j])
			i = j
		}
	}
	return toks
}

func (p *parser) next() string {
	if p.pos >= len(p.toks) {
		panic("unexpected end of value text")
	}
	t := p.toks[p.pos]
	p.pos++
	return t
}
func (p *parser) peek() string {
	if p.pos >= len(p.toks) {
		return ""
	}
	return p.toks[p.pos]
}
func (p *parser) expect(s string) {
	if t := p.next(); t != s {
		panic(fmt.Sprintf("expected %q, got %q", s, t))
	}
}

func parseHexInt(s string) int64 {
	z, ok := new(big.Int).SetString(s, 16)
	if !ok {
		panic("bad number " + s)
	}
	if z.IsInt64() {
		return z.Int64()
	}
	return int64(z.Uint64())
}

func parseHexBytes(s string) []byte {
	if s == "_" {
		return nil
	}
	b, err := hex.DecodeString(s)
	if err != nil {
		panic(err)
	}
	return b
}

var badValues = map[string]func() interface{}{
	"typednil": func() interface{} { return (*kmip.GetRequest)(nil) },
	"int":      func() interface{} { return 5 },
	"uint32":   func() interface{} { return uint32(7) },
	"float64":  func() interface{} { return 1.5 },
	"map":      func() interface{} { return map[string]int{"a": 1} },
	"slice":    func() interface{} { return []int{1, 2} },
	"chan":     func() interface{} { return make(chan int) },
	"func":     func() interface{} { return func() {} },
	"array":    func() interface{} { return [2]int32{1, 2} },
	"uint8":    func() interface{} { return uint8(3) },
	"int16":    func() interface{} { return int16(3) },
	"uintptr":  func() interface{} { return uintptr(3) },
}

// parseDyn parses a value with no static type (interface position / top level): result is what
// would be stored in an interface{}
func (p *parser) parseDyn() interface{} {
	t := p.next()
	if t == "N" {
		return nil
	}
	if t != "(" {
		panic("expected ( or N, got " + t)
	}
	k := p.next()
	switch k {
	case "i":
		v := int32(parseHexInt(p.next()))
		p.expect(")")
		return v
	case "l":
		v := parseHexInt(p.next())
		p.expect(")")
		return v
	case "e":
		v := kmip.Enum(parseHexInt(p.next()))
		p.expect(")")
		return v
	case "b":
		v := p.next() == "1"
		p.expect(")")
		return v
	case "y":
		v := parseHexBytes(p.next())
		p.expect(")")
		return v
	case "s":
		v := string(parseHexBytes(p.next()))
		p.expect(")")
		return v
	case "t":
		v := time.Unix(parseHexInt(p.next()), 0)
		p.expect(")")
		return v
	case "d":
		v := time.Duration(parseHexInt(p.next()))
		p.expect(")")
		return v
	case "X":
		w := p.next()
		p.expect(")")
		f, ok := badValues[w]
		if !ok {
			panic("unknown bad value " + w)
		}
		return f()
	case "P":
		inner := p.parseDyn()
		p.expect(")")
		if inner == nil {
			var x interface{}
			return &x
		}
		pv := reflect.New(reflect.TypeOf(inner))
		pv.Elem().Set(reflect.ValueOf(inner))
		return pv.Interface()
	case "S":
		name := p.next()
		t, ok := typeByName(name)
		if !ok {
			panic("unknown struct type " + name)
		}
		v := reflect.New(t).Elem()
		p.parseFieldsInto(v)
		return v.Interface()
	case "L":
		panic("slice without static type")
	}
	panic("unknown constructor " + k)
}

func (p *parser) parseFieldsInto(v reflect.Value) {
	t := v.Type()
	for _, i := range kmipFields(t) {
		p.parseInto(v.Field(i))
	}
	p.expect(")")
}

// parseInto parses a value into a settable location of known static type
func (p *parser) parseInto(dst reflect.Value) {
	t := dst.Type()
	if t.Kind() == reflect.Interface {
		x := p.parseDyn()
		if x != nil {
			dst.Set(reflect.ValueOf(x))
		}
		return
	}
	if t.Kind() == reflect.Slice && t != tBytes {
		p.expect("(")
		p.expect("L")
		var elems []reflect.Value
		for p.peek() != ")" {
			e := reflect.New(t.Elem()).Elem()
			p.parseInto(e)
			elems = append(elems, e)
		}
		p.expect(")")
		if len(elems) > 0 {
			s := reflect.MakeSlice(t, 0, len(elems))
			s = reflect.Append(s, elems...)
			dst.Set(s)
		}
		return
	}
	if t.Kind() == reflect.Struct && t != tTime {
		p.expect("(")
		p.expect("S")
		p.next() // name (static type decides)
		p.parseFieldsInto(dst)
		return
	}
	x := p.parseDyn()
	if x == nil {
		return
	}
	xv := reflect.ValueOf(x)
	if xv.Type() != t {
		if xv.Type().ConvertibleTo(t) {
			xv = xv.Convert(t)
		} else {
			panic(fmt.Sprintf("value of type %s at position of type %s", xv.Type(), t))
		}
	}
	dst.Set(xv)
}

// parseTop parses a top-level value as it would be handed to Encode
func parseTop(s string) interface{} {
	p := &parser{toks: tokenize(s)}
	x := p.parseDyn()
	if p.pos != len(p.toks) {
		panic("trailing tokens")
	}
	return x
}
