package main

// Reflection-driven generator of KMIP message values.  Static positions follow the Go types
// of the current tree; dynamic positions (payloads, attribute values, credentials) are paired
// with their discriminating sibling from tables transcribed from the KMIP specification -
// NOT from the library's dispatch switches - so that a wrong dispatch entry shows up as a
// round-trip failure.  Every random choice comes from one PRNG.

import (
	"math"
	"math/rand"
	"reflect"
	"time"

	kmip "github.com/smira/go-kmip"
)

// KMIP 1.4 section 4: operation -> payload types the library models
var specRequestPayload = map[kmip.Enum]string{
	0x01: "CreateRequest", 0x0a: "GetRequest", 0x0b: "GetAttributesRequest", 0x0c: "GetAttributeListRequest",
	0x14: "DestroyRequest", 0x1e: "DiscoverVersionsRequest", 0x03: "RegisterRequest", 0x12: "ActivateRequest",
	0x08: "LocateRequest", 0x13: "RevokeRequest",
}
var specResponsePayload = map[kmip.Enum]string{
	0x01: "CreateResponse", 0x02: "CreateKeyPairResponse", 0x0a: "GetResponse", 0x0b: "GetAttributesResponse",
	0x0c: "GetAttributeListResponse", 0x12: "ActivateResponse", 0x13: "RevokeResponse", 0x14: "DestroyResponse",
	0x1e: "DiscoverVersionsResponse", 0x1f: "EncryptResponse", 0x20: "DecryptResponse", 0x21: "SignResponse",
	0x03: "RegisterResponse", 0x08: "LocateResponse", 0x04: "ReKeyResponse",
}

// KMIP 1.4 section 3: attribute name -> value kind
var specAttribute = map[string]string{
	"Cryptographic Algorithm": "enum", "Cryptographic Length": "int", "Cryptographic Usage Mask": "int",
	"Unique Identifier": "string", "Operation Policy Name": "string", "Object Type": "enum", "State": "enum",
	"Initial Date": "time", "Last Change Date": "time", "Name": "Name", "Digest": "Digest",
}

type gen struct {
	arenaMode bool // byte strings are carved out of one shared buffer, back to back
	arena     []byte
	arenaOff  int
	r     *rand.Rand
	wf    bool // only well-formed message values (the hypothesis of C01)
	depth int
	big   bool // allow long strings
}

func (g *gen) pick(n int) int        { return g.r.Intn(n) }
func (g *gen) chance(p float64) bool { return g.r.Float64() < p }

func (g *gen) int32v() int32 {
	switch g.pick(8) {
	case 0:
		return 0
	case 1:
		return 1
	case 2:
		return -1
	case 3:
		return math.MinInt32
	case 4:
		return math.MaxInt32
	case 5:
		return int32(g.pick(256))
	}
	return int32(g.r.Uint32())
}

func (g *gen) int64v() int64 {
	switch g.pick(8) {
	case 0:
		return 0
	case 1:
		return 1
	case 2:
		return -1
	case 3:
		return math.MinInt64
	case 4:
		return math.MaxInt64
	case 5:
		return int64(g.pick(100000))
	}
	return int64(g.r.Uint64())
}

func (g *gen) enumv() kmip.Enum {
	switch g.pick(6) {
	case 0:
		return 0
	case 1:
		return 1
	case 2:
		return 0xffffffff
	case 3:
		return 0x80000000
	}
	return kmip.Enum(g.pick(64))
}

const spareSentinel = 0xEE

func (g *gen) bytesv() []byte {
	n := g.pick(18) // 0..17 around the padding boundary
	if g.chance(0.08) {
		n = 18 + g.pick(300)
	}
	if g.big && g.chance(0.02) {
		n = 1000 + g.pick(9000)
	}
	// (spare capacity behind the value, filled with a sentinel: Encode must not write into memory of its input)
	b := make([]byte, n, n+9)
	for i, full := n, b[:cap(b)]; i < len(full); i++ {
		full[i] = spareSentinel
	}
	if g.arenaMode && n <= 40 {
		// the byte strings of this value are adjacent sub-slices of ONE buffer (nonce || ciphertext || tag cut into fields):
		// what lies behind a field is the next field's data
		if g.arena == nil || g.arenaOff+n > len(g.arena) {
			g.arena, g.arenaOff = make([]byte, 512), 0
		}
		b = g.arena[g.arenaOff : g.arenaOff+n]
		g.arenaOff += n
	}
	switch g.pick(3) {
	case 0:
		g.r.Read(b)
	case 1:
		for i := range b {
			b[i] = byte('a' + g.pick(26))
		}
	default:
		for i := range b {
			b[i] = byte(g.pick(3)) * 0x7f
		}
	}
	return b
}

// msgv: a result / error message; often with '%' sequences, which nothing may interpret as a format
func (g *gen) msgv() string {
	s := string(g.bytesv())
	if g.chance(0.4) {
		s += []string{" 100% used", " %s", " %d%%", " %!v(MISSING)", "%", " %v %x %[1]d"}[g.pick(6)]
	}
	return s
}

func (g *gen) timev() time.Time {
	switch g.pick(8) {
	case 0:
		return time.Time{}
	case 1:
		return time.Unix(0, 0)
	case 2:
		return time.Unix(-1, 0)
	case 3:
		return time.Unix(math.MaxInt64, 0)
	case 4:
		return time.Unix(math.MinInt64, 0)
	case 5:
		return time.Unix(1, 0)
	}
	return time.Unix(g.r.Int63n(1<<40)-(1<<39), 0)
}

func (g *gen) durv() time.Duration {
	if !g.wf && g.chance(0.3) {
		return time.Duration(g.int64v())
	}
	switch g.pick(5) {
	case 0:
		return 0
	case 1:
		return time.Second
	case 2:
		return time.Duration(math.MaxUint32) * time.Second
	}
	return time.Duration(g.r.Int63n(1<<32)) * time.Second
}

var badNames = []string{"typednil", "int", "uint32", "float64", "map", "slice", "chan", "func", "array", "uint8", "int16"}

func (g *gen) badDyn() interface{} {
	switch g.pick(6) {
	case 0:
		return nil
	case 1:
		x := &kmip.GetRequest{}
		return &x // pointer to pointer
	case 2:
		return BadTag{A: 1}
	case 3:
		return &BadType{A: 1}
	case 4:
		return BadStructTag{A: 2}
	}
	return badValues[badNames[g.pick(len(badNames))]]()
}

func (g *gen) structOf(name string) reflect.Value {
	t, ok := typeByName(name)
	if !ok {
		panic("generator: no type " + name)
	}
	v := reflect.New(t).Elem()
	g.fill(v)
	return v
}

// maybePtr stores a struct value in an interface either by value or by pointer
func (g *gen) maybePtr(v reflect.Value) interface{} {
	if g.chance(0.5) {
		p := reflect.New(v.Type())
		p.Elem().Set(v)
		return p.Interface()
	}
	return v.Interface()
}

func keysOf(m map[kmip.Enum]string) []kmip.Enum {
	var ks []kmip.Enum
	for k := range m {
		ks = append(ks, k)
	}
	// deterministic order
	for i := range ks {
		for j := i + 1; j < len(ks); j++ {
			if ks[j] < ks[i] {
				ks[i], ks[j] = ks[j], ks[i]
			}
		}
	}
	return ks
}

var reqOps = keysOf(specRequestPayload)
var respOps = keysOf(specResponsePayload)
var attrNames = []string{"Cryptographic Algorithm", "Cryptographic Length", "Cryptographic Usage Mask", "Unique Identifier",
	"Operation Policy Name", "Object Type", "State", "Initial Date", "Last Change Date", "Name", "Digest"}

func (g *gen) attrValue(name string) interface{} {
	switch specAttribute[name] {
	case "enum":
		return g.enumv()
	case "int":
		return g.int32v()
	case "string":
		return string(g.bytesv())
	case "time":
		return g.timev()
	case "Name":
		return g.maybePtr(g.structOf("Name"))
	case "Digest":
		return g.maybePtr(g.structOf("Digest"))
	}
	return nil
}

// fill populates a struct value field by field
func (g *gen) fill(v reflect.Value) {
	t := v.Type()
	g.depth++
	defer func() { g.depth-- }()
	// sparse: deep structures mostly leave optional fields zero so sizes stay bounded
	sparse := 0.35 + 0.12*float64(g.depth)
	if sparse > 0.9 {
		sparse = 0.9
	}
	for _, i := range kmipFields(t) {
		f := t.Field(i)
		fv := v.Field(i)
		required := len(f.Tag.Get("kmip")) > 0 && containsOpt(f.Tag.Get("kmip"), "required")
		ft := f.Type
		if ft.Kind() == reflect.Interface {
			continue // second pass
		}
		if !required && g.chance(sparse) {
			continue // leave zero
		}
		g.fillStatic(fv, required)
	}
	// dynamic fields, paired with their discriminator from the spec tables
	switch t.Name() {
	case "RequestBatchItem":
		op := reqOps[g.pick(len(reqOps))]
		v.FieldByName("Operation").SetUint(uint64(op))
		pl := v.FieldByName("RequestPayload")
		if !g.wf && g.chance(0.25) {
			if x := g.badDyn(); x != nil {
				pl.Set(reflect.ValueOf(x))
			}
			if g.chance(0.3) {
				v.FieldByName("Operation").SetUint(uint64(g.enumv()))
			}
		} else if !g.wf && g.chance(0.1) {
			pl.Set(reflect.ValueOf(g.maybePtr(g.structOf(specRequestPayload[reqOps[g.pick(len(reqOps))]]))))
		} else {
			pl.Set(reflect.ValueOf(g.maybePtr(g.structOf(specRequestPayload[op]))))
		}
	case "ResponseBatchItem":
		op := respOps[g.pick(len(respOps))]
		v.FieldByName("Operation").SetUint(uint64(op))
		pl := v.FieldByName("ResponsePayload")
		switch {
		case g.chance(0.2):
			// absent payload (optional)
		case !g.wf && g.chance(0.2):
			if x := g.badDyn(); x != nil {
				pl.Set(reflect.ValueOf(x))
			}
		case !g.wf && g.chance(0.1):
			pl.Set(reflect.ValueOf(g.maybePtr(g.structOf(specResponsePayload[respOps[g.pick(len(respOps))]]))))
		default:
			pl.Set(reflect.ValueOf(g.maybePtr(g.structOf(specResponsePayload[op]))))
		}
	case "Attribute":
		name := attrNames[g.pick(len(attrNames))]
		val := v.FieldByName("Value")
		switch {
		case g.chance(0.1):
			// no value; name may be anything
			if g.chance(0.5) {
				v.FieldByName("Name").SetString(name)
			}
		case !g.wf && g.chance(0.2):
			v.FieldByName("Name").SetString(name)
			if x := g.badDyn(); x != nil {
				val.Set(reflect.ValueOf(x))
			}
		case !g.wf && g.chance(0.1):
			v.FieldByName("Name").SetString(string(g.bytesv()))
			val.Set(reflect.ValueOf(g.attrValue(name)))
		default:
			v.FieldByName("Name").SetString(name)
			x := g.attrValue(name)
			if !g.wf && g.chance(0.15) {
				// pointer to a primitive: encodable, decodes to the value
				switch y := x.(type) {
				case int32:
					x = &y
				case kmip.Enum:
					x = &y
				case string:
					x = &y
				}
			}
			val.Set(reflect.ValueOf(x))
		}
	case "Authentication":
		cv := v.FieldByName("CredentialValue")
		if !g.wf && g.chance(0.3) {
			v.FieldByName("CredentialType").SetUint(uint64(g.enumv()))
			if x := g.badDyn(); x != nil {
				cv.Set(reflect.ValueOf(x))
			}
		} else {
			v.FieldByName("CredentialType").SetUint(1)
			cv.Set(reflect.ValueOf(g.maybePtr(g.structOf("CredentialUsernamePassword"))))
		}
	case "MessageExtension":
		if g.chance(0.3) {
			v.FieldByName("VendorExtension").Set(reflect.ValueOf(g.badDyn2()))
		}
	}
}

func (g *gen) badDyn2() interface{} {
	switch g.pick(3) {
	case 0:
		return "vendor"
	case 1:
		return 42
	}
	return kmip.Name{Value: "x"}
}

func containsOpt(tag, opt string) bool {
	for i := 0; i+len(opt) <= len(tag); i++ {
		if tag[i:i+len(opt)] == opt {
			// only in the option part
			for j := 0; j < i; j++ {
				if tag[j] == ',' {
					return true
				}
			}
		}
	}
	return false
}

func (g *gen) fillStatic(fv reflect.Value, required bool) {
	ft := fv.Type()
	switch {
	case ft == tDuration:
		fv.SetInt(int64(g.durv()))
	case ft == tInt32:
		fv.SetInt(int64(g.int32v()))
	case ft == tInt64:
		fv.SetInt(g.int64v())
	case ft == tEnum:
		fv.SetUint(uint64(g.enumv()))
	case ft == tBool:
		fv.SetBool(g.chance(0.5))
	case ft == tBytes:
		fv.SetBytes(g.bytesv())
	case ft == tString:
		fv.SetString(string(g.bytesv()))
	case ft == tTime:
		fv.Set(reflect.ValueOf(g.timev()))
	case ft.Kind() == reflect.Slice:
		n := g.pick(4)
		if g.chance(0.05) {
			n = 4 + g.pick(12)
		}
		if g.depth > 3 && n > 1 {
			n = 1
		}
		if required && g.wf && n == 0 {
			n = 1
		}
		s := reflect.MakeSlice(ft, n, n)
		for i := 0; i < n; i++ {
			e := s.Index(i)
			if e.Kind() == reflect.Struct && e.Type() != tTime {
				g.fill(e)
			} else {
				g.fillStatic(e, true)
			}
		}
		if n > 0 || g.chance(0.5) {
			fv.Set(s)
		}
	case ft.Kind() == reflect.Struct:
		g.fill(fv)
	}
}

// genMessage produces a Request or Response (by name) or any other KMIP struct type
func (g *gen) genTop(name string) interface{} {
	v := g.structOf(name)
	if g.chance(0.5) {
		return v.Interface()
	}
	p := reflect.New(v.Type())
	p.Elem().Set(v)
	return p.Interface()
}
