package main

// session suite (C07, C08, C09, C10, C15-order): the real Server.Serve runs on in-memory
// connections with scripted handlers / callbacks; the logged events are printed in the format
// of the extracted Session.v model, which gets the same configuration, script and input.

import (
	"bytes"
	"encoding/binary"
	"errors"
	"flag"
	"fmt"
	"io"
	"log"
	"math/rand"
	"net"
	"os"
	"os/exec"
	"reflect"
	"runtime"
	"sort"
	"strings"
	"sync"
	"sync/atomic"
	"time"

	kmip "github.com/smira/go-kmip"
)

var ioEOF = io.EOF

func init() { suites["session"] = suiteSession }

const nowMarker = 1000 // the model's c_now; real time stamps are bracketed, then normalised to this

type behaviour struct {
	kind    string      // S F R P
	payload interface{} // S
	msg     string      // F R
	reason  kmip.Enum   // R
	panicV  interface{} // P
}

func (b behaviour) text() string {
	switch b.kind {
	case "S":
		return "S:" + strings.ReplaceAll(showVal(reflect.ValueOf(b.payload)), " ", "~")
	case "F":
		return "F:" + hexBytes([]byte(b.msg))
	case "R":
		return fmt.Sprintf("R:%s:%x", hexBytes([]byte(b.msg)), uint32(b.reason))
	default:
		return "P:" + hexBytes([]byte(fmt.Sprintf("%s", b.panicV)))
	}
}

// ptrErr: calling Error() on a nil *ptrErr dereferences nil
type ptrErr struct{ msg string }

func (e *ptrErr) Error() string { return e.msg }

type badStringer struct{}

func (badStringer) String() string { panic("String() panics") }

type reasonError struct {
	msg    string
	reason kmip.Enum
}

func (e reasonError) Error() string           { return e.msg }
func (e reasonError) ResultReason() kmip.Enum { return e.reason }

type sessionCfg struct {
	rt, wt    bool
	sa        string // none ok fail
	ra        bool
	ops       []kmip.Enum
	supported []kmip.ProtocolVersion // as configured (nil = default)
}

var specDefaultVersions = []kmip.ProtocolVersion{{Major: 1, Minor: 4}, {Major: 1, Minor: 3}, {Major: 1, Minor: 2}, {Major: 1, Minor: 1}}

func (c sessionCfg) text(sid, sauth string) string {
	b2 := func(b bool) string {
		if b {
			return "1"
		}
		return "0"
	}
	var ops []string
	for _, o := range c.ops {
		ops = append(ops, fmt.Sprintf("%x", uint32(o)))
	}
	eff := c.supported
	if len(eff) == 0 {
		eff = specDefaultVersions
	}
	var sv []string
	for _, v := range eff {
		sv = append(sv, fmt.Sprintf("%d.%d", v.Major, v.Minor))
	}
	return fmt.Sprintf("rt=%s wt=%s sa=%s ra=%s ops=%s sv=%s sid=%s st=%s now=%x", b2(c.rt), b2(c.wt), c.sa, b2(c.ra),
		strings.Join(ops, ","), strings.Join(sv, ","), hexBytes([]byte(sid)), hexBytes([]byte(sauth)), nowMarker)
}

// causelessError: a typed error in the pkg/errors style whose Cause() is nil
type causelessError struct{}

func (causelessError) Error() string { return "credentials rejected" }
func (causelessError) Cause() error  { return nil }

// scriptedServer wires a kmip.Server to per-session scripts and logs
type scriptedServer struct {
	rejections int32
	srv        *kmip.Server
	lis        *memListener
	mu         sync.Mutex
	conns      map[string]*memConn    // by session id
	byConn     map[net.Conn]string    // conn -> session auth token
	scripts    map[string][]behaviour // by session id
	served     chan error
	callSeen   map[string]int
}

func newScriptedServer(cfg sessionCfg) *scriptedServer {
	ss := &scriptedServer{conns: map[string]*memConn{}, byConn: map[net.Conn]string{}, scripts: map[string][]behaviour{}, callSeen: map[string]int{}}
	s := &kmip.Server{}
	s.Log = log.New(io.Discard, "", 0)
	// (the fields of a Server may be filled in in any order before Serve: for half of the configurations the timeouts are
	// set only after the handlers have been registered)
	setTimeouts := func() {
		if cfg.rt {
			s.ReadTimeout = 30 * time.Second
		}
		if cfg.wt {
			s.WriteTimeout = 30 * time.Second
		}
	}
	timeoutsLast := len(cfg.ops)%2 == 0
	if !timeoutsLast {
		setTimeouts()
	}
	if len(cfg.supported) > 0 {
		s.SupportedVersions = append([]kmip.ProtocolVersion(nil), cfg.supported...)
	}
	if cfg.sa != "none" {
		s.SessionAuthHandler = func(conn net.Conn) (interface{}, error) {
			mc, _ := conn.(*memConn)
			ss.mu.Lock()
			tok := ss.byConn[conn]
			ss.mu.Unlock()
			if cfg.sa == "fail" {
				mc.event("sa", "fail")
				// the kind of error must not matter: carrying a KMIP reason, a "temporary" net.Error (with and without Timeout), plain
				switch (len(tok) + int(atomic.AddInt32(&ss.rejections, 1))) % 4 {
				case 0:
					return nil, reasonError{"session auth rejected", kmip.RESULT_REASON_AUTHENTICATION_NOT_SUCCESSFUL}
				case 1:
					return nil, tempError{timeout: false}
				case 2:
					return nil, &net.OpError{Op: "auth", Net: "mem", Err: tempError{timeout: true}}
				}
				return nil, errors.New("session auth rejected")
			}
			mc.event("sa", "ok")
			return tok, nil
		}
	}
	if cfg.ra {
		s.RequestAuthHandler = func(sess *kmip.SessionContext, auth *kmip.Authentication) (interface{}, error) {
			mc := ss.connOf(sess.SessionID)
			creds := showVal(reflect.ValueOf(*auth))
			// verdict and result depend on the credentials AND on the session (Session.v req_auth_fn): a user name
			// starting with 'o' is accepted unless it ends in the character the session id ends in; the value is
			// user@session, so a verdict or a value carried over from another session shows
			if cv, ok := auth.CredentialValue.(kmip.CredentialUsernamePassword); ok && strings.HasPrefix(cv.Username, "o") &&
				len(sess.SessionID) > 0 && cv.Username[len(cv.Username)-1] != sess.SessionID[len(sess.SessionID)-1] {
				mc.event("ra", creds+":ok")
				return cv.Username + "@" + sess.SessionID, nil
			}
			mc.event("ra", creds+":fail")
			// the kind of error must not matter: plain, carrying a KMIP result reason (kmip.Error), wrapped
			switch atomic.AddInt32(&ss.rejections, 1) % 4 {
			case 0:
				return nil, reasonError{"request auth rejected", kmip.RESULT_REASON_AUTHENTICATION_NOT_SUCCESSFUL}
			case 1:
				return nil, fmt.Errorf("rejected: %w", reasonError{"inner", kmip.RESULT_REASON_PERMISSION_DENIED})
			case 2:
				return nil, causelessError{} // an error type with a Cause() method that has no underlying cause
			}
			return nil, errors.New("request auth rejected")
		}
	}
	for _, op := range cfg.ops {
		op := op
		s.Handle(op, func(ctx *kmip.RequestContext, item *kmip.RequestBatchItem) (interface{}, error) {
			mc := ss.connOf(ctx.SessionID)
			sa := ""
			if ctx.SessionAuth != nil {
				sa = fmt.Sprint(ctx.SessionAuth)
			}
			ra := "nil"
			if ctx.RequestAuth != nil {
				ra = hexBytes([]byte(fmt.Sprint(ctx.RequestAuth)))
			}
			mc.event("call", fmt.Sprintf("call:%s:%s:%s:%x:%s", hexBytes([]byte(ctx.SessionID)), hexBytes([]byte(sa)), ra, uint32(item.Operation), showVal(reflect.ValueOf(item.RequestPayload))))
			ss.mu.Lock()
			var b behaviour
			q := ss.scripts[ctx.SessionID]
			if len(q) > 0 {
				b = q[0]
				ss.scripts[ctx.SessionID] = q[1:]
			} else {
				b = behaviour{kind: "S"}
			}
			ss.mu.Unlock()
			// the item belongs to the handler once it has been called: some handlers wipe or rewrite it when they are done
			// (the response must still carry the operation and the unique batch item id of the request)
			wipe := len(b.msg)%3 == 1
			defer func() {
				if wipe {
					*item = kmip.RequestBatchItem{Operation: kmip.OPERATION_QUERY, UniqueID: []byte("rewritten")}
				}
			}()
			// a failing handler may return a first value as well - a typed nil (return backend.Get(id)) or a partly filled
			// structure; only the error counts
			var along interface{}
			switch len(b.msg) % 4 {
			case 2:
				along = (*kmip.GetResponse)(nil)
			case 3:
				along = kmip.GetResponse{UniqueIdentifier: "partial"}
			}
			switch b.kind {
			case "S":
				return b.payload, nil
			case "F":
				return along, errors.New(b.msg)
			case "R":
				return along, reasonError{b.msg, b.reason}
			default:
				panic(b.panicV)
			}
		})
	}
	if timeoutsLast {
		setTimeouts()
	}
	ss.srv = s
	ss.lis = newMemListener()
	ss.served = make(chan error, 1)
	init := make(chan struct{})
	go func() { ss.served <- s.Serve(ss.lis, init) }()
	<-init
	return ss
}

func (ss *scriptedServer) connOf(sid string) *memConn {
	ss.mu.Lock()
	defer ss.mu.Unlock()
	return ss.conns[sid]
}

// connect hands a new connection to the accept loop; session ids are assigned in accept order
func (ss *scriptedServer) connect(index int, sauth string, script []behaviour, chunk int) (*memConn, string) {
	sid := fmt.Sprintf("%08x", index)
	mc := newMemConn("client-" + sid)
	mc.chunk = chunk
	ss.mu.Lock()
	ss.conns[sid] = mc
	ss.byConn[mc] = sauth
	ss.scripts[sid] = script
	ss.mu.Unlock()
	ss.lis.ch <- acceptResult{conn: mc}
	return mc, sid
}

func (ss *scriptedServer) stop() {
	done := make(chan struct{})
	go func() {
		ctx, cancel := contextWithTimeout(2 * time.Second)
		defer cancel()
		ss.srv.Shutdown(ctx)
		close(done)
	}()
	<-done
}

// splitMessages cuts a byte stream into TTLV messages (8 + declared length); the tail is returned as is
func splitMessages(b []byte) [][]byte {
	var out [][]byte
	for len(b) >= 8 {
		l := int(binary.BigEndian.Uint32(b[4:8]))
		if 8+l > len(b) {
			break
		}
		out = append(out, b[:8+l])
		b = b[8+l:]
	}
	if len(b) > 0 {
		out = append(out, b)
	}
	return out
}

// normaliseTimeStamp checks the response's Time Stamp against [t0, t1] and rewrites it to nowMarker
func normaliseTimeStamp(msg []byte, t0, t1 time.Time) (ok bool) {
	var all []*item
	walkItems(msg, 0, 0, &all)
	for _, it := range all {
		if it.depth == 2 && msg[it.off] == 0x42 && msg[it.off+1] == 0x00 && msg[it.off+2] == 0x92 && it.typ == 9 && it.length == 8 {
			ts := int64(binary.BigEndian.Uint64(msg[it.hdrEnd:]))
			binary.BigEndian.PutUint64(msg[it.hdrEnd:], nowMarker)
			return ts >= t0.Unix()-1 && ts <= t1.Unix()+1
		}
	}
	return false
}

// traceOf renders the connection log in the model's event syntax
func traceOf(mc *memConn, t0 time.Time, viol func(string, map[string]interface{}), ctxInfo map[string]interface{}) string {
	var parts []string
	var pending []byte
	flush := func() {
		if len(pending) == 0 {
			return
		}
		for _, m := range splitMessages(pending) {
			mm := append([]byte(nil), m...)
			if !normaliseTimeStamp(mm, t0, time.Now()) && len(mm) >= 8 && mm[2] == 0x7b {
				viol("timestamp", merge(ctxInfo, map[string]interface{}{"response": hexBytes(m), "what": "response Time Stamp is not the server's current time"}))
			}
			parts = append(parts, "wrote:"+hexBytes(mm))
		}
		pending = nil
	}
	for _, e := range mc.snapshot() {
		switch e.kind {
		case "write":
			pending = append(pending, e.data...)
			continue
		case "read", "disarmr", "disarmw", "read-timeout", "write-timeout":
			continue
		}
		flush()
		switch e.kind {
		case "armr", "armw", "close":
			parts = append(parts, e.kind)
		case "sa", "ra":
			parts = append(parts, e.kind+":"+e.text)
		case "call":
			parts = append(parts, e.text)
		}
	}
	flush()
	return strings.Join(parts, " ; ")
}

func merge(a, b map[string]interface{}) map[string]interface{} {
	m := map[string]interface{}{}
	for k, v := range a {
		m[k] = v
	}
	for k, v := range b {
		m[k] = v
	}
	return m
}

// ---------------- generation ----------------

var sessionOps = []kmip.Enum{kmip.OPERATION_CREATE, kmip.OPERATION_GET, kmip.OPERATION_DESTROY, kmip.OPERATION_LOCATE, kmip.OPERATION_DISCOVER_VERSIONS, kmip.OPERATION_ACTIVATE, kmip.OPERATION_REVOKE}

func genVersions(r *rand.Rand, n int) []kmip.ProtocolVersion {
	var vs []kmip.ProtocolVersion
	for i := 0; i < n; i++ {
		vs = append(vs, kmip.ProtocolVersion{Major: 1 + int32(r.Intn(2)), Minor: int32(r.Intn(5))})
	}
	return vs
}

func genBehaviour(r *rand.Rand, g *gen, op kmip.Enum) behaviour {
	switch r.Intn(12) {
	case 0, 1, 2, 3:
		if tn, ok := specResponsePayload[op]; ok {
			return behaviour{kind: "S", payload: g.maybePtr(g.structOf(tn))}
		}
		return behaviour{kind: "S"}
	case 4:
		return behaviour{kind: "S"} // nil result
	case 5: // unencodable / mismatched results
		switch r.Intn(6) {
		case 0:
			return behaviour{kind: "S", payload: 5}
		case 1:
			return behaviour{kind: "S", payload: BadTag{A: 1}}
		case 2:
			return behaviour{kind: "S", payload: map[string]int{"a": 1}}
		case 3:
			return behaviour{kind: "S", payload: (*kmip.GetRequest)(nil)}
		case 4:
			return behaviour{kind: "S", payload: g.maybePtr(g.structOf("LocateResponse"))} // other operation's payload
		default:
			x := &kmip.GetResponse{}
			return behaviour{kind: "S", payload: &x}
		}
	case 6, 7:
		return behaviour{kind: "F", msg: g.msgv()}
	case 8, 9:
		return behaviour{kind: "R", msg: "denied " + g.msgv(), reason: kmip.Enum(1 + r.Intn(24))}
	default:
		switch r.Intn(10) {
		case 0:
			return behaviour{kind: "P", panicV: "boom " + fmt.Sprint(r.Intn(100))}
		case 1:
			return behaviour{kind: "P", panicV: errors.New("error value")}
		case 2:
			return behaviour{kind: "P", panicV: nil}
		case 3:
			return behaviour{kind: "P", panicV: (*ptrErr)(nil)} // an error whose Error() itself panics
		case 4:
			return behaviour{kind: "P", panicV: badStringer{}} // a Stringer whose String() panics
		case 5:
			return behaviour{kind: "P", panicV: reasonError{"panicking with a protocol error", 3}}
		case 6:
			return behaviour{kind: "P", panicV: fmt.Errorf("wrapped: %w", io.ErrUnexpectedEOF)}
		case 7:
			return behaviour{kind: "P", panicV: struct{ A, B int }{1, 2}}
		case 8:
			return behaviour{kind: "P", panicV: []string{"x", "y"}}
		default:
			return behaviour{kind: "P", panicV: 42}
		}
	}
}

type sessionCase struct {
	cfg      sessionCfg
	script   []behaviour
	requests [][]byte // valid requests, in order
	input    []byte   // what is sent (requests plus damage)
	nValid   int      // number of leading complete valid requests in input
	pipeline bool
	chunk    int
	sauth    string
}

// buildMessage serialises a generated message with the harness's own reflection-driven serialiser, NOT with the
// library's Encoder: the inputs of a session must not depend on (or disturb) the encoder state of the process under
// test - e.g. pooled buffers a failed response encode left behind are then picked up by the server, not by the harness
func buildMessage(v interface{}) []byte {
	if b, ok := (indepOpts{}).indepTop(v); ok {
		return b
	}
	_, b := implEncode(v)
	return b
}

func genRequest(r *rand.Rand, g *gen, ops []kmip.Enum, authMode int) (kmip.Request, []kmip.Enum) {
	n := 1 + r.Intn(4)
	req := kmip.Request{}
	req.Header.Version = kmip.ProtocolVersion{Major: 1, Minor: int32(r.Intn(5))}
	if r.Intn(2) == 0 {
		req.Header.ClientCorrelationValue = "ccv-" + string(g.bytesv())
	}
	if r.Intn(4) == 0 {
		req.Header.MaxResponseSize = g.int32v()
	}
	// the other header fields a client may set: the server must treat the batch the same way whatever they say
	if r.Intn(3) == 0 {
		req.Header.BatchErrorContinuationOption = kmip.Enum(r.Intn(4)) // 1 Continue, 2 Stop, 3 Undo
	}
	if r.Intn(4) == 0 {
		req.Header.BatchOrderOption = r.Intn(2) == 0
	}
	if r.Intn(6) == 0 {
		req.Header.AttestationCapableIndicator = true
		req.Header.AttestationType = []kmip.Enum{kmip.Enum(1 + r.Intn(3))}
	}
	if r.Intn(6) == 0 {
		req.Header.ServerCorrelationValue = "scv-" + string(g.bytesv())
	}
	if r.Intn(6) == 0 {
		req.Header.TimeStamp = time.Unix(int64(1500000000+r.Intn(1000)), 0)
	}
	switch authMode {
	case 1:
		req.Header.Authentication = kmip.Authentication{CredentialType: 1, CredentialValue: kmip.CredentialUsernamePassword{Username: "ok-" + fmt.Sprintf("%x", credDigit(r)), Password: "pw"}}
	case 2:
		req.Header.Authentication = kmip.Authentication{CredentialType: 1, CredentialValue: kmip.CredentialUsernamePassword{Username: "bad", Password: "pw"}}
	}
	var used []kmip.Enum
	for i := 0; i < n; i++ {
		op := reqOps[r.Intn(len(reqOps))]
		if r.Intn(3) == 0 {
			op = kmip.OPERATION_DISCOVER_VERSIONS
		}
		it := kmip.RequestBatchItem{Operation: op}
		if op == kmip.OPERATION_DISCOVER_VERSIONS {
			it.RequestPayload = kmip.DiscoverVersionsRequest{ProtocolVersions: genVersions(r, r.Intn(4))}
		} else {
			it.RequestPayload = g.maybePtr(g.structOf(specRequestPayload[op]))
		}
		if r.Intn(2) == 0 {
			it.UniqueID = []byte(fmt.Sprintf("id%d", i))
		}
		if i == n-1 && r.Intn(3) == 0 {
			it.MessageExtension = kmip.MessageExtension{VendorIdentification: "vnd", CriticalityIndicator: r.Intn(2) == 0}
		}
		req.BatchItems = append(req.BatchItems, it)
		used = append(used, op)
	}
	req.Header.BatchCount = int32(n)
	return req, used
}

// addVendorExtension appends a Vendor Extension item (never produced by the Encoder: the field is skip-only) as the last
// child of the last Message Extension of an encoded request, fixing the enclosing lengths; the message is returned
// unchanged if it has no Message Extension
func addVendorExtension(r *rand.Rand, msg []byte) []byte {
	var all []*item
	walkItems(msg, 0, 0, &all)
	var me *item
	for _, it := range all {
		if it.typ == 1 && uint32(msg[it.off])<<16|uint32(msg[it.off+1])<<8|uint32(msg[it.off+2]) == tagByName["MESSAGE_EXTENSION"] {
			me = it
		}
	}
	if me == nil {
		return msg
	}
	l := []int{1, 5, 8, 13, 24}[r.Intn(5)]
	ve := indepHeader(tagByName["VENDOR_EXTENSION"], []byte{1, 7, 8}[r.Intn(3)], l)
	for i := 0; i < l; i++ {
		ve = append(ve, byte(r.Intn(256)))
	}
	for len(ve)%8 != 0 {
		ve = append(ve, 0)
	}
	repl := append(append([]byte(nil), msg[me.off:me.end]...), ve...)
	binary.BigEndian.PutUint32(repl[4:], me.length+uint32(len(ve)))
	return fixLengths(msg, all, me, repl)
}

// credentials are drawn from 16 user names; in groups of concurrent sessions on one server from 3 (ok-1..ok-3, so that
// sessions 1..4 share credentials which one of them must reject) and most requests carry them
var sharedCreds bool

func credDigit(r *rand.Rand) int {
	if sharedCreds {
		return 1 + r.Intn(3)
	}
	return r.Intn(16)
}

func genSessionCase(r *rand.Rand) sessionCase {
	g := &gen{r: r, wf: true}
	c := sessionCase{}
	c.cfg.rt = r.Intn(2) == 0
	c.cfg.wt = r.Intn(2) == 0
	c.cfg.sa = []string{"none", "ok", "ok", "fail"}[r.Intn(4)]
	if r.Intn(6) != 0 {
		c.cfg.sa = []string{"none", "ok"}[r.Intn(2)]
	}
	c.cfg.ra = r.Intn(3) != 0
	for _, op := range sessionOps {
		if r.Intn(2) == 0 && (op != kmip.OPERATION_DISCOVER_VERSIONS || r.Intn(4) == 0) {
			c.cfg.ops = append(c.cfg.ops, op)
		}
	}
	if r.Intn(2) == 0 {
		c.cfg.supported = genVersions(r, 1+r.Intn(4))
	}
	c.sauth = fmt.Sprintf("sa-%d", r.Intn(1000))
	c.pipeline = r.Intn(2) == 0
	c.chunk = []int{0, 1, 7, 64}[r.Intn(4)]
	nreq := 1 + r.Intn(5)
	ok := true
	for i := 0; i < nreq; i++ {
		authMode := 0
		if r.Intn(3) == 0 || (sharedCreds && r.Intn(2) == 0) {
			authMode = 1
			if r.Intn(5) == 0 {
				authMode = 2
			}
		}
		req, used := genRequest(r, g, c.cfg.ops, authMode)
		dmg := r.Intn(15)
		switch dmg {
		case 0:
			req.Header.BatchCount++
		case 1:
			req.Header.AsynchronousIndicator = true
		}
		b := buildMessage(&req)
		if b == nil {
			panic("cannot serialise generated request")
		}
		if r.Intn(2) == 0 {
			b = addVendorExtension(r, b)
		}
		for _, op := range used {
			c.script = append(c.script, genBehaviour(r, g, op))
		}
		switch dmg {
		case 2:
			if r.Intn(2) == 0 && len(b) > 48 { // cut near the end: inside the last item(s), where a dropped read error is least visible
				b = b[:len(b)-1-r.Intn(48)]
			} else {
				b = b[:r.Intn(len(b))]
			}
		case 3:
			_, b = mutate(r, b, b)
		case 4:
			b = randomBytes(r)
		case 5: // a response message where a request is expected
			rb := buildMessage((&gen{r: r, wf: true}).genTop("Response"))
			if rb != nil {
				b = rb
			}
		case 6: // one field removed, every enclosing length adjusted: consistent lengths, but a required field may be missing
			var all []*item
			walkItems(b, 0, 0, &all)
			var cand []*item
			for _, it := range all {
				if it.depth >= 2 {
					cand = append(cand, it)
				}
			}
			if len(cand) > 0 {
				it := cand[len(cand)-1-r.Intn(min(len(cand), 4))] // mostly the trailing fields: payloads, last required fields
				if r.Intn(3) == 0 {
					it = cand[r.Intn(len(cand))]
				}
				b = fixLengths(b, all, it, nil)
			}
		}
		c.input = append(c.input, b...)
		if ok && dmg > 6 {
			c.requests = append(c.requests, b)
			c.nValid++
		} else {
			ok = false
		}
	}
	return c
}

// runSessionCase drives one connection of the scripted server and returns its trace
func runSession(ss *scriptedServer, index int, c sessionCase, viol func(string, map[string]interface{})) (cmd, trace string) {
	return runSessionThen(ss, index, c, viol, nil)
}

// runSessionThen: connected() is called as soon as the connection has been handed to the accept loop (session ids are given
// in accept order: a caller starting several sessions waits for it before handing over the next connection)
func runSessionThen(ss *scriptedServer, index int, c sessionCase, viol func(string, map[string]interface{}), connected func()) (cmd, trace string) {
	t0 := time.Now()
	mc, sid := ss.connect(index, c.sauth, append([]behaviour(nil), c.script...), c.chunk)
	if connected != nil {
		connected()
	}
	var sc []string
	for _, b := range c.script {
		sc = append(sc, b.text())
	}
	cmd = "session " + c.cfg.text(sid, c.sauth) + " | " + strings.Join(sc, ",") + " | " + hexBytes(c.input)
	info := map[string]interface{}{"case": cmd}
	closed := func() bool { return mc.localClosed }
	idle := func() bool { return mc.localClosed || (mc.readBlocked && len(mc.in) == 0) }
	if c.pipeline {
		mc.peerSend(c.input)
	} else {
		// one request at a time: after each complete valid request the server must answer or close
		off := 0
		for i, rq := range c.requests {
			mc.peerSend(rq)
			off += len(rq)
			if !mc.waitUntil(10*time.Second, idle) {
				viol("stuck", merge(info, map[string]interface{}{"what": "server neither answered, closed nor went back to reading", "request_index": i}))
				break
			}
			mc.mu.Lock()
			nresp := len(splitMessages(mc.out))
			isClosed := mc.localClosed
			mc.mu.Unlock()
			if !isClosed && nresp < i+1 {
				viol("unanswered-open", merge(info, map[string]interface{}{"what": "connection left open with a request unanswered (server is waiting for the next request)", "request_index": i, "responses_written": nresp}))
			}
			if isClosed {
				break
			}
		}
		if off < len(c.input) {
			mc.peerSend(c.input[off:])
		}
	}
	if !mc.waitUntil(10*time.Second, idle) {
		viol("stuck", merge(info, map[string]interface{}{"what": "server did not become idle"}))
	}
	mc.peerClose()
	if !mc.waitUntil(10*time.Second, closed) {
		viol("not-closed", merge(info, map[string]interface{}{"what": "connection not closed after the peer went away"}))
	}
	trace = traceOf(mc, t0, viol, info)
	return
}

// sessionBurst (C09): many connections pending at the listener at once (a burst of clients, or a listener with a
// backlog).  Every handler invocation must see the session id of ITS OWN connection: ids are assigned in accept order,
// distinct for distinct connections, and stay the same for every request of a connection.
func sessionBurst(rep *Report, viol func(string, map[string]interface{})) {
	procs := runtime.GOMAXPROCS(0)
	defer runtime.GOMAXPROCS(procs)
	for round := 0; round < 6; round++ {
		nconn := 24
		if round%2 == 1 {
			// one scheduler thread: the accept loop runs through the whole backlog before any session goroutine starts
			runtime.GOMAXPROCS(1)
		}
		s := &kmip.Server{Log: log.New(io.Discard, "", 0)}
		var mu sync.Mutex
		seen := map[string]map[string]int{} // connection name -> session ids seen by its handler invocations
		s.SessionAuthHandler = func(conn net.Conn) (interface{}, error) { return conn.(*memConn).name, nil }
		s.Handle(kmip.OPERATION_DISCOVER_VERSIONS, func(ctx *kmip.RequestContext, item *kmip.RequestBatchItem) (interface{}, error) {
			mu.Lock()
			name := fmt.Sprint(ctx.SessionAuth)
			if seen[name] == nil {
				seen[name] = map[string]int{}
			}
			seen[name][ctx.SessionID]++
			mu.Unlock()
			return kmip.DiscoverVersionsResponse{}, nil
		})
		lis := newMemListener()
		var conns []*memConn
		for i := 0; i < nconn; i++ {
			mc := newMemConn(fmt.Sprintf("burst-%d", i))
			conns = append(conns, mc)
			lis.ch <- acceptResult{conn: mc} // queued before Serve starts: all pending at once
		}
		served := make(chan error, 1)
		init := make(chan struct{})
		go func() { served <- s.Serve(lis, init) }()
		<-init
		req := dvRequest()
		for _, mc := range conns {
			mc.peerSend(req)
			mc.peerSend(req)
		}
		for _, mc := range conns {
			mc := mc
			mc.waitUntil(5*time.Second, func() bool { return len(splitMessages(mc.out)) >= 2 || mc.localClosed })
			mc.peerClose()
		}
		ctx, cancel := contextWithTimeout(3 * time.Second)
		s.Shutdown(ctx)
		cancel()
		select {
		case <-served:
		case <-time.After(3 * time.Second):
		}
		mu.Lock()
		owner := map[string]string{}
		for i, mc := range conns {
			ids := seen[mc.name]
			want := fmt.Sprintf("%08x", i+1)
			rep.Evaluations++
			rep.Distribution["burst-connection"]++
			if len(ids) > 1 || (len(ids) == 1 && ids[want] == 0) { // (a connection not served in time under load is not an id problem)
				viol("session-id", map[string]interface{}{"what": "handler invocations of one connection of a burst did not see the session id established for that connection (ids are assigned in accept order)",
					"connection": mc.name, "want": want, "seen": fmt.Sprint(ids), "round": round})
			}
			for id := range ids {
				if o, dup := owner[id]; dup && o != mc.name {
					viol("session-id", map[string]interface{}{"what": "two connections of a burst share a session id", "id": id, "connections": o + ", " + mc.name, "round": round})
				}
				owner[id] = mc.name
			}
		}
		mu.Unlock()
		runtime.GOMAXPROCS(procs)
	}
}

// responseTimeStamp: the Time Stamp of a response message's header (seconds), or false
func responseTimeStamp(msg []byte) (int64, bool) {
	var all []*item
	walkItems(msg, 0, 0, &all)
	for _, it := range all {
		if it.depth == 2 && msg[it.off] == 0x42 && msg[it.off+1] == 0x00 && msg[it.off+2] == 0x92 && it.typ == 9 && it.length == 8 {
			return int64(binary.BigEndian.Uint64(msg[it.hdrEnd:])), true
		}
	}
	return 0, false
}

// sessionIdleTimestamps (C07 "bears the server's current time"): a kept-alive connection that idles before a request, and a
// request that trickles in slowly: the response's Time Stamp is the time the response was produced - not older than the
// moment the request's last byte was sent, however long the server had been waiting for it.  Returns violations.
func sessionIdleTimestamps() []map[string]interface{} {
	var out []map[string]interface{}
	s := &kmip.Server{Log: log.New(io.Discard, "", 0)}
	lis := newMemListener()
	served := make(chan error, 1)
	init := make(chan struct{})
	go func() { served <- s.Serve(lis, init) }()
	<-init
	mc := newMemConn("idle")
	lis.ch <- acceptResult{conn: mc}
	req := dvRequest()
	idle := 2300 * time.Millisecond
	steps := []struct {
		name  string
		parts [][]byte
	}{
		{"first request on a connection that idled after being accepted", [][]byte{nil, req}},
		{"request after the connection idled", [][]byte{nil, req}},
		{"request sent right after the previous response", [][]byte{req}},
		{"request trickling in: header, pause, rest", [][]byte{req[:11], req[11:]}},
	}
	for i, st := range steps {
		for j, p := range st.parts {
			if j > 0 {
				time.Sleep(idle)
			}
			if len(p) > 0 {
				mc.peerSend(p)
			}
		}
		sent := time.Now()
		if !mc.waitUntil(15*time.Second, func() bool { return len(splitMessages(mc.out)) >= i+1 || mc.localClosed }) || mc.localClosed {
			out = append(out, map[string]interface{}{"kind": "timestamp", "what": "no response on an idle-then-active connection", "step": st.name})
			break
		}
		recv := time.Now()
		mc.mu.Lock()
		msgs := splitMessages(mc.out)
		mc.mu.Unlock()
		ts, ok := responseTimeStamp(msgs[i])
		if !ok || ts < sent.Unix()-1 || ts > recv.Unix()+1 {
			out = append(out, map[string]interface{}{"kind": "timestamp", "what": "response Time Stamp is not the server's current time (older than the moment the request was completed, or in the future)",
				"step": st.name, "time_stamp": ts, "request_completed_at": sent.Unix(), "response_received_at": recv.Unix(), "response": hexBytes(msgs[i])})
		}
	}
	mc.peerClose()
	ctx, cancel := contextWithTimeout(3 * time.Second)
	s.Shutdown(ctx)
	cancel()
	select {
	case <-served:
	case <-time.After(3 * time.Second):
	}
	return out
}

// sessionCrossWait (C07 "never leaves a connection open with a request unanswered"; C10 isolation): sessions are independent -
// a handler on connection A that finishes only after a request on connection B has been handled (B's request arrives while A's
// handler is running) must not keep B from being served: both requests are answered.
func sessionCrossWait(rep *Report, viol func(string, map[string]interface{})) {
	s := &kmip.Server{Log: log.New(io.Discard, "", 0)}
	entered := make(chan struct{})
	bDone := make(chan struct{})
	var once sync.Once
	var timedOut int32
	s.SessionAuthHandler = func(conn net.Conn) (interface{}, error) { return conn.(*memConn).name, nil }
	s.Handle(kmip.OPERATION_DISCOVER_VERSIONS, func(ctx *kmip.RequestContext, item *kmip.RequestBatchItem) (interface{}, error) {
		if fmt.Sprint(ctx.SessionAuth) == "cross-a" {
			close(entered)
			select {
			case <-bDone:
			case <-time.After(8 * time.Second):
				atomic.StoreInt32(&timedOut, 1)
			}
		} else {
			once.Do(func() { close(bDone) })
		}
		return kmip.DiscoverVersionsResponse{}, nil
	})
	lis := newMemListener()
	served := make(chan error, 1)
	init := make(chan struct{})
	go func() { served <- s.Serve(lis, init) }()
	<-init
	a, b := newMemConn("cross-a"), newMemConn("cross-b")
	lis.ch <- acceptResult{conn: a}
	lis.ch <- acceptResult{conn: b}
	req := dvRequest()
	a.peerSend(req)
	select {
	case <-entered:
	case <-time.After(3 * time.Second):
	}
	b.peerSend(req)
	answered := func(mc *memConn) bool {
		return mc.waitUntil(12*time.Second, func() bool { return len(splitMessages(mc.out)) >= 1 || mc.localClosed }) && !mc.localClosed
	}
	okB := answered(b)
	select {
	case <-bDone:
	default:
		okB = false
	}
	okA := answered(a)
	rep.Evaluations++
	rep.Distribution["cross-wait"]++
	if !okA || !okB || atomic.LoadInt32(&timedOut) == 1 {
		viol("unanswered-open", map[string]interface{}{"what": "two connections, the handler of the first finishes only after a request on the second has been handled: the second connection's request was not served while the first handler was running (it stayed unanswered on an open connection: sessions are not independent)",
			"first_answered": okA, "second_answered": okB, "second_request_served_only_after_first_handler_gave_up": atomic.LoadInt32(&timedOut) == 1})
	}
	a.peerClose()
	b.peerClose()
	done := make(chan struct{})
	go func() {
		ctx, cancel := contextWithTimeout(3 * time.Second)
		s.Shutdown(ctx)
		cancel()
		close(done)
	}()
	select {
	case <-done:
	case <-time.After(5 * time.Second):
	}
	select {
	case <-served:
	case <-time.After(3 * time.Second):
	}
}

// sessionPartialWrite (C07 "the k-th response answers the k-th request", C15): a peer that drains slowly - a Write gets some
// bytes out and then times out.  Whatever the server does about it (it gives the connection up), the bytes that reach the
// peer are a prefix of the response stream: nothing is sent twice, nothing out of order.
func sessionPartialWrite(rep *Report, viol func(string, map[string]interface{})) {
	for _, drain := range []int{40, 100} {
		s := &kmip.Server{Log: log.New(io.Discard, "", 0), WriteTimeout: 150 * time.Millisecond, ReadTimeout: 2 * time.Second}
		lis := newMemListener()
		served := make(chan error, 1)
		init := make(chan struct{})
		go func() { served <- s.Serve(lis, init) }()
		<-init
		// what an unhindered peer receives for the same two requests
		ref := newMemConn("pw-ref")
		lis.ch <- acceptResult{conn: ref}
		req := dvRequest()
		ref.peerSend(append(append([]byte(nil), req...), req...))
		ref.waitUntil(5*time.Second, func() bool { return len(splitMessages(ref.out)) >= 2 || ref.localClosed })
		ref.mu.Lock()
		want := append([]byte(nil), ref.out...)
		ref.mu.Unlock()
		ref.peerClose()
		mc := newMemConn("pw-slow")
		mc.drainPerWrite = drain
		lis.ch <- acceptResult{conn: mc}
		mc.peerSend(append(append([]byte(nil), req...), req...))
		mc.waitUntil(3*time.Second, func() bool { return mc.localClosed })
		time.Sleep(100 * time.Millisecond)
		mc.mu.Lock()
		got := append([]byte(nil), mc.out...)
		closed := mc.localClosed
		mc.mu.Unlock()
		rep.Evaluations++
		rep.Distribution["partial-write"]++
		norm := func(b []byte) []byte { // time stamps may differ by a second between the two connections
			var out []byte
			for _, m := range splitMessages(b) {
				mm := append([]byte(nil), m...)
				normaliseTimeStamp(mm, time.Unix(0, 0), time.Now().Add(time.Hour))
				out = append(out, mm...)
			}
			return out
		}
		g, w := norm(got), norm(want)
		if len(want) > 0 && (len(g) > len(w) || !bytes.Equal(g, w[:len(g)])) && !bytes.HasPrefix(want, got) {
			viol("unanswered-open", map[string]interface{}{"what": "a slowly draining peer (a Write times out after some bytes went out): the bytes that reached the peer are not a prefix of the response stream - something was sent twice or out of order",
				"bytes_per_write": drain, "received": firstN(hexBytes(got), 1600), "response_stream": firstN(hexBytes(want), 1600), "connection_closed": closed})
		}
		mc.peerClose()
		ctx, cancel := contextWithTimeout(3 * time.Second)
		s.Shutdown(ctx)
		cancel()
		select {
		case <-served:
		case <-time.After(3 * time.Second):
		}
	}
}

// a user-defined payload type that nests ITS OWN type under another tag (a tree)
type UTreeNode struct {
	Label    string      `kmip:"COMMENT,required"`
	Children []UTreeNode `kmip:"ATTRIBUTE_VALUE"`
}

// sessionUserPayload (C08 "Success with the handler's payload", "one item never changes the result of other items"): handlers may
// return payloads of user-defined structure types.  A batch of a built-in Discover Versions item and an item whose handler
// returns a tree goes through the real server; the response on the wire is compared byte for byte with the independent TTLV
// serialisation of the response it must be (time stamp taken from the wire).
func sessionUserPayload(rep *Report, viol func(string, map[string]interface{})) {
	payloads := []interface{}{
		UTreeNode{Label: "root"},
		UTreeNode{Label: "root", Children: []UTreeNode{{Label: "a"}, {Label: "b", Children: []UTreeNode{{Label: "c"}}}}},
		&UTreeNode{Label: "r", Children: []UTreeNode{{Label: "x"}}},
	}
	for _, pl := range payloads {
		pl := pl
		s := &kmip.Server{Log: log.New(io.Discard, "", 0)}
		s.Handle(kmip.OPERATION_GET, func(ctx *kmip.RequestContext, item *kmip.RequestBatchItem) (interface{}, error) { return pl, nil })
		lis := newMemListener()
		served := make(chan error, 1)
		init := make(chan struct{})
		go func() { served <- s.Serve(lis, init) }()
		<-init
		mc := newMemConn("user-payload")
		lis.ch <- acceptResult{conn: mc}
		req := kmip.Request{Header: kmip.RequestHeader{Version: kmip.ProtocolVersion{Major: 1, Minor: 4}, BatchCount: 3},
			BatchItems: []kmip.RequestBatchItem{
				{Operation: kmip.OPERATION_DISCOVER_VERSIONS, UniqueID: []byte{1}, RequestPayload: kmip.DiscoverVersionsRequest{}},
				{Operation: kmip.OPERATION_GET, UniqueID: []byte{2}, RequestPayload: kmip.GetRequest{UniqueIdentifier: "k"}},
				{Operation: kmip.OPERATION_DISCOVER_VERSIONS, UniqueID: []byte{3}, RequestPayload: kmip.DiscoverVersionsRequest{}}}}
		mc.peerSend(buildMessage(&req))
		mc.waitUntil(5*time.Second, func() bool { return len(splitMessages(mc.out)) >= 1 || mc.localClosed })
		mc.mu.Lock()
		got := append([]byte(nil), mc.out...)
		mc.mu.Unlock()
		rep.Evaluations++
		rep.Distribution["user-payload"]++
		ts, _ := responseTimeStamp(got)
		dv := kmip.DiscoverVersionsResponse{ProtocolVersions: append([]kmip.ProtocolVersion(nil), kmip.DefaultSupportedVersions...)}
		want := kmip.Response{Header: kmip.ResponseHeader{Version: kmip.ProtocolVersion{Major: 1, Minor: 4}, TimeStamp: time.Unix(ts, 0), BatchCount: 3},
			BatchItems: []kmip.ResponseBatchItem{
				{Operation: kmip.OPERATION_DISCOVER_VERSIONS, UniqueID: []byte{1}, ResultStatus: kmip.RESULT_STATUS_SUCCESS, ResponsePayload: dv},
				{Operation: kmip.OPERATION_GET, UniqueID: []byte{2}, ResultStatus: kmip.RESULT_STATUS_SUCCESS, ResponsePayload: pl},
				{Operation: kmip.OPERATION_DISCOVER_VERSIONS, UniqueID: []byte{3}, ResultStatus: kmip.RESULT_STATUS_SUCCESS, ResponsePayload: dv}}}
		wantBytes, ok := indepOpts{}.indepTop(&want)
		if ok && !bytes.Equal(got, wantBytes) {
			viol("serve-error", map[string]interface{}{"what": "a handler returned a payload of a user-defined structure type (a tree nesting its own type under another tag): the response on the wire is not the TTLV serialisation of Success with that payload plus the unchanged results of the other items",
				"payload": fmt.Sprintf("%+v", pl), "wire": firstN(hexBytes(got), 2400), "expected": firstN(hexBytes(wantBytes), 2400)})
		}
		mc.peerClose()
		ctx, cancel := contextWithTimeout(3 * time.Second)
		s.Shutdown(ctx)
		cancel()
		select {
		case <-served:
		case <-time.After(3 * time.Second):
		}
	}
}

// a session-authentication callback that PANICS has failed: no operation handler may run on that connection (today the panic
// takes the process down - which is why this runs in a child process; whatever else happens, the handler must not run)
func init() { suites["sessauthpanic-child"] = sessAuthPanicChild }

func sessAuthPanicChild(args []string) {
	s := &kmip.Server{Log: log.New(io.Discard, "", 0)}
	s.SessionAuthHandler = func(conn net.Conn) (interface{}, error) { panic("session auth: no peer certificate to look at") }
	s.Handle(kmip.OPERATION_DISCOVER_VERSIONS, func(ctx *kmip.RequestContext, item *kmip.RequestBatchItem) (interface{}, error) {
		fmt.Println("HANDLER-RAN session=" + ctx.SessionID)
		os.Stdout.Sync()
		return kmip.DiscoverVersionsResponse{}, nil
	})
	lis := newMemListener()
	init := make(chan struct{})
	go s.Serve(lis, init)
	<-init
	mc := newMemConn("panic-auth")
	lis.ch <- acceptResult{conn: mc}
	mc.peerSend(dvRequest())
	mc.waitUntil(2*time.Second, func() bool { return len(splitMessages(mc.out)) >= 1 || mc.localClosed })
	mc.mu.Lock()
	n := len(splitMessages(mc.out))
	mc.mu.Unlock()
	fmt.Printf("CHILD-DONE responses=%d\n", n)
}

func sessionAuthPanic(rep *Report, viol func(string, map[string]interface{})) {
	cmd := exec.Command(os.Args[0], "sessauthpanic-child")
	out, _ := cmd.CombinedOutput()
	rep.Evaluations++
	rep.Distribution["session-auth-panic"]++
	text := string(out)
	if strings.Contains(text, "HANDLER-RAN") || strings.Contains(text, "responses=1") {
		viol("auth-gate", map[string]interface{}{"what": "the session-authentication callback panicked (it failed), yet an operation handler ran / a response was sent on that connection",
			"child_output": firstN(text, 1500)})
	}
}

func suiteSession(args []string) {
	fs := flag.NewFlagSet("session", flag.ExitOnError)
	seed := fs.Int64("seed", 1, "")
	n := fs.Int("n", 200, "")
	dir := fs.String("dir", "work/session", "")
	fs.Parse(args)
	r := rand.New(rand.NewSource(*seed))
	cw := newCaseWriter(*dir)
	rep := &Report{Suite: "session", Seed: *seed, Distribution: map[string]int{}}
	rep.Rule = "a case is one connection: configuration, script of handler behaviours, input bytes; distinct = distinct case text; non-trivial = at least one request decoded (trace contains a call or a wrote event)"
	perKind := map[string]int{}
	viol := func(kind string, m map[string]interface{}) {
		m["kind"] = kind
		perKind[kind]++
		if perKind[kind] <= 8 { // a few of every kind: one kind must not crowd out the others
			rep.Violations = append(rep.Violations, m)
		}
	}
	baseline := runtime.NumGoroutine()
	idleDone := make(chan []map[string]interface{}, 1)
	go func() { idleDone <- sessionIdleTimestamps() }()
	nontrivial := map[string]bool{}
	for i := 0; i < *n; i++ {
		k := 1
		if i%4 == 3 {
			k = 2 + r.Intn(3) // several concurrent connections on one server, same configuration
		}
		sharedCreds = k > 1
		c := genSessionCase(r)
		if sharedCreds && r.Intn(4) != 0 {
			c.cfg.ra = true
		}
		ss := newScriptedServer(c.cfg)
		cases := []sessionCase{c}
		for j := 1; j < k; j++ {
			c2 := genSessionCase(r)
			c2.cfg = c.cfg
			c2.sauth = fmt.Sprintf("sa-%d-%d", j, r.Intn(1000))
			cases = append(cases, c2)
		}
		type res struct{ cmd, trace string }
		results := make([]res, len(cases))
		// connections are handed to the accept loop in order (session ids), then driven concurrently
		var wg sync.WaitGroup
		var connectMu sync.Mutex
		next := 1
		for j := range cases {
			wg.Add(1)
			connectMu.Lock()
			idx := next
			next++
			j := j
			started := make(chan struct{})
			go func() {
				defer wg.Done()
				cmd, tr := runSessionThen(ss, idx, cases[j], viol, func() { close(started) })
				results[j] = res{cmd, tr}
			}()
			// accept order = index order: the next connection is handed over only after this one has been (the listener's queue
			// is FIFO and one accept loop takes from it) - no reliance on timing
			<-started
			connectMu.Unlock()
		}
		wg.Wait()
		ss.stop()
		select {
		case err := <-ss.served:
			if err != nil {
				viol("serve-error", map[string]interface{}{"error": err.Error()})
			}
		case <-time.After(5 * time.Second):
			viol("serve-stuck", map[string]interface{}{"what": "Serve did not return after Shutdown"})
		}
		for _, rs := range results {
			group := "session"
			if k > 1 {
				group = "session-concurrent"
			}
			cw.add(group, rs.cmd, rs.trace)
			if strings.Contains(rs.trace, "call:") || strings.Contains(rs.trace, "wrote:") {
				nontrivial[rs.cmd] = true
			}
			rep.Distribution[fmt.Sprintf("events=%d", len(strings.Split(rs.trace, " ; ")))]++
			if len(rep.Samples) < 2 {
				rep.Samples = append(rep.Samples, map[string]interface{}{"case": firstN(rs.cmd, 400), "trace": firstN(rs.trace, 400)})
			}
		}
	}
	for _, v := range <-idleDone {
		rep.Violations = append(rep.Violations, v)
	}
	rep.Evaluations += 4
	rep.Distribution["idle-timestamp"] += 4
	sessionBurst(rep, viol)
	sessionCrossWait(rep, viol)
	sessionPartialWrite(rep, viol)
	sessionUserPayload(rep, viol)
	sessionAuthPanic(rep, viol)
	// truncation sweep (C10): one valid request ending in a Message Extension with a Vendor Extension item (the skipped
	// position), preceded by a complete valid request; every proper prefix of the second one followed by close
	{
		sharedCreds = false
		g := &gen{r: r, wf: true}
		var msg []byte
		var c sessionCase
		for tries := 0; tries < 50 && msg == nil; tries++ {
			c = sessionCase{}
			c.cfg.ops = append([]kmip.Enum(nil), sessionOps...)
			c.cfg.rt, c.cfg.wt, c.cfg.sa = r.Intn(2) == 0, r.Intn(2) == 0, "none"
			req, used := genRequest(r, g, c.cfg.ops, 0)
			last := &req.BatchItems[len(req.BatchItems)-1]
			last.MessageExtension = kmip.MessageExtension{VendorIdentification: "vnd", CriticalityIndicator: true}
			b := buildMessage(&req)
			if b == nil {
				continue
			}
			msg = addVendorExtension(r, b)
			_ = used
		}
		if msg != nil {
			ss := newScriptedServer(c.cfg)
			step := 1
			if len(msg) > 400 {
				step = len(msg) / 400
			}
			idx := 1
			for cut := 1; cut < len(msg); cut += step {
				if cut > len(msg)-64 {
					step = 1 // every offset in the tail, where the skipped item lives
				}
				c2 := sessionCase{cfg: c.cfg, input: append([]byte(nil), msg[:cut]...), pipeline: true, sauth: ""}
				cmd, tr := runSession(ss, idx, c2, viol)
				idx++
				cw.add("session-truncated", cmd, tr)
				rep.Distribution["truncated-prefix"]++
			}
			ss.stop()
			<-ss.served
		}
	}
	// goroutines and connections are released once the peers are gone (C10)
	deadline := time.Now().Add(3 * time.Second)
	for runtime.NumGoroutine() > baseline+2 && time.Now().Before(deadline) {
		time.Sleep(20 * time.Millisecond)
	}
	if g := runtime.NumGoroutine(); g > baseline+2 {
		viol("goroutine-leak", map[string]interface{}{"baseline": baseline, "now": g})
	}
	cw.close()
	rep.Evaluations = cw.n
	rep.Nontrivial = len(nontrivial)
	keys := make([]string, 0)
	for g := range cw.groups {
		keys = append(keys, g)
	}
	sort.Strings(keys)
	for _, g := range keys {
		rep.Distribution["group:"+g] = cw.groups[g]
	}
	_ = bytes.Equal
	rep.emit()
}
