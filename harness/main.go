// harness: runs the implementation (/repo, current working tree) on generated inputs and
// prints observations for the correspondence check against the Coq models.
//
//go:debug panicnil=1
package main

import (
	"encoding/json"
	"fmt"
	"os"
)

// Report is what every suite prints (one JSON object on the last line of stdout).
type Report struct {
	Suite         string                 `json:"suite"`
	Seed          int64                  `json:"seed"`
	Evaluations   int                    `json:"evaluations"`
	Nontrivial    int                    `json:"distinct_nontrivial"`
	Rule          string                 `json:"rule"`
	Distribution  map[string]int         `json:"distribution,omitempty"`
	Samples       []interface{}          `json:"samples,omitempty"`
	Disagreements []interface{}          `json:"disagreements"`
	Violations    []interface{}          `json:"violations"`
	Extra         map[string]interface{} `json:"extra,omitempty"`
}

func (r *Report) emit() {
	if r.Disagreements == nil {
		r.Disagreements = []interface{}{}
	}
	if r.Violations == nil {
		r.Violations = []interface{}{}
	}
	b, _ := json.Marshal(r)
	fmt.Println(string(b))
}

func usage() {
	fmt.Fprintln(os.Stderr, "usage: harness <suite> [args]")
	os.Exit(2)
}

func main() {
	if len(os.Args) < 2 {
		usage()
	}
	args := os.Args[2:]
	switch os.Args[1] {
	case "tables":
		suiteTables(args)
	default:
		if f, ok := suites[os.Args[1]]; ok {
			f(args)
			return
		}
		usage()
	}
}

var suites = map[string]func([]string){}
