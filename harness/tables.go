package main

import (
	"bytes"
	"fmt"
	"reflect"
	"sort"

	kmip "github.com/smira/go-kmip"
)

// suiteTables cross-checks the translator (C18/C19 tie): the compiler's value of every
// constant, the tag number the real encoder emits for every tagMap key, and the struct
// annotations reflect sees, against what the translator transcribed from the source text.
func suiteTables(args []string) {
	rep := &Report{Suite: "tables", Rule: "one evaluation per exported constant, per tagMap key (encoded through reflect.StructOf) and per annotated struct field; all are distinct by name", Distribution: map[string]int{}}
	for _, c := range genNumConsts {
		rep.Evaluations++
		rep.Distribution["numeric constants"]++
		if fmt.Sprint(c.Val) != genNumConstsTranslator[c.Name] {
			rep.Disagreements = append(rep.Disagreements, map[string]interface{}{"kind": "constant", "name": c.Name, "compiler": c.Val, "translator": genNumConstsTranslator[c.Name]})
		}
	}
	byName := map[string]uint64{}
	for _, c := range genNumConsts {
		byName[c.Name] = c.Val
	}
	keys := append([]string(nil), genTagMapKeys...)
	sort.Strings(keys)
	for _, k := range keys {
		rep.Evaluations++
		rep.Distribution["tagMap keys"]++
		st := reflect.StructOf([]reflect.StructField{{Name: "F", Type: reflect.TypeOf(int32(0)), Tag: reflect.StructTag(fmt.Sprintf(`kmip:"%s,required"`, k))}})
		v := reflect.New(st)
		v.Elem().Field(0).SetInt(7)
		var buf bytes.Buffer
		obs := "ok"
		var got uint64
		func() {
			defer func() {
				if p := recover(); p != nil {
					obs = fmt.Sprint("panic: ", p)
				}
			}()
			if err := kmip.NewEncoder(&buf).Encode(v.Interface()); err != nil {
				obs = "error: " + err.Error()
				return
			}
			b := buf.Bytes()
			if k == "-" || k == "ANY_TAG" {
				if len(b) != 8 {
					obs = fmt.Sprintf("any-tag field was encoded (%d bytes)", len(b))
				}
				return
			}
			if len(b) != 24 {
				obs = fmt.Sprintf("unexpected length %d", len(b))
				return
			}
			got = uint64(b[8])<<16 | uint64(b[9])<<8 | uint64(b[10])
		}()
		want := byName[genTagMapIdents[k]]
		if obs != "ok" || (k != "-" && k != "ANY_TAG" && got != want) {
			rep.Disagreements = append(rep.Disagreements, map[string]interface{}{"kind": "tagMap", "key": k, "observed": obs, "wire": got, "translator": want})
		}
		if len(rep.Samples) < 3 {
			rep.Samples = append(rep.Samples, map[string]interface{}{"annotation": k, "wire_tag": fmt.Sprintf("%06x", got)})
		}
	}
	// annotations as reflect sees them
	seen := map[string]bool{}
	tnames := make([]string, 0, len(genTypes))
	for n := range genTypes {
		tnames = append(tnames, n)
	}
	sort.Strings(tnames)
	for _, n := range tnames {
		t := genTypes[n]
		for i := 0; i < t.NumField(); i++ {
			f := t.Field(i)
			ann, ok := f.Tag.Lookup("kmip")
			if !ok {
				continue
			}
			rep.Evaluations++
			rep.Distribution["annotated fields"]++
			key := n + "." + f.Name
			seen[key] = true
			if tr, ok := genFieldAnn[key]; !ok || tr != ann {
				rep.Disagreements = append(rep.Disagreements, map[string]interface{}{"kind": "annotation", "field": key, "reflect": ann, "translator": tr})
			}
		}
	}
	for k := range genFieldAnn {
		if !seen[k] {
			rep.Disagreements = append(rep.Disagreements, map[string]interface{}{"kind": "annotation", "field": k, "reflect": "<absent>", "translator": genFieldAnn[k]})
		}
	}
	rep.Nontrivial = rep.Evaluations
	rep.emit()
}
