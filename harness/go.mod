module verif/harness

go 1.23

require github.com/smira/go-kmip v0.0.0

require github.com/pkg/errors v0.9.1 // indirect

replace github.com/smira/go-kmip => /repo
