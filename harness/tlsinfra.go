package main

// Certificates for the loopback TLS suites (C14, C16): generated in-process, nothing on disk.

import (
	"crypto/ecdsa"
	"crypto/elliptic"
	"crypto/rand"
	"crypto/tls"
	"crypto/x509"
	"crypto/x509/pkix"
	"math/big"
	"net"
	"sync"
	"time"

	kmip "github.com/smira/go-kmip"
)

type pki struct {
	pool      *x509.CertPool // the CA both sides trust
	otherPool *x509.CertPool
	server    map[string]tls.Certificate // by kind: valid selfsigned otherca expired wronghost
	client    map[string]tls.Certificate // by kind: valid selfsigned otherca expired wronghost
}

var (
	pkiOnce sync.Once
	thePKI  *pki
)

func mustKey() *ecdsa.PrivateKey {
	k, err := ecdsa.GenerateKey(elliptic.P256(), rand.Reader)
	if err != nil {
		panic(err)
	}
	return k
}

var serialCounter int64 = 1000

func makeCert(tmpl *x509.Certificate, parent *x509.Certificate, pub *ecdsa.PublicKey, signer *ecdsa.PrivateKey) []byte {
	serialCounter++
	tmpl.SerialNumber = big.NewInt(serialCounter)
	der, err := x509.CreateCertificate(rand.Reader, tmpl, parent, pub, signer)
	if err != nil {
		panic(err)
	}
	return der
}

func newCA(cn string) (*x509.Certificate, *ecdsa.PrivateKey) {
	k := mustKey()
	t := &x509.Certificate{Subject: pkix.Name{CommonName: cn}, NotBefore: time.Now().Add(-time.Hour), NotAfter: time.Now().Add(24 * time.Hour),
		IsCA: true, KeyUsage: x509.KeyUsageCertSign | x509.KeyUsageDigitalSignature, BasicConstraintsValid: true}
	der := makeCert(t, t, &k.PublicKey, k)
	c, _ := x509.ParseCertificate(der)
	return c, k
}

func leaf(ca *x509.Certificate, caKey *ecdsa.PrivateKey, cn string, dns []string, ips []net.IP, notBefore, notAfter time.Time, selfSigned bool) tls.Certificate {
	k := mustKey()
	t := &x509.Certificate{Subject: pkix.Name{CommonName: cn}, NotBefore: notBefore, NotAfter: notAfter,
		KeyUsage: x509.KeyUsageDigitalSignature, ExtKeyUsage: []x509.ExtKeyUsage{x509.ExtKeyUsageServerAuth, x509.ExtKeyUsageClientAuth},
		DNSNames: dns, IPAddresses: ips, BasicConstraintsValid: true}
	var der []byte
	if selfSigned {
		der = makeCert(t, t, &k.PublicKey, k)
	} else {
		der = makeCert(t, ca, &k.PublicKey, caKey)
	}
	return tls.Certificate{Certificate: [][]byte{der}, PrivateKey: k}
}

func getPKI() *pki {
	pkiOnce.Do(func() {
		ca, caKey := newCA("verif CA")
		other, otherKey := newCA("other CA")
		p := &pki{pool: x509.NewCertPool(), otherPool: x509.NewCertPool(), server: map[string]tls.Certificate{}, client: map[string]tls.Certificate{}}
		p.pool.AddCert(ca)
		p.otherPool.AddCert(other)
		now := time.Now()
		lo := []net.IP{net.ParseIP("127.0.0.1")}
		for role, m := range map[string]map[string]tls.Certificate{"server": p.server, "client": p.client} {
			cn := "localhost"
			dns := []string{"localhost"}
			ips := lo
			if role == "client" {
				cn, dns, ips = "client", []string{"client.example"}, nil
			}
			m["valid"] = leaf(ca, caKey, cn, dns, ips, now.Add(-time.Hour), now.Add(12*time.Hour), false)
			m["selfsigned"] = leaf(nil, nil, cn, dns, ips, now.Add(-time.Hour), now.Add(12*time.Hour), true)
			m["otherca"] = leaf(other, otherKey, cn, dns, ips, now.Add(-time.Hour), now.Add(12*time.Hour), false)
			m["expired"] = leaf(ca, caKey, cn, dns, ips, now.Add(-48*time.Hour), now.Add(-24*time.Hour), false)
			m["dnsonly"] = leaf(ca, caKey, cn, dns, nil, now.Add(-time.Hour), now.Add(12*time.Hour), false) // valid for the name "localhost" only, no IP
			m["wronghost"] = leaf(ca, caKey, "wrong.example", []string{"wrong.example"}, nil, now.Add(-time.Hour), now.Add(12*time.Hour), false)
		}
		thePKI = p
	})
	return thePKI
}

var tlsVersions = []struct {
	name string
	v    uint16
}{{"1.0", tls.VersionTLS10}, {"1.1", tls.VersionTLS11}, {"1.2", tls.VersionTLS12}, {"1.3", tls.VersionTLS13}}

func clientServerTLS(p *pki) *tls.Config {
	cfg := &tls.Config{Certificates: []tls.Certificate{p.server["valid"]}, ClientCAs: p.pool}
	kmip.DefaultServerTLSConfig(cfg)
	return cfg
}

func tlsListen(cfg *tls.Config) (net.Listener, error) {
	return tls.Listen("tcp", "127.0.0.1:0", cfg)
}
